(* Model of sylt-compiler/src/typechecker.rs (the functions below carry the names of the Rust
   functions they follow; comments give the line of the pinned tree where the order of effects or the
   choice of error span is not obvious).  Definitions only.

   Input: the resolved AST of coq/Syntax/Resolved.v (what name resolution produced), the statements
   already in the order `compiler.rs` passes to `typechecker::solve` (after `initialization_order` and
   the types-first sort).  Output: `Ok tt` or the returned `Vec<Error>` as (kind, span) pairs (message
   text and helper notes are not modelled, the order in which checks fire is), `Panic site` for the
   panic sites on the path, `OutOfFuel`.

   Recursion: open recursion over records of callbacks.  `gfix (S f) = gstep (gfix f)` for the
   functions that recurse over the type graph (sub_unify, check_constraints, the operator checks, copy),
   `afix G (S f) = astep G (afix G f)` for the traversal of the syntax. *)
From Coq Require Import String List NArith ZArith PArith Bool FMapPositive.
From Sylt Require Import Syntax.Resolved Types.TyGraph.
Import ListNotations.
Local Open Scope positive_scope.
Local Open Scope tc_scope.

(* ------------------------------------------------------------------ TypeCtx *)
Record tctx := mkCtx { inside_loop : bool; inside_pure : bool }.
Definition ctx_new := mkCtx false false.
Definition enter_loop (c : tctx) := mkCtx true (inside_pure c).
Definition enter_pure (c : tctx) := mkCtx (inside_loop c) true.

(* ------------------------------------------------------------------ graph level *)

Definition seenset := list (tyid * tyid).           (* BTreeSet<(TyID, TyID)> of sub_unify *)
Definition copymap := list (tyid * tyid).           (* HashMap<TyID, TyID> of inner_copy (lookups only) *)

Definition seen_mem (a b : tyid) (s : seenset) : bool :=
  existsb (fun p => Pos.eqb (fst p) a && Pos.eqb (snd p) b) s.

Fixpoint copy_lookup (a : tyid) (m : copymap) : option tyid :=
  match m with
  | [] => None
  | (k, v) :: r => if Pos.eqb k a then Some v else copy_lookup a r
  end.

Inductive arithk := AAdd | ASub | AMul | ACmp.

Record grec := mkG {
  g_unify : span -> tyid -> tyid -> seenset -> M (tyid * seenset);     (* fn sub_unify *)
  g_check : span -> tyid -> M unit;                                    (* fn check_constraints *)
  g_arith : arithk -> span -> tyid -> tyid -> M unit;                  (* fn add / sub / mul / cmp *)
  g_div : span -> tyid -> tyid -> M unit;                              (* fn div *)
  g_divres : span -> tyid -> tyid -> M unit;                           (* fn div_res *)
  g_copy : tyid -> copymap -> M (tyid * copymap)                       (* fn inner_copy *)
}.

Definition g_bottom : grec :=
  mkG (fun _ _ _ _ => out_of_fuel) (fun _ _ => out_of_fuel) (fun _ _ _ _ => out_of_fuel)
      (fun _ _ _ => out_of_fuel) (fun _ _ _ => out_of_fuel) (fun _ _ => out_of_fuel).

(* fn unify: a fresh `seen` set *)
Definition unify (R : grec) (sp : span) (a b : tyid) : M tyid :=
  r <- g_unify R sp a b [] ;; ret (fst r).

(* fn unify_option *)
Definition unify_option (R : grec) (sp : span) (a b : option tyid) : M (option tyid) :=
  match a, b with
  | Some a, Some b => r <- unify R sp a b ;; ret (Some r)
  | Some a, None => ret (Some a)
  | None, Some b => ret (Some b)
  | None, None => ret None
  end.

(* fn copy *)
Definition copy (R : grec) (a : tyid) : M tyid := r <- g_copy R a [] ;; ret (fst r).

(* for (a, b) in xs.iter().zip(ys.iter()) { f(a, b)?; } *)
Fixpoint iter2 (f : tyid -> tyid -> M unit) (xs ys : list tyid) : M unit :=
  match xs, ys with
  | x :: xs', y :: ys' => f x y ;;; iter2 f xs' ys'
  | _, _ => ret tt
  end.

(* the same with the `seen` set of sub_unify threaded through *)
Fixpoint unify2 (R : grec) (sp : span) (xs ys : list tyid) (seen : seenset) : M seenset :=
  match xs, ys with
  | x :: xs', y :: ys' => r <- g_unify R sp x y seen ;; unify2 R sp xs' ys' (snd r)
  | _, _ => ret seen
  end.

Definition arith_base_ok (k : arithk) (a b : tyh) : bool :=
  match k, a, b with
  | _, HFloat, HFloat | _, HInt, HInt => true
  | AAdd, HStr, HStr | ACmp, HStr, HStr => true
  | ACmp, HInt, HFloat | ACmp, HFloat, HInt => true
  | _, _, _ => false
  end.

Definition is_num (t : tyh) : bool := match t with HInt | HFloat => true | _ => false end.

(* fn add, sub, mul, cmp (1799-1872, 1950-1978): identical but for the base pairs and the operator
   name in the message *)
Definition arith_body (R : grec) (k : arithk) (sp : span) (a b : tyid) : M unit :=
  ta <- find_type a ;; tb <- find_type b ;;
  if is_unknown ta || is_unknown tb then ret tt
  else if arith_base_ok k ta tb then ret tt
  else match ta, tb with
       | HTuple xs, HTuple ys =>
         if Nat.eqb (length xs) (length ys) then iter2 (g_arith R k sp) xs ys else fail KBinOp sp
       | _, _ => fail KBinOp sp
       end.

(* fn div (1874) *)
Definition div_body (R : grec) (sp : span) (a b : tyid) : M unit :=
  ta <- find_type a ;; tb <- find_type b ;;
  if is_unknown ta || is_unknown tb then ret tt
  else if is_num ta && is_num tb then ret tt
  else match ta with
       | HTuple xs =>
         if is_num tb then iterM (fun x => g_div R sp x b) xs
         else match tb with
              | HTuple ys => if Nat.eqb (length xs) (length ys) then iter2 (g_div R sp) xs ys else fail KBinOp sp
              | _ => fail KBinOp sp
              end
       | _ => fail KBinOp sp
       end.

(* fn div_res (1907); arm order: (Float|Int, Float), (Unknown, _), (Float|Int, _), (Tuple, Unknown),
   (Tuple, Tuple) of equal length, otherwise Exotic *)
Definition divres_body (R : grec) (sp : span) (a b : tyid) : M unit :=
  ta <- find_type a ;; tb <- find_type b ;;
  if is_num ta && (match tb with HFloat => true | _ => false end) then ret tt
  else if is_unknown ta then ret tt
  else if is_num ta then
    fl <- push_type HFloat ;; unify R sp b fl ;;; ret tt
  else match ta with
       | HTuple xs =>
         match tb with
         | HUnknown =>
           tys <- mapM (fun _ => push_type HUnknown) xs ;;
           tup <- push_type (HTuple tys) ;;
           unify R sp b tup ;;;
           g_divres R sp a b
         | HTuple ys =>
           if Nat.eqb (length xs) (length ys) then iter2 (g_divres R sp) xs ys else fail KExotic sp
         | _ => fail KExotic sp
         end
       | _ => fail KExotic sp
       end.

(* fn constant_index (1980) *)
Definition constant_index (R : grec) (sp : span) (a : tyid) (index : Z) (r : tyid) : M unit :=
  ta <- find_type a ;;
  match ta with
  | HUnknown => ret tt
  | HTuple tys =>
    match (if Z.ltb index 0 then None else nth_error tys (Z.to_nat index)) with
    | Some t => unify R sp t r ;;; ret tt
    | None => fail KTupleIndexOutOfRange sp
    end
  | _ => fail KViolating sp
  end.

(* one arm of the match in fn check_constraints (1203) *)
Definition check_one (R : grec) (sp : span) (a : tyid) (c : constr) : M unit :=
  match c with
  | CAdd b => g_arith R AAdd sp a b
  | CSub b => g_arith R ASub sp a b
  | CMul b => g_arith R AMul sp a b
  | CDivTop b => g_div R sp a b
  | CDivBot b => g_div R sp b a
  | CDivRes b => g_divres R sp b a
  | CEqu b => unify R sp a b ;;; ret tt
  | CCmp b => g_arith R ACmp sp a b
  (* `self.equ(..).and(self.cmp(..))`: both run, the error of equ wins *)
  | CCmpEqu b => unify R sp a b ;;; g_arith R ACmp sp a b
  | CNeg =>
    t <- find_type a ;;
    match t with HUnknown | HInt | HFloat => ret tt | _ => fail KUniOp sp end
  | CConstIdx i r => constant_index R sp a i r
  | CField name expected =>
    t <- find_type a ;;
    match t with
    | HUnknown => ret tt
    | HExtBlob _ _ fields _ _ | HBlob _ _ fields _ =>
      match flookup name fields with
      | Some (fsp, actual) => unify R fsp expected actual ;;; ret tt     (* the span of the field (1235) *)
      | None => fail KMissingField sp
      end
    | _ => fail KExotic sp
    end
  | CNum =>
    t <- find_type a ;;
    match t with HUnknown | HFloat | HInt => ret tt | _ => fail KViolating sp end
  | CEnum =>
    t <- find_type a ;;
    match t with HUnknown | HEnum _ _ _ _ => ret tt | _ => fail KViolating sp end
  | CVariant v mb =>
    t <- find_type a ;;
    match t with
    | HUnknown => ret tt
    | HEnum _ _ variants _ =>
      match flookup v variants, mb with
      | Some _, None => ret tt
      | Some (_, va), Some vb => unify R sp va vb ;;; ret tt
      | None, _ => fail KUnknownVariant sp
      end
    | _ => fail KViolating sp
    end
  | CTotalEnum vs =>
    t <- find_type a ;;
    match t with
    | HUnknown => ret tt
    | HEnum _ _ variants _ =>
      if existsb (fun v => negb (fmem v variants)) vs then fail KMissingVariants sp
      else if existsb (fun kv => negb (smem (fst kv) vs)) variants then fail KExtraVariants sp
      else ret tt
    | _ => fail KViolating sp
    end
  | CVariable =>
    t <- find_type a ;;
    match t with HVoid => fail KExotic sp | _ => ret tt end
  end.

(* fn check_constraints: iterates a clone of the constraint map of the representative *)
Definition check_body (R : grec) (sp : span) (a : tyid) : M unit :=
  n <- find_node a ;;
  iterM (check_one R sp a) (ncons n).

Definition purity_compatible (a b : purity) : bool :=
  match a, b with
  | PUndefined, _ | _, PUndefined | PPure, PPure | PImpure, PImpure => true
  | _, _ => false
  end.

(* for (k, (_, a_ty)) in b_fields { a_fields.get(k) -> sub_unify(a_ty, b_ty) }, `missing` the error kind *)
Fixpoint unify_fields (R : grec) (sp : span) (missing : ekind) (a_fields b_fields : fieldmap)
         (seen : seenset) : M seenset :=
  match b_fields with
  | [] => ret seen
  | (k, (_, b_ty)) :: rest =>
    match flookup k a_fields with
    | None => fail missing sp
    | Some (_, a_ty) =>
      r <- g_unify R sp a_ty b_ty seen ;;
      unify_fields R sp missing a_fields rest (snd r)
    end
  end.

(* fn sub_unify (1422) *)
Definition unify_body (R : grec) (sp : span) (a b : tyid) (seen : seenset) : M (tyid * seenset) :=
  a <- find a ;; b <- find b ;;
  if Pos.eqb a b || seen_mem a b seen then ret (a, seen) else
  let seen := (b, a) :: (a, b) :: seen in
  ta <- find_type a ;; tb <- find_type b ;;
  seen' <- (match ta, tb with
            | _, HUnknown => set_type b ta ;;; ret seen
            | HUnknown, _ => set_type a tb ;;; ret seen
            | HTy, HTy | HVoid, HVoid | HNil, HNil | HInt, HInt | HFloat, HFloat | HBool, HBool
            | HStr, HStr => ret seen
            | HList x, HList y => r <- g_unify R sp x y seen ;; ret (snd r)
            | HTuple xs, HTuple ys =>
              if negb (Nat.eqb (length xs) (length ys)) then fail KTupleLengthMismatch sp
              else unify2 R sp xs ys seen
            | HFn a_args a_ret a_pur, HFn b_args b_ret b_pur =>
              if negb (purity_compatible a_pur b_pur) then fail KImpurity sp
              else if negb (Nat.eqb (length a_args) (length b_args)) then fail KWrongArity sp
              else seen1 <- unify2 R sp a_args b_args seen ;;
                   r <- g_unify R sp a_ret b_ret seen1 ;; ret (snd r)
            | HBlob _ _ a_fields _, HBlob _ _ b_fields _ =>
              if existsb (fun kv => negb (fmem (fst kv) b_fields)) a_fields then fail KMissingField sp
              else unify_fields R sp KMissingField a_fields b_fields seen
            | HExtBlob _ _ _ a_args a_id, HExtBlob _ _ _ b_args b_id =>
              if N.eqb a_id b_id then unify2 R sp a_args b_args seen else fail KMismatch sp
            | HEnum _ _ a_vars _, HEnum _ _ b_vars _ =>
              if existsb (fun kv => negb (fmem (fst kv) b_vars)) a_vars then fail KUnknownVariant sp
              else unify_fields R sp KUnknownVariant a_vars b_vars seen
            | _, _ => fail KMismatch sp
            end) ;;
  union a b ;;;
  g_check R sp a ;;;
  ret (a, seen').

(* the TyID inside a constraint, copied *)
Definition copy_constr (R : grec) (c : constr) (m : copymap) : M (constr * copymap) :=
  let via (k : tyid -> constr) (x : tyid) := r <- g_copy R x m ;; ret (k (fst r), snd r) in
  match c with
  | CAdd x => via CAdd x | CSub x => via CSub x | CMul x => via CMul x
  | CDivTop x => via CDivTop x | CDivBot x => via CDivBot x | CDivRes x => via CDivRes x
  | CEqu x => via CEqu x | CCmp x => via CCmp x | CCmpEqu x => via CCmpEqu x
  | CNeg => ret (CNeg, m)
  | CConstIdx i x => via (CConstIdx i) x
  | CField f x => via (CField f) x
  | CNum => ret (CNum, m)
  | CEnum => ret (CEnum, m)
  | CVariant v (Some y) => via (fun t => CVariant v (Some t)) y
  | CVariant v None => ret (CVariant v None, m)
  | CTotalEnum x => ret (CTotalEnum x, m)
  | CVariable => ret (CVariable, m)
  end.

Fixpoint copy_list (R : grec) (l : list tyid) (m : copymap) : M (list tyid * copymap) :=
  match l with
  | [] => ret ([], m)
  | x :: xs => r <- g_copy R x m ;; rs <- copy_list R xs (snd r) ;; ret (fst r :: fst rs, snd rs)
  end.

Fixpoint copy_fields (R : grec) (l : fieldmap) (m : copymap) : M (fieldmap * copymap) :=
  match l with
  | [] => ret ([], m)
  | (k, (sp, x)) :: xs =>
    r <- g_copy R x m ;; rs <- copy_fields R xs (snd r) ;; ret ((k, (sp, fst r)) :: fst rs, snd rs)
  end.

(* fn inner_copy (1645) *)
Definition copy_body (R : grec) (old : tyid) (m : copymap) : M (tyid * copymap) :=
  old <- find old ;;
  match copy_lookup old m with
  | Some r => ret (r, m)
  | None =>
    new <- push_type HUnknown ;;
    let m := (old, new) :: m in
    n <- find_node old ;;
    '(cs, m) <- foldM (fun acc c => r <- copy_constr R c (snd acc) ;; ret (cinsert (fst r) (fst acc), snd r))
                      (ncons n) ([], m) ;;
    set_cons new cs ;;;
    t <- find_type old ;;
    '(t', m) <- (match t with
                 | HInvalid | HUnknown | HTy | HVoid | HNil | HInt | HFloat | HBool | HStr => ret (t, m)
                 | HTuple tys => r <- copy_list R tys m ;; ret (HTuple (fst r), snd r)
                 | HList x => r <- g_copy R x m ;; ret (HList (fst r), snd r)
                 | HFn args r p =>
                   ra <- copy_list R args m ;; rr <- g_copy R r (snd ra) ;; ret (HFn (fst ra) (fst rr) p, snd rr)
                 | HExtBlob name sp fields args ns =>
                   rf <- copy_fields R fields m ;; ra <- copy_list R args (snd rf) ;;
                   ret (HExtBlob name sp (fst rf) (fst ra) ns, snd ra)
                 | HBlob name sp fields args =>
                   rf <- copy_fields R fields m ;; ra <- copy_list R args (snd rf) ;;
                   ret (HBlob name sp (fst rf) (fst ra), snd ra)
                 | HEnum name sp variants args =>
                   rf <- copy_fields R variants m ;; ra <- copy_list R args (snd rf) ;;
                   ret (HEnum name sp (fst rf) (fst ra), snd ra)
                 end) ;;
    set_type new t' ;;;
    ret (new, m)
  end.

Definition gstep (R : grec) : grec :=
  mkG (unify_body R) (check_body R) (arith_body R) (div_body R) (divres_body R) (copy_body R).

Fixpoint gfix (fuel : nat) : grec :=
  match fuel with
  | O => g_bottom
  | S f => gstep (gfix f)
  end.

(* ------------------------------------------------------------------ syntax level *)

Definition genmap := list (string * tyid).          (* HashMap<String, TyID> of inner_resolve_type *)

Fixpoint gen_lookup (k : string) (m : genmap) : option tyid :=
  match m with
  | [] => None
  | (k', v) :: r => if String.eqb k k' then Some v else gen_lookup k r
  end.

Definition retn := (option tyid * tyid)%type.       (* RetNValue *)

Record arec := mkA {
  r_expr : expr -> tctx -> M retn;                                (* fn expression *)
  r_stmt : stmt -> tctx -> M (option tyid);                       (* fn statement *)
  r_type : ty -> genmap -> M (tyid * genmap)                      (* fn inner_resolve_type *)
}.

Definition a_bottom : arec :=
  mkA (fun _ _ => out_of_fuel) (fun _ _ => out_of_fuel) (fun _ _ => out_of_fuel).

Definition is_void_ty (t : ty) : bool :=
  match t with TResolved BVoid _ => true | _ => false end.

Section WithVars.
  (* the resolver's variable table: kinds by TyID (variable v <-> TyID v, i.e. positive v+1) *)
  Variable kinds : PositiveMap.t varkind.
  Variable G : grec.

  (* self.variables[var].ty *)
  Definition var_ty (v : N) : M tyid :=
    match PositiveMap.find (N.succ_pos v) kinds with
    | Some _ => ret (N.succ_pos v)
    | None => panic PVarIndex
    end.

  (* self.variables[var].kind *)
  Definition var_kind (v : N) : M varkind :=
    match PositiveMap.find (N.succ_pos v) kinds with
    | Some k => ret k
    | None => panic PVarIndex
    end.

  Definition immutable (k : varkind) : bool := match k with Const => true | Mutable => false end.

  (* fn resolve_constraint (232) *)
  Definition resolve_constraint (sp : span) (var : tyid) (c : tconstraint) : M unit :=
    let nargs := length (tc_args c) in
    if String.eqb (tc_name c) "Num" then
      if negb (Nat.eqb nargs 0) then fail KWrongConstraintArity sp
      else add_constraint var CNum
    else if String.eqb (tc_name c) "CmpEqu" then
      if negb (Nat.eqb nargs 0) then fail KWrongConstraintArity sp
      else add_constraint var (CCmpEqu var)
    else fail KUnknownConstraint sp.

  Fixpoint resolve_types (R : arec) (l : list ty) (seen : genmap) : M (list tyid * genmap) :=
    match l with
    | [] => ret ([], seen)
    | t :: ts => r <- r_type R t seen ;; rs <- resolve_types R ts (snd r) ;; ret (fst r :: fst rs, snd rs)
    end.

  (* the loop over `vars` in the UserType arm (298-316): `defsp` is the span of the blob/enum declaration *)
  Fixpoint user_args (R : arec) (defsp : span) (vars : list ty) (sub : list tyid) (seen : genmap) : M genmap :=
    match vars with
    | [] => ret seen
    | v :: vs =>
      match sub with
      | [] => fail KExotic (ty_span v)
      | s :: ss =>
        r <- r_type R v seen ;;
        unify G defsp (fst r) s ;;;
        user_args R defsp vs ss (snd r)
      end
    end.

  (* fn inner_resolve_type (271) *)
  Definition type_body (R : arec) (t : ty) (seen : genmap) : M (tyid * genmap) :=
    match t with
    | TImplied _ => i <- push_type HUnknown ;; ret (i, seen)
    | TResolved b _ =>
      i <- push_type (match b with
                      | BVoid => HVoid | BNil => HNil | BUnknown => HUnknown | BInt => HInt
                      | BFloat => HFloat | BBool => HBool | BStr => HStr
                      end) ;;
      ret (i, seen)
    | TUser var vars sp =>
      vt <- var_ty var ;;
      t <- copy G vt ;;
      h <- find_type t ;;
      match h with
      | HBlob _ defsp _ sub | HExtBlob _ defsp _ sub _ | HEnum _ defsp _ sub =>
        seen' <- user_args R defsp vars sub seen ;; ret (t, seen')
      | HUnknown => ret (t, seen)
      | _ => fail KViolating sp
      end
    | TFn constraints params r is_pure sp =>
      ps <- resolve_types R params seen ;;
      rr <- r_type R r (snd ps) ;;
      let seen := snd rr in
      iterM (fun kc : string * list tconstraint =>
               match gen_lookup (fst kc) seen with
               | Some var => iterM (resolve_constraint sp var) (snd kc)
               | None => fail KUnresolvedName sp
               end) constraints ;;;
      i <- push_type (HFn (fst ps) (fst rr) (if is_pure then PPure else PUndefined)) ;;
      ret (i, seen)
    | TTuple fields _ =>
      fs <- resolve_types R fields seen ;;
      i <- push_type (HTuple (fst fs)) ;; ret (i, snd fs)
    | TList kind _ =>
      k <- r_type R kind seen ;;
      i <- push_type (HList (fst k)) ;; ret (i, snd k)
    | TGeneric name _ =>
      match gen_lookup name seen with
      | Some i => ret (i, seen)
      | None => i <- push_type HUnknown ;; ret (i, (name, i) :: seen)
      end
    end.

  (* fn resolve_type *)
  Definition resolve_type (R : arec) (t : ty) : M tyid := r <- r_type R t [] ;; ret (fst r).

  (* fn type_from_function (383) *)
  Definition type_from_function (R : arec) (params : list (string * N * span * ty)) (r : ty) (pure : bool)
    : M (tyid * tyid) :=
    '(args, seen) <- foldM (fun (acc : list tyid * genmap) (p : string * N * span * ty) =>
                              let '(_, var, psp, pty) := p in
                              vt <- var_ty var ;;
                              rt <- r_type R pty (snd acc) ;;
                              a <- unify G psp vt (fst rt) ;;
                              ret (fst acc ++ [a], snd rt)) params ([], []) ;;
    rr <- r_type R r seen ;;
    f <- push_type (HFn args (fst rr) (if pure then PPure else PImpure)) ;;
    ret (f, fst rr).

  (* fn can_assign (1752) *)
  Definition can_assign (sp : span) (target : expr) : M unit :=
    match target with
    | ERead var rsp =>
      k <- var_kind var ;;
      if immutable k then fail KAssignability rsp else ret tt
    | EBlobAccess _ _ _ | EIndex _ _ _ => ret tt
    | _ => fail KAssignability sp
    end.

  (* fn expression_block (672) *)
  Definition expression_block (R : arec) (sp : span) (stmts : list stmt) (ctx : tctx)
    : M (option tyid * option tyid) :=
    r <- foldM (fun (acc : option tyid) (s : stmt) =>
                  sr <- r_stmt R s ctx ;; unify_option G sp acc sr) stmts None ;;
    match last stmts SBreak_dummy with
    | SStatementExpression value _ =>
      match stmts with
      | [] => ret (r, None)
      | _ =>
        '(vret, v) <- r_expr R value ctx ;;
        r' <- unify_option G sp r vret ;;
        ret (r', Some v)
      end
    | _ => ret (r, None)
    end.

End WithVars.
