(* EmptyStatements in the parser's AST (blank lines, comment-only lines, stray newlines): `drop_empties` removes
   them from every statement list (module level, function bodies, blocks, branches of if / case).  The body of a
   `loop` is a single statement and stays.  Definitions only. *)
From Coq Require Import String List NArith ZArith Bool.
From Sylt Require Import Syntax.Resolved Resolve.PAst.
Import ListNotations.

Definition is_empty_s (s : pstmt) : bool := match s with PEmptyStatement _ => true | _ => false end.

(* map f over the statements that are not EmptyStatements *)
Definition drop_with (f : pstmt -> pstmt) : list pstmt -> list pstmt :=
  fix go (l : list pstmt) : list pstmt :=
  match l with
  | [] => []
  | s :: l' => if is_empty_s s then go l' else f s :: go l'
  end.

Fixpoint drop_e (e : pexpr) : pexpr :=
  match e with
  | PGet a sp => PGet (drop_a a) sp
  | PAdd a b sp => PAdd (drop_e a) (drop_e b) sp
  | PSub a b sp => PSub (drop_e a) (drop_e b) sp
  | PMul a b sp => PMul (drop_e a) (drop_e b) sp
  | PDiv a b sp => PDiv (drop_e a) (drop_e b) sp
  | PNeg a sp => PNeg (drop_e a) sp
  | PComparison a k b sp => PComparison (drop_e a) k (drop_e b) sp
  | PAssertEq a b sp => PAssertEq (drop_e a) (drop_e b) sp
  | PAnd a b sp => PAnd (drop_e a) (drop_e b) sp
  | POr a b sp => POr (drop_e a) (drop_e b) sp
  | PNot a sp => PNot (drop_e a) sp
  | PParenthesis a sp => PParenthesis (drop_e a) sp
  | PIf brs sp => PIf (map drop_b brs) sp
  | PCase tm brs ft sp =>
      PCase (drop_e tm) (map drop_c brs)
            (match ft with Some b => Some (drop_with drop_s b) | None => None end) sp
  | PFunction nm ps rt body pure sp => PFunction nm ps rt (drop_with drop_s body) pure sp
  | PBlob b fields sp => PBlob b (map (fun f => (fst f, drop_e (snd f))) fields) sp
  | PTuple vs sp => PTuple (map drop_e vs) sp
  | PList vs sp => PList (map drop_e vs) sp
  | PFloat r sp => PFloat r sp
  | PInt z sp => PInt z sp
  | PStr s sp => PStr s sp
  | PBool b sp => PBool b sp
  | PNil sp => PNil sp
  end
with drop_a (a : passign) : passign :=
  match a with
  | ARead i sp => ARead i sp
  | AVariant x v value sp => AVariant (drop_a x) v (drop_e value) sp
  | ACall f args sp => ACall (drop_a f) (map drop_e args) sp
  | AArrowCall x f args sp => AArrowCall (drop_e x) (drop_a f) (map drop_e args) sp
  | AAccess x i sp => AAccess (drop_a x) i sp
  | AIndex x i sp => AIndex (drop_a x) (drop_e i) sp
  | AExpression e sp => AExpression (drop_e e) sp
  end
with drop_b (b : pifbranch) : pifbranch :=
  match b with
  | PIfBranch c body sp =>
      PIfBranch (match c with Some c => Some (drop_e c) | None => None end)
                (drop_with drop_s body) sp
  end
with drop_c (b : pcasebranch) : pcasebranch :=
  match b with
  | PCaseBranch pat v body => PCaseBranch pat v (drop_with drop_s body)
  end
with drop_s (s : pstmt) : pstmt :=
  match s with
  | PAssignment op t v sp => PAssignment op (drop_a t) (drop_e v) sp
  | PDefinition i k t v sp => PDefinition i k t (drop_e v) sp
  | PLoop c b sp => PLoop (drop_e c) (drop_s b) sp
  | PRet (Some v) sp => PRet (Some (drop_e v)) sp
  | PBlock ss sp => PBlock (drop_with drop_s ss) sp
  | PStatementExpression v sp => PStatementExpression (drop_e v) sp
  | other => other
  end.

Definition drop_list (l : list pstmt) : list pstmt := drop_with drop_s l.
Definition drop_module (m : pmodule) : pmodule := mkModule (m_file m) (m_file_id m) (drop_list (m_stmts m)).
Definition drop_empties (ast : past) : past := map drop_module ast.
