(* C13 beyond the expression entry point.
   The round-trip theorem of ExprRoundTrip.v ([roundtrip_literal]) is stated for the recursive request
   [QPrec (pt_entry T)] at an ARBITRARY context: any tokens behind the cursor, any past-the-end count, either
   newline mode, and any continuation [rest] whose first token neither continues a postfix chain nor is a valid
   infix token.  Every statement form of the parser reaches its embedded expressions through exactly that request
   ([expression c = call_E (QPrec (pt_entry T) c)]; call arguments, index and field chains are inside the operator
   trees [ox] already).  So the grouping of an expression in a statement position is the documented one as soon
   as the token that follows it in that position is a legal follower.  The theorems below spell this out for
   the statement forms with a precedence-sensitive position: `ret e`, `x :: e` / `x := e`, `x = e` and the
   compound assignments, the condition of `loop e do` (newlines significant, followed by `do`) and the condition
   of `if e do` (newlines skipped, followed by `do`).
   Not covered by [ox]: `a -> f(b)` is not an operator of the table - its right-hand side is parsed by
   `expression` and must come out as a call (Sugar.v: [arrow_call_parses] for an operand on the left); mixed with
   operators it is `a + b -> f(c)` = `a + (b -> f(c))`, and `a -> f(b) + 1` is rejected (recorded, unjudged). *)
From Coq Require Import List NArith Bool Arith Lia.
From Sylt Require Import Syntax.Ast Syntax.Tok Parse.PrecTable Parse.Parser Parse.ParserProofs Parse.OpTree
  Parse.ExprRoundTrip Parse.Sugar.
Import ListNotations.

Section SRT.
Variable T : ptab.
Hypothesis OK : tab_ok T.
Hypothesis Hnl : pt_valid T (TK KNewline) = false.
Hypothesis Hdo : pt_valid T (TK KDo) = false.
Notation C := mkctx.

Lemma pp_clean b e rest : clean b (pp e ++ rest).
Proof. destruct (pp_head e) as (t & ts & -> & S). apply starter_clean. exact S. Qed.

Lemma follow_nl rest : follow_rest T false (TK KNewline :: rest).
Proof. split; [reflexivity|exact Hnl]. Qed.

Lemma follow_do b rest : follow_rest T b (TK KDo :: rest).
Proof. split; [reflexivity|exact Hdo]. Qed.

(* the common tail of `statement` when the statement form ended right before a newline token *)
Definition stmt_end (old : bool) (s : stmt) (c1 : ctx) : res out :=
  Ok (RS s (pop_nl old (skip 1 c1))).

Lemma tail_newline (rec : req -> res out) old s p rest ov :
  run rec (let* c2 := (if is_k KEnd (C p (TK KNewline :: rest) ov false) || is_k KElse (C p (TK KNewline :: rest) ov false)
                          || is_k KElif (C p (TK KNewline :: rest) ov false)
                       then ok (C p (TK KNewline :: rest) ov false)
                       else pexpect KNewline (C p (TK KNewline :: rest) ov false)) in
           ok (RS s (pop_nl old c2)))
  = stmt_end old s (C p (TK KNewline :: rest) ov false).
Proof. reflexivity. Qed.

(* `ret e <newline>` *)
Theorem ret_roundtrip e : lower_ok e = true -> dwf e = true ->
  forall p rest ov b, exists f0, forall f, f0 <= f ->
    go T (S f) (QStmt (C p (TK KRet :: pp e ++ TK KNewline :: rest) ov b))
    = stmt_end b (SRet (Some (emb e))) (C (rev (pp e) ++ TK KRet :: p) (TK KNewline :: rest) ov false).
Proof.
  intros L D p rest ov b.
  destruct (roundtrip_literal T OK e L D (TK KRet :: p) (TK KNewline :: rest) ov false (follow_nl rest)) as [f0 H].
  exists f0. intros f Hf. rewrite go_S. cbn [step]. unfold step_stmt, push_nl, set_nl. cbn [pre post over nl].
  rewrite skip0 by (split; [discriminate|intros X; discriminate]).
  unfold look3. cbn [token post].
  rewrite skip1; [|discriminate|apply pp_clean]. cbv zeta.
  unfold expression. rewrite !run_ptry. unfold call_E. cbn [run]. rewrite (H f Hf).
  cbn [get_E run ok ptry]. apply tail_newline.
Qed.

(* `x :: e <newline>` and `x := e <newline>` *)
Theorem def_roundtrip x k kind e :
  (k = KColonColon /\ kind = VConst) \/ (k = KColonEqual /\ kind = VMutable) ->
  name_eqb x self_name = false -> lower_ok e = true -> dwf e = true ->
  forall p rest ov b, exists f0, forall f, f0 <= f ->
    go T (S f) (QStmt (C p (TIdent x :: TK k :: pp e ++ TK KNewline :: rest) ov b))
    = stmt_end b (SDef x kind TyImplied (emb e)) (C (rev (pp e) ++ TK k :: TIdent x :: p) (TK KNewline :: rest) ov false).
Proof.
  intros Hk Hx L D p rest ov b.
  destruct (roundtrip_literal T OK e L D (TK k :: TIdent x :: p) (TK KNewline :: rest) ov false (follow_nl rest)) as [f0 H].
  destruct (pp_head e) as (t & ts & Ep & St).
  exists f0. intros f Hf. rewrite go_S. cbn [step]. unfold step_stmt, push_nl, set_nl. cbn [pre post over nl].
  rewrite skip0 by (split; [discriminate|intros X; discriminate]).
  assert (K : clean false (TK k :: pp e ++ TK KNewline :: rest))
    by (destruct Hk as [[-> _]|[-> _]]; split; try discriminate; intros X; discriminate).
  assert (Kc : TK k <> TComment) by discriminate.
  assert (S1 : skip 1 (C p (TIdent x :: TK k :: pp e ++ TK KNewline :: rest) ov false)
               = C (TIdent x :: p) (TK k :: pp e ++ TK KNewline :: rest) ov false) by (apply skip1; [discriminate|exact K]).
  assert (S2 : skip 1 (C (TIdent x :: p) (TK k :: pp e ++ TK KNewline :: rest) ov false)
               = C (TK k :: TIdent x :: p) (pp e ++ TK KNewline :: rest) ov false) by (apply skip1; [exact Kc|apply pp_clean]).
  assert (Tt : token (C (TK k :: TIdent x :: p) (pp e ++ TK KNewline :: rest) ov false) = t)
    by (unfold token; cbn [post]; rewrite Ep; reflexivity).
  assert (Body : run (go T f) (stmt_def_implied T x (C p (TIdent x :: TK k :: pp e ++ TK KNewline :: rest) ov false))
                 = Ok (SDef x kind TyImplied (emb e), C (rev (pp e) ++ TK k :: TIdent x :: p) (TK KNewline :: rest) ov false)).
  { unfold stmt_def_implied. rewrite Hx. cbv zeta. rewrite S1. cbn [token post]. rewrite S2.
    assert (Ex : is_k KExternal (C (TK k :: TIdent x :: p) (pp e ++ TK KNewline :: rest) ov false) = false)
      by (unfold is_k; rewrite Tt; starter_cases t St; reflexivity).
    destruct Hk as [[-> ->]|[-> ->]]; rewrite Ex;
      unfold expression; rewrite !run_ptry; unfold call_E; cbn [run]; rewrite (H f Hf); reflexivity. }
  unfold look3. rewrite S1, S2, Tt. cbn [token post]. rewrite run_ptry.
  destruct Hk as [[-> ->]|[-> ->]].
  - starter_cases t St; rewrite Body; apply tail_newline.
  - destruct t; rewrite Body; apply tail_newline.
Qed.

(* `x = e <newline>`, `x += e <newline>`, ... *)
Theorem assign_roundtrip x k op e : assign_op (TK k) = Some op -> lower_ok e = true -> dwf e = true ->
  forall p rest ov b, exists f0, forall f, f0 <= f ->
    go T (S (S f)) (QStmt (C p (TIdent x :: TK k :: pp e ++ TK KNewline :: rest) ov b))
    = stmt_end b (SAssign op (ARead x) (emb e)) (C (rev (pp e) ++ TK k :: TIdent x :: p) (TK KNewline :: rest) ov false).
Proof.
  intros Hop L D p rest ov b.
  destruct (roundtrip_literal T OK e L D (TK k :: TIdent x :: p) (TK KNewline :: rest) ov false (follow_nl rest)) as [f0 H].
  exists f0. intros f Hf. rewrite go_S. cbn [step]. unfold step_stmt, push_nl, set_nl. cbn [pre post over nl].
  rewrite skip0 by (split; [discriminate|intros X; discriminate]).
  assert (Kk : k = KPlusEqual \/ k = KMinusEqual \/ k = KStarEqual \/ k = KSlashEqual \/ k = KEqual)
    by (destruct k; try discriminate Hop; auto 6).
  assert (K : clean false (TK k :: pp e ++ TK KNewline :: rest))
    by (destruct Kk as [->|[->|[->|[->| ->]]]]; split; try discriminate; intros X; discriminate).
  assert (S1 : skip 1 (C p (TIdent x :: TK k :: pp e ++ TK KNewline :: rest) ov false)
               = C (TIdent x :: p) (TK k :: pp e ++ TK KNewline :: rest) ov false) by (apply skip1; [discriminate|exact K]).
  assert (S2 : skip 1 (C (TIdent x :: p) (TK k :: pp e ++ TK KNewline :: rest) ov false)
               = C (TK k :: TIdent x :: p) (pp e ++ TK KNewline :: rest) ov false)
    by (apply skip1; [discriminate|apply pp_clean]).
  (* the probe: an identifier followed by the operator is an assignable that ends at the operator *)
  assert (Sub : go T (S f) (QSub (ARead x) (C (TIdent x :: p) (TK k :: pp e ++ TK KNewline :: rest) ov false))
                = Ok (RA (ARead x) (C (TIdent x :: p) (TK k :: pp e ++ TK KNewline :: rest) ov false))).
  { rewrite go_S. cbn [step]. unfold step_sub. cbn [token post].
    destruct Kk as [->|[->|[->|[->| ->]]]]; reflexivity. }
  assert (Probe : run (go T (S f)) (assignable_p (C p (TIdent x :: TK k :: pp e ++ TK KNewline :: rest) ov false))
                  = Ok (ARead x, C (TIdent x :: p) (TK k :: pp e ++ TK KNewline :: rest) ov false)).
  { unfold assignable_p. cbn [token post]. rewrite S1. unfold call_A. cbn [run]. rewrite Sub. reflexivity. }
  assert (Body : run (go T (S f)) (stmt_assign_or_expr T (C p (TIdent x :: TK k :: pp e ++ TK KNewline :: rest) ov false))
                 = Ok (SAssign op (ARead x) (emb e), C (rev (pp e) ++ TK k :: TIdent x :: p) (TK KNewline :: rest) ov false)).
  { unfold stmt_assign_or_expr. rewrite run_ptry, Probe. cbn [token post]. rewrite Hop. rewrite S2.
    unfold expression. rewrite !run_ptry. unfold call_E. cbn [run].
    rewrite (H (S f) ltac:(lia)). reflexivity. }
  unfold look3. rewrite S1. cbn [token post]. rewrite run_ptry.
  destruct Kk as [->|[->|[->|[->| ->]]]]; rewrite Body; apply tail_newline.
Qed.

(* the condition of `loop e do`: any operator tree, grouped as documented; the body is parsed from `do` *)
Theorem loop_cond_step e : lower_ok e = true -> dwf e = true ->
  forall p ts ov b, exists f0, forall f, f0 <= f -> forall body c3,
    go T f (QStmt (C (rev (pp e) ++ TK KLoop :: p) (TK KDo :: ts) ov false)) = Ok (RS body c3) ->
    go T (S f) (QStmt (C p (TK KLoop :: pp e ++ TK KDo :: ts) ov b)) = loop_finish b (emb e) body c3.
Proof.
  intros L D p ts ov b.
  destruct (roundtrip_literal T OK e L D (TK KLoop :: p) (TK KDo :: ts) ov false (follow_do false ts)) as [f0 H].
  destruct (pp_head e) as (t & ts0 & Ep & St).
  exists f0. intros f Hf body c3 Hb. rewrite go_S. cbn [step]. unfold step_stmt, push_nl, set_nl. cbn [pre post over nl].
  rewrite skip0 by (split; [discriminate|intros X; discriminate]).
  unfold look3. cbn [token post].
  rewrite skip1; [|discriminate|apply pp_clean]. cbv zeta.
  replace (is_k KDo (C (TK KLoop :: p) (pp e ++ TK KDo :: ts) ov false)) with false
    by (unfold is_k; cbn [token post]; rewrite Ep; cbn [app]; starter_cases t St; reflexivity).
  unfold expression, statement. rewrite !run_ptry. unfold call_E. cbn [run]. rewrite (H f Hf).
  cbn [get_E run ok ptry]. rewrite !run_ptry. unfold call_S. cbn [run]. rewrite Hb.
  cbn [get_S run ok ptry]. unfold loop_finish, pexpect.
  destruct (prev c3) as [cp|]; [|reflexivity]. cbn [run ok ptry]. cbv zeta.
  set (c1 := if is_k KNewline cp then cp else c3).
  destruct (is_k KEnd c1 || is_k KElse c1 || is_k KElif c1).
  - reflexivity.
  - cbn [run]. destruct (expect KNewline c1); reflexivity.
Qed.

(* the condition of `if e do`: parsed with newlines skipped, followed by `do`; then the branch block *)
Theorem if_cond_step e : lower_ok e = true -> dwf e = true ->
  forall q p ts ov b, exists f0, forall f, f0 <= f ->
    go T (S f) (QPrec q (C p (TK KIf :: pp e ++ TK KDo :: ts) ov b))
    = run (go T f)
        (let* '(e1, c1) :=
           (let* '(body, c6) := block (C (rev (pp e) ++ TK KIf :: p) (TK KDo :: ts) ov b) in
            let* '(bs, c7) := call_Ifs (QElifs [IfBranch (Some (emb e)) body] c6) in
            ok (EIf bs, c7)) in
         call (QLoop q e1 c1)).
Proof.
  intros L D q p ts ov b.
  destruct (roundtrip_literal T OK e L D (TK KIf :: p) (TK KDo :: ts) ov true (follow_do true ts)) as [f0 H].
  exists f0. intros f Hf. rewrite go_S. cbn [step]. unfold step_prec, prefix. cbn [token post].
  unfold if_expression. rewrite skip1; [|discriminate|apply pp_clean].
  unfold push_nl, set_nl. cbn [pre post over nl fst snd]. rewrite skip0 by apply pp_clean.
  unfold expression. rewrite !run_ptry. unfold call_E. cbn [run]. rewrite (H f Hf).
  cbn [get_E run ok]. unfold pop_nl, set_nl. cbn [pre post over nl].
  change (is_k KDo (C (rev (pp e) ++ TK KIf :: p) (TK KDo :: ts) ov b)) with true. cbv iota.
  rewrite !run_ptry.
  destruct (run (go T f) (block (C (rev (pp e) ++ TK KIf :: p) (TK KDo :: ts) ov b))) as [[body c6]| | |]; try reflexivity.
  rewrite !run_ptry.
  destruct (run (go T f) (call_Ifs (QElifs [IfBranch (Some (emb e)) body] c6))) as [[bs c7]| | |]; reflexivity.
Qed.

(* ---- an expression as a statement: `e <newline>` ---- *)

(* the printed form starts with a token that is not an identifier, or with an identifier-rooted postfix chain
   that is followed by nothing or by a binary operator *)
Lemma pp_left e : lower_ok e = true -> wf T e ->
  (exists t ts, pp e = t :: ts /\ starter t /\ (forall r, t <> TIdent r)) \/
  (exists r ps tl, pp e = TIdent r :: pp_posts ps ++ tl /\ is_capitalized r = false /\ lower_posts ps = true
                   /\ wfp T ps /\ (tl = [] \/ exists o tl', tl = bt o :: tl')).
Proof.
  induction e as [z|r ps|o l IHl r IHr|u x IHx|x IHx]; intros L W.
  - left. exists (TInt z), []. split; [reflexivity|split; [exact I|discriminate]].
  - right. cbn [lower_ok] in L. apply andb_prop in L. destruct L as [L1 L2]. apply negb_true_iff in L1.
    exists r, ps, []. rewrite app_nil_r. repeat split; try assumption. left. reflexivity.
  - cbn [lower_ok] in L. apply andb_prop in L. destruct L as [Ll Lr]. cbn [wf] in W. destruct W as (_ & _ & _ & Wl & _).
    destruct (IHl Ll Wl) as [(t & ts & E & S & N)|(r0 & ps & tl & E & C1 & C2 & C3 & C4)].
    + left. exists t, (ts ++ bt o :: pp r). cbn [pp]. rewrite E. repeat split; assumption.
    + right. exists r0, ps, (tl ++ bt o :: pp r). cbn [pp]. rewrite E. cbn [app]. rewrite <- app_assoc.
      repeat split; try assumption. right. destruct C4 as [->|(o' & tl' & ->)]; [exists o, (pp r); reflexivity|].
      exists o', (tl' ++ bt o :: pp r). reflexivity.
  - left. exists (TK (doc_untok u)), (pp x). split; [reflexivity|split; [destruct u; exact I|discriminate]].
  - left. exists (TK KLeftParen), (pp x ++ [TK KRightParen]). split; [reflexivity|split; [exact I|discriminate]].
Qed.

Lemma bt_not_assign o : assign_op (bt o) = None.
Proof. destruct o as [| | | |k| | |]; try destruct k; reflexivity. Qed.

Theorem expr_stmt_roundtrip e : lower_ok e = true -> dwf e = true ->
  forall p rest ov b, exists f0, forall f, f0 <= f ->
    go T (S f) (QStmt (C p (pp e ++ TK KNewline :: rest) ov b))
    = stmt_end b (SExpr (emb e)) (C (rev (pp e) ++ p) (TK KNewline :: rest) ov false).
Proof.
  intros L D p rest ov b.
  destruct (dwf_wf_all T OK) as [HW _]. pose proof (HW e D) as W.
  destruct (roundtrip_literal T OK e L D p (TK KNewline :: rest) ov false (follow_nl rest)) as [f0 H].
  assert (Expr : forall f, f0 <= f ->
            run (go T f) (stmt_expr T (C p (pp e ++ TK KNewline :: rest) ov false))
            = Ok (SExpr (emb e), C (rev (pp e) ++ p) (TK KNewline :: rest) ov false)).
  { intros f Hf. unfold stmt_expr, expression. rewrite !run_ptry. unfold call_E. cbn [run]. rewrite (H f Hf). reflexivity. }
  destruct (pp_left e L W) as [(t & ts & E & St & Ni)|(r & ps & tl & E & C1 & C2 & C3 & C4)].
  - (* not an identifier: the assignment probe fails at once *)
    exists f0. intros f Hf. rewrite go_S. cbn [step]. unfold step_stmt, push_nl, set_nl. cbn [pre post over nl].
    rewrite skip0 by apply pp_clean.
    assert (Tk1 : token (C p (pp e ++ TK KNewline :: rest) ov false) = t)
      by (unfold token; cbn [post]; rewrite E; reflexivity).
    assert (Body : run (go T f) (stmt_assign_or_expr T (C p (pp e ++ TK KNewline :: rest) ov false))
                   = Ok (SExpr (emb e), C (rev (pp e) ++ p) (TK KNewline :: rest) ov false)).
    { unfold stmt_assign_or_expr. rewrite run_ptry. unfold assignable_p. rewrite Tk1.
      starter_cases t St; try (exfalso; eapply Ni; reflexivity); cbn [praise run raise]; apply Expr; exact Hf. }
    unfold look3. rewrite Tk1. rewrite run_ptry.
    starter_cases t St; try (exfalso; eapply Ni; reflexivity); rewrite Body; apply tail_newline.
  - (* an identifier-rooted chain: the probe parses it and stops at an operator or at the newline *)
    destruct (roundtrip_all T OK) as (_ & HPp & _).
    assert (Fl : follow false (tl ++ TK KNewline :: rest)).
    { destruct C4 as [->|(o & tl' & ->)]; [reflexivity|]. cbn [app follow]. apply bt_follow. }
    destruct (HPp ps C2 C3 (ARead r) (TIdent r :: p) (tl ++ TK KNewline :: rest) ov false Fl) as [f1 H1].
    exists (S (Nat.max f0 f1)). intros f Hf. destruct f as [|f]; [lia|].
    rewrite go_S. cbn [step]. unfold step_stmt, push_nl, set_nl. cbn [pre post over nl].
    rewrite skip0 by apply pp_clean.
    assert (K : clean false (pp_posts ps ++ tl ++ TK KNewline :: rest)).
    { pose proof (pp_clean false e (TK KNewline :: rest)) as X. rewrite E in X. cbn [app] in X.
      (* the token after the identifier *)
      destruct ps as [|n ps'|k ps'|args ps']; cbn [pp_posts app]; try (split; [discriminate|intros Y; discriminate Y]).
      apply follow_is_clean. exact Fl. }
    assert (S1 : skip 1 (C p (TIdent r :: pp_posts ps ++ tl ++ TK KNewline :: rest) ov false)
                 = C (TIdent r :: p) (pp_posts ps ++ tl ++ TK KNewline :: rest) ov false)
      by (apply skip1; [discriminate|exact K]).
    assert (Eq : pp e ++ TK KNewline :: rest = TIdent r :: pp_posts ps ++ tl ++ TK KNewline :: rest)
      by (rewrite E; cbn [app]; rewrite <- app_assoc; reflexivity).
    assert (Tk1 : token (C p (pp e ++ TK KNewline :: rest) ov false) = TIdent r) by (rewrite Eq; reflexivity).
    assert (S1' : skip 1 (C p (pp e ++ TK KNewline :: rest) ov false)
                  = C (TIdent r :: p) (pp_posts ps ++ tl ++ TK KNewline :: rest) ov false) by (rewrite Eq; exact S1).
    assert (Tl : assign_op (token (C (rev (pp_posts ps) ++ TIdent r :: p) (tl ++ TK KNewline :: rest) ov false)) = None).
    { unfold token. cbn [post]. destruct C4 as [->|(o & tl' & ->)]; [reflexivity|]. cbn [app]. apply bt_not_assign. }
    assert (Body : run (go T (S f)) (stmt_assign_or_expr T (C p (pp e ++ TK KNewline :: rest) ov false))
                   = Ok (SExpr (emb e), C (rev (pp e) ++ p) (TK KNewline :: rest) ov false)).
    { unfold stmt_assign_or_expr. rewrite run_ptry. unfold assignable_p. rewrite Tk1, S1'.
      unfold call_A. cbn [run]. rewrite (H1 (S f) ltac:(lia)). cbn [get_A run ok]. rewrite Tl.
      (* not a blob instantiation: the expression goes on after the assignable the probe has parsed *)
      pose proof (ta_err T ps p r ov false (tl ++ TK KNewline :: rest) C2 C1 Fl) as TE.
      rewrite Eq. destruct (type_assignable (C p (TIdent r :: pp_posts ps ++ tl ++ TK KNewline :: rest) ov false));
        try contradiction. cbv iota.
      unfold expression_after, call_E. rewrite run_ptry. cbn [run].
      rewrite <- (prec_ident T (pt_entry T) p r ps (tl ++ TK KNewline :: rest) ov false (S f) _ _ C1 C2 Fl (H1 (S f) ltac:(lia))).
      rewrite <- Eq. rewrite (H (S (S f)) ltac:(lia)). reflexivity. }
    unfold look3. rewrite Tk1, S1'. rewrite run_ptry.
    (* the second token is `.`, `[`, `(`, an operator or the newline: none of the definition forms *)
    assert (T2 : forall k, token (C (TIdent r :: p) (pp_posts ps ++ tl ++ TK KNewline :: rest) ov false) = TK k ->
                 k <> KColonColon /\ k <> KColonEqual /\ k <> KColon).
    { unfold token. cbn [post]. intros k.
      destruct ps as [|n ps'|k0 ps'|args ps']; cbn [pp_posts app]; try (intros X; inversion X; repeat split; discriminate).
      destruct C4 as [->|(o & tl' & ->)]; cbn [app]; [intros X; inversion X; repeat split; discriminate|].
      destruct o as [| | | |k1| | |]; try destruct k1; intros X; inversion X; repeat split; discriminate. }
    destruct (token (C (TIdent r :: p) (pp_posts ps ++ tl ++ TK KNewline :: rest) ov false)) as [| | | | | |k|] eqn:Tk2;
      try (rewrite Body; apply tail_newline).
    destruct (T2 k eq_refl) as (N1 & N2 & N3).
    destruct k; try congruence; rewrite Body; apply tail_newline.
Qed.

End SRT.
