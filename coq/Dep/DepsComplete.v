(* deps_complete: every variable a statement reads, calls or ASSIGNS at any depth is in its dependency
   set, except the variables of function definitions (which are removed so that a function may call
   itself).  Proved for the variant of `statement_dependencies` that includes assignment targets
   (tgt = true); refuted for the pinned variant (tgt = false). *)
From Coq Require Import String List NArith ZArith Bool Lia Arith.
From Sylt Require Import Syntax.Resolved Dep.Deps.
Import ListNotations.

Lemma In_ins x y l : In x (ins y l) <-> x = y \/ In x l.
Proof.
  induction l as [|z l IH]; cbn.
  - intuition.
  - destruct (N.compare_spec y z) as [E|L|G]; cbn.
    + subst. intuition.
    + intuition.
    + rewrite IH. intuition.
Qed.

Lemma In_union x a b : In x (union a b) <-> In x a \/ In x b.
Proof.
  unfold union. induction a as [|y a IH]; cbn.
  - intuition.
  - rewrite In_ins, IH. intuition.
Qed.

Lemma In_unions {A} (f : A -> nset) l x : In x (unions f l) <-> exists a, In a l /\ In x (f a).
Proof.
  induction l as [|y l IH]; cbn.
  - split; [intros []|intros (a & [] & _)].
  - rewrite In_union, IH. split.
    + intros [H|(a & Ha & Hx)]; [exists y; auto|exists a; auto].
    + intros (a & [<-|Ha] & Hx); [left; assumption|right; exists a; auto].
Qed.

Lemma In_remove x v l : In x (remove v l) <-> In x l /\ x <> v.
Proof.
  unfold remove. rewrite filter_In. split; intros [H1 H2]; split; auto.
  - intros ->. rewrite N.eqb_refl in H2. discriminate.
  - apply negb_true_iff. apply N.eqb_neq. auto.
Qed.

Lemma sum_with_in {A} (f : A -> nat) l a : In a l -> f a <= sum_with f l.
Proof. induction l as [|x l IH]; cbn; intros []; subst; [lia|]. specialize (IH H). lia. Qed.

(* lifting a per-element statement to lists *)
Lemma lift_list {A} (us fd : A -> list N) (dp : A -> nset) l v :
  (forall a, In a l -> In v (us a) -> In v (dp a) \/ In v (fd a)) ->
  In v (flat_map us l) -> In v (unions dp l) \/ In v (flat_map fd l).
Proof.
  intros H Hin. apply in_flat_map in Hin as (a & Ha & Hv).
  destruct (H a Ha Hv) as [Hd|Hf].
  - left. apply In_unions. eauto.
  - right. apply in_flat_map. eauto.
Qed.

Definition Pe (e : expr) : Prop :=
  forall v, In v (uses_e e) -> In v (dependencies true e) \/ In v (fdefs_e e).
Definition Ps (s : stmt) : Prop :=
  forall v, In v (uses_s s) -> In v (statement_dependencies true s) \/ In v (fdefs_s s).

Ltac use_ih IHe e := let H := fresh in assert (H : Pe e) by (apply IHe; cbn [size_e size_s] in *; lia); exact H.

Lemma deps_complete_sized : forall n,
  (forall e, size_e e <= n -> Pe e) /\ (forall s, size_s s <= n -> Ps s).
Proof.
  induction n as [|n [IHe IHs]].
  { split; [intros e|intros s]; destruct e || destruct s; cbn; lia. }
  assert (Hle : forall l, sum_with size_e l <= n -> forall a, In a l -> Pe a).
  { intros l Hl a Ha. apply IHe. pose proof (sum_with_in size_e l a Ha). lia. }
  assert (Hls : forall l, sum_with size_s l <= n -> forall a, In a l -> Ps a).
  { intros l Hl a Ha. apply IHs. pose proof (sum_with_in size_s l a Ha). lia. }
  assert (Hlist_e : forall l v, sum_with size_e l <= n -> In v (flat_map uses_e l) ->
                    In v (unions (dependencies true) l) \/ In v (flat_map fdefs_e l)).
  { intros l v Hl. apply lift_list. intros a Ha. apply (Hle l Hl a Ha). }
  assert (Hlist_s : forall l v, sum_with size_s l <= n -> In v (flat_map uses_s l) ->
                    In v (unions (statement_dependencies true) l) \/ In v (flat_map fdefs_s l)).
  { intros l v Hl. apply lift_list. intros a Ha. apply (Hls l Hl a Ha). }
  split.
  - intros e Hsz v Hv. destruct e; cbn [uses_e dependencies fdefs_e size_e] in *.
    + (* ERead *) left. exact Hv.
    + (* EVariant *) destruct (IHe e ltac:(lia) v Hv); [left; apply In_ins; right|right]; assumption.
    + (* ECall *) apply in_app_or in Hv as [Hv|Hv].
      * destruct (IHe e ltac:(lia) v Hv); [left; apply In_union; left|right; apply in_or_app; left]; assumption.
      * destruct (Hlist_e args v ltac:(lia) Hv); [left; apply In_union; right|right; apply in_or_app; right]; assumption.
    + (* EBlobAccess *) apply (IHe e ltac:(lia) v Hv).
    + (* EIndex *) apply in_app_or in Hv as [Hv|Hv].
      * destruct (IHe e1 ltac:(lia) v Hv); [left; apply In_union; left|right; apply in_or_app; left]; assumption.
      * destruct (IHe e2 ltac:(lia) v Hv); [left; apply In_union; right|right; apply in_or_app; right]; assumption.
    + (* EBinOp *) apply in_app_or in Hv as [Hv|Hv].
      * destruct (IHe e1 ltac:(lia) v Hv); [left; apply In_union; left|right; apply in_or_app; left]; assumption.
      * destruct (IHe e2 ltac:(lia) v Hv); [left; apply In_union; right|right; apply in_or_app; right]; assumption.
    + (* EUniOp *) apply (IHe e ltac:(lia) v Hv).
    + (* EIf *) revert Hv. apply lift_list. intros b Hb Hv.
      match type of Hsz with context [sum_with ?f branches] => pose proof (sum_with_in f _ _ Hb) as Hsb end.
      cbn beta in Hsb. destruct b as [cond body bsp]. apply in_app_or in Hv as [Hv|Hv].
      * destruct cond as [c|]; [|destruct Hv].
        destruct (IHe c ltac:(lia) v Hv); [left; apply In_union; left|right; apply in_or_app; left]; assumption.
      * destruct (Hlist_s body v ltac:(lia) Hv); [left; apply In_union; right|right; apply in_or_app; right]; assumption.
    + (* ECase *) apply in_app_or in Hv as [Hv|Hv]; [|apply in_app_or in Hv as [Hv|Hv]].
      * destruct (IHe e ltac:(lia) v Hv); [left; apply In_union; left|right; apply in_or_app; left]; assumption.
      * destruct fall_through as [ft|]; [|destruct Hv].
        destruct (Hlist_s ft v ltac:(lia) Hv);
          [left; apply In_union; right; apply In_union; left
          |right; apply in_or_app; right; apply in_or_app; left]; assumption.
      * assert (H : In v (unions (fun b => match b with CaseBranch _ _ _ body _ => unions (statement_dependencies true) body end) branches)
                    \/ In v (flat_map (fun b => match b with CaseBranch _ _ _ body _ => flat_map fdefs_s body end) branches)).
        { revert Hv. apply lift_list. intros b Hb Hv.
          match type of Hsz with context [sum_with ?f branches] => pose proof (sum_with_in f _ _ Hb) as Hsb end.
          cbn beta in Hsb. destruct b as [pat psp var body bsp]. apply (Hlist_s body v ltac:(lia) Hv). }
        destruct H; [left; apply In_union; right; apply In_union; right
                    |right; apply in_or_app; right; apply in_or_app; right]; assumption.
    + (* EFunction *) apply (Hlist_s body v ltac:(lia) Hv).
    + (* EBlob *)
      assert (H : In v (unions (fun f => dependencies true (snd f)) fields) \/ In v (flat_map (fun f => fdefs_e (snd f)) fields)).
      { revert Hv. apply lift_list. intros f Hf Hv.
        match type of Hsz with context [sum_with ?g fields] => pose proof (sum_with_in g _ _ Hf) as Hsf end.
        cbn beta in Hsf.
        apply (IHe (snd f) ltac:(lia) v Hv). }
      destruct H; [left; apply In_ins; right|right]; assumption.
    + (* ECollection *) apply (Hlist_e values v ltac:(lia) Hv).
    + destruct Hv. + destruct Hv. + destruct Hv. + destruct Hv. + destruct Hv.
  - intros s Hsz v Hv. destruct s; cbn [uses_s statement_dependencies fdefs_s size_s] in *; try (destruct Hv; fail).
    + (* SAssignment: the target counts *) apply in_app_or in Hv as [Hv|Hv].
      * destruct (IHe target ltac:(lia) v Hv); [left; apply In_union; left|right; apply in_or_app; left]; assumption.
      * destruct (IHe value ltac:(lia) v Hv); [left; apply In_union; right|right; apply in_or_app; right]; assumption.
    + (* SDefinition *)
      destruct (IHe value ltac:(lia) v Hv) as [Hd|Hf]; [|right; apply in_or_app; right; assumption].
      destruct (is_function_expr value) eqn:Ef.
      * destruct (N.eq_dec v var) as [->|Hne]; [right; left; reflexivity|].
        left. apply In_remove. split; [apply In_union; left; assumption|assumption].
      * left. apply In_union. left. assumption.
    + (* SLoop *) apply in_app_or in Hv as [Hv|Hv].
      * destruct (IHe condition ltac:(lia) v Hv); [left; apply In_union; left|right; apply in_or_app; left]; assumption.
      * destruct (Hlist_s body v ltac:(lia) Hv); [left; apply In_union; right|right; apply in_or_app; right]; assumption.
    + (* SRet *) destruct value as [value|]; [|destruct Hv]. apply (IHe value ltac:(lia) v Hv).
    + (* SBlock *) apply (Hlist_s statements v ltac:(lia) Hv).
    + (* SStatementExpression *) apply (IHe value ltac:(lia) v Hv).
Qed.

(* every variable used (read, called, assigned) anywhere inside a statement is a dependency of it,
   unless it is the variable of a function definition *)
Theorem deps_complete_true s v :
  In v (uses_s s) -> In v (statement_dependencies true s) \/ In v (fdefs_s s).
Proof. apply (proj2 (deps_complete_sized (size_s s)) s (le_n _)). Qed.

(* the statement for an arbitrary variant of the dependency function *)
Definition deps_complete_statement (tgt : bool) : Prop :=
  forall s v, In v (uses_s s) -> In v (statement_dependencies tgt s) \/ In v (fdefs_s s).

Theorem deps_complete_when_targets_counted : deps_complete_statement true.
Proof. intros s v. apply deps_complete_true. Qed.

(* The pinned variant: an assignment to a variable is not a dependency on it.
   Witness (shape of `f :: fn do g = 2 end` with g = variable 7, f = variable 3). *)
Definition sp0 : span := span_zero 0.
Definition deps_witness : stmt :=
  SDefinition "f" 3 Const (TImplied sp0)
    (EFunction "lambda" [] (TResolved BVoid sp0)
       [SAssignment Nop (ERead 7 sp0) (EInt 2 sp0) sp0] false sp0) sp0.

Theorem deps_complete_refuted_when_targets_ignored : ~ deps_complete_statement false.
Proof.
  intros H. specialize (H deps_witness 7%N). cbn in H.
  destruct (H (or_introl eq_refl)) as [[]|[E|[]]]. discriminate E.
Qed.

(* whichever variant the code implements, the statement is decided *)
Theorem deps_complete_dichotomy (tgt : bool) :
  (tgt = true /\ deps_complete_statement tgt) \/ (tgt = false /\ ~ deps_complete_statement tgt).
Proof.
  destruct tgt.
  - left. split; [reflexivity|exact deps_complete_when_targets_counted].
  - right. split; [reflexivity|exact deps_complete_refuted_when_targets_ignored].
Qed.

Lemma deps_witness_refutes :
  exists s v, In v (uses_s s) /\ ~ (In v (statement_dependencies false s) \/ In v (fdefs_s s)).
Proof.
  exists deps_witness, 7%N. split; [left; reflexivity|].
  intros [[]|[E|[]]]. discriminate E.
Qed.
