-- expect: nil	false	2	d	nil	1
-- expect: nil	false
-- expect: nil	zero	e
-- expect: side	false
-- expect: false
-- expect: side	1
-- expect: 1
-- expect: side	nil
-- expect: side	false
-- expect: false
-- expect: yes	no
-- expect: true	true
-- expect: 2	3	nil
-- expect: 1	nil
-- expect: true	true	true
-- expect: 0 is true
-- expect: empty string is true
-- expect: nil is false
print(nil and 1, false and 1, 1 and 2, nil or "d", false or nil, 1 or 2)
print(nil and nil, false or false)
print(1 and nil, 0 and "zero", "" and "e")
local function side(x) print("side", x) return x end
print(side(false) and side(1))
print(side(1) or side(2))
print(side(nil) or side(false))
print(1 == 1 and "yes" or "no", 1 == 2 and "yes" or "no")
print(not nil == true, not (1 == 2))
print(1 and 2 or 3, nil and 2 or 3, false or nil and 1)
print(1 or error("not evaluated"), nil and error("not evaluated"))
print(1 < 2 and 2 < 3, 1 < 2 == true, "a" .. "b" == "ab")
if 0 then print("0 is true") end
if "" then print("empty string is true") end
if not nil then print("nil is false") end
