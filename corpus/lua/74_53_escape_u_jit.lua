-- expect-wf[5.3]: ok
-- expect-wf[jit]: bad invalid escape sequence
-- expect-final[jit]: loaderr
local s = "\u{48}"
