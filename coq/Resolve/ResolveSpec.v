(* The readable specification of lexical name resolution.

   There is no mutable scope stack.  The environment `env` is an explicit list of scopes, innermost
   first; ONE SCOPE PER function / block / if-branch / loop body / case arm / case else-block /
   global initialiser.  A scope is the list of its declarations, newest first.  An identifier refers
   to the innermost enclosing declaration of that name visible at that point (`env_find`), then to
   the globals of the file it is written in (`lookup_global` of the file of its span).  A statement
   returns the environment for the statements that FOLLOW it in the same scope: only a definition
   extends it (a function is visible in its own body, a value only after its definition).  Leaving a
   scope simply forgets it: nothing a nested scope declared can be seen afterwards.

   Everything that is not scoping (the var table and its numbering, the namespace passes, the error
   sites, the shape of the output) is shared with Resolve/Resolver.v, so that
   `resolve fl ast = resolve_spec ast` says exactly: the stack discipline of the code implements
   these scoping rules.  Definitions only. *)
From Coq Require Import String List NArith ZArith Bool.
From Sylt Require Import Syntax.Resolved Resolve.PAst Resolve.Resolver.
Import ListNotations.
Local Open Scope string_scope.

Definition scope := list (string * N).
Definition env := list scope.                      (* innermost first *)

Definition env_flat (e : env) : list (string * N) := concat e.
Definition env_find (e : env) (nm : string) : option N := stack_find (env_flat e) nm.

(* declare `nm -> r` in the innermost scope *)
Definition env_add (e : env) (nm : string) (r : N) : env :=
  match e with
  | [] => [[(nm, r)]]
  | sc :: e' => ((nm, r) :: sc) :: e'
  end.

(* the resolver state seen through an environment: lookups of types and names go through `lookup` *)
Definition with_env (st : rstate) (e : env) : rstate :=
  mkSt (st_ns st) (env_flat e) (st_vars st) (st_next st) (st_n2f st).

Definition lookup_in (e : env) (nm : string) (sp : span) : M N :=
  lift (fun st => lookup (with_env st e) nm sp).
Definition ty_in (e : env) (t : pty) : M ty := lift (fun st => ty_r (with_env st e) t).

(* a sequence of statements in the SAME scope: the environment is threaded *)
Fixpoint seq_with (rs : env -> pstmt -> M (option stmt * env)) (e : env) (ss : list pstmt) : M (list stmt) :=
  match ss with
  | [] => ret []
  | s :: ss' =>
      r <- rs e s ;;
      rest <- seq_with rs (snd r) ss' ;;
      ret (match fst r with Some s' => s' :: rest | None => rest end)
  end.

(* a block: a NEW scope, forgotten at the end *)
Definition scope_with (rs : env -> pstmt -> M (option stmt * env)) (e : env) (ss : list pstmt) : M (list stmt) :=
  seq_with rs ([] :: e) ss.

(* parameters: each is declared (in the function's scope) before its own type is resolved *)
Fixpoint params_spec (e : env) (ps : list (ident * pty)) : M (list (string * N * span * ty) * env) :=
  match ps with
  | [] => ret ([], e)
  | (n, t) :: ps' =>
      v <- new_var n Const ;;
      let e' := env_add e (i_name n) v in
      t' <- ty_in e' t ;;
      r <- params_spec e' ps' ;;
      ret ((i_name n, v, i_span n, t') :: fst r, snd r)
  end.

Definition fields_in (e : env) (fs : list (ident * pty)) : M (list (string * (span * ty))) :=
  lift (fun st => rbind (fields_r (with_env st e) fs) (fun '(oks, errs) =>
                  match errs with [] => Ok oks | _ => Err errs end)).

Fixpoint expr_s (lf : bool) (fuel : nat) (e : env) (x : pexpr) {struct fuel} : M expr :=
  match fuel with
  | 0 => fun _ => OutOfFuel
  | S f =>
    let re := expr_s lf f e in
    let rs := stmt_s lf f in
    match x with
    | PGet a _ => assign_s lf f e a
    | PAdd a b sp => binop_with re Add a b sp
    | PSub a b sp => binop_with re Sub a b sp
    | PMul a b sp => binop_with re Mul a b sp
    | PDiv a b sp => binop_with re Div a b sp
    | PNeg a sp => uniop_with re Neg a sp
    | PComparison a k b sp => binop_with re (cmp_binop k) a b sp
    | PAssertEq a b sp => binop_with re AssertEq a b sp
    | PAnd a b sp => binop_with re And a b sp
    | POr a b sp => binop_with re Or a b sp
    | PNot a sp => uniop_with re Not a sp
    | PParenthesis y _ => re y
    | PIf brs sp =>
        (* every branch body is a scope of its own *)
        brs' <- mapM (fun b => match b with
                               | PIfBranch cond body bsp =>
                                   c <- optM re cond ;;
                                   body' <- scope_with rs e body ;;
                                   ret (IfBranch c body' bsp)
                               end) brs ;;
        ret (EIf brs' sp)
    | PCase tm brs ft sp =>
        tm' <- re tm ;;
        (* every arm is a scope of its own, holding the bound variable *)
        brs' <- mapM (fun b => match b with
                               | PCaseBranch pat v body =>
                                   v' <- optM (fun i => new_var i Const) v ;;
                                   let sc := match v, v' with
                                             | Some i, Some r => [(i_name i, r)]
                                             | _, _ => []
                                             end in
                                   body' <- seq_with rs (sc :: e) body ;;
                                   ret (CaseBranch (i_name pat) (i_span pat) v' body' (i_span pat))
                               end) brs ;;
        ft' <- optM (scope_with rs e) ft ;;
        ret (ECase tm' brs' ft' sp)
    | PFunction nm params rt body pure sp =>
        (* the function's scope: parameters, then the body's own declarations *)
        ps <- params_spec ([] :: e) params ;;
        rt' <- ty_in (snd ps) rt ;;
        body' <- seq_with rs (snd ps) body ;;
        ret (EFunction nm (fst ps) rt' body' pure sp)
    | PBlob blob fields sp =>
        b <- lift (fun st => ty_assignable (with_env st e) blob) ;;
        self_var <- new_var (mkIdent "self" sp) Mutable ;;
        (* `self` is in scope exactly inside the fields that are function literals *)
        fields' <- mapM (fun fld => let '(n, v) := fld in
                                    v' <- expr_s lf f (if is_function v then [("self", self_var)] :: e else e) v ;;
                                    ret (n, v')) fields ;;
        ret (EBlob b fields' self_var sp)
    | PTuple vs sp => vs' <- mapM re vs ;; ret (ECollection CTuple vs' sp)
    | PList vs sp => vs' <- mapM re vs ;; ret (ECollection CList vs' sp)
    | PFloat r sp => ret (EFloat r sp)
    | PInt z sp => ret (EInt z sp)
    | PStr s sp => ret (EStr s sp)
    | PBool b sp => ret (EBool b sp)
    | PNil sp => ret (ENil sp)
    end
  end

with assign_s (lf : bool) (fuel : nat) (e : env) (a : passign) {struct fuel} : M expr :=
  match fuel with
  | 0 => fun _ => OutOfFuel
  | S f =>
    let re := expr_s lf f e in
    match a with
    | ARead i _ =>
        v <- lookup_in e (i_name i) (i_span i) ;;
        ret (ERead v (i_span i))
    | AVariant enum_ass variant value sp =>
        x <- assign_s lf f e enum_ass ;;
        match x with
        | ERead v _ =>
            value' <- re value ;;
            ret (EVariant v (i_name variant) value' sp)
        | _ => fail EVariantNotRead sp
        end
    | ACall fn args sp =>
        fn' <- assign_s lf f e fn ;;
        args' <- mapM re args ;;
        ret (ECall fn' args' sp)
    | AArrowCall extra fn args sp =>
        extra' <- re extra ;;
        fn' <- assign_s lf f e fn ;;
        args' <- mapM re args ;;
        ret (ECall fn' (extra' :: args') sp)
    | AAccess a' i sp =>
        (* `n.x` where n names an imported namespace of this file -- unless (lf = true, the documented
           rule) the root of the chain is a declaration in scope: a local shadows a namespace of the
           same name.  With lf = false the namespace table wins (what the code does: DESIGN 7 row 20). *)
        ns <- lift (fun st => if lf && root_on_stack (with_env st e) a' then Ok None
                              else namespace_list st (sp_file sp) a') ;;
        match ns with
        | Some ns =>
            o <- lift (fun st => lookup_global st ns (i_name i)) ;;
            match o with
            | Some (NName v) => ret (ERead v (i_span i))
            | Some (NNamespace _ _) => fail ENamespaceFound sp
            | None => fail ENothingMatched sp
            end
        | None =>
            v <- assign_s lf f e a' ;;
            ret (EBlobAccess v (i_name i) (i_span i))
        end
    | AIndex a' idx sp =>
        v <- assign_s lf f e a' ;;
        idx' <- re idx ;;
        ret (EIndex v idx' sp)
    | AExpression x _ => re x
    end
  end

with stmt_s (lf : bool) (fuel : nat) (e : env) (s : pstmt) {struct fuel} : M (option stmt * env) :=
  match fuel with
  | 0 => fun _ => OutOfFuel
  | S f =>
    let re := expr_s lf f e in
    let rs := stmt_s lf f in
    let same (o : option stmt) : M (option stmt * env) := ret (o, e) in
    match s with
    | PEmptyStatement _ | PFromUse _ _ _ _ | PUse _ _ _ _ => same None
    | PBlobDef nm vars fields ext sp =>
        v <- lookup_in e (i_name nm) sp ;;
        fields' <- fields_in e fields ;;
        same (Some (SBlob (i_name nm) v sp (map i_name vars) fields' ext))
    | PEnumDef nm vars variants sp =>
        v <- lookup_in e (i_name nm) sp ;;
        variants' <- fields_in e variants ;;
        same (Some (SEnum (i_name nm) v sp (map i_name vars) variants'))
    | PExternalDefinition i k t sp =>
        v <- lookup_in e (i_name i) sp ;;
        t' <- ty_in e t ;;
        same (Some (SExternalDefinition (i_name i) v k t' (i_span i)))
    | PDefinition i k t value sp =>
        match e with
        | [] =>
            (* a global: its initialiser is a scope of its own; the variable is the file's global of
               that name.  (The code allocates a marker variable first; it can never be referred to.) *)
            m <- new_var (mkIdent (stack_begin_name (i_name i)) (i_span i)) k ;;
            value' <- expr_s lf f [[(stack_begin_name (i_name i), m)]] value ;;
            v <- lookup_in [] (i_name i) sp ;;
            t' <- ty_in [] t ;;
            ret (Some (SDefinition (i_name i) v k t' value' (i_span i)), [])
        | _ :: _ =>
            if is_function value then
              (* a function is visible in its own body *)
              v <- new_var i k ;;
              let e' := env_add e (i_name i) v in
              value' <- expr_s lf f e' value ;;
              t' <- ty_in e' t ;;
              ret (Some (SDefinition (i_name i) v k t' value' (i_span i)), e')
            else
              (* a value is visible only after its definition *)
              value' <- re value ;;
              v <- new_var i k ;;
              let e' := env_add e (i_name i) v in
              t' <- ty_in e' t ;;
              ret (Some (SDefinition (i_name i) v k t' value' (i_span i)), e')
        end
    | PAssignment op target value sp =>
        value' <- re value ;;
        target' <- assign_s lf f e target ;;
        same (Some (SAssignment (assign_binop op) target' value' sp))
    | PLoop cond body sp =>
        cond' <- re cond ;;
        (* the loop body is a scope of its own *)
        body' <- rs ([] :: e) body ;;
        same (Some (SLoop cond' (match fst body' with Some b => [b] | None => [] end) sp))
    | PBreak sp => same (Some (SBreak sp))
    | PContinue sp => same (Some (SContinue sp))
    | PRet v sp => v' <- optM re v ;; same (Some (SRet v' sp))
    | PBlock ss sp =>
        ss' <- scope_with rs e ss ;;
        same (Some (SBlock ss' sp))
    | PStatementExpression v sp => v' <- re v ;; same (Some (SStatementExpression v' sp))
    | PUnreachable sp => same (Some (SUnreachable sp))
    end
  end.

(* `fx`: which import pass fills the global tables (Resolver.import_pass): the specification of lexical
   scoping takes the tables of the files as they are after the import pass of the code *)
Definition resolve_spec_m (lf fx : bool) (fuel : nat) (ast : past) : M (list stmt) :=
  _ <- for_each insert_namespace_and_add_definitions ast ;;
  _ <- import_pass fx ast ;;
  out <- seq_with (stmt_s lf fuel) [] (flat_map m_stmts ast) ;;
  start <- lift (fun st => lookup_global st 0 "start") ;;
  match start with
  | None => fail ENoStart (span_zero 0)
  | Some _ => ret out
  end.

Definition resolve_spec_fuel (lf fx : bool) (fuel : nat) (ast : past) : res resolved :=
  match resolve_spec_m lf fx fuel ast (init_state ast) with
  | Ok (out, st) => Ok (mkResolved (rev (st_vars st)) out)
  | Err e => Err e
  | Panic s => Panic s
  | OutOfFuel => OutOfFuel
  end.

(* lf = true: the documented scoping; lf = false: the same with the namespace table consulted before
   the scope for the root of `x.f` *)
Definition resolve_spec_g (lf fx : bool) (ast : past) : res resolved := resolve_spec_fuel lf fx (fuel_of ast) ast.
Definition resolve_spec (fx : bool) (ast : past) : res resolved := resolve_spec_g true fx ast.
Definition resolve_spec_nsfirst (fx : bool) (ast : past) : res resolved := resolve_spec_g false fx ast.
