(* resolve_erases_parens: removing every Parenthesis node does not change the result of name resolution AT ALL
   -- same variables, same statements with the same spans, same first error -- although the fuel computed from
   the (shallower) stripped program is smaller. *)
From Coq Require Import String List NArith ZArith Bool Lia Arith.
From Sylt Require Import Syntax.Resolved Resolve.PAst Resolve.Resolver Resolve.Wf Resolve.Parens
     Resolve.ImportProofs Resolve.ImportFix Resolve.TotalProofs.
Import ListNotations.
Local Open Scope list_scope.

(* ---- combinators ---- *)
Lemma mapM_map_ext {X Y Z} (G : X -> M Z) (G' : Y -> M Z) (h : X -> Y) l :
  (forall x, In x l -> forall st, G x st = G' (h x) st) -> forall st, mapM G l st = mapM G' (map h l) st.
Proof.
  induction l as [|x l IH]; intros H st; cbn [mapM map]; [reflexivity|].
  apply bind_ext; [intros s; apply H; left; reflexivity|]. intros y s.
  apply bind_ext; [intros s'; apply IH; intros z Hz; apply H; right; exact Hz|reflexivity].
Qed.

Lemma block_map_ext (G G' : pstmt -> M (option stmt)) (h : pstmt -> pstmt) l :
  (forall x, In x l -> forall st, G x st = G' (h x) st) -> forall st, block_with G l st = block_with G' (map h l) st.
Proof.
  induction l as [|x l IH]; intros H st; cbn [block_with map]; [reflexivity|].
  apply bind_ext; [intros s; apply H; left; reflexivity|]. intros y s.
  apply bind_ext; [intros s'; apply IH; intros z Hz; apply H; right; exact Hz|reflexivity].
Qed.

(* ---- read-only parts that look at the shape of an assignable ---- *)
Lemma chain_root_strip a : chain_root (strip_a a) = chain_root a.
Proof. induction a; cbn; auto. Qed.

Lemma namespace_file_strip st n a : namespace_file st n (strip_a a) = namespace_file st n a.
Proof. induction a; cbn; auto. rewrite IHa. reflexivity. Qed.

Lemma access_namespace_strip fl st n a : access_namespace fl st n (strip_a a) = access_namespace fl st n a.
Proof.
  unfold access_namespace, root_on_stack, namespace_list. rewrite chain_root_strip, namespace_file_strip. reflexivity.
Qed.

Lemma is_function_strip v : is_function (strip_e v) = is_function v.
Proof. induction v; cbn [strip_e is_function]; auto. Qed.

Section Sim.
Variable fl : rflags.

Definition Qe (f : nat) : Prop := forall x, depth_e x <= f ->
  forall g, depth_e (strip_e x) <= g -> forall st, expr_r fl f x st = expr_r fl g (strip_e x) st.
Definition Qa (f : nat) : Prop := forall a, depth_a a <= f ->
  forall g, depth_a (strip_a a) <= g -> forall st, assign_r fl f a st = assign_r fl g (strip_a a) st.
Definition Qs (f : nat) : Prop := forall s, depth_s s <= f ->
  forall g, depth_s (strip_s s) <= g -> forall st, stmt_r fl f s st = stmt_r fl g (strip_s s) st.

Section Step.
Variables f g : nat.
Hypothesis IHe : forall x, depth_e x <= f -> depth_e (strip_e x) <= g ->
  forall st, expr_r fl f x st = expr_r fl g (strip_e x) st.
Hypothesis IHa : forall a, depth_a a <= f -> depth_a (strip_a a) <= g ->
  forall st, assign_r fl f a st = assign_r fl g (strip_a a) st.
Hypothesis IHs : forall s, depth_s s <= f -> depth_s (strip_s s) <= g ->
  forall st, stmt_r fl f s st = stmt_r fl g (strip_s s) st.

Lemma p_args l : list_max depth_e l <= f -> list_max depth_e (map strip_e l) <= g ->
  forall st, mapM (expr_r fl f) l st = mapM (expr_r fl g) (map strip_e l) st.
Proof.
  intros Hd Hg. apply mapM_map_ext. intros x Hx. apply IHe.
  - pose proof (list_max_in depth_e l x Hx). lia.
  - pose proof (list_max_in depth_e (map strip_e l) (strip_e x) (in_map strip_e l x Hx)). lia.
Qed.

Lemma p_blocks l : list_max depth_s l <= f -> list_max depth_s (map strip_s l) <= g ->
  forall st, block_with (stmt_r fl f) l st = block_with (stmt_r fl g) (map strip_s l) st.
Proof.
  intros Hd Hg. apply block_map_ext. intros x Hx. apply IHs.
  - pose proof (list_max_in depth_s l x Hx). lia.
  - pose proof (list_max_in depth_s (map strip_s l) (strip_s x) (in_map strip_s l x Hx)). lia.
Qed.

Lemma p_optM o :
  match o with Some c => depth_e c | None => 0 end <= f ->
  match o with Some c => depth_e (strip_e c) | None => 0 end <= g ->
  forall st, optM (expr_r fl f) o st = optM (expr_r fl g) (match o with Some c => Some (strip_e c) | None => None end) st.
Proof.
  intros Hd Hg st. destruct o as [c|]; cbn [optM]; [|reflexivity].
  apply bind_ext; [intros s; apply IHe; assumption|reflexivity].
Qed.

Lemma p_binop op a b sp : Nat.max (depth_e a) (depth_e b) <= f ->
  Nat.max (depth_e (strip_e a)) (depth_e (strip_e b)) <= g ->
  forall st, binop_with (expr_r fl f) op a b sp st = binop_with (expr_r fl g) op (strip_e a) (strip_e b) sp st.
Proof.
  intros Hd Hg st. unfold binop_with.
  apply bind_ext; [intros s; apply IHe; lia|]. intros x s.
  apply bind_ext; [intros s'; apply IHe; lia|reflexivity].
Qed.

Lemma p_uniop op a sp : depth_e a <= f -> depth_e (strip_e a) <= g ->
  forall st, uniop_with (expr_r fl f) op a sp st = uniop_with (expr_r fl g) op (strip_e a) sp st.
Proof.
  intros Hd Hg st. unfold uniop_with. apply bind_ext; [intros s; apply IHe; assumption|reflexivity].
Qed.

Lemma step_e x : (forall y sp, x <> PParenthesis y sp) -> depth_e x <= S f ->
  depth_e (strip_e x) <= S g -> forall st, expr_r fl (S f) x st = expr_r fl (S g) (strip_e x) st.
Proof.
  intros Hnp Hd Hg st.
  destruct x; try (exfalso; eapply Hnp; reflexivity);
    cbn [strip_e] in Hg |- *; cbn [expr_r]; cbn [depth_e] in Hd, Hg;
    apply le_S_n in Hd; apply le_S_n in Hg; try reflexivity.
  - apply IHa; assumption.
  - apply p_binop; assumption.
  - apply p_binop; assumption.
  - apply p_binop; assumption.
  - apply p_binop; assumption.
  - apply p_uniop; assumption.
  - apply p_binop; assumption.
  - apply p_binop; assumption.
  - apply p_binop; assumption.
  - apply p_binop; assumption.
  - apply p_uniop; assumption.
  - (* PIf *)
    apply bind_ext; [|reflexivity]. intros s. apply mapM_map_ext. intros b Hb s1.
    match type of Hd with context [list_max ?h branches] => pose proof (list_max_in h _ _ Hb) as Hdb end.
    match type of Hg with context [list_max ?h (map strip_b branches)] =>
      pose proof (list_max_in h _ _ (in_map strip_b _ _ Hb)) as Hgb end.
    destruct b as [c body bsp]. cbn [strip_b] in Hgb |- *. cbn beta iota in Hdb, Hgb. cbn [if_branch_with].
    apply bind_ext; [intros s2; apply p_optM; destruct c; lia|]. intros c' s2.
    apply bind_ext; [reflexivity|]. intros len s3.
    apply bind_ext; [intros s4; apply p_blocks; lia|reflexivity].
  - (* PCase *)
    apply bind_ext; [intros s; apply IHe; lia|]. intros tm' s.
    apply bind_ext.
    { intros s1. apply mapM_map_ext. intros b Hb s2.
      match type of Hd with context [list_max ?h branches] => pose proof (list_max_in h _ _ Hb) as Hdb end.
      match type of Hg with context [list_max ?h (map strip_c branches)] =>
        pose proof (list_max_in h _ _ (in_map strip_c _ _ Hb)) as Hgb end.
      destruct b as [pat v body]. cbn [strip_c] in Hgb |- *. cbn beta iota in Hdb, Hgb. cbn [case_branch_with].
      apply bind_ext; [reflexivity|]. intros len s3.
      apply bind_ext; [reflexivity|]. intros v' s4.
      apply bind_ext; [intros s5; apply p_blocks; lia|reflexivity]. }
    intros brs' s1.
    apply bind_ext; [|reflexivity]. intros s2.
    destruct fall_through as [ft|]; cbn [optM]; [|reflexivity].
    apply bind_ext; [|reflexivity]. intros s3.
    apply bind_ext; [reflexivity|]. intros len s4.
    apply bind_ext; [intros s5; apply p_blocks; lia|reflexivity].
  - (* PFunction *)
    apply bind_ext; [reflexivity|]. intros ss s.
    apply bind_ext; [reflexivity|]. intros ps s1.
    apply bind_ext; [reflexivity|]. intros rt' s2.
    apply bind_ext; [intros s3; apply p_blocks; assumption|reflexivity].
  - (* PBlob *)
    apply bind_ext; [reflexivity|]. intros b s.
    apply bind_ext; [reflexivity|]. intros sv s1.
    apply bind_ext; [|reflexivity]. intros s2.
    apply mapM_map_ext. intros p Hx s3.
    pose proof (list_max_in (fun f0 => depth_e (snd f0)) _ _ Hx) as Hdp.
    match type of Hg with context [list_max ?h (map ?k fields)] =>
      pose proof (list_max_in h _ _ (in_map k _ _ Hx)) as Hgp end.
    destruct p as [n v]. cbn [fst snd] in *.
    cbn [blob_field_with]. rewrite (is_function_strip v).
    apply bind_ext; [reflexivity|]. intros ss s4.
    apply bind_ext; [reflexivity|]. intros u s5.
    apply bind_ext; [intros s6; apply IHe; lia|reflexivity].
  - apply bind_ext; [intros s; apply p_args; assumption|reflexivity].
  - apply bind_ext; [intros s; apply p_args; assumption|reflexivity].
Qed.

Lemma step_a a : depth_a a <= S f -> depth_a (strip_a a) <= S g ->
  forall st, assign_r fl (S f) a st = assign_r fl (S g) (strip_a a) st.
Proof.
  intros Hd Hg st.
  destruct a; cbn [strip_a] in Hg |- *; cbn [assign_r]; cbn [depth_a] in Hd, Hg;
    apply le_S_n in Hd; apply le_S_n in Hg; try reflexivity.
  - apply bind_ext; [intros s; apply IHa; lia|]. intros x s.
    destruct x; try reflexivity.
    apply bind_ext; [intros s1; apply IHe; lia|reflexivity].
  - apply bind_ext; [intros s; apply IHa; lia|]. intros x s.
    apply bind_ext; [intros s1; apply p_args; lia|reflexivity].
  - apply bind_ext; [intros s; apply IHe; lia|]. intros z s.
    apply bind_ext; [intros s1; apply IHa; lia|]. intros x s1.
    apply bind_ext; [intros s2; apply p_args; lia|reflexivity].
  - (* AAccess *)
    apply bind_ext; [intros s; unfold lift; rewrite access_namespace_strip; reflexivity|]. intros ns s.
    destruct ns as [ns|]; [reflexivity|].
    apply bind_ext; [intros s1; apply IHa; assumption|reflexivity].
  - apply bind_ext; [intros s; apply IHa; lia|]. intros x s.
    apply bind_ext; [intros s1; apply IHe; lia|reflexivity].
  - apply IHe; assumption.
Qed.

Lemma step_s s : depth_s s <= S f -> depth_s (strip_s s) <= S g ->
  forall st, stmt_r fl (S f) s st = stmt_r fl (S g) (strip_s s) st.
Proof.
  intros Hd Hg st.
  destruct s; cbn [strip_s] in Hg |- *; try reflexivity.
  - (* PAssignment *)
    cbn [stmt_r]; cbn [depth_s] in Hd, Hg; apply le_S_n in Hd; apply le_S_n in Hg.
    apply bind_ext; [intros s; apply IHe; lia|]. intros y s.
    apply bind_ext; [intros s1; apply IHa; lia|reflexivity].
  - (* PDefinition *)
    cbn [stmt_r]; cbn [depth_s] in Hd, Hg; apply le_S_n in Hd; apply le_S_n in Hg.
    apply bind_ext; [reflexivity|]. intros stack s.
    apply bind_ext; [|reflexivity]. intros s1.
    destruct stack as [|p0 rest].
    + apply bind_ext; [reflexivity|]. intros u s2.
      apply bind_ext; [intros s3; apply IHe; assumption|reflexivity].
    + rewrite (is_function_strip value). destruct (is_function value).
      * apply bind_ext; [reflexivity|]. intros v s2.
        apply bind_ext; [intros s3; apply IHe; assumption|reflexivity].
      * apply bind_ext; [intros s3; apply IHe; assumption|reflexivity].
  - (* PLoop *)
    cbn [stmt_r]; cbn [depth_s] in Hd, Hg; apply le_S_n in Hd; apply le_S_n in Hg.
    apply bind_ext; [intros s0; apply IHe; lia|]. intros c s0.
    apply bind_ext; [intros s1; apply IHs; lia|reflexivity].
  - (* PRet *)
    destruct value as [v|]; [|reflexivity].
    cbn [stmt_r]; cbn [depth_s] in Hd, Hg; apply le_S_n in Hd; apply le_S_n in Hg.
    apply bind_ext; [|reflexivity]. intros s0. cbn [optM].
    apply bind_ext; [intros s1; apply IHe; assumption|reflexivity].
  - (* PBlock *)
    cbn [stmt_r]; cbn [depth_s] in Hd, Hg; apply le_S_n in Hd; apply le_S_n in Hg.
    apply bind_ext; [reflexivity|]. intros len s0.
    apply bind_ext; [intros s1; apply p_blocks; assumption|reflexivity].
  - (* PStatementExpression *)
    cbn [stmt_r]; cbn [depth_s] in Hd, Hg; apply le_S_n in Hd; apply le_S_n in Hg.
    apply bind_ext; [intros s0; apply IHe; assumption|reflexivity].
Qed.

End Step.

Lemma q_all : forall f, Qe f /\ Qa f /\ Qs f.
Proof.
  destruct depth_pos as (De & Da & Ds).
  induction f as [|f (IHe & IHa & IHs)].
  - split; [|split]; intros x Hd; [specialize (De x)|specialize (Da x)|specialize (Ds x)]; lia.
  - split; [|split].
    + intros x Hd g Hg st.
      assert (Hp : (exists y sp, x = PParenthesis y sp) \/ (forall y sp, x <> PParenthesis y sp)).
      { destruct x; try (right; intros y sp0 E; discriminate E). left. eauto. }
      destruct Hp as [(y & sp & ->)|Hnp].
      * cbn [strip_e] in Hg |- *. cbn [expr_r]. cbn [depth_e] in Hd. apply IHe; [lia|assumption].
      * destruct g as [|g]; [pose proof (De (strip_e x)); lia|].
        apply (step_e f g); try assumption; intros; [apply IHe|apply IHa|apply IHs]; assumption.
    + intros a Hd g Hg st. destruct g as [|g]; [pose proof (Da (strip_a a)); lia|].
      apply (step_a f g); try assumption; intros; [apply IHe|apply IHa]; assumption.
    + intros s Hd g Hg st. destruct g as [|g]; [pose proof (Ds (strip_s s)); lia|].
      apply (step_s f g); try assumption; intros; [apply IHe|apply IHa|apply IHs]; assumption.
Qed.

End Sim.

(* ---------------------------------------------------------------------------------------------- *)
(* the passes before the statements do not look inside expressions *)
Lemma defined_ident_strip s : defined_ident (strip_s s) = defined_ident s.
Proof. destruct s; try reflexivity. destruct value; reflexivity. Qed.

Lemma pstmt_span_strip s : pstmt_span (strip_s s) = pstmt_span s.
Proof. destruct s; try reflexivity. destruct value; reflexivity. Qed.

Lemma add_definitions_strip ss : forall t st, add_definitions (map strip_s ss) t st = add_definitions ss t st.
Proof.
  induction ss as [|s ss IH]; intros t st; cbn [map add_definitions]; [reflexivity|].
  rewrite defined_ident_strip, pstmt_span_strip. destruct (defined_ident s) as [[i k]|]; [|apply IH].
  apply bind_ext; [reflexivity|]. intros v s1. destruct (ns_get t (i_name i)); [reflexivity|apply IH].
Qed.

Lemma pass1_strip ast st :
  for_each insert_namespace_and_add_definitions (strip_parens ast) st
  = for_each insert_namespace_and_add_definitions ast st.
Proof.
  unfold strip_parens. rewrite for_each_map. apply for_each_ext. intros m s.
  unfold insert_namespace_and_add_definitions, strip_module. cbn [m_stmts m_file].
  apply bind_ext; [intros s1; apply add_definitions_strip|reflexivity].
Qed.

Lemma rgv_strip f ss : forall st, resolve_global_variables f (map strip_s ss) st = resolve_global_variables f ss st.
Proof.
  induction ss as [|s ss IH]; intros st; cbn [map resolve_global_variables]; [reflexivity|].
  apply bind_ext; [|intros u s1; apply IH]. intros s1. destruct s; try reflexivity. destruct value; reflexivity.
Qed.

Lemma quiet_stmt_strip f s st : quiet_stmt f (strip_s s) st = quiet_stmt f s st.
Proof. destruct s; try reflexivity. destruct value; reflexivity. Qed.

Lemma quiet_round_strip ast st : quiet_round (strip_parens ast) st = quiet_round ast st.
Proof.
  unfold quiet_round, strip_parens. rewrite for_each_map. apply for_each_ext. intros m s.
  unfold quiet_pass, strip_module. cbn [m_stmts m_file]. rewrite for_each_map. apply for_each_ext. intros x s1.
  apply quiet_stmt_strip.
Qed.

Lemma import_rounds_strip ast n : forall st, import_rounds n (strip_parens ast) st = import_rounds n ast st.
Proof.
  induction n as [|n IH]; intros st; cbn [import_rounds]; [reflexivity|].
  rewrite quiet_round_strip. destruct (quiet_round ast st) as [[u s]| | |]; try reflexivity.
  destruct (Nat.eqb (names_count s) (names_count st)); [reflexivity|apply IH].
Qed.

Lemma import_items_strip ast : import_items (strip_parens ast) = import_items ast.
Proof.
  unfold import_items, strip_parens. induction ast as [|m ast IH]; cbn; [reflexivity|]. rewrite IH. f_equal.
  induction (m_stmts m) as [|s ss IHs]; cbn; [reflexivity|]. rewrite IHs. f_equal.
  destruct s; try reflexivity. destruct value; reflexivity.
Qed.

Lemma import_pass_strip b ast st : import_pass b (strip_parens ast) st = import_pass b ast st.
Proof.
  unfold import_pass. apply bind_ext.
  - intros s. destruct b; [|reflexivity]. rewrite import_items_strip. apply import_rounds_strip.
  - intros u s. unfold report_pass, strip_parens. rewrite for_each_map. apply for_each_ext. intros m s1.
    unfold strip_module. cbn [m_stmts m_file]. apply rgv_strip.
Qed.

Lemma flat_stmts_strip ast : flat_map m_stmts (strip_parens ast) = map strip_s (flat_map m_stmts ast).
Proof.
  unfold strip_parens. induction ast as [|m ast IH]; cbn; [reflexivity|]. rewrite IH, map_app. reflexivity.
Qed.

Lemma init_state_strip ast : init_state (strip_parens ast) = init_state ast.
Proof. unfold init_state, strip_parens. rewrite map_map. reflexivity. Qed.

Lemma depth_flat ast s : In s (flat_map m_stmts ast) -> S (depth_s s) <= fuel_of ast.
Proof.
  intros H. apply in_flat_map in H as (m & Hm & Hs). unfold fuel_of.
  pose proof (list_max_in (fun m => list_max depth_s (m_stmts m)) ast m Hm) as H1.
  pose proof (list_max_in depth_s (m_stmts m) s Hs) as H2. cbn beta in H1. lia.
Qed.

(* resolve_erases_parens, for any two amounts of fuel that are enough for the respective program *)
Theorem resolve_fuel_erases_parens fl ast fuel fuel' :
  fuel_of ast <= fuel -> fuel_of (strip_parens ast) <= fuel' ->
  resolve_fuel fl fuel' (strip_parens ast) = resolve_fuel fl fuel ast.
Proof.
  intros Hf Hf'. unfold resolve_fuel, resolve_m. rewrite init_state_strip.
  assert (E : forall st,
    (_ <- for_each insert_namespace_and_add_definitions (strip_parens ast) ;;
     _ <- import_pass (imports_fixpoint fl) (strip_parens ast) ;;
     out <- block_with (stmt_r fl fuel') (flat_map m_stmts (strip_parens ast)) ;;
     start <- lift (fun st => lookup_global st 0 "start") ;;
     match start with None => fail ENoStart (span_zero 0) | Some _ => ret out end) st
    = (_ <- for_each insert_namespace_and_add_definitions ast ;;
       _ <- import_pass (imports_fixpoint fl) ast ;;
       out <- block_with (stmt_r fl fuel) (flat_map m_stmts ast) ;;
       start <- lift (fun st => lookup_global st 0 "start") ;;
       match start with None => fail ENoStart (span_zero 0) | Some _ => ret out end) st).
  { intros st. apply bind_ext; [intros s; apply pass1_strip|]. intros u s.
    apply bind_ext; [intros s1; apply import_pass_strip|]. intros u1 s1.
    apply bind_ext; [|reflexivity]. intros s2. rewrite flat_stmts_strip. symmetry.
    apply block_map_ext. intros x Hx s3.
    destruct (q_all fl fuel) as (_ & _ & Qs'). apply Qs'.
    - pose proof (depth_flat ast x Hx). lia.
    - assert (Hx' : In (strip_s x) (flat_map m_stmts (strip_parens ast))).
      { rewrite flat_stmts_strip. apply in_map. exact Hx. }
      pose proof (depth_flat _ _ Hx'). lia. }
  rewrite E. reflexivity.
Qed.

Theorem resolve_erases_parens fl ast : resolve fl (strip_parens ast) = resolve fl ast.
Proof. unfold resolve. apply resolve_fuel_erases_parens; lia. Qed.
