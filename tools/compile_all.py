#!/usr/bin/env python3
"""Compile every tests/**/*.sy of a checkout with a given sylt binary; write {file: [rc, sha(stdout+lua)]} to a JSON.
usage: compile_all.py <sylt-binary> <repo-root> <out.json>   (used to compare the repo's own corpus across a fix)"""
import sys, os, json, subprocess, hashlib, tempfile
from concurrent.futures import ThreadPoolExecutor
binp, root, outp = sys.argv[1:4]
files = []
for d, _, fs in os.walk(os.path.join(root, "tests")):
    for f in fs:
        if f.endswith(".sy"):
            files.append(os.path.join(d, f))
files.sort()
def one(f):
    with tempfile.TemporaryDirectory() as td:
        o = os.path.join(td, "o.lua")
        try:
            p = subprocess.run([binp, "-o", o, f], capture_output=True, timeout=120)
            lua = open(o, "rb").read() if os.path.exists(o) else b""
            return os.path.relpath(f, root), [p.returncode, hashlib.sha1(p.stdout + p.stderr + lua).hexdigest()]
        except subprocess.TimeoutExpired:
            return os.path.relpath(f, root), ["timeout", ""]
with ThreadPoolExecutor(16) as ex:
    res = dict(ex.map(one, files))
json.dump(res, open(outp, "w"), indent=0, sort_keys=True)
print(len(res), "files")
