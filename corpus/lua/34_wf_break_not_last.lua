-- expect-wf: bad 'break' is not the last statement
while true do
  break
  print('x')
end
