(* resolve_drops_empties: removing every EmptyStatement from every statement list does not change the result of name
   resolution at all (same variables, same statements, same first error); proof after Resolve/ParensProofs.v. *)
From Coq Require Import String List NArith ZArith Bool Lia Arith.
From Sylt Require Import Syntax.Resolved Resolve.PAst Resolve.Resolver Resolve.Wf Resolve.Empties
     Resolve.ImportProofs Resolve.ImportFix Resolve.TotalProofs.
Import ListNotations.
Local Open Scope list_scope.

(* ---- combinators ---- *)
Lemma mapM_map_ext {X Y Z} (G : X -> M Z) (G' : Y -> M Z) (h : X -> Y) l :
  (forall x, In x l -> forall st, G x st = G' (h x) st) -> forall st, mapM G l st = mapM G' (map h l) st.
Proof.
  induction l as [|x l IH]; intros H st; cbn [mapM map]; [reflexivity|].
  apply bind_ext; [intros s; apply H; left; reflexivity|]. intros y s.
  apply bind_ext; [intros s'; apply IH; intros z Hz; apply H; right; exact Hz|reflexivity].
Qed.

Lemma block_map_ext (G G' : pstmt -> M (option stmt)) (h : pstmt -> pstmt) l :
  (forall x, In x l -> forall st, G x st = G' (h x) st) -> forall st, block_with G l st = block_with G' (map h l) st.
Proof.
  induction l as [|x l IH]; intros H st; cbn [block_with map]; [reflexivity|].
  apply bind_ext; [intros s; apply H; left; reflexivity|]. intros y s.
  apply bind_ext; [intros s'; apply IH; intros z Hz; apply H; right; exact Hz|reflexivity].
Qed.

(* ---- read-only parts that look at the shape of an assignable ---- *)
Lemma chain_root_drop a : chain_root (drop_a a) = chain_root a.
Proof. induction a; cbn; auto. Qed.

Lemma namespace_file_drop st n a : namespace_file st n (drop_a a) = namespace_file st n a.
Proof. induction a; cbn; auto. rewrite IHa. reflexivity. Qed.

Lemma access_namespace_drop fl st n a : access_namespace fl st n (drop_a a) = access_namespace fl st n a.
Proof.
  unfold access_namespace, root_on_stack, namespace_list. rewrite chain_root_drop, namespace_file_drop. reflexivity.
Qed.

Lemma is_function_drop v : is_function (drop_e v) = is_function v.
Proof. induction v; cbn [drop_e is_function]; auto. Qed.

Lemma stmt_r_empty fl f sp : 1 <= f -> stmt_r fl f (PEmptyStatement sp) = ret None.
Proof. destruct f; [lia|reflexivity]. Qed.

Lemma bind_ret_r {A} (m : M A) st : bind m (fun x => ret x) st = m st.
Proof. unfold bind, ret. destruct (m st) as [[a s]| | |]; reflexivity. Qed.

Section Sim.
Variable fl : rflags.

Definition Qe (f : nat) : Prop := forall x, depth_e x <= f ->
  forall g, depth_e (drop_e x) <= g -> forall st, expr_r fl f x st = expr_r fl g (drop_e x) st.
Definition Qa (f : nat) : Prop := forall a, depth_a a <= f ->
  forall g, depth_a (drop_a a) <= g -> forall st, assign_r fl f a st = assign_r fl g (drop_a a) st.
Definition Qs (f : nat) : Prop := forall s, depth_s s <= f ->
  forall g, depth_s (drop_s s) <= g -> forall st, stmt_r fl f s st = stmt_r fl g (drop_s s) st.

Section Step.
Variables f g : nat.
Hypothesis IHe : forall x, depth_e x <= f -> depth_e (drop_e x) <= g ->
  forall st, expr_r fl f x st = expr_r fl g (drop_e x) st.
Hypothesis IHa : forall a, depth_a a <= f -> depth_a (drop_a a) <= g ->
  forall st, assign_r fl f a st = assign_r fl g (drop_a a) st.
Hypothesis IHs : forall s, depth_s s <= f -> depth_s (drop_s s) <= g ->
  forall st, stmt_r fl f s st = stmt_r fl g (drop_s s) st.

Lemma p_args l : list_max depth_e l <= f -> list_max depth_e (map drop_e l) <= g ->
  forall st, mapM (expr_r fl f) l st = mapM (expr_r fl g) (map drop_e l) st.
Proof.
  intros Hd Hg. apply mapM_map_ext. intros x Hx. apply IHe.
  - pose proof (list_max_in depth_e l x Hx). lia.
  - pose proof (list_max_in depth_e (map drop_e l) (drop_e x) (in_map drop_e l x Hx)). lia.
Qed.

Lemma p_blocks l : list_max depth_s l <= f -> list_max depth_s (drop_with drop_s l) <= g ->
  forall st, block_with (stmt_r fl f) l st = block_with (stmt_r fl g) (drop_with drop_s l) st.
Proof.
  induction l as [|x l IH]; intros Hd Hg st; [reflexivity|]. cbn [list_max] in Hd.
  cbn [drop_with] in Hg |- *. destruct (is_empty_s x) eqn:Ex.
  - destruct x; try discriminate Ex. cbn [block_with]. rewrite stmt_r_empty; [|cbn [depth_s] in Hd; lia].
    unfold bind at 1. cbn [ret]. rewrite bind_ret_r. apply IH; [lia|exact Hg].
  - cbn [list_max] in Hg. cbn [block_with].
    apply bind_ext; [intros s; apply IHs; lia|]. intros o s.
    apply bind_ext; [intros s'; apply IH; lia|reflexivity].
Qed.

Lemma p_optM o :
  match o with Some c => depth_e c | None => 0 end <= f ->
  match o with Some c => depth_e (drop_e c) | None => 0 end <= g ->
  forall st, optM (expr_r fl f) o st = optM (expr_r fl g) (match o with Some c => Some (drop_e c) | None => None end) st.
Proof.
  intros Hd Hg st. destruct o as [c|]; cbn [optM]; [|reflexivity].
  apply bind_ext; [intros s; apply IHe; assumption|reflexivity].
Qed.

Lemma p_binop op a b sp : Nat.max (depth_e a) (depth_e b) <= f ->
  Nat.max (depth_e (drop_e a)) (depth_e (drop_e b)) <= g ->
  forall st, binop_with (expr_r fl f) op a b sp st = binop_with (expr_r fl g) op (drop_e a) (drop_e b) sp st.
Proof.
  intros Hd Hg st. unfold binop_with.
  apply bind_ext; [intros s; apply IHe; lia|]. intros x s.
  apply bind_ext; [intros s'; apply IHe; lia|reflexivity].
Qed.

Lemma p_uniop op a sp : depth_e a <= f -> depth_e (drop_e a) <= g ->
  forall st, uniop_with (expr_r fl f) op a sp st = uniop_with (expr_r fl g) op (drop_e a) sp st.
Proof.
  intros Hd Hg st. unfold uniop_with. apply bind_ext; [intros s; apply IHe; assumption|reflexivity].
Qed.

Lemma step_e x : depth_e x <= S f ->
  depth_e (drop_e x) <= S g -> forall st, expr_r fl (S f) x st = expr_r fl (S g) (drop_e x) st.
Proof.
  intros Hd Hg st.
  destruct x;
    cbn [drop_e] in Hg |- *; cbn [expr_r]; cbn [depth_e] in Hd, Hg;
    apply le_S_n in Hd; apply le_S_n in Hg; try reflexivity.
  - apply IHa; assumption.
  - apply p_binop; assumption.
  - apply p_binop; assumption.
  - apply p_binop; assumption.
  - apply p_binop; assumption.
  - apply p_uniop; assumption.
  - apply p_binop; assumption.
  - apply p_binop; assumption.
  - apply p_binop; assumption.
  - apply p_binop; assumption.
  - apply p_uniop; assumption.
  - apply IHe; assumption.
  - (* PIf *)
    apply bind_ext; [|reflexivity]. intros s. apply mapM_map_ext. intros b Hb s1.
    match type of Hd with context [list_max ?h branches] => pose proof (list_max_in h _ _ Hb) as Hdb end.
    match type of Hg with context [list_max ?h (map drop_b branches)] =>
      pose proof (list_max_in h _ _ (in_map drop_b _ _ Hb)) as Hgb end.
    destruct b as [c body bsp]. cbn [drop_b] in Hgb |- *. cbn beta iota in Hdb, Hgb. cbn [if_branch_with].
    apply bind_ext; [intros s2; apply p_optM; destruct c; lia|]. intros c' s2.
    apply bind_ext; [reflexivity|]. intros len s3.
    apply bind_ext; [intros s4; apply p_blocks; lia|reflexivity].
  - (* PCase *)
    apply bind_ext; [intros s; apply IHe; lia|]. intros tm' s.
    apply bind_ext.
    { intros s1. apply mapM_map_ext. intros b Hb s2.
      match type of Hd with context [list_max ?h branches] => pose proof (list_max_in h _ _ Hb) as Hdb end.
      match type of Hg with context [list_max ?h (map drop_c branches)] =>
        pose proof (list_max_in h _ _ (in_map drop_c _ _ Hb)) as Hgb end.
      destruct b as [pat v body]. cbn [drop_c] in Hgb |- *. cbn beta iota in Hdb, Hgb. cbn [case_branch_with].
      apply bind_ext; [reflexivity|]. intros len s3.
      apply bind_ext; [reflexivity|]. intros v' s4.
      apply bind_ext; [intros s5; apply p_blocks; lia|reflexivity]. }
    intros brs' s1.
    apply bind_ext; [|reflexivity]. intros s2.
    destruct fall_through as [ft|]; cbn [optM]; [|reflexivity].
    apply bind_ext; [|reflexivity]. intros s3.
    apply bind_ext; [reflexivity|]. intros len s4.
    apply bind_ext; [intros s5; apply p_blocks; lia|reflexivity].
  - (* PFunction *)
    apply bind_ext; [reflexivity|]. intros ss s.
    apply bind_ext; [reflexivity|]. intros ps s1.
    apply bind_ext; [reflexivity|]. intros rt' s2.
    apply bind_ext; [intros s3; apply p_blocks; assumption|reflexivity].
  - (* PBlob *)
    apply bind_ext; [reflexivity|]. intros b s.
    apply bind_ext; [reflexivity|]. intros sv s1.
    apply bind_ext; [|reflexivity]. intros s2.
    apply mapM_map_ext. intros p Hx s3.
    pose proof (list_max_in (fun f0 => depth_e (snd f0)) _ _ Hx) as Hdp.
    match type of Hg with context [list_max ?h (map ?k fields)] =>
      pose proof (list_max_in h _ _ (in_map k _ _ Hx)) as Hgp end.
    destruct p as [n v]. cbn [fst snd] in *.
    cbn [blob_field_with]. rewrite (is_function_drop v).
    apply bind_ext; [reflexivity|]. intros ss s4.
    apply bind_ext; [reflexivity|]. intros u s5.
    apply bind_ext; [intros s6; apply IHe; lia|reflexivity].
  - apply bind_ext; [intros s; apply p_args; assumption|reflexivity].
  - apply bind_ext; [intros s; apply p_args; assumption|reflexivity].
Qed.

Lemma step_a a : depth_a a <= S f -> depth_a (drop_a a) <= S g ->
  forall st, assign_r fl (S f) a st = assign_r fl (S g) (drop_a a) st.
Proof.
  intros Hd Hg st.
  destruct a; cbn [drop_a] in Hg |- *; cbn [assign_r]; cbn [depth_a] in Hd, Hg;
    apply le_S_n in Hd; apply le_S_n in Hg; try reflexivity.
  - apply bind_ext; [intros s; apply IHa; lia|]. intros x s.
    destruct x; try reflexivity.
    apply bind_ext; [intros s1; apply IHe; lia|reflexivity].
  - apply bind_ext; [intros s; apply IHa; lia|]. intros x s.
    apply bind_ext; [intros s1; apply p_args; lia|reflexivity].
  - apply bind_ext; [intros s; apply IHe; lia|]. intros z s.
    apply bind_ext; [intros s1; apply IHa; lia|]. intros x s1.
    apply bind_ext; [intros s2; apply p_args; lia|reflexivity].
  - (* AAccess *)
    apply bind_ext; [intros s; unfold lift; rewrite access_namespace_drop; reflexivity|]. intros ns s.
    destruct ns as [ns|]; [reflexivity|].
    apply bind_ext; [intros s1; apply IHa; assumption|reflexivity].
  - apply bind_ext; [intros s; apply IHa; lia|]. intros x s.
    apply bind_ext; [intros s1; apply IHe; lia|reflexivity].
  - apply IHe; assumption.
Qed.

Lemma step_s s : depth_s s <= S f -> depth_s (drop_s s) <= S g ->
  forall st, stmt_r fl (S f) s st = stmt_r fl (S g) (drop_s s) st.
Proof.
  intros Hd Hg st.
  destruct s; cbn [drop_s] in Hg |- *; try reflexivity.
  - (* PAssignment *)
    cbn [stmt_r]; cbn [depth_s] in Hd, Hg; apply le_S_n in Hd; apply le_S_n in Hg.
    apply bind_ext; [intros s; apply IHe; lia|]. intros y s.
    apply bind_ext; [intros s1; apply IHa; lia|reflexivity].
  - (* PDefinition *)
    cbn [stmt_r]; cbn [depth_s] in Hd, Hg; apply le_S_n in Hd; apply le_S_n in Hg.
    apply bind_ext; [reflexivity|]. intros stack s.
    apply bind_ext; [|reflexivity]. intros s1.
    destruct stack as [|p0 rest].
    + apply bind_ext; [reflexivity|]. intros u s2.
      apply bind_ext; [intros s3; apply IHe; assumption|reflexivity].
    + rewrite (is_function_drop value). destruct (is_function value).
      * apply bind_ext; [reflexivity|]. intros v s2.
        apply bind_ext; [intros s3; apply IHe; assumption|reflexivity].
      * apply bind_ext; [intros s3; apply IHe; assumption|reflexivity].
  - (* PLoop *)
    cbn [stmt_r]; cbn [depth_s] in Hd, Hg; apply le_S_n in Hd; apply le_S_n in Hg.
    apply bind_ext; [intros s0; apply IHe; lia|]. intros c s0.
    apply bind_ext; [intros s1; apply IHs; lia|reflexivity].
  - (* PRet *)
    destruct value as [v|]; [|reflexivity].
    cbn [stmt_r]; cbn [depth_s] in Hd, Hg; apply le_S_n in Hd; apply le_S_n in Hg.
    apply bind_ext; [|reflexivity]. intros s0. cbn [optM].
    apply bind_ext; [intros s1; apply IHe; assumption|reflexivity].
  - (* PBlock *)
    cbn [stmt_r]; cbn [depth_s] in Hd, Hg; apply le_S_n in Hd; apply le_S_n in Hg.
    apply bind_ext; [reflexivity|]. intros len s0.
    apply bind_ext; [intros s1; apply p_blocks; assumption|reflexivity].
  - (* PStatementExpression *)
    cbn [stmt_r]; cbn [depth_s] in Hd, Hg; apply le_S_n in Hd; apply le_S_n in Hg.
    apply bind_ext; [intros s0; apply IHe; assumption|reflexivity].
Qed.

End Step.

Lemma q_all : forall f, Qe f /\ Qa f /\ Qs f.
Proof.
  destruct depth_pos as (De & Da & Ds).
  induction f as [|f (IHe & IHa & IHs)].
  - split; [|split]; intros x Hd; [specialize (De x)|specialize (Da x)|specialize (Ds x)]; lia.
  - split; [|split].
    + intros x Hd g Hg st. destruct g as [|g]; [pose proof (De (drop_e x)); lia|].
      apply (step_e f g); try assumption; intros; [apply IHe|apply IHa|apply IHs]; assumption.
    + intros a Hd g Hg st. destruct g as [|g]; [pose proof (Da (drop_a a)); lia|].
      apply (step_a f g); try assumption; intros; [apply IHe|apply IHa]; assumption.
    + intros s Hd g Hg st. destruct g as [|g]; [pose proof (Ds (drop_s s)); lia|].
      apply (step_s f g); try assumption; intros; [apply IHe|apply IHa|apply IHs]; assumption.
Qed.

End Sim.

(* ---------------------------------------------------------------------------------------------- *)
(* the passes before the statements skip EmptyStatements *)
Lemma defined_ident_drop s : defined_ident (drop_s s) = defined_ident s.
Proof. destruct s; try reflexivity. destruct value; reflexivity. Qed.

Lemma pstmt_span_drop s : pstmt_span (drop_s s) = pstmt_span s.
Proof. destruct s; try reflexivity. destruct value; reflexivity. Qed.

Lemma add_definitions_drop ss : forall t st, add_definitions (drop_with drop_s ss) t st = add_definitions ss t st.
Proof.
  induction ss as [|s ss IH]; intros t st; cbn [drop_with add_definitions]; [reflexivity|].
  destruct (is_empty_s s) eqn:Es.
  - destruct s; try discriminate Es. cbn [defined_ident]. apply IH.
  - cbn [add_definitions]. rewrite defined_ident_drop, pstmt_span_drop. destruct (defined_ident s) as [[i k]|]; [|apply IH].
    apply bind_ext; [reflexivity|]. intros v s1. destruct (ns_get t (i_name i)); [reflexivity|apply IH].
Qed.

Lemma pass1_drop ast st :
  for_each insert_namespace_and_add_definitions (drop_empties ast) st
  = for_each insert_namespace_and_add_definitions ast st.
Proof.
  unfold drop_empties. rewrite for_each_map. apply for_each_ext. intros m s.
  unfold insert_namespace_and_add_definitions, drop_module, drop_list. cbn [m_stmts m_file].
  apply bind_ext; [intros s1; apply add_definitions_drop|reflexivity].
Qed.

Lemma bind_ret_tt_l (k : unit -> M unit) st : bind (ret tt) k st = k tt st.
Proof. reflexivity. Qed.

Lemma rgv_drop f ss : forall st, resolve_global_variables f (drop_with drop_s ss) st = resolve_global_variables f ss st.
Proof.
  induction ss as [|s ss IH]; intros st; cbn [drop_with resolve_global_variables]; [reflexivity|].
  destruct (is_empty_s s) eqn:Es.
  - destruct s; try discriminate Es. rewrite bind_ret_tt_l. apply IH.
  - cbn [resolve_global_variables]. apply bind_ext; [|intros u s1; apply IH]. intros s1.
    destruct s; try reflexivity. destruct value; reflexivity.
Qed.

Lemma quiet_stmt_drop f s st : quiet_stmt f (drop_s s) st = quiet_stmt f s st.
Proof. destruct s; try reflexivity. destruct value; reflexivity. Qed.

Lemma quiet_pass_drop f ss : forall st, quiet_pass f (drop_with drop_s ss) st = quiet_pass f ss st.
Proof.
  unfold quiet_pass. induction ss as [|s ss IH]; intros st; cbn [drop_with for_each]; [reflexivity|].
  destruct (is_empty_s s) eqn:Es.
  - destruct s; try discriminate Es. cbn [quiet_stmt]. rewrite bind_ret_tt_l. apply IH.
  - cbn [for_each]. apply bind_ext; [intros s1; apply quiet_stmt_drop|intros u s1; apply IH].
Qed.

Lemma quiet_round_drop ast st : quiet_round (drop_empties ast) st = quiet_round ast st.
Proof.
  unfold quiet_round, drop_empties. rewrite for_each_map. apply for_each_ext. intros m s.
  unfold drop_module, drop_list. cbn [m_stmts m_file]. apply quiet_pass_drop.
Qed.

Lemma import_rounds_drop ast n : forall st, import_rounds n (drop_empties ast) st = import_rounds n ast st.
Proof.
  induction n as [|n IH]; intros st; cbn [import_rounds]; [reflexivity|].
  rewrite quiet_round_drop. destruct (quiet_round ast st) as [[u s]| | |]; try reflexivity.
  destruct (Nat.eqb (names_count s) (names_count st)); [reflexivity|apply IH].
Qed.

Lemma import_items_drop ast : import_items (drop_empties ast) = import_items ast.
Proof.
  unfold import_items, drop_empties. induction ast as [|m ast IH]; cbn; [reflexivity|]. rewrite IH. f_equal.
  unfold drop_list. induction (m_stmts m) as [|s ss IHs]; cbn; [reflexivity|].
  destruct (is_empty_s s) eqn:Es.
  - destruct s; try discriminate Es. cbn. exact IHs.
  - cbn. rewrite IHs. f_equal. destruct s; try reflexivity. destruct value; reflexivity.
Qed.

Lemma import_pass_drop b ast st : import_pass b (drop_empties ast) st = import_pass b ast st.
Proof.
  unfold import_pass. apply bind_ext.
  - intros s. destruct b; [|reflexivity]. rewrite import_items_drop. apply import_rounds_drop.
  - intros u s. unfold report_pass, drop_empties. rewrite for_each_map. apply for_each_ext. intros m s1.
    unfold drop_module, drop_list. cbn [m_stmts m_file]. apply rgv_drop.
Qed.

Lemma drop_with_app h l1 l2 : drop_with h (l1 ++ l2) = drop_with h l1 ++ drop_with h l2.
Proof.
  induction l1 as [|x l1 IH]; cbn; [reflexivity|]. destruct (is_empty_s x); [exact IH|]. cbn. rewrite IH. reflexivity.
Qed.

Lemma flat_stmts_drop ast : flat_map m_stmts (drop_empties ast) = drop_with drop_s (flat_map m_stmts ast).
Proof.
  unfold drop_empties. induction ast as [|m ast IH]; cbn; [reflexivity|]. rewrite IH, drop_with_app. reflexivity.
Qed.

Lemma init_state_drop ast : init_state (drop_empties ast) = init_state ast.
Proof. unfold init_state, drop_empties. rewrite map_map. reflexivity. Qed.

Lemma list_max_flat ast : list_max depth_s (flat_map m_stmts ast) = list_max (fun m => list_max depth_s (m_stmts m)) ast.
Proof.
  induction ast as [|m ast IH]; cbn; [reflexivity|]. rewrite <- IH.
  induction (m_stmts m) as [|s l IHl]; cbn; [reflexivity|]. rewrite IHl. lia.
Qed.

Theorem resolve_fuel_drops_empties fl ast fuel fuel' :
  fuel_of ast <= fuel -> fuel_of (drop_empties ast) <= fuel' ->
  resolve_fuel fl fuel' (drop_empties ast) = resolve_fuel fl fuel ast.
Proof.
  intros Hf Hf'. unfold resolve_fuel, resolve_m. rewrite init_state_drop.
  assert (E : forall st,
    (_ <- for_each insert_namespace_and_add_definitions (drop_empties ast) ;;
     _ <- import_pass (imports_fixpoint fl) (drop_empties ast) ;;
     out <- block_with (stmt_r fl fuel') (flat_map m_stmts (drop_empties ast)) ;;
     start <- lift (fun st => lookup_global st 0 "start") ;;
     match start with None => fail ENoStart (span_zero 0) | Some _ => ret out end) st
    = (_ <- for_each insert_namespace_and_add_definitions ast ;;
       _ <- import_pass (imports_fixpoint fl) ast ;;
       out <- block_with (stmt_r fl fuel) (flat_map m_stmts ast) ;;
       start <- lift (fun st => lookup_global st 0 "start") ;;
       match start with None => fail ENoStart (span_zero 0) | Some _ => ret out end) st).
  { intros st. apply bind_ext; [intros s; apply pass1_drop|]. intros u s.
    apply bind_ext; [intros s1; apply import_pass_drop|]. intros u1 s1.
    apply bind_ext; [|reflexivity]. intros s2. rewrite flat_stmts_drop. symmetry.
    destruct (q_all fl fuel) as (_ & _ & Qs').
    apply (p_blocks fl fuel fuel').
    - intros x Hdx Hgx s3. apply Qs'; assumption.
    - rewrite list_max_flat. unfold fuel_of in Hf. lia.
    - rewrite <- flat_stmts_drop, list_max_flat. unfold fuel_of in Hf'. lia. }
  rewrite E. reflexivity.
Qed.

Theorem resolve_drops_empties fl ast : resolve fl (drop_empties ast) = resolve fl ast.
Proof. unfold resolve. apply resolve_fuel_drops_empties; lia. Qed.
