(* LuaCore: a fuelled, state-passing interpreter for the Lua subset of LuaAst.v.
   Two dialects (LuaAst.dialect, stored in the state, never changed by a run):
     Lua53  -- PUC-Rio Lua 5.3 built with LUA_COMPAT_5_2, what the repo's CI runs its tests with: the
               REFERENCE semantics of the project;
     LuaJIT -- LuaJIT 2.x without 5.2 compatibility (Lua 5.1 rules + goto/labels): information only.
   Where they differ (everything else is common):
     * numbers.  Lua53: integer and float subtypes (`VNum false q` with q integral / `VNum true q`);
       + - * // % of two integers give an integer, anything with a float a float, / and ^ always a
       float; integer // 0 and % 0 are errors; a float prints with %.14g plus ".0" when that looks like
       an integer, an integer prints in decimal; strings convert to an integer or a float by their
       form; math.floor/ceil give integers, math.abs/min/max/fmod keep the subtype, math.modf, sqrt,
       pow give floats; a numeric for loop is an integer loop iff start and step are integers.
       LuaJIT: one number type (`VNum false q`), printed with %.14g.
       In both: == and table keys compare the mathematical value (t[1.0] is t[1]; the stored key is
       the integer).  64-bit wrap-around of integers is OUT OF SCOPE: integers are unbounded.
     * __eq: Lua53 tries the first operand's handler, then the second's; LuaJIT needs the same handler
       in both.  __lt/__le: likewise, and LuaJIT also needs operands of the same type.  Both fall back
       from __le to not (b < a).  __len on tables: Lua53 only.  __idiv: Lua53 only.
     * library: Lua53 has table.unpack, rawlen, math.type, math.tointeger and no global unpack;
       LuaJIT has the global unpack.  math.pow/atan2/log10 exist in both (LUA_COMPAT_MATHLIB).
       table.insert/remove check positions as Lua 5.3 does in Lua53.
   Definitions only; lemmas live in LuaProofs.v.

   This file is the *definition* of what running a chunk means for every theorem and check that
   talks about emitted Lua; it cannot be compared with a real interpreter in the sandbox, and is
   validated by tools/lua_selftest.py instead.

   SHAPE
   * `value`: nil, booleans, numbers (exact rationals in lowest terms, see LuaNum.v), strings,
     references to tables, references to closures, builtins.
   * `state`: three stores (cells for local variables, tables, closures) each with a next-free
     counter that only grows, and the printed lines (most recent first).
   * every execution of `local x`, of a parameter binding, of a loop variable binding allocates
     a fresh cell; closures capture the environment (name -> cell), hence share upvalues by
     reference and see per-iteration loop variables.
   * all interpreter functions take the fuel first; every recursive call is on the predecessor;
     running out is the distinct result `RFuel`.  Fuel bounds the depth of the call tree where a
     statement sequence, a loop iteration and a list element each count one level.
   * control flow out of statements is a `signal`: normal, break, return values, goto label.

   ASSUMPTIONS / DEVIATIONS (also listed in DESIGN §8)
   * numbers are exact rationals: no rounding, no inf/NaN/-0.  x/0, x%0, non-integer powers, and
     the transcendental and random functions give `RUnsup`.  Float arguments where Lua 5.3 demands an
     integer representation (string.sub, select, ...) are floored instead of rejected.
   * iteration order of `next`/`pairs`: the array part (keys 1..t_asize, the contiguous run that was
     filled in order) in index order, then every other key in order of first insertion.
   * `#t` is the border found by scanning down from t_asize and then up through the other keys;
     on tables without holes it is the unique border.
   * error values carry no "chunk:line:" position prefix; messages follow lvm.c/ldebug.c without
     the variable-name part ("attempt to call a nil value").
   * `tostring` of tables/functions prints a store index, not an address.
   * Lua53: __pairs, __name, ipairs through __index and the table library through metamethods are
     not modelled (raw accesses as in 5.1).
   * strings share one metatable (table 5 of the initial state, __index = the string library) that
     getmetatable("") returns and that indexing, field assignment, calls, arithmetic on
     non-numeral strings, unary minus and `..` consult; `tostring`/`print` do not consult it; no `__len`, `__gc`, `__mode`; `print` converts with the builtin tostring even if
     the global `tostring` was reassigned; no coroutines, `load*`, `require`, io, os, `math.huge`.
   * `goto` may target any label of an enclosing block of the same function activation, or a label
     later in the same block (LuaWf checks the stricter LuaJIT rules statically). *)
From Coq Require Import String Ascii List NArith ZArith QArith Bool.
From Sylt Require Import Lua.LuaAst Lua.LuaLex Lua.LuaParse Lua.LuaMap Lua.LuaNum.
Import ListNotations.
Local Open Scope string_scope.

(* ------------------------------------------------------------------------------------------ *)
(* values, stores *)

Inductive builtin :=
| BAssert | BError | BPcall | BType | BTostring | BTonumber | BPrint
| BSetmetatable | BGetmetatable | BRawget | BRawset | BRawequal
| BNext | BPairs | BIpairs | BIpairsIter | BUnpack | BSelect
| BTableInsert | BTableRemove | BTableConcat
| BStringLen | BStringSub | BStringByte | BStringChar | BStringRep | BStringUpper | BStringLower
| BStringGmatch
| BMathFloor | BMathCeil | BMathAbs | BMathSqrt | BMathMin | BMathMax | BMathFmod | BMathModf
| BMathPow | BMathType | BMathTointeger | BRawlen
| BStringFormat                      (* ADDITIVE: string.format for the formats "%d", "%.14g", "%.17g" only *)
| BUnsupported (name : string).       (* present in the library tables; calling it gives RUnsup *)

Definition builtin_name (b : builtin) : string :=
  match b with
  | BAssert => "assert" | BError => "error" | BPcall => "pcall" | BType => "type"
  | BTostring => "tostring" | BTonumber => "tonumber" | BPrint => "print"
  | BSetmetatable => "setmetatable" | BGetmetatable => "getmetatable"
  | BRawget => "rawget" | BRawset => "rawset" | BRawequal => "rawequal"
  | BNext => "next" | BPairs => "pairs" | BIpairs => "ipairs" | BIpairsIter => "ipairs_iter"
  | BUnpack => "unpack" | BSelect => "select"
  | BTableInsert => "insert" | BTableRemove => "remove" | BTableConcat => "concat"
  | BStringLen => "len" | BStringSub => "sub" | BStringByte => "byte" | BStringChar => "char"
  | BStringRep => "rep" | BStringUpper => "upper" | BStringLower => "lower" | BStringGmatch => "gmatch"
  | BMathFloor => "floor" | BMathCeil => "ceil" | BMathAbs => "abs" | BMathSqrt => "sqrt"
  | BMathMin => "min" | BMathMax => "max" | BMathFmod => "fmod" | BMathModf => "modf" | BMathPow => "pow"
  | BMathType => "type" | BMathTointeger => "tointeger" | BRawlen => "rawlen"
  | BStringFormat => "format"
  | BUnsupported n => n
  end.

Inductive value :=
| VNil
| VBool (b : bool)
| VNum (fl : bool) (q : Q)     (* q in lowest terms.  fl = float subtype (Lua 5.3).  Invariants: in the
                                  LuaJIT dialect fl is always false; in Lua53 fl = false implies q integral *)
| VStr (s : string)
| VTable (id : positive)
| VFun (id : positive)
| VBuiltin (b : builtin).

(* name -> cell *)
Definition env := ptree positive.

Record table := mkTable {
  t_arr : ptree value;              (* keys 1..t_asize; an absent entry is nil *)
  t_asize : N;
  t_hash : list (value * value);    (* every other key, in order of first insertion; a nil value
                                       marks a removed key (kept so that `next` can continue) *)
  t_meta : option positive }.

Record closure := mkClosure { c_env : env; c_params : list string; c_body : block }.

Record state := mkState {
  s_cells : ptree value; s_ncell : positive;
  s_tabs : ptree table;  s_ntab : positive;
  s_clos : ptree closure; s_nclo : positive;
  s_out : list string;                         (* printed lines, most recent first *)
  s_dialect : dialect }.                       (* which Lua is modelled; never changes during a run *)

Definition d53 (st : state) : bool := is53 (s_dialect st).

Definition is_nil (v : value) : bool := match v with VNil => true | _ => false end.
Definition truthy (v : value) : bool := match v with VNil | VBool false => false | _ => true end.

Definition type_name (v : value) : string :=
  match v with
  | VNil => "nil" | VBool _ => "boolean" | VNum _ _ => "number" | VStr _ => "string"
  | VTable _ => "table" | VFun _ | VBuiltin _ => "function"
  end.

(* primitive (raw) equality *)
Definition raw_eqb (a b : value) : bool :=
  match a, b with
  | VNil, VNil => true
  | VBool x, VBool y => Bool.eqb x y
  | VNum _ x, VNum _ y => q_eqb x y          (* 1 == 1.0 *)
  | VStr x, VStr y => String.eqb x y
  | VTable x, VTable y => Pos.eqb x y
  | VFun x, VFun y => Pos.eqb x y
  | VBuiltin x, VBuiltin y => String.eqb (builtin_name x) (builtin_name y)
  | _, _ => false
  end.

Definition first (vs : list value) : value := match vs with v :: _ => v | [] => VNil end.
Definition arg (i : nat) (vs : list value) : value := nth i vs VNil.

(* ---- cells ---- *)

Definition get_cell (st : state) (c : positive) : value :=
  match pget c (s_cells st) with Some v => v | None => VNil end.

Definition set_cell (st : state) (c : positive) (v : value) : state :=
  mkState (pset c v (s_cells st)) (s_ncell st) (s_tabs st) (s_ntab st) (s_clos st) (s_nclo st) (s_out st) (s_dialect st).

Definition alloc_cell (st : state) (v : value) : positive * state :=
  let c := s_ncell st in
  (c, mkState (pset c v (s_cells st)) (Pos.succ c) (s_tabs st) (s_ntab st) (s_clos st) (s_nclo st) (s_out st) (s_dialect st)).

(* bind names to fresh cells holding the corresponding values (nil when there are too few) *)
Fixpoint bind_locals (e : env) (xs : list string) (vs : list value) (st : state) : env * state :=
  match xs with
  | [] => (e, st)
  | x :: xs' =>
      let (c, st1) := alloc_cell st (first vs) in
      bind_locals (sset x c e) xs' (tl vs) st1
  end.

(* ---- tables ---- *)

Definition empty_table : table := mkTable PLeaf 0%N [] None.

Definition get_table (st : state) (id : positive) : table :=
  match pget id (s_tabs st) with Some t => t | None => empty_table end.

Definition put_table (st : state) (id : positive) (t : table) : state :=
  mkState (s_cells st) (s_ncell st) (pset id t (s_tabs st)) (s_ntab st) (s_clos st) (s_nclo st) (s_out st) (s_dialect st).

Definition alloc_table (st : state) (t : table) : positive * state :=
  let id := s_ntab st in
  (id, mkState (s_cells st) (s_ncell st) (pset id t (s_tabs st)) (Pos.succ id) (s_clos st) (s_nclo st) (s_out st) (s_dialect st)).

Definition alloc_closure (st : state) (c : closure) : positive * state :=
  let id := s_nclo st in
  (id, mkState (s_cells st) (s_ncell st) (s_tabs st) (s_ntab st) (pset id c (s_clos st)) (Pos.succ id) (s_out st) (s_dialect st)).

Definition emit_line (st : state) (l : string) : state :=
  mkState (s_cells st) (s_ncell st) (s_tabs st) (s_ntab st) (s_clos st) (s_nclo st) (l :: s_out st) (s_dialect st).

(* a key that is a positive integer *)
Definition int_key (k : value) : option positive :=
  match k with
  | VNum _ q => if q_is_int q then match Qnum q with Zpos p => Some p | _ => None end else None
  | _ => None
  end.

Definition vint (n : N) : value := VNum false (q_int (Z.of_N n)).
Definition vz (z : Z) : value := VNum false (q_int z).

(* a float key with an integral value is the integer key (t[1.0] is t[1]) *)
Definition norm_key (k : value) : value :=
  match k with
  | VNum true q => if q_is_int q then VNum false q else k
  | _ => k
  end.

Fixpoint assoc_get (k : value) (l : list (value * value)) : value :=
  match l with
  | [] => VNil
  | (k', v) :: l' => if raw_eqb k k' then v else assoc_get k l'
  end.

Fixpoint assoc_mem (k : value) (l : list (value * value)) : bool :=
  match l with
  | [] => false
  | (k', _) :: l' => if raw_eqb k k' then true else assoc_mem k l'
  end.

(* update in place, or append; storing nil under an absent key does nothing *)
Fixpoint assoc_set (k v : value) (l : list (value * value)) : list (value * value) :=
  match l with
  | [] => if is_nil v then [] else [(k, v)]
  | (k', v') :: l' => if raw_eqb k k' then (k', v) :: l' else (k', v') :: assoc_set k v l'
  end.

Definition arr_get (t : table) (p : positive) : value :=
  match pget p (t_arr t) with Some v => v | None => VNil end.

Definition raw_get (t : table) (k : value) : value :=
  match int_key k with
  | Some p => if (Npos p <=? t_asize t)%N then arr_get t p else assoc_get k (t_hash t)
  | None => assoc_get k (t_hash t)
  end.

Definition hash_set (t : table) (k v : value) : table :=
  mkTable (t_arr t) (t_asize t) (assoc_set (norm_key k) v (t_hash t)) (t_meta t).

(* k is not nil.  An integer key extends the array part only when it is exactly t_asize + 1 and is
   not already present among the other keys. *)
Definition raw_set (t : table) (k v : value) : table :=
  match int_key k with
  | Some p =>
      if (Npos p <=? t_asize t)%N then
        mkTable (if is_nil v then pdel p (t_arr t) else pset p v (t_arr t)) (t_asize t) (t_hash t) (t_meta t)
      else if (Npos p =? t_asize t + 1)%N && negb (assoc_mem k (t_hash t)) then
        if is_nil v then t
        else mkTable (pset p v (t_arr t)) (Npos p) (t_hash t) (t_meta t)
      else hash_set t k v
  | None => hash_set t k v
  end.

(* largest j' <= j with a non-nil array entry, 0 if none *)
Fixpoint arr_top (fuel : nat) (t : table) (j : N) : N :=
  match fuel with
  | O => 0%N
  | S f =>
      match j with
      | N0 => 0%N
      | Npos p => if is_nil (arr_get t p) then arr_top f t (N.pred j) else j
      end
  end.

(* continue a border upwards through the non-array keys *)
Fixpoint hash_border (fuel : nat) (t : table) (j : N) : N :=
  match fuel with
  | O => j
  | S f => if is_nil (assoc_get (vint (j + 1)) (t_hash t)) then j else hash_border f t (j + 1)%N
  end.

Definition raw_len (t : table) : N :=
  let n := t_asize t in
  let top :=
    match n with
    | N0 => 0%N
    | Npos p => if is_nil (arr_get t p) then arr_top (N.to_nat n) t n else n
    end in
  if (top =? n)%N then
    match t_hash t with [] => top | _ => hash_border (List.length (t_hash t)) t top end
  else top.

(* first non-nil array entry at index >= i *)
Fixpoint arr_scan_up (fuel : nat) (t : table) (i : N) : option (value * value) :=
  match fuel with
  | O => None
  | S f =>
      if (t_asize t <? i)%N then None else
      match i with
      | N0 => None
      | Npos p =>
          let v := arr_get t p in
          if is_nil v then arr_scan_up f t (i + 1)%N else Some (vint i, v)
      end
  end.

Fixpoint hash_first (l : list (value * value)) : option (value * value) :=
  match l with
  | [] => None
  | (k, v) :: l' => if is_nil v then hash_first l' else Some (k, v)
  end.

(* the entries after key k; None when k is not a key *)
Fixpoint hash_after (k : value) (l : list (value * value)) : option (list (value * value)) :=
  match l with
  | [] => None
  | (k', _) :: l' => if raw_eqb k k' then Some l' else hash_after k l'
  end.

Definition arr_from (t : table) (i : N) : option (value * value) :=
  match i with
  | N0 => None
  | Npos p =>
      if (t_asize t <? i)%N then None else
      let v := arr_get t p in
      if is_nil v then arr_scan_up (N.to_nat (t_asize t - i)) t (i + 1)%N else Some (vint i, v)
  end.

Inductive next_result := NextInvalid | NextEnd | NextPair (k v : value).

Definition opt_pair (o : option (value * value)) : next_result :=
  match o with Some (k, v) => NextPair k v | None => NextEnd end.

Definition array_then_hash (t : table) (i : N) : next_result :=
  match arr_from t i with
  | Some (k, v) => NextPair k v
  | None => opt_pair (hash_first (t_hash t))
  end.

Definition next_in_hash (t : table) (k : value) : next_result :=
  match hash_after k (t_hash t) with
  | Some rest => opt_pair (hash_first rest)
  | None => NextInvalid
  end.

Definition table_next (t : table) (k : value) : next_result :=
  match k with
  | VNil => array_then_hash t 1%N
  | _ =>
      match int_key k with
      | Some p => if (Npos p <=? t_asize t)%N then array_then_hash t (Npos p + 1)%N else next_in_hash t k
      | None => next_in_hash t k
      end
  end.

(* ---- conversions ---- *)

Definition hex_digit (n : N) : ascii := ascii_of_N (if (n <? 10)%N then 48 + n else 87 + n)%N.

Fixpoint n_to_hex_go (digits : nat) (n : N) (acc : string) : string :=
  match digits with
  | O => acc
  | S d => n_to_hex_go d (n / 16)%N (String (hex_digit (n mod 16)%N) acc)
  end.

Definition addr_text (id : positive) : string := "0x" ++ n_to_hex_go 8 (Npos id) "".

(* tostring without metamethods; is53: Lua 5.3 number formatting *)
Definition tostring_basic (is53 : bool) (v : value) : string :=
  match v with
  | VNil => "nil"
  | VBool true => "true"
  | VBool false => "false"
  | VNum fl q => fmt_num is53 fl q
  | VStr s => s
  | VTable id => "table: " ++ addr_text id
  | VFun id => "function: " ++ addr_text id
  | VBuiltin b => "function: builtin: " ++ builtin_name b
  end.

Fixpoint trim_right_rev (s : string) : string :=       (* s reversed: drop leading white space *)
  match s with
  | String c s' => if is_space c || is_newline c then trim_right_rev s' else s
  | EmptyString => EmptyString
  end.

Definition trim (s : string) : string := srev (trim_right_rev (srev (skip_space s))).

(* string -> number as in lua_tonumber / tonumber(s) *)
Definition str_to_num (s : string) : option (bool * Q) :=
  match trim s with
  | String "-"%char r => match parse_number r with Some (fl, q) => Some (fl, q_neg q) | None => None end
  | String "+"%char r => parse_number r
  | t => parse_number t
  end.

(* numbers, and strings that look like numbers (Lua coerces them in arithmetic) *)
Definition to_num (v : value) : option (bool * Q) :=
  match v with
  | VNum fl q => Some (fl, q)
  | VStr s => str_to_num s
  | _ => None
  end.

(* a number value in the state's dialect: the float flag only exists in Lua 5.3 *)
Definition mknum (st : state) (fl : bool) (q : Q) : value := VNum (d53 st && fl) q.

(* byte-wise lexicographic order (strcoll in the C locale) *)
Fixpoint str_ltb (a b : string) : bool :=
  match a, b with
  | _, EmptyString => false
  | EmptyString, String _ _ => true
  | String x a', String y b' =>
      if (code x <? code y)%N then true
      else if (code y <? code x)%N then false
      else str_ltb a' b'
  end.

Definition str_leb (a b : string) : bool := negb (str_ltb b a).

(* ------------------------------------------------------------------------------------------ *)
(* results *)

Inductive res (A : Type) :=
| ROk (a : A) (s : state)
| RErr (v : value) (s : state)        (* a Lua error carrying its error value *)
| RFuel (s : state)
| RUnsup (what : string) (s : state).
Arguments ROk {A} a s.
Arguments RErr {A} v s.
Arguments RFuel {A} s.
Arguments RUnsup {A} what s.

Definition bind {A B : Type} (r : res A) (f : A -> state -> res B) : res B :=
  match r with
  | ROk a s => f a s
  | RErr v s => RErr v s
  | RFuel s => RFuel s
  | RUnsup w s => RUnsup w s
  end.

Local Notation "'do*' x , s <- e ; f" := (bind e (fun x s => f))
  (at level 200, x name, s name, e at level 100, f at level 200).

Definition err {A : Type} (msg : string) (st : state) : res A := RErr (VStr msg) st.

Inductive signal :=
| SigNormal
| SigBreak
| SigReturn (vs : list value)
| SigGoto (l : string).

(* labels already passed in the current block: label -> (environment there, statements after it) *)
Definition seen_labels := list (string * (env * block)).

Fixpoint seen_find (l : string) (seen : seen_labels) : option (env * block * seen_labels) :=
  match seen with
  | [] => None
  | (l', (e, b)) :: rest =>
      if String.eqb l l' then Some (e, b, seen) else seen_find l rest
  end.

(* forward search for label l in the rest of the block; labels passed over become `seen` *)
Fixpoint scan_label (l : string) (e : env) (b : block) (seen : seen_labels) : option (block * seen_labels) :=
  match b with
  | [] => None
  | SLabel l' :: b' =>
      let seen' := (l', (e, b')) :: seen in
      if String.eqb l l' then Some (b', seen') else scan_label l e b' seen'
  | _ :: b' => scan_label l e b' seen
  end.

(* where an assignment stores *)
Inductive lref :=
| LCell (c : positive)
| LGlobal (x : string)
| LIndex (t k : value).

Definition globals_id : positive := 1%positive.
Definition string_lib_id : positive := 2%positive.
Definition table_lib_id : positive := 3%positive.
Definition math_lib_id : positive := 4%positive.
(* the metatable shared by all strings: an ordinary table, created in the initial state with
   __index = the string library; getmetatable("") returns it, programs may add fields to it *)
Definition string_meta_id : positive := 5%positive.

(* the metamethod `name` of v, nil if none (only tables have metatables here) *)
Definition metamethod (st : state) (v : value) (name : string) : value :=
  match v with
  | VTable id =>
      match t_meta (get_table st id) with
      | Some m => raw_get (get_table st m) (VStr name)
      | None => VNil
      end
  | _ => VNil
  end.

(* like `metamethod`, and for a string the field `name` of the string metatable.
   Used where a string operand can reach a metamethod: arithmetic on a string that is not a numeral,
   concatenation, unary minus, indexing, assigning a field, calling.  (`tostring` and `print` keep using
   `metamethod`: a __tostring field put into the string metatable is NOT consulted -- documented deviation.) *)
Definition metamethod_s (st : state) (v : value) (name : string) : value :=
  match v with
  | VStr _ => raw_get (get_table st string_meta_id) (VStr name)
  | _ => metamethod st v name
  end.

Definition raw_set_in (st : state) (id : positive) (k v : value) : state :=
  put_table st id (raw_set (get_table st id) k v).

(* store positional values vs at indices i, i+1, ... *)
Fixpoint set_positional (st : state) (id : positive) (i : N) (vs : list value) : state :=
  match vs with
  | [] => st
  | v :: vs' => set_positional (raw_set_in st id (vint i) v) id (i + 1)%N vs'
  end.

(* ------------------------------------------------------------------------------------------ *)
(* builtins that do not call back into the interpreter *)

Definition bad_arg {A : Type} (i : N) (fname : string) (expected : string) (got : string) (st : state) : res A :=
  err ("bad argument #" ++ n_to_dec i ++ " to '" ++ fname ++ "' (" ++ expected ++ " expected, got " ++ got ++ ")") st.

(* how luaL_typerror names the i-th argument (0-based): its type, or "no value" when absent *)
Definition arg_type_name (i : nat) (args : list value) : string :=
  match nth_error args i with Some v => type_name v | None => "no value" end.

(* a numeric argument with its subtype flag *)
Definition numf_arg (i : nat) (fname : string) (args : list value) (st : state) : res (bool * Q) :=
  match to_num (arg i args) with
  | Some p => ROk p st
  | None => bad_arg (N.of_nat (S i)) fname "number" (arg_type_name i args) st
  end.

Definition num_arg (i : nat) (fname : string) (args : list value) (st : state) : res Q :=
  match to_num (arg i args) with
  | Some p => ROk (snd p) st
  | None => bad_arg (N.of_nat (S i)) fname "number" (arg_type_name i args) st
  end.

(* optional numeric argument with a default *)
Definition opt_num_arg (i : nat) (fname : string) (args : list value) (dflt : Q) (st : state) : res Q :=
  match arg i args with
  | VNil => ROk dflt st
  | _ => num_arg i fname args st
  end.

Definition str_arg (i : nat) (fname : string) (args : list value) (st : state) : res string :=
  match arg i args with
  | VStr s => ROk s st
  | VNum fl q => ROk (fmt_num (d53 st) fl q) st
  | _ => bad_arg (N.of_nat (S i)) fname "string" (arg_type_name i args) st
  end.

Definition tab_arg (i : nat) (fname : string) (args : list value) (st : state) : res positive :=
  match arg i args with
  | VTable id => ROk id st
  | _ => bad_arg (N.of_nat (S i)) fname "table" (arg_type_name i args) st
  end.

(* string positions as in str_find_aux/posrelat: negative counts from the end *)
Definition posrelat (p : Z) (len : Z) : Z := if (p <? 0)%Z then Z.max 0 (len + p + 1) else p.

Fixpoint bytes_of (s : string) : list value :=
  match s with
  | EmptyString => []
  | String c s' => vint (code c) :: bytes_of s'
  end.

Fixpoint string_rep (s : string) (n : nat) : string :=
  match n with O => "" | S n' => s ++ string_rep s n' end.

Definition upper_char (c : ascii) : ascii :=
  let n := code c in if ((97 <=? n) && (n <=? 122))%N then ascii_of_N (n - 32) else c.
Definition lower_char (c : ascii) : ascii :=
  let n := code c in if ((65 <=? n) && (n <=? 90))%N then ascii_of_N (n + 32) else c.
Fixpoint map_string (f : ascii -> ascii) (s : string) : string :=
  match s with EmptyString => EmptyString | String c s' => String (f c) (map_string f s') end.

(* maximal runs of non-space characters: the matches of the pattern "([^%s]+)" (and "%S+") *)
Fixpoint words (s : string) (cur : string) : list string :=
  let flush (rest : list string) := match cur with EmptyString => rest | _ => srev cur :: rest end in
  match s with
  | EmptyString => flush []
  | String c s' =>
      if is_space c || is_newline c then
        match cur with
        | EmptyString => words s' EmptyString
        | _ => srev cur :: words s' EmptyString
        end
      else words s' (String c cur)
  end.

(* the iterator returned by gmatch, as a closure over two fresh cells:
     function() i = i + 1; return t[i] end                                              *)
Definition gmatch_iter_body : block :=
  [SAssign [EVar "i"] [EBin OAdd (EVar "i") (ENum false (q_int 1))];
   SReturn [EIndex (EVar "t") (EVar "i")]].

Fixpoint shift_up (fuel : nat) (t : table) (i : N) (pos : N) : table :=
  (* for j = i down to pos: t[j+1] = t[j] *)
  match fuel with
  | O => t
  | S f =>
      if (i <? pos)%N then t
      else shift_up f (raw_set t (vint (i + 1)) (raw_get t (vint i))) (N.pred i) pos
  end.

Fixpoint shift_down (fuel : nat) (t : table) (i : N) (n : N) : table :=
  (* for j = i to n-1: t[j] = t[j+1] *)
  match fuel with
  | O => t
  | S f =>
      if (n <=? i)%N then t
      else shift_down f (raw_set t (vint i) (raw_get t (vint (i + 1)))) (i + 1)%N n
  end.

Fixpoint unpack_range (fuel : nat) (t : table) (i : Z) (j : Z) : list value :=
  match fuel with
  | O => []
  | S f => if (j <? i)%Z then [] else raw_get t (vz i) :: unpack_range f t (i + 1)%Z j
  end.

Fixpoint concat_range (is53 : bool) (fuel : nat) (t : table) (sep : string) (i j : Z) : option string + Z :=
  (* inr k: the element at index k is not a string or number *)
  match fuel with
  | O => inl (Some "")
  | S f =>
      if (j <? i)%Z then inl (Some "") else
      match raw_get t (vz i) with
      | (VStr _ | VNum _ _) as v =>
          if (i =? j)%Z then inl (Some (tostring_basic is53 v)) else
          match concat_range is53 f t sep (i + 1)%Z j with
          | inl (Some rest) => inl (Some (tostring_basic is53 v ++ sep ++ rest))
          | other => other
          end
      | _ => inr i
      end
  end.

(* math.min / math.max: the chosen argument keeps its subtype *)
Fixpoint fold_num (pick : bool * Q -> bool * Q -> bool * Q) (fname : string) (i : nat) (acc : bool * Q)
                  (rest : list value) (st : state) : res (list value) :=
  match rest with
  | [] => ROk [mknum st (fst acc) (snd acc)] st
  | v :: rest' =>
      match to_num v with
      | Some p => fold_num pick fname (S i) (pick acc p) rest' st
      | None => bad_arg (N.of_nat (S i)) fname "number" (type_name v) st
      end
  end.

Fixpoint chars_of (i : nat) (vs : list value) (st : state) : res string :=
  match vs with
  | [] => ROk "" st
  | v :: vs' =>
      match to_num v with
      | Some (_, q) =>
          if q_is_int q && (0 <=? Qnum q)%Z && (Qnum q <=? 255)%Z then
            do* rest, st1 <- chars_of (S i) vs' st;
            ROk (String (ascii_of_N (Z.to_N (Qnum q))) rest) st1
          else err ("bad argument #" ++ n_to_dec (N.of_nat (S i)) ++ " to 'char' (invalid value)") st
      | None => bad_arg (N.of_nat (S i)) "char" "number" (type_name v) st
      end
  end.

Definition pure_builtin (b : builtin) (args : list value) (st : state) : res (list value) :=
  match b with
  | BAssert =>
      match args with
      | [] => bad_arg 1 "assert" "value" "no value" st
      | v :: rest =>
          if truthy v then ROk args st
          else match rest with
               | [] => err "assertion failed!" st
               | m :: _ => RErr m st
               end
      end
  | BError => RErr (arg 0 args) st
  | BType =>
      match args with
      | [] => bad_arg 1 "type" "value" "no value" st
      | v :: _ => ROk [VStr (type_name v)] st
      end
  | BTonumber =>
      match arg 1 args with
      | VNil =>
          match args with
          | [] => bad_arg 1 "tonumber" "value" "no value" st
          | v :: _ => ROk [match to_num v with Some (fl, q) => mknum st fl q | None => VNil end] st
          end
      | _ => RUnsup "tonumber with a base" st
      end
  | BSetmetatable =>
      do* id, st1 <- tab_arg 0 "setmetatable" args st;
      let t := get_table st1 id in
      if negb (is_nil (metamethod st1 (VTable id) "__metatable"))
      then err "cannot change a protected metatable" st1 else
      match arg 1 args with
      | VNil => ROk [VTable id] (put_table st1 id (mkTable (t_arr t) (t_asize t) (t_hash t) None))
      | VTable m => ROk [VTable id] (put_table st1 id (mkTable (t_arr t) (t_asize t) (t_hash t) (Some m)))
      | _ => err "bad argument #2 to 'setmetatable' (nil or table expected)" st1
      end
  | BGetmetatable =>
      match arg 0 args with
      | VTable id =>
          match t_meta (get_table st id) with
          | Some m =>
              let protected := raw_get (get_table st m) (VStr "__metatable") in
              ROk [if is_nil protected then VTable m else protected] st
          | None => ROk [VNil] st
          end
      | VStr _ =>
          let protected := raw_get (get_table st string_meta_id) (VStr "__metatable") in
          ROk [if is_nil protected then VTable string_meta_id else protected] st
      | _ => ROk [VNil] st
      end
  | BRawget =>
      do* id, st1 <- tab_arg 0 "rawget" args st;
      ROk [raw_get (get_table st1 id) (arg 1 args)] st1
  | BRawset =>
      do* id, st1 <- tab_arg 0 "rawset" args st;
      match arg 1 args with
      | VNil => err "table index is nil" st1
      | k => ROk [VTable id] (raw_set_in st1 id k (arg 2 args))
      end
  | BRawequal => ROk [VBool (raw_eqb (arg 0 args) (arg 1 args))] st
  | BNext =>
      do* id, st1 <- tab_arg 0 "next" args st;
      match table_next (get_table st1 id) (arg 1 args) with
      | NextPair k v => ROk [k; v] st1
      | NextEnd => ROk [VNil] st1
      | NextInvalid => err "invalid key to 'next'" st1
      end
  | BPairs =>
      do* id, st1 <- tab_arg 0 "pairs" args st;
      ROk [VBuiltin BNext; VTable id; VNil] st1
  | BIpairs =>
      do* id, st1 <- tab_arg 0 "ipairs" args st;
      ROk [VBuiltin BIpairsIter; VTable id; vint 0] st1
  | BIpairsIter =>
      do* id, st1 <- tab_arg 0 "ipairs_iter" args st;
      do* i, st2 <- num_arg 1 "ipairs_iter" args st1;
      let k := VNum false (q_add i (q_int 1)) in
      let v := raw_get (get_table st2 id) k in
      if is_nil v then ROk [VNil] st2 else ROk [k; v] st2
  | BUnpack =>
      do* id, st1 <- tab_arg 0 "unpack" args st;
      let t := get_table st1 id in
      do* i, st2 <- opt_num_arg 1 "unpack" args (q_int 1) st1;
      do* j, st3 <- opt_num_arg 2 "unpack" args (q_int (Z.of_N (raw_len t))) st2;
      let i := q_floor i in
      let j := q_floor j in
      ROk (unpack_range (Z.to_nat (j - i + 1)) t i j) st3
  | BSelect =>
      match args with
      | VStr "#" :: rest => ROk [vint (N.of_nat (List.length rest))] st
      | _ =>
          do* n, st1 <- num_arg 0 "select" args st;
          let n := q_floor n in
          let cnt := Z.of_nat (List.length args - 1) in
          if (0 <? n)%Z then ROk (skipn (Z.to_nat n) args) st1
          else if ((n <? 0) && (- n <=? cnt))%Z then ROk (skipn (Z.to_nat (cnt + n + 1)) args) st1
          else err "bad argument #1 to 'select' (index out of range)" st1
      end
  | BTableInsert =>
      do* id, st1 <- tab_arg 0 "insert" args st;
      let t := get_table st1 id in
      let n := raw_len t in
      match args with
      | [_; v] => ROk [] (put_table st1 id (raw_set t (vint (n + 1)) v))
      | [_; _; v] =>
          do* p, st2 <- num_arg 1 "insert" args st1;
          let p := q_floor p in
          if d53 st2 && ((p <? 1) || (Z.of_N n + 1 <? p))%Z then
            err "bad argument #2 to 'insert' (position out of bounds)" st2
          else if (p <=? 0)%Z then
            (* Lua 5.1 performs the shifting loop from n down to p and then stores at p; positions
               below 1 are not used by any program we run *)
            RUnsup "table.insert at a position below 1" st2
          else
            let pos := Z.to_N p in
            let t1 := shift_up (S (N.to_nat (n - pos))) t n pos in
            ROk [] (put_table st2 id (raw_set t1 (vint pos) v))
      | _ => err "wrong number of arguments to 'insert'" st1
      end
  | BTableRemove =>
      do* id, st1 <- tab_arg 0 "remove" args st;
      let t := get_table st1 id in
      let n := raw_len t in
      do* p, st2 <- opt_num_arg 1 "remove" args (q_int (Z.of_N n)) st1;
      let p := q_floor p in
      if ((1 <=? p) && (p <=? Z.of_N n))%Z then
        let pos := Z.to_N p in
        let v := raw_get t (vint pos) in
        let t1 := shift_down (S (N.to_nat (n - pos))) t pos n in
        ROk [v] (put_table st2 id (raw_set t1 (vint n) VNil))
      else if d53 st2 then
        (* Lua 5.3: pos = n and pos = n + 1 are always accepted and return t[pos] (nil on an empty table) *)
        if ((p =? Z.of_N n) || (p =? Z.of_N n + 1))%Z then
          ROk [raw_get t (vz p)] (put_table st2 id (raw_set t (vz p) VNil))
        else err "bad argument #1 to 'remove' (position out of bounds)" st2
      else ROk [] st2
  | BTableConcat =>
      do* id, st1 <- tab_arg 0 "concat" args st;
      let t := get_table st1 id in
      do* sep, st2 <- (match arg 1 args with VNil => ROk "" st1 | _ => str_arg 1 "concat" args st1 end);
      do* i, st3 <- opt_num_arg 2 "concat" args (q_int 1) st2;
      do* j, st4 <- opt_num_arg 3 "concat" args (q_int (Z.of_N (raw_len t))) st3;
      let i := q_floor i in
      let j := q_floor j in
      match concat_range (d53 st4) (Z.to_nat (j - i + 1)) t sep i j with
      | inl (Some s) => ROk [VStr s] st4
      | inl None => ROk [VStr ""] st4
      | inr k => err ("invalid value (at index " ++ z_to_dec k ++ ") in table for 'concat'") st4
      end
  | BStringLen =>
      do* s, st1 <- str_arg 0 "len" args st;
      ROk [vint (N.of_nat (String.length s))] st1
  | BStringSub =>
      do* s, st1 <- str_arg 0 "sub" args st;
      do* i, st2 <- num_arg 1 "sub" args st1;
      do* j, st3 <- opt_num_arg 2 "sub" args (q_int (-1)) st2;
      let len := Z.of_nat (String.length s) in
      let i := Z.max 1 (posrelat (q_floor i) len) in
      let j := Z.min len (posrelat (q_floor j) len) in
      if (j <? i)%Z then ROk [VStr ""] st3
      else ROk [VStr (substring (Z.to_nat (i - 1)) (Z.to_nat (j - i + 1)) s)] st3
  | BStringByte =>
      do* s, st1 <- str_arg 0 "byte" args st;
      do* i, st2 <- opt_num_arg 1 "byte" args (q_int 1) st1;
      do* j, st3 <- opt_num_arg 2 "byte" args i st2;
      let len := Z.of_nat (String.length s) in
      let i := Z.max 1 (posrelat (q_floor i) len) in
      let j := Z.min len (posrelat (q_floor j) len) in
      if (j <? i)%Z then ROk [] st3
      else ROk (bytes_of (substring (Z.to_nat (i - 1)) (Z.to_nat (j - i + 1)) s)) st3
  | BStringChar =>
      do* s, st1 <- chars_of 0 args st;
      ROk [VStr s] st1
  | BStringRep =>
      do* s, st1 <- str_arg 0 "rep" args st;
      do* n, st2 <- num_arg 1 "rep" args st1;
      ROk [VStr (string_rep s (Z.to_nat (q_floor n)))] st2
  | BStringFormat =>
      do* f, st1 <- str_arg 0 "format" args st;
      do* p, st2 <- numf_arg 1 "format" args st1;
      if String.eqb f "%d" then
        (if q_is_int (snd p) then ROk [VStr (z_to_dec (Qnum (snd p)))] st2
         else err "bad argument #2 to 'format' (number has no integer representation)" st2)
      else if String.eqb f "%.14g" then ROk [VStr (fmt_g 14 (snd p))] st2
      else if String.eqb f "%.17g" then ROk [VStr (fmt_g 17 (snd p))] st2
      else RUnsup "string.format with a format other than %d, %.14g, %.17g" st2
  | BStringUpper =>
      do* s, st1 <- str_arg 0 "upper" args st;
      ROk [VStr (map_string upper_char s)] st1
  | BStringLower =>
      do* s, st1 <- str_arg 0 "lower" args st;
      ROk [VStr (map_string lower_char s)] st1
  | BStringGmatch =>
      do* s, st1 <- str_arg 0 "gmatch" args st;
      do* p, st2 <- str_arg 1 "gmatch" args st1;
      if String.eqb p "([^%s]+)" || String.eqb p "[^%s]+" || String.eqb p "%S+" || String.eqb p "(%S+)" then
        let (tid, st3) := alloc_table st2 empty_table in
        let st4 := set_positional st3 tid 1%N (map VStr (words s EmptyString)) in
        let (e, st5) := bind_locals PLeaf ["t"; "i"] [VTable tid; vint 0] st4 in
        let (fid, st6) := alloc_closure st5 (mkClosure e [] gmatch_iter_body) in
        ROk [VFun fid] st6
      else RUnsup ("string.gmatch with pattern " ++ p) st2
  | BMathFloor =>
      do* x, st1 <- num_arg 0 "floor" args st;
      ROk [vz (q_floor x)] st1
  | BMathCeil =>
      do* x, st1 <- num_arg 0 "ceil" args st;
      ROk [vz (q_ceil x)] st1
  | BMathAbs =>
      do* x, st1 <- numf_arg 0 "abs" args st;
      ROk [mknum st1 (fst x) (q_abs (snd x))] st1
  | BMathSqrt =>
      do* x, st1 <- num_arg 0 "sqrt" args st;
      if (Qnum x <? 0)%Z then RUnsup "math.sqrt of a negative number (NaN)" st1
      else ROk [mknum st1 true (q_sqrt x)] st1
  | BMathMin =>
      do* x, st1 <- numf_arg 0 "min" args st;
      fold_num (fun a b => if q_ltb (snd b) (snd a) then b else a) "min" 1 x (tl args) st1
  | BMathMax =>
      do* x, st1 <- numf_arg 0 "max" args st;
      fold_num (fun a b => if q_ltb (snd a) (snd b) then b else a) "max" 1 x (tl args) st1
  | BMathFmod =>
      do* x, st1 <- numf_arg 0 "fmod" args st;
      do* y, st2 <- numf_arg 1 "fmod" args st1;
      let fl := fst x || fst y in
      if q_is_zero (snd y) then
        (if d53 st2 && negb fl then err "bad argument #2 to 'fmod' (zero)" st2
         else RUnsup "math.fmod by zero (NaN)" st2)
      else ROk [mknum st2 fl (q_fmod (snd x) (snd y))] st2
  | BMathModf =>
      (* Lua 5.3: an integer is its own integral part; a float gives two floats *)
      do* x, st1 <- numf_arg 0 "modf" args st;
      let ip := q_int (q_trunc (snd x)) in
      ROk [mknum st1 (fst x) ip; mknum st1 true (q_sub (snd x) ip)] st1
  | BMathPow =>
      do* x, st1 <- num_arg 0 "pow" args st;
      do* y, st2 <- num_arg 1 "pow" args st1;
      if q_is_int y then
        if q_is_zero x && (Qnum y <? 0)%Z then RUnsup "zero to a negative power (inf)" st2
        else ROk [mknum st2 true (q_pow x (Qnum y))] st2
      else RUnsup "power with a non-integer exponent" st2
  | BMathType =>
      match args with
      | [] => bad_arg 1 "type" "value" "no value" st
      | VNum fl _ :: _ => ROk [VStr (if fl then "float" else "integer")] st
      | _ => ROk [VNil] st
      end
  | BMathTointeger =>
      match arg 0 args with
      | VNum _ q => ROk [if q_is_int q then VNum false q else VNil] st
      | _ => ROk [VNil] st
      end
  | BRawlen =>
      match arg 0 args with
      | VTable id => ROk [vint (raw_len (get_table st id))] st
      | VStr s => ROk [vint (N.of_nat (String.length s))] st
      | _ => err "table or string expected" st
      end
  | BUnsupported name => RUnsup name st
  | BPcall | BTostring | BPrint => RUnsup "internal: callback builtin" st
  end.

(* arithmetic on two numbers given with their subtype flags.
   LuaJIT dialect: one number type.  Lua 5.3: + - * // % of two integers is an integer, anything with
   a float is a float; / and ^ are always floats; integer // 0 and % 0 are errors.
   (64-bit wrap-around of integer results is out of scope: integers are unbounded.) *)
Definition arith_num (op : binop) (fx : bool) (x : Q) (fy : bool) (y : Q) (st : state) : res value :=
  let fl := fx || fy in
  match op with
  | OAdd => ROk (mknum st fl (q_add x y)) st
  | OSub => ROk (mknum st fl (q_sub x y)) st
  | OMul => ROk (mknum st fl (q_mul x y)) st
  | ODiv =>
      if q_is_zero y then RUnsup "division by zero (inf/NaN)" st else ROk (mknum st true (q_div x y)) st
  | OIDiv =>
      if q_is_zero y then
        (if fl then RUnsup "floor division by zero (inf/NaN)" st else err "attempt to perform 'n//0'" st)
      else ROk (mknum st fl (q_int (q_floor (q_div x y)))) st
  | OMod =>
      if q_is_zero y then
        (if d53 st && negb fl then err "attempt to perform 'n%%0'" st else RUnsup "modulo by zero (NaN)" st)
      else ROk (mknum st fl (q_mod x y)) st
  | OPow =>
      if q_is_int y then
        if q_is_zero x && (Qnum y <? 0)%Z then RUnsup "zero to a negative power (inf)" st
        else ROk (mknum st true (q_pow x (Qnum y))) st
      else RUnsup "power with a non-integer exponent" st
  | _ => RUnsup "internal: not an arithmetic operator" st
  end.

Definition arith_event (op : binop) : string :=
  match op with
  | OAdd => "__add" | OSub => "__sub" | OMul => "__mul" | ODiv => "__div" | OMod => "__mod" | OPow => "__pow"
  | OIDiv => "__idiv"
  | _ => "__concat"
  end.

Definition is_str_or_num (v : value) : bool := match v with VStr _ | VNum _ _ => true | _ => false end.

Definition same_type (a b : value) : bool := String.eqb (type_name a) (type_name b).

Definition compare_error {A : Type} (a b : value) (st : state) : res A :=
  if same_type a b then err ("attempt to compare two " ++ type_name a ++ " values") st
  else err ("attempt to compare " ++ type_name a ++ " with " ++ type_name b) st.

(* pad or truncate to exactly n values *)
Fixpoint adjust (n : nat) (vs : list value) : list value :=
  match n with
  | O => []
  | S n' => first vs :: adjust n' (tl vs)
  end.

(* ------------------------------------------------------------------------------------------ *)
(* the interpreter *)

Fixpoint eval (n : nat) (e : env) (ex : expr) (st : state) {struct n} : res value :=
  match n with
  | O => RFuel st
  | S n =>
      match ex with
      | ENil => ROk VNil st
      | ETrue => ROk (VBool true) st
      | EFalse => ROk (VBool false) st
      | ENum fl q => ROk (mknum st fl q) st
      | EStr s => ROk (VStr s) st
      | EVar x =>
          match sget x e with
          | Some c => ROk (get_cell st c) st
          | None => index n (VTable globals_id) (VStr x) st
          end
      | EIndex a k =>
          do* va, st1 <- eval n e a st;
          do* vk, st2 <- eval n e k st1;
          index n va vk st2
      | ECall f args =>
          do* rs, st1 <- eval_call n e f args st;
          ROk (first rs) st1
      | EFunc ps b =>
          let (id, st1) := alloc_closure st (mkClosure e ps b) in
          ROk (VFun id) st1
      | EBin OAnd a b =>
          do* va, st1 <- eval n e a st;
          if truthy va then eval n e b st1 else ROk va st1
      | EBin OOr a b =>
          do* va, st1 <- eval n e a st;
          if truthy va then ROk va st1 else eval n e b st1
      | EBin op a b =>
          do* va, st1 <- eval n e a st;
          do* vb, st2 <- eval n e b st1;
          binop_apply n op va vb st2
      | EUn op a =>
          do* va, st1 <- eval n e a st;
          unop_apply n op va st1
      | ETable fs =>
          let (id, st1) := alloc_table st empty_table in
          do* _u, st2 <- eval_fields n e fs id 1%N st1;
          ROk (VTable id) st2
      | EParen a => eval n e a st
      end
  end

(* all the values of an expression: a call yields all its results, anything else one value *)
with eval_multi (n : nat) (e : env) (ex : expr) (st : state) {struct n} : res (list value) :=
  match n with
  | O => RFuel st
  | S n =>
      match ex with
      | ECall f args => eval_call n e f args st
      | _ => do* v, st1 <- eval n e ex st; ROk [v] st1
      end
  end

(* an expression list: every expression but the last is truncated to one value *)
with eval_list (n : nat) (e : env) (es : list expr) (st : state) {struct n} : res (list value) :=
  match n with
  | O => RFuel st
  | S n =>
      match es with
      | [] => ROk [] st
      | [ex] => eval_multi n e ex st
      | ex :: es' =>
          do* v, st1 <- eval n e ex st;
          do* vs, st2 <- eval_list n e es' st1;
          ROk (v :: vs) st2
      end
  end

with eval_call (n : nat) (e : env) (f : expr) (args : list expr) (st : state) {struct n} : res (list value) :=
  match n with
  | O => RFuel st
  | S n =>
      do* vf, st1 <- eval n e f st;
      do* vargs, st2 <- eval_list n e args st1;
      call n vf vargs st2
  end

(* table constructor fields, left to right; i is the next positional index *)
with eval_fields (n : nat) (e : env) (fs : list field) (id : positive) (i : N) (st : state) {struct n} : res unit :=
  match n with
  | O => RFuel st
  | S n =>
      match fs with
      | [] => ROk tt st
      | [FPos ex] =>
          do* vs, st1 <- eval_multi n e ex st;
          ROk tt (set_positional st1 id i vs)
      | FPos ex :: fs' =>
          do* v, st1 <- eval n e ex st;
          eval_fields n e fs' id (i + 1)%N (raw_set_in st1 id (vint i) v)
      | FKey k v :: fs' =>
          do* vk, st1 <- eval n e k st;
          do* vv, st2 <- eval n e v st1;
          if is_nil vk then err "table index is nil" st2
          else eval_fields n e fs' id i (raw_set_in st2 id vk vv)
      end
  end

(* v[k] with the __index chain *)
with index (n : nat) (v k : value) (st : state) {struct n} : res value :=
  match n with
  | O => RFuel st
  | S n =>
      match v with
      | VTable id =>
          let r := raw_get (get_table st id) k in
          if is_nil r then
            match metamethod st v "__index" with
            | VNil => ROk VNil st
            | (VFun _ | VBuiltin _) as h =>
                do* rs, st1 <- call n h [v; k] st;
                ROk (first rs) st1
            | h => index n h k st
            end
          else ROk r st
      | VStr _ =>
          (* through the __index of the string metatable (initially the string library) *)
          match metamethod_s st v "__index" with
          | VNil => err "attempt to index a string value" st
          | (VFun _ | VBuiltin _) as h =>
              do* rs, st1 <- call n h [v; k] st;
              ROk (first rs) st1
          | h => index n h k st
          end
      | _ => err ("attempt to index a " ++ type_name v ++ " value") st
      end
  end

(* t[k] = v with the __newindex chain *)
with setindex (n : nat) (t k v : value) (st : state) {struct n} : res unit :=
  match n with
  | O => RFuel st
  | S n =>
      match t with
      | VTable id =>
          let raw := fun _ : unit =>
            if is_nil k then err "table index is nil" st
            else ROk tt (raw_set_in st id k v) in
          if is_nil (raw_get (get_table st id) k) then
            match metamethod st t "__newindex" with
            | VNil => raw tt
            | (VFun _ | VBuiltin _) as h =>
                do* _rs, st1 <- call n h [t; k; v] st;
                ROk tt st1
            | h => setindex n h k v st
            end
          else raw tt
      | VStr _ =>
          match metamethod_s st t "__newindex" with
          | VNil => err "attempt to index a string value" st
          | (VFun _ | VBuiltin _) as h =>
              do* _rs, st1 <- call n h [t; k; v] st;
              ROk tt st1
          | h => setindex n h k v st
          end
      | _ => err ("attempt to index a " ++ type_name t ++ " value") st
      end
  end

(* call f with evaluated arguments *)
with call (n : nat) (f : value) (args : list value) (st : state) {struct n} : res (list value) :=
  match n with
  | O => RFuel st
  | S n =>
      match f with
      | VBuiltin b => call_builtin n b args st
      | VFun id =>
          match pget id (s_clos st) with
          | None => err "internal: dangling closure" st
          | Some c =>
              let (e1, st1) := bind_locals (c_env c) (c_params c) args st in
              do* r, st2 <- exec_block n e1 [] (c_body c) st1;
              match snd r with
              | SigReturn vs => ROk vs st2
              | SigNormal => ROk [] st2
              | SigBreak => err "break outside a loop" st2
              | SigGoto l => err ("no visible label '" ++ l ++ "' for goto") st2
              end
          end
      | _ =>
          match metamethod_s st f "__call" with
          | VNil => err ("attempt to call a " ++ type_name f ++ " value") st
          | h => call n h (f :: args) st
          end
      end
  end

(* builtins that call back: tostring/print (via __tostring) and pcall *)
with call_builtin (n : nat) (b : builtin) (args : list value) (st : state) {struct n} : res (list value) :=
  match n with
  | O => RFuel st
  | S n =>
      match b with
      | BTostring =>
          match args with
          | [] => bad_arg 1 "tostring" "value" "no value" st
          | v :: _ => do* s, st1 <- tostr n v st; ROk [VStr s] st1
          end
      | BPrint =>
          do* line, st1 <- print_line n args st;
          ROk [] (emit_line st1 line)
      | BPcall =>
          match args with
          | [] => bad_arg 1 "pcall" "value" "no value" st
          | f :: rest =>
              match call n f rest st with
              | ROk vs st1 => ROk (VBool true :: vs) st1
              | RErr v st1 => ROk [VBool false; v] st1
              | RFuel st1 => RFuel st1
              | RUnsup w st1 => RUnsup w st1
              end
          end
      | _ => pure_builtin b args st
      end
  end

(* tostring(v) *)
with tostr (n : nat) (v : value) (st : state) {struct n} : res string :=
  match n with
  | O => RFuel st
  | S n =>
      match metamethod st v "__tostring" with
      | VNil => ROk (tostring_basic (d53 st) v) st
      | h =>
          do* rs, st1 <- call n h [v] st;
          match first rs with
          | VStr s => ROk s st1
          | VNum fl q => ROk (fmt_num (d53 st1) fl q) st1
          | _ => err "'__tostring' must return a string" st1
          end
      end
  end

(* the arguments of print joined by tabs *)
with print_line (n : nat) (args : list value) (st : state) {struct n} : res string :=
  match n with
  | O => RFuel st
  | S n =>
      match args with
      | [] => ROk "" st
      | [v] => tostr n v st
      | v :: rest =>
          do* s, st1 <- tostr n v st;
          do* r, st2 <- print_line n rest st1;
          ROk (s ++ String (ascii_of_N 9) r) st2
      end
  end

with binop_apply (n : nat) (op : binop) (a b : value) (st : state) {struct n} : res value :=
  match n with
  | O => RFuel st
  | S n =>
      match op with
      | OAdd | OSub | OMul | ODiv | OIDiv | OMod | OPow =>
          match a, b with
          | VNum fx x, VNum fy y => arith_num op fx x fy y st
          | _, _ =>
              match to_num a, to_num b with
              | Some (fx, x), Some (fy, y) => arith_num op fx x fy y st
              | oa, _ =>
                  let h1 := metamethod_s st a (arith_event op) in
                  let h := if is_nil h1 then metamethod_s st b (arith_event op) else h1 in
                  if is_nil h then
                    let culprit := match oa with None => a | Some _ => b end in
                    err ("attempt to perform arithmetic on a " ++ type_name culprit ++ " value") st
                  else do* rs, st1 <- call n h [a; b] st; ROk (first rs) st1
              end
          end
      | OConcat =>
          if is_str_or_num a && is_str_or_num b
          then ROk (VStr (tostring_basic (d53 st) a ++ tostring_basic (d53 st) b)) st
          else
            let h1 := metamethod_s st a "__concat" in
            let h := if is_nil h1 then metamethod_s st b "__concat" else h1 in
            if is_nil h then
              let culprit := if is_str_or_num a then b else a in
              err ("attempt to concatenate a " ++ type_name culprit ++ " value") st
            else do* rs, st1 <- call n h [a; b] st; ROk (first rs) st1
      | OEq => do* r, st1 <- equals n a b st; ROk (VBool r) st1
      | ONe => do* r, st1 <- equals n a b st; ROk (VBool (negb r)) st1
      | OLt => do* r, st1 <- less_than n a b st; ROk (VBool r) st1
      | OLe => do* r, st1 <- less_equal n a b st; ROk (VBool r) st1
      | OGt => do* r, st1 <- less_than n b a st; ROk (VBool r) st1
      | OGe => do* r, st1 <- less_equal n b a st; ROk (VBool r) st1
      | OAnd | OOr => RUnsup "internal: and/or are evaluated by eval" st
      end
  end

(* a == b.  __eq is tried only for two tables that are not the same table.
   LuaJIT / Lua 5.1: only if both have the SAME __eq handler.
   Lua 5.3: the first operand's handler, else the second's. *)
with equals (n : nat) (a b : value) (st : state) {struct n} : res bool :=
  match n with
  | O => RFuel st
  | S n =>
      if raw_eqb a b then ROk true st else
      match a, b with
      | VTable _, VTable _ =>
          let h1 := metamethod st a "__eq" in
          let h2 := metamethod st b "__eq" in
          let h := if d53 st then (if is_nil h1 then h2 else h1)
                   else (if raw_eqb h1 h2 then h1 else VNil) in
          if is_nil h then ROk false st
          else
            do* rs, st1 <- call n h [a; b] st;
            ROk (truthy (first rs)) st1
      | _, _ => ROk false st
      end
  end

(* a < b.  Numbers and strings directly; otherwise __lt.
   LuaJIT / Lua 5.1: both operands must have the same type and the same __lt handler.
   Lua 5.3: the first operand's handler, else the second's, whatever the types. *)
with less_than (n : nat) (a b : value) (st : state) {struct n} : res bool :=
  match n with
  | O => RFuel st
  | S n =>
      match a, b with
      | VNum _ x, VNum _ y => ROk (q_ltb x y) st
      | VStr x, VStr y => ROk (str_ltb x y) st
      | _, _ =>
          let h1 := metamethod st a "__lt" in
          let h2 := metamethod st b "__lt" in
          let h := if d53 st then (if is_nil h1 then h2 else h1)
                   else (if same_type a b && raw_eqb h1 h2 then h1 else VNil) in
          if is_nil h then compare_error a b st
          else do* rs, st1 <- call n h [a; b] st; ROk (truthy (first rs)) st1
      end
  end

(* a <= b: __le chosen like __lt above; without one, not (b < a) through __lt *)
with less_equal (n : nat) (a b : value) (st : state) {struct n} : res bool :=
  match n with
  | O => RFuel st
  | S n =>
      match a, b with
      | VNum _ x, VNum _ y => ROk (q_leb x y) st
      | VStr x, VStr y => ROk (str_leb x y) st
      | _, _ =>
          let pick (ev : string) (x y : value) :=
            let h1 := metamethod st x ev in
            let h2 := metamethod st y ev in
            if d53 st then (if is_nil h1 then h2 else h1)
            else (if same_type x y && raw_eqb h1 h2 then h1 else VNil) in
          let h := pick "__le" a b in
          if is_nil h then
            let g := pick "__lt" b a in
            if is_nil g then compare_error a b st
            else do* rs, st1 <- call n g [b; a] st; ROk (negb (truthy (first rs))) st1
          else do* rs, st1 <- call n h [a; b] st; ROk (truthy (first rs)) st1
      end
  end

with unop_apply (n : nat) (op : unop) (a : value) (st : state) {struct n} : res value :=
  match n with
  | O => RFuel st
  | S n =>
      match op with
      | UNot => ROk (VBool (negb (truthy a))) st
      | UNeg =>
          match to_num a with
          | Some (fl, x) => ROk (mknum st fl (q_neg x)) st
          | None =>
              let h := metamethod_s st a "__unm" in
              if is_nil h then err ("attempt to perform arithmetic on a " ++ type_name a ++ " value") st
              else do* rs, st1 <- call n h [a; a] st; ROk (first rs) st1
          end
      | ULen =>
          match a with
          | VStr s => ROk (vint (N.of_nat (String.length s))) st
          | VTable id =>
              (* Lua 5.3 honours __len on tables; Lua 5.1 / LuaJIT do not *)
              let h := if d53 st then metamethod st a "__len" else VNil in
              if is_nil h then ROk (vint (raw_len (get_table st id))) st
              else do* rs, st1 <- call n h [a] st; ROk (first rs) st1
          | _ => err ("attempt to get length of a " ++ type_name a ++ " value") st
          end
      end
  end

(* where assignment targets store: sub-expressions are evaluated left to right *)
with eval_targets (n : nat) (e : env) (ts : list expr) (st : state) {struct n} : res (list lref) :=
  match n with
  | O => RFuel st
  | S n =>
      match ts with
      | [] => ROk [] st
      | t :: ts' =>
          do* r, st1 <-
            match t with
            | EVar x => match sget x e with Some c => ROk (LCell c) st | None => ROk (LGlobal x) st end
            | EIndex a k =>
                do* va, sa <- eval n e a st;
                do* vk, sk <- eval n e k sa;
                ROk (LIndex va vk) sk
            | _ => err "internal: bad assignment target" st
            end;
          do* rs, st2 <- eval_targets n e ts' st1;
          ROk (r :: rs) st2
      end
  end

(* perform the stores: the LAST target first (as the reference implementation does) *)
with assign_all (n : nat) (rs : list lref) (vs : list value) (st : state) {struct n} : res unit :=
  match n with
  | O => RFuel st
  | S n =>
      match rs with
      | [] => ROk tt st
      | r :: rs' =>
          do* _u, st1 <- assign_all n rs' (tl vs) st;
          match r with
          | LCell c => ROk tt (set_cell st1 c (first vs))
          | LGlobal x => setindex n (VTable globals_id) (VStr x) (first vs) st1
          | LIndex t k => setindex n t k (first vs) st1
          end
      end
  end

with exec (n : nat) (e : env) (s : stmt) (st : state) {struct n} : res (env * signal) :=
  match n with
  | O => RFuel st
  | S n =>
      match s with
      | SLocal xs es =>
          do* vs, st1 <- eval_list n e es st;
          let (e1, st2) := bind_locals e xs vs st1 in
          ROk (e1, SigNormal) st2
      | SAssign ts es =>
          do* rs, st1 <- eval_targets n e ts st;
          do* vs, st2 <- eval_list n e es st1;
          do* _u, st3 <- assign_all n rs vs st2;
          ROk (e, SigNormal) st3
      | SCall f args =>
          do* _rs, st1 <- eval_call n e f args st;
          ROk (e, SigNormal) st1
      | SLocalFun x ps b =>
          let (c, st1) := alloc_cell st VNil in
          let e1 := sset x c e in
          let (id, st2) := alloc_closure st1 (mkClosure e1 ps b) in
          ROk (e1, SigNormal) (set_cell st2 c (VFun id))
      | SDo b =>
          do* r, st1 <- exec_block n e [] b st;
          ROk (e, snd r) st1
      | SWhile c b =>
          do* sg, st1 <- exec_while n e c b st;
          ROk (e, sg) st1
      | SRepeat b c =>
          do* sg, st1 <- exec_repeat n e b c st;
          ROk (e, sg) st1
      | SIf c t f =>
          do* vc, st1 <- eval n e c st;
          do* r, st2 <- exec_block n e [] (if truthy vc then t else f) st1;
          ROk (e, snd r) st2
      | SNumFor x lo hi step b =>
          do* vlo, st1 <- eval n e lo st;
          do* vhi, st2 <- eval n e hi st1;
          do* vstep, st3 <- (match step with
                             | Some sx => eval n e sx st2
                             | None => ROk (vint 1) st2
                             end);
          match to_num vlo, to_num vhi, to_num vstep with
          | Some (_, i), Some (_, h), Some (_, d) =>
              (* Lua 5.3: an integer loop iff the initial value and the step are integer VALUES (not
                 strings); then a float limit is clipped to an integer.  Otherwise a float loop. *)
              let is_int (v : value) := match v with VNum false _ => true | _ => false end in
              let fl := negb (is_int vlo && is_int vstep) in
              let h' := if fl then h
                        else if q_ltb (q_int 0) d then q_int (q_floor h) else q_int (q_ceil h) in
              do* sg, st4 <- exec_numfor n e x fl i h' d b st3;
              ROk (e, sg) st4
          | None, _, _ => err "'for' initial value must be a number" st3
          | _, None, _ => err "'for' limit must be a number" st3
          | _, _, None => err "'for' step must be a number" st3
          end
      | SGenFor xs es b =>
          do* vs, st1 <- eval_list n e es st;
          do* sg, st2 <- exec_genfor n e xs (arg 0 vs) (arg 1 vs) (arg 2 vs) b st1;
          ROk (e, sg) st2
      | SReturn es =>
          do* vs, st1 <- eval_list n e es st;
          ROk (e, SigReturn vs) st1
      | SBreak => ROk (e, SigBreak) st
      | SGoto l => ROk (e, SigGoto l) st
      | SLabel _ => ROk (e, SigNormal) st
      end
  end

(* the statements of one block.  `seen` maps the labels of this block that were already passed to
   the environment and continuation at that point; a goto to such a label jumps backwards, a goto
   to a label later in the block jumps forwards, any other goto is handed to the enclosing block.
   Returns the environment at the end of the block (needed by repeat-until) and the signal. *)
with exec_block (n : nat) (e : env) (seen : seen_labels) (b : block) (st : state) {struct n}
  : res (env * signal) :=
  match n with
  | O => RFuel st
  | S n =>
      match b with
      | [] => ROk (e, SigNormal) st
      | SLabel l :: b' => exec_block n e ((l, (e, b')) :: seen) b' st
      | s :: b' =>
          do* r, st1 <- exec n e s st;
          match snd r with
          | SigNormal => exec_block n (fst r) seen b' st1
          | SigGoto l =>
              match seen_find l seen with
              | Some (el, bl, seen') => exec_block n el seen' bl st1
              | None =>
                  match scan_label l (fst r) b' seen with
                  | Some (bl, seen') => exec_block n (fst r) seen' bl st1
                  | None => ROk (fst r, SigGoto l) st1
                  end
              end
          | sg => ROk (fst r, sg) st1
          end
      end
  end

with exec_while (n : nat) (e : env) (c : expr) (b : block) (st : state) {struct n} : res signal :=
  match n with
  | O => RFuel st
  | S n =>
      do* vc, st1 <- eval n e c st;
      if truthy vc then
        do* r, st2 <- exec_block n e [] b st1;
        match snd r with
        | SigNormal => exec_while n e c b st2
        | SigBreak => ROk SigNormal st2
        | sg => ROk sg st2
        end
      else ROk SigNormal st1
  end

(* the condition of repeat-until sees the locals of the body *)
with exec_repeat (n : nat) (e : env) (b : block) (c : expr) (st : state) {struct n} : res signal :=
  match n with
  | O => RFuel st
  | S n =>
      do* r, st1 <- exec_block n e [] b st;
      match snd r with
      | SigNormal =>
          do* vc, st2 <- eval n (fst r) c st1;
          if truthy vc then ROk SigNormal st2 else exec_repeat n e b c st2
      | SigBreak => ROk SigNormal st1
      | sg => ROk sg st1
      end
  end

(* for x = i, h, d : a fresh cell for x in every iteration *)
with exec_numfor (n : nat) (e : env) (x : string) (fl : bool) (i h d : Q) (b : block) (st : state) {struct n}
  : res signal :=
  match n with
  | O => RFuel st
  | S n =>
      let continue := if q_ltb (q_int 0) d then q_leb i h else q_leb h i in
      if continue then
        let (e1, st1) := bind_locals e [x] [mknum st fl i] st in
        do* r, st2 <- exec_block n e1 [] b st1;
        match snd r with
        | SigNormal => exec_numfor n e x fl (q_add i d) h d b st2
        | SigBreak => ROk SigNormal st2
        | sg => ROk sg st2
        end
      else ROk SigNormal st
  end

(* for xs in f, s, ctl : call f(s, ctl); stop when the first result is nil *)
with exec_genfor (n : nat) (e : env) (xs : list string) (f s ctl : value) (b : block) (st : state) {struct n}
  : res signal :=
  match n with
  | O => RFuel st
  | S n =>
      do* rs, st1 <- call n f [s; ctl] st;
      if is_nil (first rs) then ROk SigNormal st1
      else
        let (e1, st2) := bind_locals e xs rs st1 in
        do* r, st3 <- exec_block n e1 [] b st2;
        match snd r with
        | SigNormal => exec_genfor n e xs f s (first rs) b st3
        | SigBreak => ROk SigNormal st3
        | sg => ROk sg st3
        end
  end.

(* ------------------------------------------------------------------------------------------ *)
(* initial state and running a chunk *)

Fixpoint table_of (l : list (string * value)) (t : table) : table :=
  match l with
  | [] => t
  | (k, v) :: l' => table_of l' (raw_set t (VStr k) v)
  end.

Definition string_lib : list (string * value) :=
  [("len", VBuiltin BStringLen); ("sub", VBuiltin BStringSub); ("byte", VBuiltin BStringByte);
   ("char", VBuiltin BStringChar); ("rep", VBuiltin BStringRep); ("upper", VBuiltin BStringUpper);
   ("lower", VBuiltin BStringLower); ("gmatch", VBuiltin BStringGmatch);
   ("format", VBuiltin BStringFormat); ("find", VBuiltin (BUnsupported "string.find"));
   ("match", VBuiltin (BUnsupported "string.match")); ("gsub", VBuiltin (BUnsupported "string.gsub"));
   ("reverse", VBuiltin (BUnsupported "string.reverse"))].

(* table.unpack exists in Lua 5.3 only (LuaJIT without 5.2 compatibility has the global unpack only) *)
Definition table_lib (d : dialect) : list (string * value) :=
  [("insert", VBuiltin BTableInsert); ("remove", VBuiltin BTableRemove); ("concat", VBuiltin BTableConcat);
   ("sort", VBuiltin (BUnsupported "table.sort"))]
  ++ (if is53 d then [("unpack", VBuiltin BUnpack)] else []).

(* math.pi: the double nearest to pi, as the exact decimal with 16 significant digits *)
Definition math_pi : Q := q_of_dec 3141592653589793%Z (-15)%Z.

(* Lua 5.3 as installed by the repo's CI is built with LUA_COMPAT_5_2, which keeps math.pow, math.atan2,
   math.log10 (LUA_COMPAT_MATHLIB) but not the global unpack (that needs LUA_COMPAT_5_1). *)
Definition math_lib (d : dialect) : list (string * value) :=
  [("floor", VBuiltin BMathFloor); ("ceil", VBuiltin BMathCeil); ("abs", VBuiltin BMathAbs);
   ("sqrt", VBuiltin BMathSqrt); ("min", VBuiltin BMathMin); ("max", VBuiltin BMathMax);
   ("fmod", VBuiltin BMathFmod); ("modf", VBuiltin BMathModf); ("pow", VBuiltin BMathPow);
   ("pi", VNum (is53 d) math_pi);
   ("sin", VBuiltin (BUnsupported "math.sin")); ("cos", VBuiltin (BUnsupported "math.cos"));
   ("tan", VBuiltin (BUnsupported "math.tan")); ("asin", VBuiltin (BUnsupported "math.asin"));
   ("acos", VBuiltin (BUnsupported "math.acos")); ("atan", VBuiltin (BUnsupported "math.atan"));
   ("atan2", VBuiltin (BUnsupported "math.atan2")); ("exp", VBuiltin (BUnsupported "math.exp"));
   ("log", VBuiltin (BUnsupported "math.log")); ("log10", VBuiltin (BUnsupported "math.log10"));
   ("random", VBuiltin (BUnsupported "math.random"));
   ("randomseed", VBuiltin (BUnsupported "math.randomseed"))]
  ++ (if is53 d then [("type", VBuiltin BMathType); ("tointeger", VBuiltin BMathTointeger)] else []).

Definition global_lib (d : dialect) : list (string * value) :=
  [("assert", VBuiltin BAssert); ("error", VBuiltin BError); ("pcall", VBuiltin BPcall);
   ("type", VBuiltin BType); ("tostring", VBuiltin BTostring); ("tonumber", VBuiltin BTonumber);
   ("print", VBuiltin BPrint); ("setmetatable", VBuiltin BSetmetatable);
   ("getmetatable", VBuiltin BGetmetatable); ("rawget", VBuiltin BRawget); ("rawset", VBuiltin BRawset);
   ("rawequal", VBuiltin BRawequal); ("next", VBuiltin BNext); ("pairs", VBuiltin BPairs);
   ("ipairs", VBuiltin BIpairs); ("select", VBuiltin BSelect);
   ("require", VBuiltin (BUnsupported "require"));
   ("_G", VTable globals_id); ("string", VTable string_lib_id); ("table", VTable table_lib_id);
   ("math", VTable math_lib_id)]
  ++ (if is53 d then [("rawlen", VBuiltin BRawlen)] else [("unpack", VBuiltin BUnpack)]).

Definition init_state (d : dialect) : state :=
  let tabs :=
    pset globals_id (table_of (global_lib d) empty_table)
      (pset string_lib_id (table_of string_lib empty_table)
         (pset table_lib_id (table_of (table_lib d) empty_table)
            (pset math_lib_id (table_of (math_lib d) empty_table)
               (pset string_meta_id (table_of [("__index", VTable string_lib_id)] empty_table) PLeaf)))) in
  mkState PLeaf 1%positive tabs 6%positive PLeaf 1%positive [] d.

Inductive final :=
| FDone
| FError (msg : string)              (* error(...), failed assert, run-time type errors *)
| FOutOfFuel
| FUnsupported (what : string)
| FLoadError (msg : string).         (* the chunk does not parse *)

Record outcome := mkOutcome { o_trace : list string; o_final : final }.

Definition error_text (is53 : bool) (v : value) : string :=
  match v with
  | VStr s => s
  | VNum fl q => fmt_num is53 fl q
  | _ => "(error object is a " ++ type_name v ++ " value)"
  end.

Definition run_block (d : dialect) (fuel : nat) (b : block) : outcome :=
  match exec_block fuel PLeaf [] b (init_state d) with
  | ROk (_, SigBreak) st => mkOutcome (rev' (s_out st)) (FError "break outside a loop")
  | ROk (_, SigGoto l) st => mkOutcome (rev' (s_out st)) (FError ("no visible label '" ++ l ++ "' for goto"))
  | ROk _ st => mkOutcome (rev' (s_out st)) FDone
  | RErr v st => mkOutcome (rev' (s_out st)) (FError (error_text (is53 d) v))
  | RFuel st => mkOutcome (rev' (s_out st)) FOutOfFuel
  | RUnsup w st => mkOutcome (rev' (s_out st)) (FUnsupported w)
  end.

Definition run (d : dialect) (fuel : nat) (src : string) : outcome :=
  match parse_lua d src with
  | ParseErr l m => mkOutcome [] (FLoadError ("line " ++ n_to_dec l ++ ": " ++ m))
  | ParseOk b => run_block d fuel b
  end.
