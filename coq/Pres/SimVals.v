(* Value-level lemmas of the simulation: the Lua expression emitted for a literal / operator denotes the
   value the reference interpreter computes (Sem/Runtime.v operators vs LuaCore operators and __ADD). *)
From Coq Require Import String Ascii List NArith ZArith QArith Bool Lia.
From Sylt Require Import Syntax.Resolved.
From Sylt Require Sem.Values Sem.Runtime Sem.SyltSem.
From Sylt Require Import Back.IR Back.Emit.
From Sylt Require Import Pres.EmitAst Pres.EmitRel Pres.Names Pres.LuaFuel Pres.LuaEv Pres.Preamble.
From Sylt Require Import Pres.SimDefs Pres.SimOps.
From Sylt Require Import Lua.LuaAst Lua.LuaMap Lua.LuaNum Lua.LuaProofs Lua.LuaCore.
Import ListNotations.
Local Open Scope N_scope.

(* ------------------------------------------------------------------ literals *)

Lemma denotes_int F E st z : denotes F E st (aint z) (SV (Values.VInt z)).
Proof.
  intros E2 st2 _ _ Hl. exists (VNum false (q_int z)). split; [constructor|].
  assert (Hd : d53 st2 = true) by (unfold d53; rewrite (li_dialect _ Hl); reflexivity).
  destruct z as [|p|p]; cbn [aint].
  - apply (PureEval_noncall _ _ _ _ st2); [reflexivity | | apply cells_ext_refl].
    pose proof (Eval_num E2 false (q_int 0%Z) st2) as H. unfold mknum in H. rewrite Hd in H. exact H.
  - apply (PureEval_noncall _ _ _ _ st2); [reflexivity | | apply cells_ext_refl].
    pose proof (Eval_num E2 false (q_int (Zpos p)) st2) as H. unfold mknum in H. rewrite Hd in H. exact H.
  - apply (PureEval_noncall _ _ _ _ st2); [reflexivity | | apply cells_ext_refl].
    eapply Eval_un; [apply Eval_num|].
    exists 1%nat. intros [|k] Hk; [lia|]. cbn [unop_apply]. unfold mknum. rewrite Hd. reflexivity.
Qed.

Lemma denotes_bool F E st (b : bool) : denotes F E st (if b then ETrue else EFalse) (SV (Values.VBool b)).
Proof.
  intros E2 st2 _ _ _. exists (VBool b). split; [constructor|].
  apply (PureEval_noncall _ _ _ _ st2); [destruct b; reflexivity | | apply cells_ext_refl].
  destruct b; [apply Eval_true | apply Eval_false].
Qed.

(* ------------------------------------------------------------------ Lua primitive operators *)

Lemma Binop_lt fx x fy y st : Ev (fun k => binop_apply k OLt (VNum fx x) (VNum fy y) st) (ROk (VBool (q_ltb x y)) st).
Proof. exists 2%nat. intros [|[|k]] Hk; try lia. reflexivity. Qed.
Lemma Binop_le fx x fy y st : Ev (fun k => binop_apply k OLe (VNum fx x) (VNum fy y) st) (ROk (VBool (q_leb x y)) st).
Proof. exists 2%nat. intros [|[|k]] Hk; try lia. reflexivity. Qed.
Lemma Binop_gt fx x fy y st : Ev (fun k => binop_apply k OGt (VNum fx x) (VNum fy y) st) (ROk (VBool (q_ltb y x)) st).
Proof. exists 2%nat. intros [|[|k]] Hk; try lia. reflexivity. Qed.
Lemma Binop_ge fx x fy y st : Ev (fun k => binop_apply k OGe (VNum fx x) (VNum fy y) st) (ROk (VBool (q_leb y x)) st).
Proof. exists 2%nat. intros [|[|k]] Hk; try lia. reflexivity. Qed.

Lemma BinopS_lt x y st : Ev (fun k => binop_apply k OLt (VStr x) (VStr y) st) (ROk (VBool (str_ltb x y)) st).
Proof. exists 2%nat. intros [|[|k]] Hk; try lia. reflexivity. Qed.
Lemma BinopS_le x y st : Ev (fun k => binop_apply k OLe (VStr x) (VStr y) st) (ROk (VBool (str_leb x y)) st).
Proof. exists 2%nat. intros [|[|k]] Hk; try lia. reflexivity. Qed.
Lemma BinopS_gt x y st : Ev (fun k => binop_apply k OGt (VStr x) (VStr y) st) (ROk (VBool (str_ltb y x)) st).
Proof. exists 2%nat. intros [|[|k]] Hk; try lia. reflexivity. Qed.
Lemma BinopS_ge x y st : Ev (fun k => binop_apply k OGe (VStr x) (VStr y) st) (ROk (VBool (str_leb y x)) st).
Proof. exists 2%nat. intros [|[|k]] Hk; try lia. reflexivity. Qed.

(* the two orders on strings are the same function *)
Lemma str_ltb_same : forall a b, Runtime.str_ltb a b = str_ltb a b.
Proof. reflexivity. Qed.
Lemma str_leb_same a b : Runtime.str_leb a b = str_leb a b.
Proof. unfold Runtime.str_leb, str_leb. rewrite str_ltb_same. reflexivity. Qed.

Lemma vrel_not_table sv lv : vrel sv lv -> not_table lv.
Proof. intros []; exact I. Qed.

Lemma vrel_raw_eqb a b la lb : vrel (SV a) la -> vrel (SV b) lb -> raw_eqb la lb = Runtime.rt_eq a b.
Proof.
  intros Ha Hb. inversion Ha; subst; inversion Hb; subst; try reflexivity.
  - cbn [raw_eqb Runtime.rt_eq]. unfold q_eqb, q_int. cbn [Qnum Qden]. rewrite Pos.eqb_refl, andb_true_r. reflexivity.
Qed.

Lemma sget_not_V (E : env) st x : wfenv E st -> (forall v, x <> fmt_var v) -> sget x E = None.
Proof.
  intros Hwf Hx. destruct (sget x E) as [p|] eqn:H; [|reflexivity].
  destruct (wf_V _ _ Hwf _ _ H) as [v ->]. exfalso. eapply Hx. reflexivity.
Qed.

Lemma not_fmt_var_add v : "__ADD"%string <> fmt_var v.
Proof. destruct (fmt_var_head v) as [s ->]. discriminate. Qed.
Lemma not_fmt_var_assert v : "assert"%string <> fmt_var v.
Proof. destruct (fmt_var_head v) as [s ->]. discriminate. Qed.

Lemma cells_ext_add_state va vb st : cells_ext st (add_state va vb st).
Proof.
  unfold add_state. eapply cells_ext_trans; apply cells_ext_alloc.
Qed.

(* __ADD(xa, xb) on two integers *)
Lemma PureEval_add E st xa xb x y st1 st2 :
  wfenv E st -> linv st ->
  Eval E xa st (ROk (VNum false (q_int x)) st1) -> cells_ext st st1 ->
  EvalMulti E xb st1 (ROk [VNum false (q_int y)] st2) -> cells_ext st1 st2 ->
  PureEval E st (acall "__ADD" [xa; xb]) (VNum false (q_int (x + y))).
Proof.
  intros Hwf Hl Ha Hx1 Hb Hx2.
  assert (Hl2 : linv st2) by (eapply cells_ext_linv; [|exact Hl]; eapply cells_ext_trans; eassumption).
  pose proof (add_spec_num false (q_int x) false (q_int y) st2 Hl2) as Hc.
  assert (Hd : d53 st2 = true) by (unfold d53; rewrite (li_dialect _ Hl2); reflexivity).
  unfold mknum in Hc. rewrite Hd in Hc. cbn [orb andb] in Hc.
  change (q_add (q_int x) (q_int y)) with (q_int (x + y)) in Hc.
  eapply PureEval_call.
  - eapply EvalCall_intro.
    + apply Eval_global.
      * eapply sget_not_V; [exact Hwf | apply not_fmt_var_add].
      * apply (g_add _ (li_genv _ Hl)).
      * reflexivity.
    + eapply EvalList_cons; [discriminate | exact Ha | apply EvalList_one; exact Hb].
    + exact Hc.
  - eapply cells_ext_trans; [exact Hx1|]. eapply cells_ext_trans; [exact Hx2|]. apply cells_ext_add_state.
Qed.

(* type(x) == "string" for a string *)
Lemma Eval_type_string_true (E : env) x c st s :
  linv st -> sget x E = Some c -> sget "type"%string E = None -> get_cell st c = VStr s ->
  Eval E (EBin OEq (ECall (EVar "type") [EVar x]) (EStr "string")) st (ROk (VBool true) st).
Proof.
  intros Hinv Hx Ht Hs.
  eapply Eval_bin; [reflexivity | | apply Eval_str | ].
  - apply (Eval_call E (EVar "type") [EVar x] st [VStr (type_name (get_cell st c))] st).
    eapply EvalCall_intro.
    + apply Eval_global; [exact Ht | apply (g_type _ (li_genv _ Hinv)) | reflexivity].
    + apply EvalList_one. apply EvalMulti_single; [reflexivity|]. apply Eval_local. exact Hx.
    + apply (Call_pure_builtin BType). exact I.
  - cbn [first]. rewrite Hs. cbn [type_name].
    change (VBool true) with (VBool (raw_eqb (VStr "string") (VStr "string"))).
    apply Binop_eq_prim. left. exact I.
Qed.

(* __ADD(x, y) on two strings is their concatenation *)
Theorem add_spec_str x y st :
  linv st ->
  Call (VFun add_id) [VStr x; VStr y] st (ROk [VStr (x ++ y)] (add_state (VStr x) (VStr y) st)).
Proof.
  intros Hinv.
  set (va := VStr x). set (vb := VStr y).
  pose proof (linv_add_state va vb st Hinv) as Hinv1.
  set (st1 := add_state va vb st) in *. set (E1 := add_env st).
  assert (Ha : sget "a"%string E1 = Some (s_ncell st)) by reflexivity.
  assert (Hb : sget "b"%string E1 = Some (Pos.succ (s_ncell st))) by reflexivity.
  assert (Ht : sget "type"%string E1 = None) by reflexivity.
  eapply (Call_closure add_id add_closure); [apply (c_add _ (li_cenv _ Hinv)) | apply add_bind | ].
  cbn [c_body add_closure]. fold E1 st1.
  apply ExecBlock_of_ExecS; [ | repeat constructor | intros []].
  apply XS_stop; [|intros []].
  eapply (Exec_if E1 _ _ _ st1 (VBool true) st1 E1 (SigReturn [VStr (x ++ y)]) st1).
  - eapply Eval_and.
    + apply (Eval_type_string_true E1 "a" (s_ncell st) st1 x Hinv1 Ha Ht). unfold st1. apply get_cell_add_a.
    + cbn [truthy]. apply (Eval_type_string_true E1 "b" (Pos.succ (s_ncell st)) st1 y Hinv1 Hb Ht). unfold st1. apply get_cell_add_b.
  - cbn [truthy]. apply ExecBlock_of_ExecS; [ | repeat constructor | intros []].
    apply XS_stop; [|intros []].
    apply Exec_return. apply EvalList_one. apply EvalMulti_single; [reflexivity|].
    eapply Eval_bin; [reflexivity | apply Eval_local; exact Ha | apply Eval_local; exact Hb | ].
    unfold st1. rewrite get_cell_add_a, get_cell_add_b. unfold va, vb.
    exists 1%nat. intros [|k] Hk; [lia|]. reflexivity.
Qed.

Lemma PureEval_adds E st xa xb x y st1 st2 :
  wfenv E st -> linv st ->
  Eval E xa st (ROk (VStr x) st1) -> cells_ext st st1 ->
  EvalMulti E xb st1 (ROk [VStr y] st2) -> cells_ext st1 st2 ->
  PureEval E st (acall "__ADD" [xa; xb]) (VStr (x ++ y)).
Proof.
  intros Hwf Hl Ha Hx1 Hb Hx2.
  assert (Hl2 : linv st2) by (eapply cells_ext_linv; [|exact Hl]; eapply cells_ext_trans; eassumption).
  pose proof (add_spec_str x y st2 Hl2) as Hc.
  eapply PureEval_call.
  - eapply EvalCall_intro.
    + apply Eval_global.
      * eapply sget_not_V; [exact Hwf | apply not_fmt_var_add].
      * apply (g_add _ (li_genv _ Hl)).
      * reflexivity.
    + eapply EvalList_cons; [discriminate | exact Ha | apply EvalList_one; exact Hb].
    + exact Hc.
  - eapply cells_ext_trans; [exact Hx1|]. eapply cells_ext_trans; [exact Hx2|]. apply cells_ext_add_state.
Qed.

Lemma denotes_str F E st s : denotes F E st (LuaAst.EStr s) (SV (Values.VStr s)).
Proof.
  intros E2 st2 _ _ _. exists (VStr s). split; [constructor|].
  apply (PureEval_noncall _ _ _ _ st2); [reflexivity | apply Eval_str | apply cells_ext_refl].
Qed.

(* ------------------------------------------------------------------ binary operators *)

Definition value_op (op : Resolved.binop) : bool :=
  match op with
  | Add | Sub | Mul | Equals | NotEquals | Greater | GreaterEqual | Less | LessEqual => true
  | _ => false
  end.

(* the expression the emitter builds for the IR instruction of `op` *)
Definition bexpr (op : Resolved.binop) (xa xb : expr) : expr :=
  match op with
  | Add => acall "__ADD" [xa; xb]
  | Sub => abin OSub xa xb
  | Mul => abin OMul xa xb
  | Equals => abin OEq xa xb
  | NotEquals => abin ONe xa xb
  | Greater => abin OGt xa xb
  | GreaterEqual => abin OGe xa xb
  | Less => abin OLt xa xb
  | LessEqual => abin OLe xa xb
  | _ => ENil
  end.

Lemma agen_binop u l op c a b i :
  value_op op = true -> binop_ir op c a b = Some i ->
  agen_one u l i = aiis u l c (bexpr op (aexpand l a) (aexpand l b)) /\ simple_op i = true /\ ir_uses i = [a; b].
Proof. destruct op; try discriminate; intros _; cbn [binop_ir]; intros H; inversion H; subst; repeat split; reflexivity. Qed.

Lemma lift_res_state {A} w (r : Values.res A) s x s' : SyltSem.lift_res w r s = (x, s') -> s' = s.
Proof. destruct r; cbn; intros H; inversion H; reflexivity. Qed.

Lemma binop_val_state op a b s r s' : SyltSem.binop_val op a b s = (r, s') -> s' = s.
Proof.
  unfold SyltSem.binop_val.
  destruct op; intros H;
    try (apply lift_res_state in H; exact H);
    try (cbn in H; inversion H; reflexivity);
    unfold SyltSem.bind in H;
    match type of H with
    | context [SyltSem.lift_res ?w ?x ?s] =>
        destruct (SyltSem.lift_res w x s) as [[v|o|c] s1] eqn:E; apply lift_res_state in E; subst;
        cbn in H; inversion H; reflexivity
    end.
Qed.

Lemma denotes_binop F E st op xa xb a b r s s' :
  value_op op = true ->
  denotes F E st xa (SV a) -> denotes F E st xb (SV b) ->
  SyltSem.binop_val op a b s = (SyltSem.RVal r, s') ->
  denotes F E st (bexpr op xa xb) (SV r).
Proof.
  intros Hop Ha Hb Hv E2 st2 Hf Hwf Hl.
  destruct (Ha E2 st2 Hf Hwf Hl) as (la & Hva & st3 & Hea & _ & Hx3).
  assert (Hwf3 : wfenv E2 st3) by (eapply wfenv_ext; [exact Hwf | apply Hx3]).
  assert (Hl3 : linv st3) by (eapply cells_ext_linv; eassumption).
  assert (Hf3 : fut F E st E2 st3) by (eapply fut_trans; [exact Hf | apply fut_cells_ext; assumption]).
  destruct (Hb E2 st3 Hf3 Hwf3 Hl3) as (lb & Hvb & st4 & Heb & Hmb & Hx4).
  assert (Hx24 : cells_ext st2 st4) by (eapply cells_ext_trans; eassumption).
  assert (Hd : d53 st4 = true).
  { unfold d53. rewrite (li_dialect st4); [reflexivity|]. eapply cells_ext_linv; eassumption. }
  assert (Hpar : forall o lr, is_shortcut o = false ->
             Ev (fun k => binop_apply k o la lb st4) (ROk lr st4) -> vrel (SV r) lr ->
             exists lv, vrel (SV r) lv /\ PureEval E2 st2 (abin o xa xb) lv).
  { intros o lr Ho Hev Hr. exists lr. split; [exact Hr|].
    apply (PureEval_noncall _ _ _ _ st4); [reflexivity | | exact Hx24].
    apply Eval_paren. eapply Eval_bin; eassumption. }
  destruct op; try discriminate Hop; cbn [bexpr].
  - (* == *)
    cbn in Hv. inversion Hv; subst. apply (Hpar OEq (VBool (raw_eqb la lb))); [reflexivity | |].
    + apply Binop_eq_prim. left. eapply vrel_not_table; eassumption.
    + rewrite (vrel_raw_eqb _ _ _ _ Hva Hvb). constructor.
  - (* != *)
    cbn in Hv. inversion Hv; subst. apply (Hpar ONe (VBool (negb (raw_eqb la lb)))); [reflexivity | |].
    + apply Binop_ne_prim. left. eapply vrel_not_table; eassumption.
    + rewrite (vrel_raw_eqb _ _ _ _ Hva Hvb). constructor.
  - (* > *)
    inversion Hva; subst; inversion Hvb; subst; cbn in Hv; try discriminate Hv; inversion Hv; subst.
    + apply (Hpar OGt (VBool (q_ltb (q_int z0) (q_int z)))); [reflexivity | apply Binop_gt | constructor].
    + eapply (Hpar OGt); [reflexivity | apply BinopS_gt | constructor].
  - (* >= *)
    inversion Hva; subst; inversion Hvb; subst; cbn in Hv; try discriminate Hv; inversion Hv; subst.
    + apply (Hpar OGe (VBool (q_leb (q_int z0) (q_int z)))); [reflexivity | apply Binop_ge | constructor].
    + eapply (Hpar OGe); [reflexivity | apply BinopS_ge | constructor].
  - (* < *)
    inversion Hva; subst; inversion Hvb; subst; cbn in Hv; try discriminate Hv; inversion Hv; subst.
    + apply (Hpar OLt (VBool (q_ltb (q_int z) (q_int z0)))); [reflexivity | apply Binop_lt | constructor].
    + eapply (Hpar OLt); [reflexivity | apply BinopS_lt | constructor].
  - (* <= *)
    inversion Hva; subst; inversion Hvb; subst; cbn in Hv; try discriminate Hv; inversion Hv; subst.
    + apply (Hpar OLe (VBool (q_leb (q_int z) (q_int z0)))); [reflexivity | apply Binop_le | constructor].
    + eapply (Hpar OLe); [reflexivity | apply BinopS_le | constructor].
  - (* + *)
    inversion Hva; subst; inversion Hvb; subst; cbn in Hv; try discriminate Hv;
      try (repeat (match type of Hv with context [Runtime.has_digit ?x] => destruct (Runtime.has_digit x); cbn in Hv end); discriminate Hv);
      inversion Hv; subst.
    + exists (VNum false (q_int (z + z0))). split; [constructor|].
      eapply PureEval_add; eassumption.
    + eexists. split; [constructor|].
      eapply PureEval_adds; eassumption.
  - (* - *)
    inversion Hva; subst; inversion Hvb; subst; cbn in Hv; try discriminate Hv;
      try (repeat (match type of Hv with context [Runtime.has_digit ?x] => destruct (Runtime.has_digit x); cbn in Hv end); discriminate Hv);
      inversion Hv; subst.
    apply (Hpar OSub (VNum false (q_int (z - z0)))); [reflexivity | | constructor].
    match goal with |- Ev _ ?r => replace r with (arith_num OSub false (q_int z) false (q_int z0) st4) end;
      [apply Binop_arith; exact I | cbn [arith_num]; unfold mknum; rewrite Hd; reflexivity].
  - (* * *)
    inversion Hva; subst; inversion Hvb; subst; cbn in Hv; try discriminate Hv;
      try (repeat (match type of Hv with context [Runtime.has_digit ?x] => destruct (Runtime.has_digit x); cbn in Hv end); discriminate Hv);
      inversion Hv; subst.
    apply (Hpar OMul (VNum false (q_int (z * z0)))); [reflexivity | | constructor].
    match goal with |- Ev _ ?r => replace r with (arith_num OMul false (q_int z) false (q_int z0) st4) end;
      [apply Binop_arith; exact I | cbn [arith_num]; unfold mknum; rewrite Hd; reflexivity].
Qed.

(* ------------------------------------------------------------------ unary operators *)

Lemma denotes_not F E st xa b :
  denotes F E st xa (SV (Values.VBool b)) -> denotes F E st (EParen (EUn UNot xa)) (SV (Values.VBool (negb b))).
Proof.
  intros Ha E2 st2 Hf Hwf Hl.
  destruct (Ha E2 st2 Hf Hwf Hl) as (la & Hva & st3 & Hea & _ & Hx3).
  inversion Hva; subst.
  exists (VBool (negb b)). split; [constructor|].
  apply (PureEval_noncall _ _ _ _ st3); [reflexivity | | exact Hx3].
  apply Eval_paren. eapply Eval_un; [exact Hea|].
  exists 1%nat. intros [|k] Hk; [lia|]. destruct b; reflexivity.
Qed.

Lemma denotes_neg F E st xa z :
  denotes F E st xa (SV (Values.VInt z)) -> denotes F E st (EParen (EUn UNeg xa)) (SV (Values.VInt (- z))).
Proof.
  intros Ha E2 st2 Hf Hwf Hl.
  destruct (Ha E2 st2 Hf Hwf Hl) as (la & Hva & st3 & Hea & _ & Hx3).
  inversion Hva; subst.
  exists (VNum false (q_int (- z))). split; [constructor|].
  apply (PureEval_noncall _ _ _ _ st3); [reflexivity | | exact Hx3].
  apply Eval_paren. eapply Eval_un; [exact Hea|].
  assert (Hd : d53 st3 = true).
  { unfold d53. rewrite (li_dialect st3); [reflexivity|]. eapply cells_ext_linv; eassumption. }
  exists 1%nat. intros [|k] Hk; [lia|]. cbn [unop_apply to_num]. unfold mknum. rewrite Hd. reflexivity.
Qed.
