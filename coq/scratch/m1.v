From Coq Require Import String List NArith ZArith PArith Bool Lia FMapPositive.
From Sylt Require Import Syntax.Resolved Types.TyGraph Types.Tc Types.Ctx Types.Reject.
Import ListNotations.
Local Open Scope tc_scope.

Lemma succ_ne p : p <> Pos.succ p. Proof. lia. Qed.
Lemma succ_ne' p : Pos.succ p <> p. Proof. lia. Qed.

Ltac look :=
  repeat first
    [ rewrite PositiveMap.gss
    | rewrite PositiveMap.gso by (first [apply succ_ne | apply succ_ne' | lia])
    | rewrite Pos.eqb_refl ].

Ltac red1 := cbv -[PositiveMap.find PositiveMap.add PositiveMap.map Pos.succ Pos.eqb Pos.compare N.ltb N.add afix gfix notok
                   g_check g_unify g_arith g_div g_divres g_copy].
Ltac sym := repeat (red1; look).

Goal forall kinds G f ctx s sp sp1 sp2,
  notok (r_expr (afix kinds G f) (EBinOp Add (EInt 1 sp1) (EStr "a" sp2) sp) ctx s).
Proof.
  intros. destruct f as [|[|f]]; try apply notok_fuel.
  - cbn [afix]. sym. apply notok_oof.
  - cbn [afix]. Time sym. Show.
Abort.
