#!/usr/bin/env python3
"""Validation of LuaCore (there is no real Lua interpreter in the sandbox to compare with).

Everything is run under both dialects: "5.3" (PUC-Rio Lua 5.3, the project's reference semantics, what
the repo's CI runs) and "jit" (LuaJIT 2.x / Lua 5.1 rules, information only).

(a) corpus/lua/*.lua: small snippets whose expected output was written from the Lua 5.1 / 5.3 reference
    manuals and LuaJIT behaviour.  Header lines (a tag [5.3] or [jit] after the keyword restricts the
    line to one dialect, e.g. `-- expect[5.3]: 2.0`; untagged lines hold for both):
        -- expect: <printed line>          (one per printed line, in order)
        -- expect-error: <substring of the error message>      (final must be an error)
        -- expect-final: done|error|fuel|unsupported|loaderr    (default done, or error with expect-error)
        -- expect-wf: ok | bad <substring of the reason>        (checked with lua_wf; default: not checked)
        -- fuel: N
(b) every program under /repo/tests/**/*.sy (files or directories starting with '_' are skipped, as the
    repo's own runner does) that the real compiler accepts is compiled by the harness, the emitted
    Lua (real preamble.lua + real output) is run in LuaCore and the outcome is compared with what
    /repo/sylt/src/test.rs expects: no `// error:` lines -> the program must run without error;
    `// error: #...` -> a runtime error is expected.

Exit status 0 iff everything agrees (programs needing unsupported features are listed, not failed).
Usage: lua_selftest.py [--corpus-only] [--tests-only] [--dialect 5.3|jit] [--fuel N] [-v]
"""
import glob
import json
import os
import re
import sys
import time

sys.path.insert(0, os.path.dirname(os.path.abspath(__file__)))
import vlib
import lua_run

CORPUS = os.path.join(vlib.VERIF, "corpus", "lua")
TESTS = os.path.join(vlib.REPO, "tests")


# ------------------------------------------------------------------------------------------------
# (a) corpus

def parse_header(text, dialect):
    exp = {"lines": [], "error": None, "final": None, "wf": None, "fuel": None}
    for l in text.split("\n"):
        m = re.match(r"^-- (expect[a-z-]*)\[([a-z0-9.]+)\](:.*)$", l)
        if m:
            if m.group(2) != dialect:
                continue
            l = "-- " + m.group(1) + m.group(3)
        if l.startswith("-- expect: "):
            exp["lines"].append(l[len("-- expect: "):])
        elif l == "-- expect:":
            exp["lines"].append("")
        elif l.startswith("-- expect-error: "):
            exp["error"] = l[len("-- expect-error: "):]
        elif l.startswith("-- expect-final: "):
            exp["final"] = l[len("-- expect-final: "):].strip()
        elif l.startswith("-- expect-wf: "):
            exp["wf"] = l[len("-- expect-wf: "):].strip()
        elif l.startswith("-- fuel: "):
            exp["fuel"] = int(l[len("-- fuel: "):])
    if exp["final"] is None:
        exp["final"] = "error" if exp["error"] is not None else "done"
    return exp


def run_corpus(dialect, verbose=False):
    files = sorted(glob.glob(os.path.join(CORPUS, "*.lua")))
    srcs = [open(f, encoding="utf-8").read() for f in files]
    exps = [parse_header(s, dialect) for s in srcs]
    results = [None] * len(files)
    by_fuel = {}
    for i, e in enumerate(exps):
        by_fuel.setdefault(e["fuel"] or 20000, []).append(i)
    for fuel, idx in by_fuel.items():
        for i, r in zip(idx, lua_run.run_lua([srcs[i] for i in idx], fuel, dialect)):
            results[i] = r
    wf_idx = [i for i, e in enumerate(exps) if e["wf"] is not None]
    wfs = dict(zip(wf_idx, lua_run.lua_wf([srcs[i] for i in wf_idx], dialect)))
    bad = []
    for i, (f, e, r) in enumerate(zip(files, exps, results)):
        name = os.path.basename(f)
        problems = []
        if e["wf"] is not None:
            got = wfs[i]
            if e["wf"] == "ok":
                if got is not None:
                    problems.append("lua_wf: expected ok, got bad: %s" % got)
            else:
                want = e["wf"][len("bad"):].strip()
                if got is None:
                    problems.append("lua_wf: expected bad (%s), got ok" % want)
                elif want not in got:
                    problems.append("lua_wf: reason %r does not contain %r" % (got, want))
        if not (e["wf"] is not None and e["wf"] != "ok" and not e["lines"] and e["error"] is None
                and e["final"] == "done"):
            if r["final"] != e["final"]:
                problems.append("final: expected %s, got %s %s" % (e["final"], r["final"], r["msg"]))
            if e["error"] is not None and e["error"] not in r["msg"]:
                problems.append("error message %r does not contain %r" % (r["msg"], e["error"]))
            if r["trace"] != e["lines"]:
                for k in range(max(len(r["trace"]), len(e["lines"]))):
                    a = e["lines"][k] if k < len(e["lines"]) else "<nothing>"
                    b = r["trace"][k] if k < len(r["trace"]) else "<nothing>"
                    if a != b:
                        problems.append("line %d: expected %r, got %r" % (k + 1, a, b))
                        break
        if problems:
            bad.append((name, problems))
        if verbose:
            print("  %-40s %s" % (name, "ok" if not problems else "FAIL"))
    return len(files), bad


# ------------------------------------------------------------------------------------------------
# (b) the repo's program tests

def find_tests(directory):
    out = []
    for name in sorted(os.listdir(directory)):
        if name.startswith("_"):
            continue
        p = os.path.join(directory, name)
        if os.path.isdir(p):
            out.extend(find_tests(p))
        elif name.endswith(".sy"):
            out.append(p)
    return out


def expected_errors(src):
    """the `// error:` convention of /repo/sylt/src/test.rs (parse_test_settings + compare_errors):
    `$` type error, `#` runtime error, `@` syntax error, anything else "an error whose Debug/Display
    text contains this" -- which a runtime error (Debug text `RuntimeError`) satisfies iff the text
    is a substring of it, e.g. `// error: Runtime`."""
    errs = []
    for line in src.split("\n"):
        if line.startswith("// error:"):
            body = line[len("// error:"):].strip()
            kind = {"$": "type", "#": "runtime", "@": "syntax"}.get(body[:1], "containing")
            if kind == "containing" and body and body in "RuntimeError":
                kind = "runtime"
            errs.append(kind)
    return errs


# Disagreements with the repo's expectation UNDER THE "jit" DIALECT that were investigated and are not
# interpreter bugs: the repo's CI runs the tests with Lua 5.3 (.github/workflows/coverage.yml); under the
# "5.3" dialect both programs run to done.
EXPLAINED_JIT = {
    "core/string_conversion.sy":
        "`as_str(2.0) <=> \"2.0\"`: tostring(2.0) is \"2\" in Lua 5.1/LuaJIT (\"2.0\" only since Lua 5.3); "
        "every other assertion of the file holds",
    "sylt_std/set_simple.sy":
        "preamble.lua set_map builds its result with dict_new(), so `dd <=> set.from_list ...` compares a table "
        "with __LUA_DICT_META against one with __LUA_SET_META: different __eq functions, hence `==` is false "
        "without calling either in Lua 5.1/LuaJIT (Lua 5.3 calls the first operand's); every other assertion holds",
}


def compile_tests(files):
    every = sorted(glob.glob(os.path.join(TESTS, "**", "*.sy"), recursive=True))
    allsrc = "\t".join("%s=%s" % (f, vlib.hexs(open(f, "rb").read())) for f in every)
    cases = ["std\t%s\t%s" % (f, allsrc) for f in files]
    return vlib.harness("compile", cases, timeout_s=30)


def compile_accepted():
    ok, out = vlib.build_harness()
    if not ok:
        raise RuntimeError("harness build failed:\n" + out[-3000:])
    files = find_tests(TESTS)
    compiled = compile_tests(files)
    accepted = []
    counts = {"OK": 0, "ERR": 0, "other": 0}
    for f, line in zip(files, compiled):
        k = line.split(" ")[0]
        counts[k if k in counts else "other"] += 1
        if k == "OK":
            accepted.append((f, vlib.unhex(line.split(" ")[1])))
    return len(files), counts, accepted


def run_tests(accepted, fuel, dialect):
    explained = EXPLAINED_JIT if dialect == "jit" else {}
    for _, lua in accepted[:1]:
        lua_run.split_preamble(lua)      # the emitted text starts with the repo's preamble.lua
    results = lua_run.run_lua([lua for _, lua in accepted], fuel, dialect)
    wfs = lua_run.lua_wf([lua for _, lua in accepted], dialect)
    report = {"agree": [], "disagree": [], "explained": [], "unsupported": [], "wf_bad": []}
    for (f, lua), r, wf in zip(accepted, results, wfs):
        rel = os.path.relpath(f, TESTS)
        errs = expected_errors(open(f, encoding="utf-8").read())
        want = "error" if errs == ["runtime"] else ("done" if not errs else "compile-error")
        if wf is not None:
            report["wf_bad"].append((rel, wf))
        if r["final"] == "unsupported":
            report["unsupported"].append((rel, r["msg"]))
        elif r["final"] == want:
            report["agree"].append((rel, r["final"], r["msg"]))
        elif rel in explained:
            report["explained"].append((rel, "expected %s, got %s: %s" % (want, r["final"], r["msg"]), explained[rel]))
        else:
            report["disagree"].append((rel, "expected %s, got %s: %s" % (want, r["final"], r["msg"])))
    return report


def main(argv):
    verbose = "-v" in argv
    fuel = 400000
    if "--fuel" in argv:
        fuel = int(argv[argv.index("--fuel") + 1])
    dialects = ["5.3", "jit"]
    if "--dialect" in argv:
        dialects = [argv[argv.index("--dialect") + 1]]
    status = 0
    t0 = time.time()
    lua_run.build()
    print("build: %.1fs" % (time.time() - t0))
    if "--tests-only" not in argv:
        for d in dialects:
            t = time.time()
            n, bad = run_corpus(d, verbose)
            print("corpus [%s]: %d snippets, %d failed (%.1fs)" % (d, n, len(bad), time.time() - t))
            for name, problems in bad:
                status = 1
                for p in problems:
                    print("  FAIL [%s] %s: %s" % (d, name, p))
    if "--corpus-only" not in argv:
        t = time.time()
        n, counts, accepted = compile_accepted()
        print("repo tests: %d programs, compiler accepted %d, rejected %d, other %d (compile %.1fs)"
              % (n, counts["OK"], counts["ERR"], counts["other"], time.time() - t))
        allrep = {}
        for d in dialects:
            t = time.time()
            rep = run_tests(accepted, fuel, d)
            allrep[d] = rep
            print("dialect %s%s (%.1fs):" % (d, " (reference)" if d == "5.3" else " (information)", time.time() - t))
            print("  outcome as the repo's runner expects: %d   (done: %d, expected runtime error: %d)"
                  % (len(rep["agree"]), sum(1 for a in rep["agree"] if a[1] == "done"),
                     sum(1 for a in rep["agree"] if a[1] == "error")))
            for rel, fin, msg in rep["agree"]:
                if fin == "error":
                    print("    expected runtime error  %s: %s" % (rel, msg))
            print("  needs a feature LuaCore does not model: %d" % len(rep["unsupported"]))
            for rel, msg in rep["unsupported"]:
                print("    UNSUPPORTED %s: %s" % (rel, msg))
            if rep["explained"]:
                print("  differs from the repo's expectation for a known reason (the tests assume Lua 5.3): %d"
                      % len(rep["explained"]))
                for rel, msg, why in rep["explained"]:
                    print("    EXPLAINED %s: %s\n        %s" % (rel, msg, why))
            print("  DISAGREE: %d" % len(rep["disagree"]))
            for rel, msg in rep["disagree"]:
                status = 1
                print("    DISAGREE %s: %s" % (rel, msg))
            print("  emitted chunk not loadable according to lua_wf: %d" % len(rep["wf_bad"]))
            for rel, why in rep["wf_bad"]:
                print("    WF-BAD %s: %s" % (rel, why))
        out = os.path.join(vlib.BUILD, "lua_selftest.json")
        json.dump(allrep, open(out, "w"), indent=1)
    print("total: %.1fs" % (time.time() - t0))
    return status


if __name__ == "__main__":
    sys.exit(main(sys.argv[1:]))
