-- expect: 1
-- expect: 2
-- expect: 3
-- expect: 3
-- expect: 2
-- expect: 1
-- expect[jit]: 1
-- expect[5.3]: 1.0
-- expect: 1.5
-- expect[jit]: 2
-- expect[5.3]: 2.0
-- expect: 1	10
-- expect: 2	10
-- expect: 3	10
-- expect: it	1
-- expect: it	2
-- expect: it	3
-- expect: limit evaluated
-- expect: 1
-- expect: 2
-- expect: 10
-- expect: 6
-- expect: 2
-- expect[jit]: 1
-- expect[5.3]: 1.0
-- expect[jit]: 2
-- expect[5.3]: 2.0
-- expect: 1
-- expect: 2
-- expect: outer
-- expect: 5050
-- expect: 1	1
-- expect: 1	2
-- expect: 2	1
-- expect: 2	2
-- expect: x	1
-- expect: false	'for' limit must be a number
-- expect: false	'for' initial value must be a number
for i = 1, 3 do print(i) end
for i = 3, 1 do print("never") end
for i = 3, 1, -1 do print(i) end
for i = 1, 2, 0.5 do print(i) end
-- assigning the loop variable does not change the iteration
for i = 1, 3 do local j = i; i = 10; print(j, i) end
-- limit and step are evaluated once, before the loop
local n = 3
for i = 1, n do n = 1; print("it", i) end
local function lim() print("limit evaluated"); return 2 end
for i = 1, lim() do print(i) end
for i = 10, 1, -4 do print(i) end
for i = 1, 0 do print("no") end
for i = "1", "2" do print(i) end
for i = 1, 10 do if i > 2 then break end print(i) end
local i = "outer"
for i = 1, 1 do end
print(i)
local s = 0
for k = 1, 100 do s = s + k end
print(s)
for a = 1, 2 do for b = 1, 2 do print(a, b) end end
for x = 1, 3 do
  if x == 2 then break end
  print("x", x)
end
print(pcall(function() for q = 1, "x" do end end))
print(pcall(function() for q = nil, 1 do end end))
