(* fragment_preservation: C01 as a THEOREM for the fragment of Pres/Frag.v.

   For every resolved program r in the fragment, if the lowering (Back/IR.v) gives the IR `code` and the
   reference interpreter (Sem/SyltSem.v) ends with ODone / OAssert / OUnreachable, then LuaCore, running the
   abstract syntax of the emitted chunk -- the statements of preamble.lua followed by emit_ast code --
   from the initial Lua 5.3 state, with any sufficiently large fuel, prints the same lines and ends the
   same way.

   Structure: the global assignment V<pv> = print; the global definitions at chunk level (globals_sim, one
   P_exec each); `local function V<sv>` (rel_define_fun); the body of `start` (fbody_sim, on top of SimStmt.P_all:
   expressions, statements, statement lists and if-branch bodies together); a break/continue that reaches the body of `start` makes the reference run OStuck (outside
   good_final), and the interpreter never stops with ODone (SemSane); program_sim for any Lua state with
   the preamble invariant; the preamble run (Preamble.pre_runs, exec_block_app_run). *)
From Coq Require Import String Ascii List NArith ZArith QArith Bool Lia.
From Sylt Require Import Syntax.Resolved.
From Sylt Require Sem.Values Sem.Runtime Sem.SyltSem.
From Sylt Require Import Back.IR Back.Emit Back.ScopeProofs.
From Sylt Require Import Pres.EmitAst Pres.EmitRel Pres.Names Pres.LuaFuel Pres.LuaEv Pres.Preamble Pres.Tie.
From Sylt Require Import Pres.Frag.
From Sylt Require Import Pres.SimDefs Pres.SimOps Pres.SimVals.
From Sylt Require Import Pres.SimExpr Pres.LowerShape Pres.SimSteps Pres.SimFun Pres.SimExprProofs Pres.SimEcall Pres.NoExit Pres.SimStmt Pres.SimCall Pres.SimApply.
From Sylt Require Pres.SemSane.
From Sylt Require Import Pres.RunEq.
From Sylt Require Import Lua.LuaAst Lua.LuaMap Lua.LuaNum Lua.LuaProofs Lua.LuaCore.
Import ListNotations.
Local Open Scope N_scope.

(* ------------------------------------------------------------------ the global assignment V<pv> = print *)

Lemma raw_eqb_str_l x k : raw_eqb (VStr x) k = true -> k = VStr x.
Proof. destruct k; cbn; try discriminate. intros H. apply String.eqb_eq in H. subst. reflexivity. Qed.

Lemma assoc_get_set_str y x v l :
  is_nil v = false ->
  assoc_get (VStr y) (assoc_set (VStr x) v l) = if String.eqb y x then v else assoc_get (VStr y) l.
Proof.
  intros Hv. induction l as [|[k' v'] l IH]; cbn [assoc_set assoc_get].
  - rewrite Hv. cbn [assoc_get raw_eqb]. reflexivity.
  - destruct (raw_eqb (VStr x) k') eqn:Hk.
    + apply raw_eqb_str_l in Hk. subst k'. cbn [assoc_get raw_eqb].
      destruct (String.eqb y x); reflexivity.
    + cbn [assoc_get]. rewrite IH. destruct (String.eqb_spec y x) as [->|Hne]; [|reflexivity].
      rewrite Hk. reflexivity.
Qed.

Lemma raw_get_set_str t x v y :
  is_nil v = false -> raw_get (raw_set t (VStr x) v) (VStr y) = if String.eqb y x then v else raw_get t (VStr y).
Proof. intros Hv. unfold raw_set, raw_get, hash_set. cbn [int_key norm_key t_hash]. apply assoc_get_set_str. exact Hv. Qed.

Lemma get_table_raw_set_in st id k v : get_table (raw_set_in st id k v) id = raw_set (get_table st id) k v.
Proof. unfold raw_set_in, put_table, get_table. cbn [s_tabs]. rewrite pget_pset_same. reflexivity. Qed.

Lemma Exec_assign_global E x ex st vs st1 :
  sget x E = None -> EvalList E [ex] st (ROk vs st1) ->
  raw_get (get_table st1 globals_id) (VStr x) = VNil -> t_meta (get_table st1 globals_id) = None ->
  Exec E (SAssign [EVar x] [ex]) st (ROk (E, SigNormal) (raw_set_in st1 globals_id (VStr x) (first vs))).
Proof.
  intros Hx [m H] Hnil Hmeta. exists (S (S (S (S (S m))))). intros k Hk.
  destruct k as [|[|[|[|k]]]]; try lia.
  cbn [exec eval_targets LuaCore.bind]. rewrite Hx. cbn [LuaCore.bind].
  rewrite H by lia. cbn [LuaCore.bind assign_all setindex].
  rewrite Hnil. cbn [is_nil]. unfold metamethod. rewrite Hmeta. reflexivity.
Qed.

Lemma fmt_var_neq_str v s : (forall t, s <> String "V"%char t) -> String.eqb s (fmt_var v) = false.
Proof. intros H. destruct (fmt_var_head v) as [t ->]. apply String.eqb_neq. apply H. Qed.

Lemma linv_set_global st v :
  linv st -> linv (raw_set_in st globals_id (VStr (fmt_var v)) (VBuiltin BPrint)).
Proof.
  intros [Hd [Ha Hty Has Hpr Hm] Hc Hn]. constructor.
  - exact Hd.
  - rewrite get_table_raw_set_in. constructor.
    + rewrite raw_get_set_str by reflexivity. rewrite fmt_var_neq_str by (intros t; discriminate). exact Ha.
    + rewrite raw_get_set_str by reflexivity. rewrite fmt_var_neq_str by (intros t; discriminate). exact Hty.
    + rewrite raw_get_set_str by reflexivity. rewrite fmt_var_neq_str by (intros t; discriminate). exact Has.
    + rewrite raw_get_set_str by reflexivity. rewrite fmt_var_neq_str by (intros t; discriminate). exact Hpr.
    + exact Hm.
  - exact Hc.
  - exact Hn.
Qed.

Lemma glob_set_global st v : glob (raw_set_in st globals_id (VStr (fmt_var v)) (VBuiltin BPrint)) (fmt_var v) (VBuiltin BPrint).
Proof. unfold glob. rewrite get_table_raw_set_in, raw_get_set_str by reflexivity. rewrite String.eqb_refl. reflexivity. Qed.



(* ------------------------------------------------------------------ the whole program *)

Definition same_final (o : SyltSem.outcome) (f : LuaCore.final) : Prop :=
  match o, f with
  | SyltSem.ODone, FDone => True
  | SyltSem.OAssert, FError _ => True
  | SyltSem.OUnreachable _, FError _ => True
  | _, _ => False
  end.

Definition good_final (o : SyltSem.outcome) : Prop :=
  match o with SyltSem.ODone | SyltSem.OAssert | SyltSem.OUnreachable _ => True | _ => False end.

Lemma pre_out : s_out st_pre = [].
Proof. vm_compute. reflexivity. Qed.

Lemma pre_ncell_env : forall x, sget x (PLeaf : env) = None.
Proof. intros x. unfold sget. destruct (pos_of_string x); reflexivity. Qed.


(* ------------------------------------------------------------------ the outer statements *)

Lemma compile_def n s : is_def s = true -> compile_stmt n s = statement (S n) s 0.
Proof. destruct s; try discriminate. intros _. reflexivity. Qed.

Lemma mapM_app_ok {A B} (f : A -> M B) a b : forall c r c',
  mapM f (a ++ b) c = Ok (r, c') ->
  exists ra c1 rb, mapM f a c = Ok (ra, c1) /\ mapM f b c1 = Ok (rb, c') /\ r = ra ++ rb.
Proof.
  induction a as [|x a IH]; intros c r c' H.
  - exists [], c, r. splits; [reflexivity | exact H | reflexivity].
  - cbn [app] in H. apply mapM_cons_ok in H as (y & c2 & ys & Hy & Hys & ->).
    destruct (IH _ _ _ Hys) as (ra & c1 & rb & Ha & Hb & ->).
    exists (y :: ra), c1, rb. splits; [|exact Hb | reflexivity].
    cbn [mapM]. unfold IR.bind, IR.ret. rewrite Hy, Ha. reflexivity.
Qed.

Section Items.
Variable pv : N.
Variable sv : N.
Variable bound : N.
Variable u : counts.

Notation ctx_ok := (ctx_ok bound).

(* an outer definition: what it adds to the scope or to the functions is new *)
Lemma frag_stmt_scope fl k sc s sc' :
  frag_stmt pv sv bound fl k sc s = Some sc' -> sc' = sc \/ exists var, sc' = var :: sc /\ fresh_id pv sv bound fl sc var = true.
Proof.
  intros H. destruct k as [|k]; [discriminate|]. destruct s; try discriminate H.
  - destruct target; try discriminate H. rewrite frag_stmt_assign in H.
    destruct (assign_op op && memN var sc && frag_expr pv sv bound fl k sc value)%bool; inversion H; auto.
  - destruct (frag_stmt_def _ _ _ _ _ _ _ _ _ _ _ _ _ H) as (_ & Hf & _ & ->). right. eauto.
  - rewrite frag_stmt_loop in H.
    destruct (noexit_expr k condition && frag_expr pv sv bound fl k sc condition && is_some (frag_stmts pv sv bound fl k sc body))%bool; inversion H; auto.
  - inversion H; auto.
  - inversion H; auto.
  - destruct value as [value|]; [|discriminate H]. rewrite frag_stmt_ret in H. destruct (frag_expr pv sv bound fl k sc value); inversion H; auto.
  - rewrite frag_stmt_block in H. destruct (frag_stmts pv sv bound fl k sc statements); inversion H; auto.
  - rewrite frag_stmt_sexpr in H. destruct (frag_expr pv sv bound fl k sc value); inversion H; auto.
Qed.

(* the structure of the emitted outer statements *)
Lemma L_items n k : forall items c cs c' sc fl scf flf l,
  mapM (compile_stmt (S n)) items c = Ok (cs, c') ->
  frag_items pv sv bound k sc fl items = Some (scf, flf) ->
  (forall v, v < bound -> alut_get l v = None) -> bound <= c ->
  exists b l', cshape u l (concat cs) b l' c c' /\ (forall v, v < bound -> alut_get l' v = None).
Proof.
  induction items as [|s items IH]; intros c cs c' sc fl scf flf l Hm Hf Hl Hbc.
  - destruct (mapM_nil_ok _ _ _ _ Hm) as [-> ->]. eexists _, _. split; [apply cshape_nil | exact Hl].
  - apply mapM_cons_ok in Hm as (y & c1 & ys & Hy & Hys & ->). cbn [concat].
    cbn [frag_items] in Hf. destruct s; try discriminate Hf.
    assert (Hplain : forall sc1, frag_stmt pv sv bound fl k sc (SDefinition name var kind t value sp) = Some sc1 ->
              frag_items pv sv bound k sc1 fl items = Some (scf, flf) ->
              exists b l', cshape u l (y ++ concat ys) b l' c c' /\ (forall v, v < bound -> alut_get l' v = None)).
    { intros sc1 Hs Hrest. rewrite (compile_def (S n) (SDefinition name var kind t value sp) eq_refl) in Hy.
      destruct (L_stmt_all pv sv bound u fl (S (S n)) k _ 0 c y c1 sc sc1 l Hy Hs) as (b1 & l1 & Hs1).
      pose proof Hs1 as (_ & Hcc1 & Hfr1 & _).
      assert (Hl1 : forall v, v < bound -> alut_get l1 v = None) by (intros v Hv; rewrite Hfr1 by lia; apply Hl; exact Hv).
      destruct (IH c1 ys c' sc1 fl scf flf l1 Hys Hrest Hl1 ltac:(lia)) as (b2 & l2 & Hs2 & Hl2).
      eexists _, _. split; [eapply cshape_app; eassumption | exact Hl2]. }
    assert (Hcdef : forall K, is_function value = false ->
              frag_fexpr pv sv bound ((var, KP) :: fl) k sc value = Some K ->
              frag_items pv sv bound k sc ((var, K) :: fl) items = Some (scf, flf) ->
              exists b l', cshape u l (y ++ concat ys) b l' c c' /\ (forall v, v < bound -> alut_get l' v = None)).
    { intros K Hnf Hfe Hrest. rewrite (compile_def (S n) (SDefinition name var kind t value sp) eq_refl) in Hy. cbn [statement] in Hy.
      rewrite (definition_nonfun n var value 0 Hnf) in Hy. mon Hy. destruct a as [code_v rv]. cbn [fst snd] in *.
      destruct (L_fexpr_all pv sv bound u _ n k value K 0 c code_v rv c1 sc l Hm Hfe) as (b1 & l1 & Hs1 & ? & ?).
      pose proof Hs1 as (_ & Hcc1 & Hfr1 & _).
      assert (Hl1 : forall v, v < bound -> alut_get l1 v = None) by (intros v Hv; rewrite Hfr1 by lia; apply Hl; exact Hv).
      destruct (IH c1 ys c' sc _ scf flf l1 Hys Hrest Hl1 ltac:(lia)) as (b2 & l2 & Hs2 & Hl2).
      eexists _, _. split; [|exact Hl2]. eapply cshape_app; [|exact Hs2].
      eapply cshape_cons; [apply (cshape_plain u l (IDefine var) c c); [lia | reflexivity | reflexivity | apply used_plain]|].
      eapply cshape_app; [exact Hs1|].
      apply (cshape_plain u l1 (IAssign var rv) c1 c1); [lia | reflexivity | reflexivity | apply used_plain]. }
    destruct value;
      try (match type of Hf with context [frag_stmt pv sv bound fl k sc ?s0] =>
             destruct (frag_stmt pv sv bound fl k sc s0) as [sc1|] eqn:Hs; [exact (Hplain sc1 eq_refl Hf) |];
             match type of Hf with match ?x with _ => _ end = _ => destruct x as [K|] eqn:Hfe; [|discriminate Hf] end;
             match type of Hf with (if ?b then _ else _) = _ => destruct b; [|discriminate Hf] end;
             exact (Hcdef K eq_refl eq_refl Hf) end).
    clear Hplain Hcdef.
    match type of Hf with (if ?b then _ else _) = _ => destruct b eqn:Hc; [|discriminate Hf] end.
    apply andb_prop in Hc as [Hc Hfb]. apply andb_prop in Hc as [Hfr Hpok].
    rename Hfb into Hfbody.
    cbn [compile_stmt] in Hy. rewrite definition_fun in Hy. mon Hy. fresh_all.
    destruct (L_fb_all pv sv bound u _ n k body _ 0 (c + 1) a0 c1 _ l Hm0 Hfbody) as (bb & l1 & Hsb).
    pose proof Hsb as (_ & Hcc1 & Hfr1 & _).
    destruct (fresh_id_inv _ _ _ _ _ _ Hfr) as (_ & _ & _ & Hvb).
    assert (Hl1 : forall v, v < bound -> alut_get l1 v = None) by (intros v Hv; rewrite Hfr1 by lia; apply Hl; exact Hv).
    destruct (IH c1 ys c' sc _ scf flf l1 Hys Hf Hl1 ltac:(lia)) as (b2 & l2 & Hs2 & Hl2).
    eexists _, _. split; [|exact Hl2].
    eapply cshape_app; [apply cshape_fun; [exact Hsb | apply Hl; exact Hvb] | exact Hs2].
Qed.

(* the outer definitions at chunk level, one after the other: a value (one P_exec) or a function (it joins the
   world); run_outer executes them with the same fuel *)
Lemma items_sim n' k : forall items c cs c' cend e st r st' sc scf fl flf W l E stL F,
  SyltSem.run_outer (S (S n')) e items st = (r, st') ->
  mapM (compile_stmt (S (S n'))) items c = Ok (cs, c') ->
  frag_items pv sv bound k sc fl items = Some (scf, flf) ->
  ucovers u (concat cs) -> c' <= cend -> ctx_ok l F E c cend ->
  rel pv sv bound u fl W sc e st E stL ->
  match r with SyltSem.RAbrupt _ => False | _ => True end -> interesting r ->
  exists b l', cshape u l (concat cs) b l' c c' /\
    match r with
    | SyltSem.RVal e' =>
        exists W' E' stL' F', ExecS E b stL (ROk (E', SigNormal) stL') /\
          rel pv sv bound u flf W' scf e' st' E' stL' /\ ctx_ok l' F' E' c' cend
    | SyltSem.RStop o => exists ev stL', ExecS E b stL (RErr ev stL') /\ SyltSem.trace st' = s_out stL'
    | SyltSem.RAbrupt _ => False
    end.
Proof.
  induction items as [|s items IH]; intros c cs c' cend e st r st' sc scf fl flf W l E stL F Hev Hm Hf Hu Hce Hctx Hrel Hna Hint.
  - destruct (mapM_nil_ok _ _ _ _ Hm) as [-> ->]. cbn in Hf. inversion Hf; subst scf flf.
    cbn in Hev. inversion Hev; subst r st'.
    eexists _, _. split; [apply cshape_nil|]. exists W, E, stL, F. splits; [apply XS_nil | exact Hrel | exact Hctx].
  - apply mapM_cons_ok in Hm as (y & c1 & ys & Hy & Hys & ->). cbn [concat] in *.
    apply ucovers_app in Hu as [Huy Huys].
    pose proof Hctx as [Hbc Hlut HFo HEf].
    assert (Hlb : forall v, v < bound -> alut_get l v = None) by (intros v Hv; apply Hlut; right; exact Hv).
    cbn [frag_items] in Hf. destruct s; try discriminate Hf.
    assert (Hstep : SyltSem.run_outer (S (S n')) e (SDefinition name var kind t value sp :: items) st =
                    SyltSem.bind (SyltSem.exec (S (S n')) e (SDefinition name var kind t value sp)) (fun e' => SyltSem.run_outer (S (S n')) e' items) st)
      by reflexivity.
    rewrite Hstep in Hev. clear Hstep. unfold SyltSem.bind at 1 in Hev.
    (* a global value *)
    assert (Hplain : forall sc1, frag_stmt pv sv bound fl k sc (SDefinition name var kind t value sp) = Some sc1 ->
              frag_items pv sv bound k sc1 fl items = Some (scf, flf) ->
              exists b l', cshape u l (y ++ concat ys) b l' c c' /\
                match r with
                | SyltSem.RVal e' =>
                    exists W' E' stL' F', ExecS E b stL (ROk (E', SigNormal) stL') /\
                      rel pv sv bound u flf W' scf e' st' E' stL' /\ ctx_ok l' F' E' c' cend
                | SyltSem.RStop o => exists ev stL', ExecS E b stL (RErr ev stL') /\ SyltSem.trace st' = s_out stL'
                | SyltSem.RAbrupt _ => False
                end).
    { intros sc1 Hs Hrest. rewrite (compile_def (S (S n')) (SDefinition name var kind t value sp) eq_refl) in Hy.
      destruct (L_stmt_all pv sv bound u fl (S (S (S n'))) k _ 0 c y c1 sc sc1 l Hy Hs) as (_ & _ & (_ & Hcc1 & _)).
      destruct (L_items (S n') k items c1 ys c' sc1 fl scf flf l Hys Hrest Hlb ltac:(lia)) as (_ & _ & (_ & Hc1c' & _) & _).
      assert (HLr : forall l0, (forall v, v < bound -> alut_get l0 v = None) -> exists b2 l2, cshape u l0 (concat ys) b2 l2 c1 c')
        by (intros l0 Hl0; destruct (L_items (S n') k items c1 ys c' sc1 fl scf flf l0 Hys Hrest Hl0 ltac:(lia)) as (b2 & l2 & H2 & _); eauto).
      assert (Hctxs : ctx_ok l F E c c1) by (eapply ctx_sub; [exact Hctx | lia | lia]).
      pose proof (proj1 (proj2 (P_all pv sv bound u (S (S n')) fl W))) as IHs.
      destruct (SyltSem.exec (S (S n')) e (SDefinition name var kind t value sp) st) as [[e1|o|cc] st1] eqn:He1.
      3: { inversion Hev; subst. destruct Hna. }
      2: { inversion Hev; subst.
           destruct (IHs (S (S (S n'))) k _ 0 c y c1 e st _ st' sc sc1 l E stL F He1 Hy Hs Huy Hctxs Hrel Hint) as (b1 & l1 & Hs1 & Hp1).
           pose proof Hs1 as (_ & _ & Hfr1 & _).
           destruct (HLr l1) as (b2 & l2 & Hs2); [intros v Hv; rewrite Hfr1 by lia; apply Hlb; exact Hv|].
           eexists _, _. split; [eapply cshape_app; eassumption|].
           cbn [stmt_post] in Hp1. destruct Hp1 as (rl & Hx & (ev & stL' & -> & Htr)).
           exists ev, stL'. split; [apply ExecS_app_stop; [exact Hx | intros []] | exact Htr]. }
      destruct (IHs (S (S (S n'))) k _ 0 c y c1 e st _ st1 sc sc1 l E stL F He1 Hy Hs Huy Hctxs Hrel I)
        as (b1 & l1 & Hs1 & E1 & stL1 & F1 & Hok1 & Hse1 & Hinc1).
      pose proof Hok1 as (Hx1 & _ & Hrel1 & _).
      assert (Hctx1 : ctx_ok l1 F1 E1 c1 cend) by (eapply (ctx_afterS pv sv bound u fl W); eassumption).
      destruct (IH c1 ys c' cend e1 st1 r st' sc1 scf fl flf W l1 E1 stL1 F1 Hev Hys Hrest Huys Hce Hctx1 Hrel1 Hna Hint)
        as (b2 & l2 & Hs2 & Hpost).
      eexists _, _. split; [eapply cshape_app; eassumption|].
      destruct r as [e2|o|cc]; [| |destruct Hna].
      - destruct Hpost as (W' & E' & stL' & F' & Hx2 & Hr2 & Hc2).
        exists W', E', stL', F'. splits; [eapply ExecS_app; eassumption | exact Hr2 | exact Hc2].
      - destruct Hpost as (ev & stL' & Hx2 & Htr). exists ev, stL'. split; [eapply ExecS_app; eassumption | exact Htr]. }
    (* a function-valued constant *)
    assert (Hcdef : forall K, is_function value = false ->
              frag_fexpr pv sv bound ((var, KP) :: fl) k sc value = Some K -> fresh_id pv sv bound fl sc var = true ->
              frag_items pv sv bound k sc ((var, K) :: fl) items = Some (scf, flf) ->
              exists b l', cshape u l (y ++ concat ys) b l' c c' /\
                match r with
                | SyltSem.RVal e' =>
                    exists W' E' stL' F', ExecS E b stL (ROk (E', SigNormal) stL') /\
                      rel pv sv bound u flf W' scf e' st' E' stL' /\ ctx_ok l' F' E' c' cend
                | SyltSem.RStop o => exists ev stL', ExecS E b stL (RErr ev stL') /\ SyltSem.trace st' = s_out stL'
                | SyltSem.RAbrupt _ => False
                end).
    { intros K Hnf Hfe Hfr Hrest.
      pose proof (frag_fexpr_KF pv sv bound _ _ _ _ _ Hfe) as HK.
      rewrite (compile_def (S (S n')) (SDefinition name var kind t value sp) eq_refl) in Hy. cbn [statement] in Hy.
      rewrite (definition_nonfun (S n') var value 0 Hnf) in Hy. mon Hy. destruct a as [code_v rv]. cbn [fst snd] in *.
      apply ucovers_cons in Huy as [Hu1 Huy]. apply ucovers_app in Huy as [Huv Hua].
      assert (Hcx : 1 <= count_of u var) by (apply Hu1; left; reflexivity).
      assert (Hcrv : 1 <= count_of u rv) by (eapply Hua; [left; reflexivity | right; left; reflexivity]).
      destruct (fresh_id_inv _ _ _ _ _ _ Hfr) as (Hnin & Hnpv & Hnsv & Hvb).
      pose proof (fresh_id_fl _ _ _ _ _ _ Hfr) as Hnfl.
      set (fl0 := (var, KP) :: fl) in *. set (fl' := (var, K) :: fl) in *.
      destruct (L_fexpr_all pv sv bound u fl0 (S n') k value K 0 c code_v rv c1 sc l Hm Hfe) as (_ & _ & (_ & Hcc1 & _) & _).
      destruct (L_items (S n') k items c1 ys c' sc fl' scf flf l Hys Hrest Hlb ltac:(lia)) as (_ & _ & (_ & Hc1c' & _) & _).
      assert (HLr : forall l0, (forall v, v < bound -> alut_get l0 v = None) -> exists b2 l2, cshape u l0 (concat ys) b2 l2 c1 c')
        by (intros l0 Hl0; destruct (L_items (S n') k items c1 ys c' sc fl' scf flf l0 Hys Hrest Hl0 ltac:(lia)) as (b2 & l2 & H2 & _); eauto).
      assert (Hlcc : lut_ok bound l c c) by (eapply lut_ok_sub; [exact Hlut | lia | lia]).
      destruct (step_reserve pv sv bound u fl W sc e st E stL l c var Hrel Hlcc Hfr Hcx) as (Hxd & Hfd0 & Hkd).
      pose proof (rel_reserve pv sv bound u fl W sc e st E stL var Hrel Hfr) as Hrel1.
      set (c0 := length (SyltSem.cells st)) in *. set (p0 := s_ncell stL) in *.
      set (e' := (var, c0) :: e) in *. set (E1 := sset (fmt_var var) p0 E) in *. set (stL1 := snd (alloc_cell stL VNil)) in *.
      set (W0 := world_addR W c0 p0 false) in *.
      assert (Hsd : cshape u l [IDefine var] (fst (agen_one u l (IDefine var))) l c c)
        by (apply cshape_plain; [lia | reflexivity | reflexivity | apply used_plain]).
      assert (Hctx1e : ctx_ok l F E1 c cend).
      { constructor; [exact Hbc | exact Hlut | exact HFo |]. intros t0 Ht0. unfold E1. rewrite sget_sset_var by lia. apply HEf. exact Ht0. }
      assert (Hctx1 : ctx_ok l F E1 c c1) by (eapply ctx_sub; [exact Hctx1e | lia | lia]).
      assert (Hsa : forall l0, cshape u l0 [IAssign var rv] (fst (agen_one u l0 (IAssign var rv))) l0 c1 c1)
        by (intros l0; apply (cshape_plain u l0 (IAssign var rv) c1 c1); [lia | reflexivity | reflexivity | apply used_plain]).
      pose proof (proj2 (proj2 (proj2 (proj2 (proj2 (proj2 (P_all pv sv bound u (S n') fl0 W0))))))) as HX.
      destruct (SyltSem.exec (S (S n')) e (SDefinition name var kind t value sp) st) as [rr stx] eqn:He0.
      cbn [SyltSem.exec] in He0. unfold SyltSem.bind at 1 in He0. rewrite new_cell_eq in He0. fold c0 in He0. fold e' in He0.
      unfold SyltSem.bind at 1 in He0.
      destruct (SyltSem.eval (S n') e' value (s_alloc st (SyltSem.SV Values.VLuaNil))) as [[y_|o|cc] st2] eqn:He1.
      3: { inversion He0; subst rr stx. inversion Hev; subst r st'. destruct Hna. }
      2: { inversion He0; subst rr stx. inversion Hev; subst r st'.
           destruct (HX (S n') k value K 0 c code_v rv c1 e' _ _ _ sc l E1 stL1 F He1 Hm Hfe Huv Hcrv Hctx1 Hrel1 Hint)
             as (b1 & l1 & Hs1 & _ & _ & Hp1).
           pose proof Hs1 as (_ & _ & Hfr1 & _).
           destruct (HLr l1) as (b2 & l2 & Hs2); [intros v0 Hv0; rewrite Hfr1 by lia; apply Hlb; exact Hv0|].
           eexists _, _. split; [eapply cshape_app; [eapply cshape_cons; [exact Hsd|]; eapply cshape_app; [exact Hs1 | apply Hsa] | exact Hs2]|].
           destruct Hp1 as (rl & Hx & (ev & stL' & -> & Htr)). exists ev, stL'. split; [|exact Htr].
           apply ExecS_app_stop; [|intros []]. eapply ExecS_app; [exact Hxd|]. apply ExecS_app_stop; [exact Hx | intros []]. }
      destruct (HX (S n') k value K 0 c code_v rv c1 e' _ _ _ sc l E1 stL1 F He1 Hm Hfe Huv Hcrv Hctx1 Hrel1 I)
        as (b1 & l1 & Hs1 & _ & _ & W1 & E2 & stL2 & F2 & Hw1 & Hok2 & Hrel2 & Hd2).
      destruct K as [|ka kr]; [contradiction|]. cbn [adenotes] in Hd2. destruct Hd2 as (d & Hd & Hdk & -> & Hld).
      pose proof Hok2 as (Hx2 & Hf2 & _ & HFn2 & Hk2).
      assert (Hctx2 : ctx_ok l1 F2 E2 c1 cend) by (eapply (ctx_after_blk bound u l F E1 stL1 c c1 cend); [exact Hctx1e | exact Hs1 | exact Hf2 | exact HFn2]).
      assert (HxE2 : sget (fmt_var var) E2 = Some p0).
      { rewrite (Hk2 var); [unfold E1; apply sget_sset_same|]. right. left. reflexivity. }
      unfold SyltSem.bind at 1 in He0. rewrite write_cell_eq in He0. cbn in He0. inversion He0; subst rr stx. clear He0.
      assert (Hlcv : lut_ok bound l1 c1 c1) by (eapply lut_ok_sub; [apply (cx_lut _ _ _ _ _ _ Hctx2) | lia | lia]).
      destruct (step_cassign pv sv bound u fl0 W1 sc e' st2 E2 stL2 l1 c1 c1 var rv p0 F2 (fd_fid d) Hrel2 Hlcv Hvb Hcx HxE2 Hld)
        as (st3 & Hx3 & Hxa & Hfa).
      pose proof (rel_cdef pv sv bound u fl W sc e st E stL var W1 st2 E2 st3 d Hrel Hw1 Hd
                    (rel_cells_ext pv sv bound u _ _ _ _ _ _ _ _ Hrel2 Hx3) HxE2 Hfr) as Hrel3.
      fold c0 p0 e' in Hrel3. rewrite Hdk in Hrel3. fold fl' in Hrel3.
      set (W2 := world_addF (world_addD W d) c0 p0 (KF ka kr)) in *.
      set (stL3 := set_cell st3 p0 (VFun (fd_fid d))) in *.
      set (bpre := fst (agen_one u l (IDefine var)) ++ (b1 ++ fst (agen_one u l1 (IAssign var rv)))).
      assert (Hxpre : ExecS E bpre stL (ROk (E2, SigNormal) stL3)).
      { unfold bpre. eapply ExecS_app; [exact Hxd|]. eapply ExecS_app; [exact Hx2 | exact Hxa]. }
      destruct (IH c1 ys c' cend e' _ r st' sc scf fl' flf W2 l1 E2 stL3 F2 Hev Hys Hrest Huys Hce Hctx2 Hrel3 Hna Hint)
        as (b2 & l2 & Hs2 & Hpost).
      eexists _, _. split; [eapply cshape_app; [eapply cshape_cons; [exact Hsd|]; eapply cshape_app; [exact Hs1 | apply Hsa] | exact Hs2]|].
      change ((fst (agen_one u l (IDefine var)) ++ b1 ++ fst (agen_one u l1 (IAssign var rv))) ++ b2) with (bpre ++ b2).
      destruct r as [e2|o|cc]; [| |destruct Hna].
      - destruct Hpost as (W' & E' & stL' & F' & Hx4 & Hr4 & Hc4).
        exists W', E', stL', F'. splits; [eapply ExecS_app; eassumption | exact Hr4 | exact Hc4].
      - destruct Hpost as (ev & stL' & Hx4 & Htr). exists ev, stL'. split; [eapply ExecS_app; eassumption | exact Htr]. }
    destruct value;
      try (match type of Hf with context [frag_stmt pv sv bound fl k sc ?s0] =>
             destruct (frag_stmt pv sv bound fl k sc s0) as [sc1|] eqn:Hs; [exact (Hplain sc1 eq_refl Hf) |];
             match type of Hf with match ?x with _ => _ end = _ => destruct x as [K|] eqn:Hfe; [|discriminate Hf] end;
             match type of Hf with (if ?b then _ else _) = _ => destruct b eqn:Hfr; [|discriminate Hf] end;
             exact (Hcdef K eq_refl eq_refl eq_refl Hf) end).
    clear Hplain Hcdef.
    (* a function *)
    match type of Hf with (if ?b then _ else _) = _ => destruct b eqn:Hc; [|discriminate Hf] end.
    apply andb_prop in Hc as [Hc Hfb]. apply andb_prop in Hc as [Hfr Hpok].
    set (ps := param_ids params) in *. set (ks := param_kinds params) in *. set (rk := kind_of_ty ret) in *. set (fl' := (var, KF ks rk) :: fl) in *.
    rename Hfb into Hfbody.
    assert (Hlks : length ks = length ps) by (unfold ks, ps, param_kinds, param_ids; rewrite !map_length; reflexivity).
    cbn [compile_stmt] in Hy. rewrite definition_fun in Hy. fold ps in Hy. mon Hy. fresh_all. rename a0 into bc.
    rewrite exec_def_fun in Hev. fold ps in Hev.
    apply ucovers_cons in Huy as [_ Huy]. apply ucovers_app in Huy as [Hubc _].
    destruct (L_fb_all pv sv bound u _ (S n') k body rk 0 (c + 1) bc c1 _ l Hm0 Hfbody) as (bb & l1 & Hsb).
    pose proof Hsb as (Hemb & Hcc1 & Hfr1 & Hnlb).
    destruct (fresh_id_inv _ _ _ _ _ _ Hfr) as (Hnin & Hnpv & Hnsv & Hvb).
    destruct (L_items (S n') k items c1 ys c' sc fl' scf flf l1 Hys Hf) as (_ & _ & (_ & Hc1c' & _) & _);
      [intros v Hv; rewrite Hfr1 by lia; apply Hlb; exact Hv | lia |].
    assert (Hlut1 : lut_ok bound l (c + 1) c1) by (eapply lut_ok_sub; [exact Hlut | lia | lia]).
    assert (HEf1 : E_free E (c + 1) c1) by (eapply E_free_sub; [exact HEf | lia | lia]).
    pose proof (rel_define_function pv sv bound u fl W sc e st E stL var ps ks rk body (S n') k bc 0 (c + 1) c1 l
                Hrel Hfr Hpok Hlks Hfbody Hm0 Hubc ltac:(lia) Hlut1 HEf1) as Hrel1.
    set (E1 := sset (fmt_var var) (s_ncell stL) E) in *.
    set (d := mkFdyn var ps ks rk body sc fl' (S n') k bc 0 (c + 1) c1 l (length (SyltSem.cells st)) (length (SyltSem.clos st))
                     (def_env var e st) (s_ncell stL) (s_nclo stL) E1) in *.
    assert (Hbb : bb = fbody u d) by (unfold fbody; cbn [d fd_lut fd_code]; apply (Emits_block_fun u l bc bb l1 Hemb)).
    assert (Hx1 : Exec E (SLocalFun (fmt_var var) (map fmt_var ps) bb) stL (ROk (E1, SigNormal) (lua_def_state stL E1 ps bb)))
      by apply Exec_localfun.
    assert (Hctx1 : ctx_ok l1 F E1 c1 cend).
    { constructor; [lia | | eapply F_out_sub; [exact HFo | lia | lia] |].
      - intros t0 Ht0. rewrite Hfr1 by lia. apply Hlut. lia.
      - intros t0 Ht0. unfold E1. rewrite sget_sset_var by lia. apply HEf. lia. }
    change (rel pv sv bound u fl' (world_add W d) sc (def_env var e st) (def_state var ps body e st) E1 (lua_def_state stL E1 ps (fbody u d))) in Hrel1.
    rewrite <- Hbb in Hrel1.
    destruct (IH c1 ys c' cend (def_env var e st) (def_state var ps body e st) r st' sc scf fl' flf (world_add W d) l1 E1
                 (lua_def_state stL E1 ps bb) F Hev Hys Hf Huys Hce Hctx1 Hrel1 Hna Hint)
      as (b2 & l2 & Hs2 & Hpost).
    eexists _, _. split; [eapply cshape_app; [apply cshape_fun; [exact Hsb | apply Hlb; exact Hvb] | exact Hs2]|].
    destruct r as [e2|o|cc]; [| |destruct Hna].
    + destruct Hpost as (W' & E' & stL' & F' & Hx2 & Hr2 & Hc2).
      exists W', E', stL', F'. splits; [|exact Hr2 | exact Hc2].
      cbn [app]. eapply XS_cons; [exact Hx1 | exact Hx2].
    + destruct Hpost as (ev & stL' & Hx2 & Htr). exists ev, stL'. split; [|exact Htr].
      cbn [app]. eapply XS_cons; [exact Hx1 | exact Hx2].
Qed.

End Items.

(* ------------------------------------------------------------------ the whole program *)

Lemma frag_items_defs pv sv bound k : forall items sc fl scf flf,
  frag_items pv sv bound k sc fl items = Some (scf, flf) -> forallb is_def items = true.
Proof.
  induction items as [|s items IH]; intros sc fl scf flf H; [reflexivity|].
  cbn [frag_items] in H. destruct s; try discriminate H. cbn [forallb is_def andb].
  destruct value;
    try (match type of H with context [frag_stmt pv sv bound fl k sc ?s0] =>
           destruct (frag_stmt pv sv bound fl k sc s0) as [sc1|]; [eapply IH; exact H |];
           match type of H with match ?x with _ => _ end = _ => destruct x as [K|]; [|discriminate H] end;
           match type of H with (if ?b then _ else _) = _ => destruct b; [|discriminate H] end; eapply IH; exact H end).
  match type of H with (if ?b then _ else _) = _ => destruct b; [|discriminate H] end. eapply IH; exact H.
Qed.

(* the names of the functions are user variables *)
Lemma frag_items_bound pv sv bound k : forall items fl0 sc0 scg flg,
  frag_items pv sv bound k sc0 fl0 items = Some (scg, flg) ->
  (forall f ar, In (f, ar) fl0 -> f < bound) -> forall f ar, In (f, ar) flg -> f < bound.
Proof.
  induction items as [|it items IH]; intros fl0 sc0 scg flg H Hfl f ar Hin.
  - cbn in H. inversion H; subst. eapply Hfl; exact Hin.
  - cbn [frag_items] in H. destruct it; try discriminate H. destruct value;
      try (match type of H with context [frag_stmt pv sv bound fl0 k sc0 ?s0] =>
             destruct (frag_stmt pv sv bound fl0 k sc0 s0) as [sc1|]; [eapply IH; eassumption |];
             match type of H with match ?x with _ => _ end = _ => destruct x as [K|]; [|discriminate H] end;
             match type of H with (if ?b then _ else _) = _ => destruct b eqn:Hfr; [|discriminate H] end;
             (eapply IH; [exact H | | exact Hin]); intros f0 ar0 [Heq|Hin0]; [|eapply Hfl; exact Hin0];
             inversion Heq; subst; destruct (fresh_id_inv _ _ _ _ _ _ Hfr) as (_ & _ & _ & A); exact A end).
    match type of H with (if ?b then _ else _) = _ => destruct b eqn:Hc; [|discriminate H] end.
    apply andb_prop in Hc as [Hc _]. apply andb_prop in Hc as [Hfr _].
    eapply IH; [exact H | | exact Hin]. intros f0 ar0 [Heq|Hin0]; [|eapply Hfl; exact Hin0].
    inversion Heq; subst. destruct (fresh_id_inv _ _ _ _ _ _ Hfr) as (_ & _ & _ & A). exact A.
Qed.

Lemma frag_inv k r :
  frag k r = true ->
  exists name pv kd t sp items s scg flg,
    r_stmts r = SExternalDefinition name pv kd t sp :: items /\
    name = "print"%string /\ IR.find_start (Resolved.r_vars r) = Some s /\
    pv < N.of_nat (length (Resolved.r_vars r)) + 1 /\
    frag_items pv (N.of_nat (length (Resolved.r_vars r)) + 1) (N.of_nat (length (Resolved.r_vars r)) + 1) k [] [] items = Some (scg, flg) /\
    fun_kind flg s = Some (KF [] KP).
Proof.
  unfold frag. intros H.
  destruct (r_stmts r) as [|s0 items]; [discriminate H|]. destruct s0; try discriminate H.
  frag_split H.
  change (Frag.find_start (Resolved.r_vars r)) with (IR.find_start (Resolved.r_vars r)) in Hfr.
  destruct (IR.find_start (Resolved.r_vars r)) as [s|] eqn:Hs; [|discriminate].
  match type of Hfr with match ?x with _ => _ end = _ => destruct x as [[scg flg]|] eqn:Hg; [|discriminate] end.
  destruct (fun_kind flg s) as [[|[|? ?] [|? ?]]|] eqn:Har; try discriminate.
  apply String.eqb_eq in H. apply N.ltb_lt in Hfr0.
  do 9 eexists. splits; try reflexivity; try eassumption.
Qed.

(* the program's statements, run in any Lua state that satisfies the preamble invariant, has printed nothing
   and has no global named V<n> *)
Definition res_state_of {A} (r : res A) : state := match r with ROk _ s => s | RErr _ s => s | RFuel s => s | RUnsup _ s => s end.

Definition lua_result (st0 : state) (code : list ir) (res : SyltSem.run_result) : Prop :=
  exists r st, ExecBlock PLeaf [] (emit_ast code) st0 r /\ res_state_of r = st /\
    rev (s_out st) = SyltSem.r_trace res /\
    match SyltSem.r_final res with
    | SyltSem.ODone => exists E, r = ROk (E, SigNormal) st
    | _ => exists v, r = RErr v st
    end.

Definition world0 : world := mkWorld (fun _ _ _ => False) (fun _ _ _ => False) (fun _ => False) (fun _ _ => False) 0%nat.

Lemma program_sim k r code n res st0 :
  linv st0 -> s_out st0 = [] -> (forall v, raw_get (get_table st0 globals_id) (VStr (fmt_var v)) = VNil) ->
  s_nclo st0 = s_nclo st_pre ->
  frag k r = true -> lower n r = Ok code -> SyltSem.run n r = res -> good_final (SyltSem.r_final res) ->
  lua_result st0 code res.
Proof.
  intros Hlin0 Hout0 HnoV Hnclo0 Hfrag Hlow Hrun Hgood. subst res.
  destruct (frag_inv k r Hfrag) as (name & pv & kd & t & sp & items & s & scg & flg & Hstmts & -> & Hstart & Hpvb & Hfg & Hars).
  set (bound := N.of_nat (length (Resolved.r_vars r)) + 1) in *.
  pose proof (frag_items_defs _ _ _ _ _ _ _ _ _ Hfg) as Hdefs.
  apply (fun_kind_in flg) in Hars.
  assert (Hne : items <> []) by (intros ->; cbn in Hfg; inversion Hfg; subst; destruct Hars).
  (* the lowering *)
  unfold lower in Hlow. rewrite Hstmts, Hstart in Hlow. fold bound in Hlow.
  match type of Hlow with match ?m bound with _ => _ end = _ => destruct (m bound) as [[code0 cend]| |] eqn:Hm; [|discriminate|discriminate] end.
  inversion Hlow; subst code0. clear Hlow.
  mon Hm. fresh_all.
  apply mapM_cons_ok in Hm0 as (y0 & c1 & csg & Hy0 & Hmg & ->).
  cbn [compile_stmt] in Hy0. apply ret_ok in Hy0 as [<- <-]. rename c into cg.
  (* the fuel *)
  destruct n as [|[|f']].
  { exfalso. destruct items as [|it items']; [contradiction|]. apply mapM_cons_ok in Hmg as (y & c2 & ys & Hy & _ & _).
    cbn [forallb] in Hdefs. apply andb_prop in Hdefs as [Hd _]. destruct it; try discriminate Hd. cbn in Hy. discriminate Hy. }
  { rewrite (run_fuel1 r pv kd t sp items s Hstmts Hstart Hdefs Hne) in Hgood. destruct Hgood. }
  rewrite (run_items_eq (S (S f')) r pv kd t sp items s Hstmts Hstart) in *.
  set (code := concat ([IExternal pv "print"] :: csg) ++ [ICall cg s []]).
  assert (Hcodeq : code = IExternal pv "print" :: concat csg ++ [ICall cg s []]) by reflexivity.
  set (u := count_usages code).
  assert (Hucode : ucovers u code) by apply count_usages_covers.
  assert (Hug : ucovers u (concat csg)).
  { eapply ucovers_incl; [|exact Hucode]. intros x Hx. rewrite Hcodeq. right. apply in_or_app. left. exact Hx. }
  destruct (L_items pv bound bound u (S f') k items bound csg cg [] [] scg flg [] Hmg Hfg ltac:(intros; reflexivity) ltac:(lia))
    as (_ & _ & (_ & Hbcg & _) & _).
  set (prog := fun (bg : block) => SAssign [EVar (fmt_var pv)] [EVar "print"] :: bg ++
                 [SLocal [fmt_var cg] [ECall (EVar (fmt_var s)) []]]).
  assert (Hemit : forall bg lg, cshape u [] (concat csg) bg lg bound cg -> s < bound ->
            emit_ast code = prog bg /\ nolabel (prog bg)).
  { intros bg lg (Hemg & _ & Hfrg & Hnlg) Hsb.
    assert (Hlgs : alut_get lg s = None) by (rewrite Hfrg by lia; reflexivity).
    assert (Hlgc : alut_get lg cg = None) by (rewrite Hfrg by lia; reflexivity).
    split.
    - apply (emit_ast_Emits code (prog bg) lg). fold u. rewrite Hcodeq. unfold prog.
      apply (Em_op u [] (IExternal pv "print") _ _ lg eq_refl). cbn [agen_one snd].
      eapply Emits_app; [exact Hemg|].
      pose proof (Em_op u lg (ICall cg s []) [] [] lg eq_refl (Em_nil u lg)) as H.
      cbn [agen_one fst snd map app] in H. unfold aname, aexpand in H. rewrite Hlgc, Hlgs in H. exact H.
    - unfold prog. constructor; [reflexivity|]. apply nolabel_app; [exact Hnlg | repeat constructor]. }
  (* the Lua run: V<pv> = print *)
  set (st1 := raw_set_in st0 globals_id (VStr (fmt_var pv)) (VBuiltin BPrint)).
  assert (Hx1 : Exec PLeaf (SAssign [EVar (fmt_var pv)] [EVar "print"]) st0 (ROk (PLeaf, SigNormal) st1)).
  { apply (Exec_assign_global PLeaf (fmt_var pv) (EVar "print") st0 [VBuiltin BPrint] st0).
    - apply pre_ncell_env.
    - apply EvalList_one. apply EvalMulti_single; [reflexivity|].
      apply Eval_global; [apply pre_ncell_env | apply (g_print _ (li_genv _ Hlin0)) | reflexivity].
    - apply HnoV.
    - apply (g_nometa _ (li_genv _ Hlin0)). }
  assert (Hlin1 : linv st1) by (apply linv_set_global; exact Hlin0).
  assert (Hrel0 : rel pv bound bound u [] world0 [] [(pv, 0%nat)] print_state PLeaf st1).
  { apply rel_of0; [intros f ar []|]. constructor.
    - intros v [].
    - intros v [].
    - cbn [SyltSem.lookup world0 w_pc]. rewrite N.eqb_refl. reflexivity.
    - exact Hpvb.
    - apply pre_ncell_env.
    - apply glob_set_global.
    - constructor.
      + intros x p H. rewrite pre_ncell_env in H. discriminate.
      + intros x y p H _. rewrite pre_ncell_env in H. discriminate.
      + intros x p H. rewrite pre_ncell_env in H. discriminate.
    - exact (eq_sym Hout0).
    - exact Hlin1.
    - constructor; cbn [world0 w_R w_F w_D w_P w_pc].
      + intros c p b [].
      + intros c p p' b b' [].
      + intros c c' p b b' [].
      + intros c p b [].
      + intros c p b lv [].
      + intros c p d [].
      + intros c p d lv [].
      + intros c p d p' d' [].
      + intros p lv [].
      + reflexivity.
      + intros d [].
      + intros ci Hci. cbn in Hci. lia.
      + cbn [print_state SyltSem.clos length]. unfold fid_of. rewrite Nat.add_0_r, Pos2Nat.id. exact Hnclo0.
      + intros v [].
      + intros v [].
      + intros t0 p0 _ H. rewrite pre_ncell_env in H. discriminate.
      + intros c c' p K K' []. }
  assert (Hctx0 : ctx_ok bound [] [] PLeaf bound (cg + 1)).
  { constructor; [lia | intros t0 _; reflexivity | intros t0 [] | intros t0 _; apply pre_ncell_env]. }
  (* the outer definitions *)
  destruct (SyltSem.run_outer (S (S f')) [(pv, 0%nat)] items print_state) as [rg stg] eqn:Hrg.
  assert (Hnag : match rg with SyltSem.RAbrupt _ => False | _ => True end).
  { destruct rg as [eg|o|cc]; [exact I | exact I | cbn in Hgood; destruct Hgood]. }
  assert (Hintg : interesting rg).
  { destruct rg as [eg|o|cc]; [exact I | | destruct Hnag]. cbn in Hgood. destruct o; try destruct Hgood; try exact I.
    exfalso. eapply run_outer_not_done. exact Hrg. }
  destruct (items_sim pv bound bound u f' k items bound csg cg (cg + 1) _ _ rg stg [] scg [] flg world0 [] PLeaf st1 []
              Hrg Hmg Hfg Hug ltac:(lia) Hctx0 Hrel0 Hnag Hintg) as (bg & lg & Hsg & Hpostg).
  assert (Hsb : s < bound) by (eapply (frag_items_bound pv bound bound k items [] [] scg flg Hfg); [intros f ar [] | exact Hars]).
  destruct rg as [eg|o|cc]; [| |destruct Hnag].
  2: { (* an outer definition fails *)
       destruct Hpostg as (ev & stL' & Hxg & Htr).
       destruct (Hemit bg lg Hsg Hsb) as (Hcode & Hnlp).
       unfold lua_result. fold code. rewrite Hcode.
       exists (RErr ev stL'), stL'. splits.
       - apply ExecBlock_of_ExecS; [|exact Hnlp | intros []].
         unfold prog. eapply XS_cons; [exact Hx1|]. apply ExecS_app_stop; [exact Hxg | intros []].
       - reflexivity.
       - cbn [SyltSem.r_trace]. rewrite <- Htr. reflexivity.
       - cbn [SyltSem.r_final]. cbn in Hgood. destruct o; try destruct Hgood; eauto.
         exfalso. eapply run_outer_not_done. exact Hrg. }
  destruct Hpostg as (Wg & Eg & stLg & Fg & Hxg & Hrelg & Hctxg).
  destruct (Hemit bg lg Hsg Hsb) as (Hcode & Hnlp).
  unfold lua_result. fold code. rewrite Hcode.
  (* the call of start *)
  destruct (r_fund _ _ _ _ _ _ _ _ _ _ _ s _ Hrelg Hars ltac:(discriminate)) as (cf & pf & d & Hlks & Hnth & HlkL & Hcell & Hdk & Hreld).
  assert (Hd : w_D (world_addD Wg d) d) by (right; reflexivity).
  assert (Hpk : fd_pk d = []) by (unfold dkind in Hdk; inversion Hdk; reflexivity).
  assert (Hbind : SyltSem.bind (SyltSem.read_cell cf) (fun fv => SyltSem.apply (S (S f')) fv []) stg =
                  SyltSem.apply (S (S f')) (SyltSem.SClos (fd_ci d)) [] stg)
    by (unfold SyltSem.bind, SyltSem.read_cell; rewrite Hnth; reflexivity).
  rewrite Hlks, Hbind in Hgood |- *.
  destruct (SyltSem.apply (S (S f')) (SyltSem.SClos (fd_ci d)) [] stg) as [ra sta] eqn:Hap.
  assert (Hinta : interesting ra).
  { destruct ra as [v|o|cc]; [exact I | | destruct cc; exact I]. cbn in Hgood. destruct o; try destruct Hgood; try exact I.
    exfalso. pose proof (SemSane.s_apply _ (SemSane.sane_all (S (S f'))) (SyltSem.SClos (fd_ci d)) [] stg) as Hq. rewrite Hap in Hq. exact Hq. }
  assert (Hargs0 : Forall3 (arel (world_addD Wg d)) (fd_pk d) [] []) by (rewrite Hpk; constructor).
  pose proof (proj1 (proj2 (proj2 (proj2 (proj2 (proj2 (P_all pv bound bound u (S (S f')) flg (world_addD Wg d))))))) d [] [] scg eg stg Eg stLg ra sta
                    Hreld Hd Hargs0 Hap Hinta) as Hcall.
  assert (Hev_s : Eval Eg (EVar (fmt_var s)) stLg (ROk (VFun (fd_fid d)) stLg)).
  { rewrite <- Hcell. apply Eval_local. exact HlkL. }
  destruct ra as [v|o|cc]; [| |destruct Hcall].
  - cbv beta iota. cbn [SyltSem.r_final SyltSem.r_trace].
    destruct Hcall as (Wf & vs & stL' & _ & Hc & _ & Hrelf & _).
    pose proof (r_trace _ _ _ _ _ _ _ _ _ _ _ Hrelf) as Htr.
    pose proof (Exec_local Eg [fmt_var cg] [ECall (EVar (fmt_var s)) []] stLg vs stL'
                  (EvalList_one _ _ _ _ (EvalMulti_call _ _ _ _ _ (EvalCall_intro _ _ _ _ _ _ _ _ _ Hev_s (EvalList_nil Eg stLg) Hc)))) as Hx3.
    set (Ef := fst (bind_locals Eg [fmt_var cg] vs stL')) in *. set (stf := snd (bind_locals Eg [fmt_var cg] vs stL')) in *.
    exists (ROk (Ef, SigNormal) stf), stf. splits.
    + apply ExecBlock_of_ExecS; [|exact Hnlp | intros []].
      unfold prog. eapply XS_cons; [exact Hx1|]. eapply ExecS_app; [exact Hxg|]. eapply XS_cons; [exact Hx3 | apply XS_nil].
    + reflexivity.
    + unfold stf. rewrite bind_locals_one. cbn [snd alloc_cell s_out]. rewrite <- Htr. reflexivity.
    + eauto.
  - cbv beta iota. cbn [SyltSem.r_final SyltSem.r_trace]. cbv beta iota in Hgood. cbn [SyltSem.r_final] in Hgood.
    destruct Hcall as (ev & stL' & Hc & Htr).
    assert (Hx3 : Exec Eg (SLocal [fmt_var cg] [ECall (EVar (fmt_var s)) []]) stLg (RErr ev stL')).
    { apply Exec_local_err. apply EvalList_one. apply EvalMulti_call.
      eapply EvalCall_intro; [exact Hev_s | apply EvalList_nil | exact Hc]. }
    exists (RErr ev stL'), stL'. splits.
    + apply ExecBlock_of_ExecS; [|exact Hnlp | intros []].
      unfold prog. eapply XS_cons; [exact Hx1|]. eapply ExecS_app; [exact Hxg|]. apply XS_stop; [exact Hx3 | intros []].
    + reflexivity.
    + rewrite <- Htr. reflexivity.
    + destruct o; try destruct Hgood; eauto.
      exfalso. pose proof (SemSane.s_apply _ (SemSane.sane_all (S (S f'))) (SyltSem.SClos (fd_ci d)) [] stg) as Hq. rewrite Hap in Hq. exact Hq.
Qed.

Theorem fragment_preservation k r code n res :
  frag k r = true -> lower n r = Ok code -> SyltSem.run n r = res -> good_final (SyltSem.r_final res) ->
  exists m, forall m', (m <= m')%nat ->
    let out := run_block Lua53 m' (chunk_ast code) in
    o_trace out = SyltSem.r_trace res /\ same_final (SyltSem.r_final res) (o_final out).
Proof.
  intros Hfrag Hlow Hrun Hgood.
  destruct (program_sim k r code n res st_pre pre_linv pre_out pre_no_fmt_var eq_refl Hfrag Hlow Hrun Hgood)
    as (rl & stf & Hex & Hst & Htr & Hfin).
  pose proof (exec_block_app_run pre_block pre_fuel PLeaf (init_state Lua53) PLeaf st_pre pre_nolabel pre_runs (emit_ast code) rl Hex)
    as [m Hm].
  exists m. intros m' Hm'. cbv zeta. unfold run_block, chunk_ast. rewrite (Hm m' Hm').
  destruct (SyltSem.r_final res) eqn:Hf; try destruct Hgood.
  - destruct Hfin as [E ->]. clear Hst.
    cbn [o_trace o_final same_final]. split; [|exact I]. unfold rev'. rewrite <- rev_alt. exact Htr.
  - destruct Hfin as [v ->]. clear Hst.
    cbn [o_trace o_final same_final]. split; [|exact I]. unfold rev'. rewrite <- rev_alt. exact Htr.
  - destruct Hfin as [v ->]. clear Hst.
    cbn [o_trace o_final same_final]. split; [|exact I]. unfold rev'. rewrite <- rev_alt. exact Htr.
Qed.
