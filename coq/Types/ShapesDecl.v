(* C05, the blob / enum / tuple rules.  The declarations are processed first (compiler.rs sorts them to the
   front); from then on the class of the declared variable has a blob / enum head with exactly the declared
   field / variant names (decl_established + TcInv.decl_stable), every instantiation copies that shape
   (TcInv.copy_shape), and the shape checks reject the violations listed in the property. *)
From Coq Require Import String List NArith ZArith PArith Bool Lia FMapPositive.
From Sylt Require Import Syntax.Resolved Types.TyGraph Types.Tc Types.Ctx Types.TcInv Types.Reject Types.Mismatch.
Import ListNotations.
Local Open Scope tc_scope.

(* ------------------------------------------------------------------ sorted maps *)

Lemma str_compare_refl s : String.compare s s = Eq.
Proof. pose proof (String.compare_antisym s s) as H. destruct (String.compare s s); cbn in H; congruence. Qed.

Lemma fmem_cons {V} k a (b : V) l : fmem k ((a, b) :: l) = String.eqb k a || fmem k l.
Proof. unfold fmem. cbn [flookup]. destruct (String.eqb k a); reflexivity. Qed.

Lemma fmem_finsert {V} k k' (v : V) l : fmem k (finsert k' v l) = String.eqb k k' || fmem k l.
Proof.
  induction l as [|[a b] l IH]; cbn [finsert].
  - rewrite fmem_cons. reflexivity.
  - destruct (String.compare k' a) eqn:E.
    + apply String.compare_eq_iff in E. subst a. rewrite !fmem_cons. destruct (String.eqb k k'); reflexivity.
    + rewrite !fmem_cons. reflexivity.
    + rewrite !fmem_cons, IH. destruct (String.eqb k a), (String.eqb k k'); reflexivity.
Qed.

Lemma fmem_In_keys k (f : fieldmap) : fmem k f = true <-> In k (keys f).
Proof. apply fmem_In. Qed.

(* ------------------------------------------------------------------ the declaration invariants *)

Definition keys_are (f : fieldmap) (K : list string) : Prop := forall k, In k (keys f) <-> In k K.

Definition decl_blob (v : N) (K : list string) (s : st) : Prop :=
  exists name sp f args, head s (N.succ_pos v) = Some (HBlob name sp f args) /\ keys_are f K.
Definition decl_enum (v : N) (K : list string) (s : st) : Prop :=
  exists name sp f args, head s (N.succ_pos v) = Some (HEnum name sp f args) /\ keys_are f K.
Definition decl_extern (v : N) (s : st) : Prop :=
  exists name sp f args id, head s (N.succ_pos v) = Some (HExtBlob name sp f args id).

Lemma shape_blob_keys n sp f a h' K :
  same_shape (HBlob n sp f a) h' = true -> keys_are f K ->
  exists n' sp' f' a', h' = HBlob n' sp' f' a' /\ keys_are f' K.
Proof.
  intros S HK. destruct h'; cbn [same_shape] in S; try discriminate.
  apply andb_true_iff in S as [S1 S2]. rewrite keys_sub_spec in S1, S2.
  do 4 eexists. split; [reflexivity|]. intros k. specialize (HK k). split; intros X; [apply HK, S2, X|apply S1, HK, X].
Qed.

Lemma shape_enum_keys n sp f a h' K :
  same_shape (HEnum n sp f a) h' = true -> keys_are f K ->
  exists n' sp' f' a', h' = HEnum n' sp' f' a' /\ keys_are f' K.
Proof.
  intros S HK. destruct h'; cbn [same_shape] in S; try discriminate.
  apply andb_true_iff in S as [S1 S2]. rewrite keys_sub_spec in S1, S2.
  do 4 eexists. split; [reflexivity|]. intros k. specialize (HK k). split; intros X; [apply HK, S2, X|apply S1, HK, X].
Qed.

Lemma decl_blob_ext v K s s' : wf s -> ext s s' -> decl_blob v K s -> decl_blob v K s'.
Proof.
  intros _ (_ & _ & _ & E4 & _) (n & sp & f & a & H & HK). destruct (E4 _ _ H eq_refl) as (h' & H' & S).
  destruct (shape_blob_keys _ _ _ _ _ _ S HK) as (n' & sp' & f' & a' & -> & HK'). do 4 eexists. eauto.
Qed.

Lemma decl_enum_ext v K s s' : wf s -> ext s s' -> decl_enum v K s -> decl_enum v K s'.
Proof.
  intros _ (_ & _ & _ & E4 & _) (n & sp & f & a & H & HK). destruct (E4 _ _ H eq_refl) as (h' & H' & S).
  destruct (shape_enum_keys _ _ _ _ _ _ S HK) as (n' & sp' & f' & a' & -> & HK'). do 4 eexists. eauto.
Qed.

Lemma decl_extern_ext v s s' : wf s -> ext s s' -> decl_extern v s -> decl_extern v s'.
Proof.
  intros _ (_ & _ & _ & E4 & _) (n & sp & f & a & i & H). destruct (E4 _ _ H eq_refl) as (h' & H' & S).
  destruct h'; cbn in S; try discriminate. do 5 eexists. eassumption.
Qed.

(* ------------------------------------------------------------------ declarations establish them *)

Lemma pos_insert_In x y l : In y (pos_insert x l) <-> x = y \/ In y l.
Proof.
  induction l as [|z l IH]; cbn [pos_insert In]; [tauto|].
  destruct (pos_le z x); cbn [In]; rewrite ?IH; tauto.
Qed.

Lemma source_order_In l y : In y (source_order l) <-> In y l.
Proof.
  unfold source_order. assert (G : forall acc, In y (fold_left (fun a x => pos_insert x a) l acc) <-> In y l \/ In y acc).
  { induction l as [|x l IH]; intros acc; cbn [fold_left In]; [tauto|]. rewrite IH, pos_insert_In. tauto. }
  rewrite G. cbn [In]. tauto.
Qed.

Lemma decl_fields_keys R n fields seen s res s' :
  decl_fields R n fields seen s = Ok (res, s') -> keys_are res (map fst fields).
Proof.
  unfold decl_fields. intros H. apply bind_inv in H as ([r sn] & s1 & H1 & H). injection H as <- _. cbn [fst].
  assert (G : forall fs acc sn0 s0 r0 sn1 s2,
             foldM (fun (acc : fieldmap * genmap) (f : string * (span * ty)) =>
                      let '(k, (ksp, t)) := f in
                      rt <- r_type R t (snd acc);;
                      (if negb (Nat.eqb n (length (snd rt))) then fail KExotic ksp
                       else ret (finsert k (ksp, fst rt) (fst acc), snd rt))) fs (acc, sn0) s0 = Ok ((r0, sn1), s2) ->
             forall k, fmem k r0 = true <-> fmem k acc = true \/ In k (map fst fs)).
  { induction fs as [|[k0 [ksp t]] fs IH]; intros acc sn0 s0 r0 sn1 s2 Hf k; cbn [foldM] in Hf.
    - injection Hf as <- _ _. cbn [map In]. tauto.
    - apply bind_inv in Hf as ([a1 g1] & s3 & Hs & Hf). apply bind_inv in Hs as (rt & s4 & _ & Hs).
      cbn [snd fst] in Hs. destruct (negb (Nat.eqb n (length (snd rt)))); [discriminate|]. injection Hs as <- <- _.
      rewrite (IH _ _ _ _ _ _ Hf k), fmem_finsert. cbn [map fst In]. rewrite orb_true_iff, String.eqb_eq. intuition congruence. }
  intros k. rewrite <- fmem_In_keys. rewrite (G _ _ _ _ _ _ _ H1 k). unfold fmem at 1. cbn. intuition discriminate.
Qed.

Section Establish.
  Variable kinds : PositiveMap.t varkind.
  Variable g : nat.
  Variable R : arec.
  Hypothesis PR : apres R.
  Notation G := (gfix g).

  (* after `Name :: blob { fields }` the class of Name is a blob with exactly those field names *)
  Lemma blob_established name var sp tvars fields external ctx s u s' :
    wf s -> outer_statement kinds G R (SBlob name var sp tvars fields external) ctx s = Ok (u, s') ->
    if external then decl_extern var s' else decl_blob var (map fst fields) s'.
  Proof.
    intros W H. unfold outer_statement in H.
    apply bind_inv in H as (u0 & sa & Ha & H). destruct (pres_add_type_name var _ _ _ W Ha) as [Wa _].
    clear Ha W s. rename sa into s, Wa into W.
    apply bind_inv in H as (bt & s0 & H0 & H).
    assert (s0 = s /\ bt = N.succ_pos var) as [-> ->].
    { unfold var_ty in H0. destruct (PositiveMap.find _ kinds); [|discriminate]. now injection H0. }
    apply bind_inv in H as ([tp seen] & s1 & H1 & H).
    destruct (pres_decl_params tvars _ _ _ W H1) as [W1 E1].
    apply bind_inv in H as (res & s2 & H2 & H).
    destruct (pres_decl_fields R PR _ _ _ _ _ _ W1 H2) as [W2 E2].
    pose proof (decl_fields_keys _ _ _ _ _ _ _ H2) as HK.
    apply bind_inv in H as (t & s3 & H3 & H).
    destruct (push_spec _ _ _ _ W2 H3) as (W3 & E3 & Ht).
    apply bind_inv in H as (r & s4 & H4 & H). injection H as _ <-.
    destruct (unify_ok_heads _ _ _ _ _ _ _ W3 H4) as (W4 & E4 & Heq).
    destruct E4 as (_ & _ & _ & E44 & _).
    destruct external.
    - destruct (E44 _ _ Ht eq_refl) as (h' & Hh' & S). rewrite Heq in Hh'.
      destruct h'; cbn in S; try discriminate. do 5 eexists. eassumption.
    - destruct (E44 _ _ Ht eq_refl) as (h' & Hh' & S). rewrite Heq in Hh'.
      assert (HK' : keys_are res (map fst fields)).
      { intros k. specialize (HK k). rewrite HK. rewrite !in_map_iff. split; intros (x & <- & Hx); exists x; (split; [reflexivity|]);
          apply source_order_In; assumption. }
      destruct (shape_blob_keys _ _ _ _ _ _ S HK') as (n' & sp' & f' & a' & -> & HK'').
      do 4 eexists. eauto.
  Qed.

  Lemma enum_established name var sp tvars variants ctx s u s' :
    wf s -> outer_statement kinds G R (SEnum name var sp tvars variants) ctx s = Ok (u, s') ->
    decl_enum var (map fst variants) s'.
  Proof.
    intros W H. unfold outer_statement in H.
    apply bind_inv in H as (u0 & sa & Ha & H). destruct (pres_add_type_name var _ _ _ W Ha) as [Wa _].
    clear Ha W s. rename sa into s, Wa into W.
    apply bind_inv in H as (bt & s0 & H0 & H).
    assert (s0 = s /\ bt = N.succ_pos var) as [-> ->].
    { unfold var_ty in H0. destruct (PositiveMap.find _ kinds); [|discriminate]. now injection H0. }
    apply bind_inv in H as ([tp seen] & s1 & H1 & H).
    destruct (pres_decl_params tvars _ _ _ W H1) as [W1 E1].
    apply bind_inv in H as (res & s2 & H2 & H).
    destruct (pres_decl_fields R PR _ _ _ _ _ _ W1 H2) as [W2 E2].
    pose proof (decl_fields_keys _ _ _ _ _ _ _ H2) as HK.
    apply bind_inv in H as (t & s3 & H3 & H).
    destruct (push_spec _ _ _ _ W2 H3) as (W3 & E3 & Ht).
    apply bind_inv in H as (r & s4 & H4 & H). injection H as _ <-.
    destruct (unify_ok_heads _ _ _ _ _ _ _ W3 H4) as (W4 & E4 & Heq).
    destruct E4 as (_ & _ & _ & E44 & _).
    destruct (E44 _ _ Ht eq_refl) as (h' & Hh' & S). rewrite Heq in Hh'.
    assert (HK' : keys_are res (map fst variants)).
    { intros k. specialize (HK k). rewrite HK. rewrite !in_map_iff. split; intros (x & <- & Hx); exists x; (split; [reflexivity|]);
        apply source_order_In; assumption. }
    destruct (shape_enum_keys _ _ _ _ _ _ S HK') as (n' & sp' & f' & a' & -> & HK'').
    do 4 eexists. eauto.
  Qed.
End Establish.

(* ------------------------------------------------------------------ helpers *)

Lemma bind_inv_pres {A B} (m : M A) (k : A -> M B) s b s'' :
  pres m -> wf s -> bind m k s = Ok (b, s'') ->
  exists a s', m s = Ok (a, s') /\ wf s' /\ ext s s' /\ k a s' = Ok (b, s'').
Proof.
  intros P W H. apply bind_inv in H as (a & s' & H1 & H2). destruct (P _ _ _ W H1) as [W' E']. eauto 8.
Qed.

Lemma filter_nonempty {A} (p : A -> bool) l x : In x l -> p x = true -> filter p l <> [].
Proof.
  intros Hin Hp E. assert (In x (filter p l)) by (apply filter_In; auto). rewrite E in H. destruct H.
Qed.

Lemma var_ty_inv kinds v s t s' : var_ty kinds v s = Ok (t, s') -> s' = s /\ t = N.succ_pos v.
Proof. unfold var_ty. destruct (PositiveMap.find _ kinds); [|discriminate]. intros [= <- <-]. auto. Qed.

Lemma pres_copy g a : pres (copy (gfix g) a).
Proof. unfold copy. apply pres_bind; [apply framed_pres, (gp_copy _ (gfix_pres g))|intros; apply pres_ret]. Qed.

Lemma pres_unify g sp a b : pres (unify (gfix g) sp a b).
Proof. unfold unify. apply pres_bind; [apply (gp_unify0 _ (gfix_pres g))|intros; apply pres_ret]. Qed.

(* the result of unify is the (old) representative of its first argument *)
Lemma unify_result g sp a b s r s' : unify (gfix g) sp a b s = Ok (r, s') -> rep s a = Some r.
Proof.
  unfold unify. intros H. apply bind_inv in H as ([r0 sn] & s1 & H1 & H). injection H as <- _.
  destruct g as [|g]; [discriminate|]. cbn [gfix gstep g_unify] in H1. unfold unify_body in H1.
  apply bind_inv in H1 as (ra & s2 & Ha & H1). apply find_inv in Ha as [-> Ha].
  apply bind_inv in H1 as (rb & s3 & Hb & H1). apply find_inv in Hb as [-> Hb].
  destruct (Pos.eqb ra rb || seen_mem ra rb []).
  - injection H1 as <- _ _. assumption.
  - apply bind_inv in H1 as (ta & s4 & _ & H1). apply bind_inv in H1 as (tb & s5 & _ & H1).
    apply bind_inv in H1 as (sn' & s6 & _ & H1). apply bind_inv in H1 as (u & s7 & _ & H1).
    apply bind_inv in H1 as (u' & s8 & _ & H1). injection H1 as <- _ _. assumption.
Qed.

(* after a successful unify the result, a and b all have the same head *)
Lemma unify_result_head g sp a b s r s' :
  wf s -> unify (gfix g) sp a b s = Ok (r, s') ->
  wf s' /\ ext s s' /\ head s' r = head s' a /\ head s' a = head s' b.
Proof.
  intros W H. pose proof (unify_result _ _ _ _ _ _ _ H) as Hr.
  destruct (unify_ok_heads _ _ _ _ _ _ _ W H) as (W' & E' & Heq).
  split; [assumption|]. split; [assumption|]. split; [|assumption].
  destruct (head_of_rep _ _ _ W Hr) as [_ Rr]. destruct E' as (_ & _ & E3 & _).
  destruct (E3 _ _ _ Rr Hr) as (q & Q1 & Q2). eapply same_rep_same_head; eassumption.
Qed.

(* ------------------------------------------------------------------ blob rules *)

Section BlobRules.
  Variable kinds : PositiveMap.t varkind.
  Variable g : nat.
  Notation G := (gfix g).
  Notation afix := (afix kinds G).
  Let PG : gpres G := gfix_pres g.
  Let PA f : apres (afix f) := afix_pres kinds G PG f.

  Variable v : N.
  Variable K : list string.

  Definition Jb (s : st) : Prop := wf s /\ decl_blob v K s.
  Lemma Jb_closed : pres_closed Jb.
  Proof. apply inv_pres_closed. intros s s' W E. now apply decl_blob_ext. Qed.

  (* the given fields of an instantiation *)
  Lemma given_keys : forall (fields : list (string * expr)) acc s given s',
    foldM (fun (acc : fieldmap) (fe : string * expr) =>
             u <- push_type HUnknown;; ret (finsert (fst fe) (expr_span (snd fe), u) acc)) fields acc s = Ok (given, s') ->
    forall k, fmem k given = true <-> fmem k acc = true \/ In k (map fst fields).
  Proof.
    induction fields as [|[k0 e0] fields IH]; intros acc s given s' H k; cbn [foldM] in H.
    - injection H as <- _. cbn [map In]. tauto.
    - apply bind_inv in H as (a1 & s1 & H1 & H). apply bind_inv in H1 as (u & s2 & _ & H1). injection H1 as <- _.
      rewrite (IH _ _ _ _ H k), fmem_finsert. cbn [map fst In]. rewrite orb_true_iff, String.eqb_eq. intuition congruence.
  Qed.

  (* instantiating the declared blob: the copy has the declared field names *)
  Lemma inst_prefix fields self sp f ctx s :
    Jb s ->
    (forall blob_ty s1 n sp1 bf ba, wf s1 -> head s1 blob_ty = Some (HBlob n sp1 bf ba) -> keys_are bf K ->
        notok ((t <- find_type blob_ty ;;
                match t with
                | HBlob name _ bfields bargs =>
                  given <- foldM (fun (acc : fieldmap) (fe : string * expr) =>
                                    u <- push_type HUnknown;; ret (finsert (fst fe) (expr_span (snd fe), u) acc)) fields [] ;;
                  let missing := map (fun _ => mkErr KMissingField sp)
                                     (filter (fun kv : string * (span * tyid) => negb (fmem (fst kv) given)) bfields) in
                  let unknown := map (fun kv : string * (span * tyid) => mkErr KUnknownField (fst (snd kv)))
                                     (filter (fun kv : string * (span * tyid) => negb (fmem (fst kv) bfields)) given) in
                  match missing ++ unknown with
                  | e1 :: more => fail_many e1 more
                  | [] =>
                    given_blob <- push_type (HBlob name sp given bargs) ;;
                    self_ty <- var_ty kinds self ;;
                    unify G sp self_ty given_blob ;;;
                    ret0 <- foldM (fun (acc : option tyid) (fe : string * expr) =>
                                     '(iret, ety) <- r_expr (afix f) (snd fe) ctx ;;
                                     acc' <- unify_option G sp acc iret ;;
                                     match flookup (fst fe) given with
                                     | Some (_, ft) => unify G (expr_span (snd fe)) ety ft ;;; ret acc'
                                     | None => panic PFieldIndex
                                     end) fields None ;;
                    u <- unify G sp given_blob blob_ty ;;
                    ret (ret0, u)
                  end
                | HExtBlob _ _ _ _ _ => fail KExternBlobInstance sp
                | _ => fail KViolating sp
                end) s1)) ->
    notok (r_expr (afix (S f)) (EBlob v fields self sp) ctx s).
  Proof.
    intros [W (n & sp1 & bf & ba & Hd & HK)] Hrest.
    cbn [Tc.afix astep r_expr]. unfold expr_body. apply bind_notok_l. cbv beta iota.
    apply bind_cases; [apply pres_var_ty|assumption|]. intros bt s0 H0 W0 E0.
    apply var_ty_inv in H0 as [-> ->].
    apply bind_cases; [apply pres_copy|assumption|]. intros blob_ty s1 H1 W1 E1.
    destruct (copy_shape _ _ _ _ _ W H1) as (_ & _ & (h & h' & Hh & Hh' & [Sh _])).
    rewrite Hd in Hh. injection Hh as <-.
    destruct (shape_blob_keys _ _ _ _ _ _ Sh HK) as (n' & sp' & f' & a' & -> & HK').
    eapply Hrest; eassumption.
  Qed.

  (* missing or unknown field at instantiation *)
  Lemma blob_inst_rejected fields self sp f ctx s :
    Jb s ->
    (exists k, In k K /\ ~ In k (map fst fields)) \/ (exists k, In k (map fst fields) /\ ~ In k K) ->
    notok (r_expr (afix f) (EBlob v fields self sp) ctx s).
  Proof.
    intros HJ Bad. destruct f as [|f]; [apply notok_fuel|]. apply inst_prefix; [assumption|].
    intros blob_ty s1 n sp1 bf ba W1 Hh HK.
    rewrite (bind_ok _ _ _ _ _ (find_type_ok _ _ _ Hh)).
    apply bind_cases; [prs|assumption|]. intros given s2 H2 W2 E2.
    pose proof (given_keys _ _ _ _ _ H2) as GK.
    assert (GK' : forall k, fmem k given = true <-> In k (map fst fields)).
    { intros k. rewrite GK. unfold fmem at 1. cbn. intuition discriminate. }
    cbv zeta.
    match goal with |- notok (match ?l with _ => _ end _) => destruct l eqn:El end; [|apply notok_fail_many].
    exfalso. apply app_eq_nil in El as [E1 E2'].
    apply map_eq_nil in E1. apply map_eq_nil in E2'.
    destruct Bad as [(k & Hk & Nk)|(k & Hk & Nk)].
    - apply (HK k) in Hk. unfold keys in Hk. apply in_map_iff in Hk as ([k' x] & <- & Hin).
      eapply filter_nonempty; [exact Hin| |exact E1]. cbn [fst].
      destruct (fmem k' given) eqn:X; [|reflexivity]. apply GK' in X. contradiction.
    - apply GK' in Hk. apply fmem_In_keys in Hk. unfold keys in Hk. apply in_map_iff in Hk as ([k' x] & <- & Hin).
      eapply filter_nonempty; [exact Hin| |exact E2']. cbn [fst].
      destruct (fmem k' bf) eqn:X; [|reflexivity]. apply fmem_In_keys, (HK k') in X. contradiction.
  Qed.
End BlobRules.

(* instantiating an externblob *)
Lemma extern_inst_rejected kinds g v fields self sp f ctx s :
  wf s -> decl_extern v s -> notok (r_expr (afix kinds (gfix g) f) (EBlob v fields self sp) ctx s).
Proof.
  intros W (n & sp1 & bf & ba & i & Hd). destruct f as [|f]; [apply notok_fuel|].
  cbn [afix astep r_expr]. unfold expr_body. apply bind_notok_l. cbv beta iota.
  apply bind_cases; [apply pres_var_ty|assumption|]. intros bt s0 H0 W0 E0.
  apply var_ty_inv in H0 as [-> ->].
  apply bind_cases; [apply pres_copy|assumption|]. intros blob_ty s1 H1 W1 E1.
  destruct (copy_shape _ _ _ _ _ W H1) as (_ & _ & (h & h' & Hh & Hh' & [Sh _])).
  rewrite Hd in Hh. injection Hh as <-.
  rewrite (bind_ok _ _ _ _ _ (find_type_ok _ _ _ Hh')).
  destruct h'; cbn in Sh; try discriminate Sh. apply notok_fail.
Qed.

(* ------------------------------------------------------------------ enum rules *)

Section EnumRules.
  Variable kinds : PositiveMap.t varkind.
  Variable g : nat.
  Notation G := (gfix g).
  Notation afix := (afix kinds G).
  Let PG : gpres G := gfix_pres g.
  Let PA f : apres (afix f) := afix_pres kinds G PG f.

  Variable ev : N.
  Variable K : list string.

  Definition Je (s : st) : Prop := wf s /\ decl_enum ev K s.
  Lemma Je_closed : pres_closed Je.
  Proof. apply inv_pres_closed. intros s s' W E. now apply decl_enum_ext. Qed.

  (* constructing a variant the enum does not have *)
  Lemma variant_unknown_rejected variant value sp f ctx s :
    Je s -> ~ In variant K ->
    notok (r_expr (afix f) (EVariant ev variant value sp) ctx s).
  Proof.
    intros [W D] Nk. destruct f as [|f]; [apply notok_fuel|].
    cbn [Tc.afix astep r_expr]. unfold expr_body. apply bind_notok_l. cbv beta iota.
    apply bind_cases; [apply (ap_expr _ (PA _))|assumption|]. intros [vret pv] s1 H1 W1 E1.
    pose proof (decl_enum_ext _ _ _ _ W E1 D) as (n & sp1 & vf & va & Hd & HK).
    apply bind_cases; [apply pres_var_ty|assumption|]. intros et s2 H2 W2 E2.
    apply var_ty_inv in H2 as [-> ->].
    apply bind_cases; [apply pres_copy|assumption|]. intros enum_ty s3 H3 W3 E3.
    destruct (copy_shape _ _ _ _ _ W1 H3) as (_ & _ & (h & h' & Hh & Hh' & [Sh _])).
    rewrite Hd in Hh. injection Hh as <-.
    destruct (shape_enum_keys _ _ _ _ _ _ Sh HK) as (n' & sp' & f' & a' & -> & HK').
    apply bind_cases; [apply pres_add_constraint|assumption|]. intros u4 s4 H4 W4 E4.
    destruct (add_constraint_spec _ _ _ _ _ W3 H4) as (_ & _ & Hd4 & _ & C4 & _).
    apply bind_notok_l. apply (check_rejects g sp enum_ty _ s4 W4 C4).
    intros g' s' W' E'. cbn [check_one].
    destruct E' as (_ & _ & _ & E44 & _).
    assert (Hx : head s4 enum_ty = Some (HEnum n' sp' f' a')) by (rewrite Hd4; assumption).
    destruct (E44 _ _ Hx eq_refl) as (h'' & Hh'' & Sh'').
    destruct (shape_enum_keys _ _ _ _ _ _ Sh'' HK') as (n2 & sp2 & f2 & a2 & -> & HK2).
    rewrite (bind_ok _ _ _ _ _ (find_type_ok _ _ _ Hh'')).
    destruct (flookup variant f2) as [[? ?]|] eqn:Fl; [|apply notok_fail].
    exfalso. apply Nk, (HK2 variant), fmem_In_keys. unfold fmem. rewrite Fl. reflexivity.
  Qed.
End EnumRules.

(* ------------------------------------------------------------------ tuples *)

Section TupleRules.
  Variable kinds : PositiveMap.t varkind.
  Variable g : nat.
  Notation G := (gfix g).
  Notation afix := (afix kinds G).
  Let PG : gpres G := gfix_pres g.
  Let PA f : apres (afix f) := afix_pres kinds G PG f.

  Lemma mapM_length {A B} (f : A -> M B) : forall l s r s', mapM f l s = Ok (r, s') -> length r = length l.
  Proof.
    induction l as [|x l IH]; intros s r s' H; cbn [mapM] in H.
    - injection H as <- _. reflexivity.
    - apply bind_inv in H as (y & s1 & _ & H). apply bind_inv in H as (ys & s2 & H2 & H).
      injection H as <- _. cbn [length]. f_equal. eapply IH; eassumption.
  Qed.

  Lemma tuple_fold_length R sp ctx : forall values acc s r s',
    foldM (fun (acc : option tyid * list tyid) (v : expr) =>
             '(iret, t) <- r_expr R v ctx ;; r' <- unify_option G sp (fst acc) iret ;; ret (r', snd acc ++ [t])) values acc s
    = Ok (r, s') -> length (snd r) = (length (snd acc) + length values)%nat.
  Proof.
    induction values as [|v l IH]; intros acc s r s' H; cbn [foldM] in H.
    - injection H as <- _. cbn. lia.
    - apply bind_inv in H as (acc1 & s1 & H1 & H). apply IH in H. rewrite H.
      apply bind_inv in H1 as ([iret t] & s2 & _ & H1). apply bind_inv in H1 as (r' & s3 & _ & H1). injection H1 as <- _.
      cbn [snd length]. rewrite app_length. cbn. lia.
  Qed.

  (* a tuple expression yields a class whose head is a tuple of the same length *)
  Lemma tuple_yields values sp f ctx s r s' :
    wf s -> r_expr (afix f) (ECollection CTuple values sp) ctx s = Ok (r, s') ->
    wf s' /\ ext s s' /\ exists tys, head s' (snd r) = Some (HTuple tys) /\ length tys = length values.
  Proof.
    intros W H. destruct (ap_expr _ (PA f) _ _ _ _ _ W H) as [W' E']. split; [assumption|]. split; [assumption|].
    destruct f as [|f]; [discriminate|].
    cbn [Tc.afix astep r_expr] in H. unfold expr_body in H.
    apply bind_inv in H as ([er ex] & s1 & H1 & H). cbv beta iota in H1.
    apply bind_inv in H1 as ([ret0 tys] & s3 & Hm & H1).
    apply bind_inv in H1 as (t & s4 & Hp & H1). injection H1 as <- <- <-.
    rewrite push_type_eq in Hp. injection Hp as <- <-.
    pose proof (head_push_new (HTuple tys) s3) as Hh.
    rewrite (bind_ok _ _ _ _ _ (find_type_ok _ _ _ Hh)) in H. injection H as <- <-. cbn [snd].
    exists tys. split; [assumption|]. exact (tuple_fold_length _ _ _ _ _ _ _ _ Hm).
  Qed.

  (* a constant index outside the tuple *)
  Lemma tuple_index_rejected values sp1 i sp2 sp f ctx s :
    wf s -> (i < 0 \/ Z.of_nat (length values) <= i)%Z ->
    notok (r_expr (afix f) (EIndex (ECollection CTuple values sp1) (EInt i sp2) sp) ctx s).
  Proof.
    intros W Hi. destruct f as [|f]; [apply notok_fuel|].
    cbn [Tc.afix astep r_expr]. unfold expr_body. apply bind_notok_l. cbv beta iota.
    apply bind_cases; [apply (ap_expr _ (PA _))|assumption|]. intros [vret tv] s1 H1 W1 E1.
    destruct (tuple_yields _ _ _ _ _ _ _ W H1) as (_ & _ & (tys & Ht & Hl)). cbn [snd] in Ht.
    apply bind_cases; [apply (ap_expr _ (PA _))|assumption|]. intros [iret ti] s2 H2 W2 E2.
    apply bind_cases; [apply pres_push|assumption|]. intros int_t s3 H3 W3 E3.
    apply bind_cases; [apply pres_unify|assumption|]. intros u4 s4 H4 W4 E4.
    apply bind_cases; [apply pres_push|assumption|]. intros ex s5 H5 W5 E5.
    apply bind_cases; [apply pres_add_constraint|assumption|]. intros u6 s6 H6 W6 E6.
    destruct (add_constraint_spec _ _ _ _ _ W5 H6) as (_ & _ & _ & _ & C6 & _).
    apply bind_notok_l. apply (check_rejects g sp tv _ s6 W6 C6).
    intros g' s' W' E'. cbn [check_one]. unfold constant_index.
    assert (E1' : ext s1 s').
    { eapply ext_trans; [exact E2|]. eapply ext_trans; [exact E3|]. eapply ext_trans; [exact E4|].
      eapply ext_trans; [exact E5|]. eapply ext_trans; [exact E6|exact E']. }
    destruct E1' as (_ & _ & _ & E44 & _). destruct (E44 _ _ Ht eq_refl) as (h' & Hh' & Sh).
    destruct h'; cbn in Sh; try discriminate. apply PeanoNat.Nat.eqb_eq in Sh.
    rewrite (bind_ok _ _ _ _ _ (find_type_ok _ _ _ Hh')).
    destruct (Z.ltb_spec i 0) as [L|L]; [apply notok_fail|].
    destruct (nth_error ts (Z.to_nat i)) eqn:En; [|apply notok_fail].
    exfalso. assert (Z.to_nat i < length ts)%nat by (apply nth_error_Some; congruence). lia.
  Qed.

  (* comparing tuples of different lengths for equality *)
  Lemma tuple_length_rejected op xs ys spx spy sp f ctx s :
    wf s -> op = Equals \/ op = NotEquals \/ op = AssertEq -> length xs <> length ys ->
    notok (r_expr (afix f) (EBinOp op (ECollection CTuple xs spx) (ECollection CTuple ys spy) sp) ctx s).
  Proof.
    intros W Hop Hl. destruct f as [|f]; [apply notok_fuel|].
    cbn [Tc.afix astep r_expr]. unfold expr_body. apply bind_notok_l.
    assert (Core : notok (bin_op_ret G (afix f) sp ctx (ECollection CTuple xs spx) (ECollection CTuple ys spy) CEqu HBool s)).
    { unfold bin_op_ret, bin_op. apply bind_notok_l.
      apply bind_cases; [apply (ap_expr _ (PA _))|assumption|]. intros [ar x] s1 H1 W1 E1.
      destruct (tuple_yields _ _ _ _ _ _ _ W H1) as (_ & _ & (tx & Hx & Lx)). cbn [snd] in Hx.
      apply bind_cases; [apply (ap_expr _ (PA _))|assumption|]. intros [br y] s2 H2 W2 E2.
      destruct (tuple_yields _ _ _ _ _ _ _ W1 H2) as (_ & _ & (ty & Hy & Ly)). cbn [snd] in Hy.
      apply bind_cases; [apply pres_add_constraint|assumption|]. intros u3 s3 H3 W3 E3.
      destruct (add_constraint_spec _ _ _ _ _ W2 H3) as (_ & _ & _ & _ & C3 & _).
      apply bind_cases; [apply pres_add_constraint|assumption|]. intros u4 s4 H4 W4 E4.
      destruct (add_constraint_spec _ _ _ _ _ W3 H4) as (_ & _ & _ & _ & _ & K4).
      apply bind_notok_l. apply (check_rejects g sp x (CEqu y) s4 W4 (K4 _ _ C3)).
      intros g' s' W' E'. cbn [check_one]. apply bind_notok_l.
      assert (Ex : ext s1 s') by (eapply ext_trans; [exact E2|]; eapply ext_trans; [exact E3|]; eapply ext_trans; [exact E4|exact E']).
      assert (Ey : ext s2 s') by (eapply ext_trans; [exact E3|]; eapply ext_trans; [exact E4|exact E']).
      destruct Ex as (_ & _ & _ & Ex4 & _). destruct Ey as (_ & _ & _ & Ey4 & _).
      destruct (Ex4 _ _ Hx eq_refl) as (hx & Hhx & Sx). destruct (Ey4 _ _ Hy eq_refl) as (hy & Hhy & Sy).
      destruct hx; cbn in Sx; try discriminate. destruct hy; cbn in Sy; try discriminate.
      apply PeanoNat.Nat.eqb_eq in Sx, Sy.
      apply (unify_rejects g' sp x y s' _ _ W' Hhx Hhy eq_refl eq_refl). cbn [same_shape].
      apply PeanoNat.Nat.eqb_neq. congruence. }
    destruct Hop as [Hop|[Hop|Hop]]; subst op; exact Core.
  Qed.
End TupleRules.

(* ------------------------------------------------------------------ whole programs: a declaration, then the violation anywhere *)

Lemma iterM_notok_after {A} (f : A -> M unit) (Inv : st -> Prop) pre d mid x post :
  (forall y, pres (f y)) ->
  (forall s s', wf s -> ext s s' -> Inv s -> Inv s') ->
  (forall s u s', wf s -> f d s = Ok (u, s') -> Inv s') ->
  (forall s, wf s /\ Inv s -> notok (f x s)) ->
  forall s, wf s -> notok (iterM f (pre ++ d :: mid ++ x :: post) s).
Proof.
  intros P IE Hd Hx. induction pre as [|p pre IH]; intros s W; cbn [app iterM].
  - apply bind_cases; [apply P|assumption|]. intros u s1 H1 W1 E1.
    apply (iterM_notok_j _ (inv_pres_closed Inv IE)); [assumption|assumption|].
    split; [assumption|]. exact (Hd _ _ _ W H1).
  - apply bind_cases; [apply P|assumption|]. intros u s1 H1 W1 E1. now apply IH.
Qed.

(* Generic form: `decl` establishes an extension-closed invariant Inv under which the expression e is rejected
   in every TypeCtx; then a program that has `decl` among its (types-first sorted) statements and e anywhere
   inside the value of a later top-level definition is not accepted. *)
Theorem rejected_after_decl (Inv : st -> Prop) (decl : stmt) (e : expr) :
  (forall s s', wf s -> ext s s' -> Inv s -> Inv s') ->
  (forall kinds g R s u s', apres R -> wf s -> outer_statement kinds (gfix g) R decl ctx_new s = Ok (u, s') -> Inv s') ->
  (forall kinds g f ctx s, wf s /\ Inv s -> notok (r_expr (afix kinds (gfix g) f) e ctx s)) ->
  forall pre mid post dname dvar dkind dty (C : ectx) dsp sp0 fuel vars,
    typecheck fuel (mkResolved vars
      (pre ++ decl :: mid ++ SDefinition dname dvar dkind dty (plug_e e (SStatementExpression e sp0) C) dsp :: post)) <> Ok tt.
Proof.
  intros IE Hd He pre mid post dname dvar dkind dty C dsp sp0 fuel vars.
  apply typecheck_notok_main. intros s W.
  set (kinds := kinds_of vars 1 (PositiveMap.empty varkind)).
  pose proof (gfix_pres fuel) as PG. pose proof (afix_pres kinds (gfix fuel) PG fuel) as PA.
  apply (iterM_notok_after _ Inv); try assumption.
  - intros y. now apply pres_outer_statement.
  - intros s0 u s1 W0 H0. exact (Hd _ _ _ _ _ _ PA W0 H0).
  - intros s0 J0. cbv beta.
    set (J := fun s => wf s /\ Inv s).
    assert (HJ : pres_closed J) by (apply inv_pres_closed; assumption).
    apply (outer_def_notok_j kinds (gfix fuel) PG J HJ e (SStatementExpression e sp0)); [assumption|].
    assert (Re : forall c, rej_e_j kinds (gfix fuel) J e c) by (intros c f s' J'; now apply He).
    assert (Rs : forall c, rej_s_j kinds (gfix fuel) J (SStatementExpression e sp0) c).
    { intros c f s' J'. destruct f as [|f]; [apply notok_fuel|]. cbn [afix astep r_stmt]. unfold stmt_body.
      apply bind_notok_l. now apply He. }
    apply (proj1 (at_all _ _ Re Rs)).
Qed.

Definition bad_fields (declared given : list string) : Prop :=
  (exists k, In k declared /\ ~ In k given) \/ (exists k, In k given /\ ~ In k declared).

(* instantiating a blob with a missing or an unknown field, anywhere after its declaration *)
Theorem blob_instance_shape_rejected name v sp tvars bfields fields self isp :
  bad_fields (map fst bfields) (map fst fields) ->
  forall pre mid post dname dvar dkind dty (C : ectx) dsp sp0 fuel vars,
    typecheck fuel (mkResolved vars
      (pre ++ SBlob name v sp tvars bfields false :: mid ++
       SDefinition dname dvar dkind dty (plug_e (EBlob v fields self isp) (SStatementExpression (EBlob v fields self isp) sp0) C) dsp :: post))
    <> Ok tt.
Proof.
  intros Bad. apply (rejected_after_decl (decl_blob v (map fst bfields))).
  - intros s s' W E. now apply decl_blob_ext.
  - intros kinds g R s u s' PR W H. exact (blob_established kinds g R PR _ _ _ _ _ false _ _ _ _ W H).
  - intros kinds g f ctx s J. now apply (blob_inst_rejected kinds g v (map fst bfields)).
Qed.

(* instantiating an externblob *)
Theorem extern_instance_rejected name v sp tvars bfields fields self isp :
  forall pre mid post dname dvar dkind dty (C : ectx) dsp sp0 fuel vars,
    typecheck fuel (mkResolved vars
      (pre ++ SBlob name v sp tvars bfields true :: mid ++
       SDefinition dname dvar dkind dty (plug_e (EBlob v fields self isp) (SStatementExpression (EBlob v fields self isp) sp0) C) dsp :: post))
    <> Ok tt.
Proof.
  apply (rejected_after_decl (decl_extern v)).
  - intros s s' W E. now apply decl_extern_ext.
  - intros kinds g R s u s' PR W H. exact (blob_established kinds g R PR _ _ _ _ _ true _ _ _ _ W H).
  - intros kinds g f ctx s [W D]. now apply extern_inst_rejected.
Qed.

(* constructing a variant the enum does not have *)
Theorem unknown_variant_rejected name ev sp tvars variants variant value vsp :
  ~ In variant (map fst variants) ->
  forall pre mid post dname dvar dkind dty (C : ectx) dsp sp0 fuel vars,
    typecheck fuel (mkResolved vars
      (pre ++ SEnum name ev sp tvars variants :: mid ++
       SDefinition dname dvar dkind dty (plug_e (EVariant ev variant value vsp) (SStatementExpression (EVariant ev variant value vsp) sp0) C) dsp :: post))
    <> Ok tt.
Proof.
  intros Nk. apply (rejected_after_decl (decl_enum ev (map fst variants))).
  - intros s s' W E. now apply decl_enum_ext.
  - intros kinds g R s u s' PR W H. exact (enum_established kinds g R PR _ _ _ _ _ _ _ _ _ W H).
  - intros kinds g f ctx s J. now apply (variant_unknown_rejected kinds g ev (map fst variants)).
Qed.

(* tuple rules need no declaration: they are C03-style placements *)
Theorem tuple_index_out_of_range_rejected values sp1 i sp2 sp :
  (i < 0 \/ Z.of_nat (length values) <= i)%Z ->
  forall (P : pctx) sp0 fuel vars,
    (match P with PTop _ _ => False | _ => True end) ->
    let e := EIndex (ECollection CTuple values sp1) (EInt i sp2) sp in
    typecheck fuel (mkResolved vars (plug_p e (SStatementExpression e sp0) P)) <> Ok tt.
Proof.
  intros Hi P sp0 fuel vars HP e. apply typecheck_notok. intros s W.
  apply solve_notok; [apply gfix_pres|assumption|].
  set (kinds := kinds_of vars 1 (PositiveMap.empty varkind)).
  assert (Re : forall c, rej_e kinds (gfix fuel) e c) by (intros c f s' W'; now apply tuple_index_rejected).
  assert (Rs : forall c, rej_s kinds (gfix fuel) (SStatementExpression e sp0) c).
  { intros c f s' W'. destruct f as [|f]; [apply notok_fuel|]. cbn [afix astep r_stmt]. unfold stmt_body.
    apply bind_notok_l. now apply tuple_index_rejected. }
  destruct P; [|contradiction]. cbn [at_p]. apply (proj1 (at_all _ _ Re Rs)).
Qed.

Theorem tuple_length_mismatch_rejected op xs ys spx spy sp :
  op = Equals \/ op = NotEquals \/ op = AssertEq -> length xs <> length ys ->
  forall (P : pctx) sp0 fuel vars,
    (match P with PTop _ _ => False | _ => True end) ->
    let e := EBinOp op (ECollection CTuple xs spx) (ECollection CTuple ys spy) sp in
    typecheck fuel (mkResolved vars (plug_p e (SStatementExpression e sp0) P)) <> Ok tt.
Proof.
  intros Hop Hl P sp0 fuel vars HP e. apply typecheck_notok. intros s W.
  apply solve_notok; [apply gfix_pres|assumption|].
  set (kinds := kinds_of vars 1 (PositiveMap.empty varkind)).
  assert (Re : forall c, rej_e kinds (gfix fuel) e c) by (intros c f s' W'; now apply tuple_length_rejected).
  assert (Rs : forall c, rej_s kinds (gfix fuel) (SStatementExpression e sp0) c).
  { intros c f s' W'. destruct f as [|f]; [apply notok_fuel|]. cbn [afix astep r_stmt]. unfold stmt_body.
    apply bind_notok_l. now apply tuple_length_rejected. }
  destruct P; [|contradiction]. cbn [at_p]. apply (proj1 (at_all _ _ Re Rs)).
Qed.

(* ------------------------------------------------------------------ field access, case *)

Section AccessRules.
  Variable kinds : PositiveMap.t varkind.
  Variable g : nat.
  Notation G := (gfix g).
  Notation afix := (afix kinds G).
  Let PG : gpres G := gfix_pres g.
  Let PA f : apres (afix f) := afix_pres kinds G PG f.

  Variable v : N.
  Variable K : list string.

  Definition blob_head (s : st) (t : tyid) : Prop :=
    exists n sp f a, head s t = Some (HBlob n sp f a) /\ keys_are f K.
  Definition enum_head (s : st) (t : tyid) : Prop :=
    exists n sp f a, head s t = Some (HEnum n sp f a) /\ keys_are f K.

  Lemma blob_head_ext s s' t : ext s s' -> blob_head s t -> blob_head s' t.
  Proof.
    intros (_ & _ & _ & E4 & _) (n & sp & f & a & H & HK). destruct (E4 _ _ H eq_refl) as (h' & H' & S).
    destruct (shape_blob_keys _ _ _ _ _ _ S HK) as (n' & sp' & f' & a' & -> & HK'). do 4 eexists. eauto.
  Qed.

  Lemma enum_head_ext s s' t : ext s s' -> enum_head s t -> enum_head s' t.
  Proof.
    intros (_ & _ & _ & E4 & _) (n & sp & f & a & H & HK). destruct (E4 _ _ H eq_refl) as (h' & H' & S).
    destruct (shape_enum_keys _ _ _ _ _ _ S HK) as (n' & sp' & f' & a' & -> & HK'). do 4 eexists. eauto.
  Qed.

  (* an instantiation of the declared blob, when accepted, has a blob with the declared fields as its value *)
  Lemma blob_inst_yields fields self sp f ctx s r s' :
    Jb v K s -> r_expr (afix f) (EBlob v fields self sp) ctx s = Ok (r, s') ->
    wf s' /\ ext s s' /\ blob_head s' (snd r).
  Proof.
    intros [W D] H. destruct (ap_expr _ (PA f) _ _ _ _ _ W H) as [W' E']. split; [assumption|]. split; [assumption|].
    destruct D as (n & sp1 & bf & ba & Hd & HK).
    destruct f as [|f]; [discriminate|]. cbn [Tc.afix astep r_expr] in H. unfold expr_body in H.
    apply bind_inv in H as ([er ex] & s1 & H1 & H). cbv beta iota in H1.
    apply bind_inv in H1 as (bt & s0 & H0 & H1). apply var_ty_inv in H0 as [-> ->].
    apply bind_inv in H1 as (blob_ty & s2 & Hc & H1).
    destruct (copy_shape _ _ _ _ _ W Hc) as (W2 & _ & (h & h' & Hh & Hh' & [Sh _])).
    rewrite Hd in Hh. injection Hh as <-.
    destruct (shape_blob_keys _ _ _ _ _ _ Sh HK) as (n' & sp' & f' & a' & -> & HK').
    rewrite (bind_ok _ _ _ _ _ (find_type_ok _ _ _ Hh')) in H1.
    apply bind_inv_pres in H1 as (given & s3 & _ & W3 & E3 & H1); [|prs|assumption].
    cbv zeta in H1.
    match type of H1 with (match ?l with _ => _ end) _ = _ => destruct l end; [|discriminate].
    apply bind_inv_pres in H1 as (gb & s4 & _ & W4 & E4 & H1); [|prs|assumption].
    apply bind_inv_pres in H1 as (sty & s4a & _ & W4a & E4a & H1); [|prs|assumption].
    apply bind_inv_pres in H1 as (u4b & s4b & _ & W4b & E4b & H1); [|prs|assumption].
    assert (W5 : wf s4b) by exact W4b. assert (E5 : ext s4b s4b) by apply ext_refl. set (s5 := s4b) in W5, E5 at 2.
    apply bind_inv_pres in H1 as (u6 & s6 & _ & W6 & E6 & H1); [|pose proof (PA f); prs|assumption].
    apply bind_inv in H1 as (u & s7 & Hu & H1). injection H1 as <- <- <-.
    destruct (unify_result_head _ _ _ _ _ _ _ W6 Hu) as (W7 & E7 & Hru & Heq).
    assert (B7 : blob_head s7 blob_ty).
    { apply (blob_head_ext s2); [|do 4 eexists; eauto].
      eapply ext_trans; [exact E3|]. eapply ext_trans; [exact E4|]. eapply ext_trans; [exact E4a|].
      eapply ext_trans; [exact E4b|]. eapply ext_trans; [exact E5|].
      eapply ext_trans; [exact E6|exact E7]. }
    assert (Bu : blob_head s7 u).
    { destruct B7 as (n2 & sp2 & f2 & a2 & Hb & HK2). exists n2, sp2, f2, a2. split; [|assumption]. rewrite Hru, Heq. exact Hb. }
    destruct Bu as (n2 & sp2 & f2 & a2 & Hb & HK2).
    rewrite (bind_ok _ _ _ _ _ (find_type_ok _ _ _ Hb)) in H. injection H as <- <-.
    exists n2, sp2, f2, a2. auto.
  Qed.

  (* accessing a field the blob does not have *)
  Lemma absent_field_rejected value field sp f ctx s :
    wf s ->
    (forall f' ctx' s0 r s1, ext s s0 -> wf s0 -> r_expr (afix f') value ctx' s0 = Ok (r, s1) -> blob_head s1 (snd r)) ->
    ~ In field K ->
    notok (r_expr (afix f) (EBlobAccess value field sp) ctx s).
  Proof.
    intros W Hv Nk. destruct f as [|f]; [apply notok_fuel|].
    cbn [Tc.afix astep r_expr]. unfold expr_body. apply bind_notok_l. cbv beta iota.
    apply bind_cases; [apply (ap_expr _ (PA _))|assumption|]. intros [oret outer] s1 H1 W1 E1.
    pose proof (Hv _ _ _ _ _ (ext_refl s) W H1) as B1. cbn [snd] in B1.
    apply bind_cases; [apply pres_push|assumption|]. intros ft s2 H2 W2 E2.
    apply bind_cases; [apply pres_add_constraint|assumption|]. intros u3 s3 H3 W3 E3.
    destruct (add_constraint_spec _ _ _ _ _ W2 H3) as (_ & _ & _ & _ & C3 & _).
    apply bind_notok_l. apply (check_rejects g sp outer _ s3 W3 C3).
    intros g' s' W' E'. cbn [check_one].
    assert (B' : blob_head s' outer).
    { apply (blob_head_ext s1); [|assumption]. eapply ext_trans; [exact E2|]. eapply ext_trans; [exact E3|exact E']. }
    destruct B' as (n2 & sp2 & f2 & a2 & Hb & HK2).
    rewrite (bind_ok _ _ _ _ _ (find_type_ok _ _ _ Hb)).
    destruct (flookup field f2) as [[? ?]|] eqn:Fl; [|apply notok_fail].
    exfalso. apply Nk, (HK2 field), fmem_In_keys. unfold fmem. rewrite Fl. reflexivity.
  Qed.

  Lemma absent_field_of_instance_rejected fields self isp field sp f ctx s :
    Jb v K s -> ~ In field K ->
    notok (r_expr (afix f) (EBlobAccess (EBlob v fields self isp) field sp) ctx s).
  Proof.
    intros [W D] Nk. apply absent_field_rejected; [assumption| |assumption].
    intros f' ctx' s0 r s1 E0 W0 H.
    assert (J0 : Jb v K s0) by (split; [exact W0|exact (decl_blob_ext v K s s0 W E0 D)]).
    destruct (blob_inst_yields _ _ _ _ _ _ _ _ J0 H) as (_ & _ & B). exact B.
  Qed.
End AccessRules.

Section CaseRules.
  Variable kinds : PositiveMap.t varkind.
  Variable g : nat.
  Notation G := (gfix g).
  Notation afix := (afix kinds G).
  Let PG : gpres G := gfix_pres g.
  Let PA f : apres (afix f) := afix_pres kinds G PG f.

  Variable ev : N.
  Variable K : list string.

  (* a constructed variant of the declared enum, when accepted, has the enum with the declared variants as value *)
  Lemma variant_yields variant value vsp f ctx s r s' :
    Je ev K s -> r_expr (afix f) (EVariant ev variant value vsp) ctx s = Ok (r, s') ->
    wf s' /\ ext s s' /\ enum_head K s' (snd r).
  Proof.
    intros [W D] H. destruct (ap_expr _ (PA f) _ _ _ _ _ W H) as [W' E']. split; [assumption|]. split; [assumption|].
    destruct f as [|f]; [discriminate|]. cbn [Tc.afix astep r_expr] in H. unfold expr_body in H.
    apply bind_inv in H as ([er ex] & s1 & H1 & H). cbv beta iota in H1.
    apply bind_inv_pres in H1 as ([vret pv] & s2 & _ & W2 & E2 & H1); [|pose proof (PA f); prs|assumption].
    pose proof (decl_enum_ext _ _ _ _ W E2 D) as (n & sp1 & vf & va & Hd & HK).
    apply bind_inv in H1 as (et & s3 & H3 & H1). apply var_ty_inv in H3 as [-> ->].
    apply bind_inv in H1 as (enum_ty & s4 & Hc & H1).
    destruct (copy_shape _ _ _ _ _ W2 Hc) as (W4 & _ & (h & h' & Hh & Hh' & [Sh _])).
    rewrite Hd in Hh. injection Hh as <-.
    destruct (shape_enum_keys _ _ _ _ _ _ Sh HK) as (n' & sp' & f' & a' & -> & HK').
    apply bind_inv_pres in H1 as (u5 & s5 & _ & W5 & E5 & H1); [|prs|assumption].
    apply bind_inv_pres in H1 as (u6 & s6 & _ & W6 & E6 & H1); [|prs|assumption].
    injection H1 as <- <- <-.
    assert (B6 : enum_head K s6 enum_ty).
    { apply (enum_head_ext K s4); [eapply ext_trans; eassumption|]. do 4 eexists; eauto. }
    destruct B6 as (n2 & sp2 & f2 & a2 & Hb & HK2).
    rewrite (bind_ok _ _ _ _ _ (find_type_ok _ _ _ Hb)) in H. injection H as <- <-.
    exists n2, sp2, f2, a2. auto.
  Qed.

  Definition branch_pattern (b : casebranch) : string := match b with CaseBranch p _ _ _ _ => p end.

  (* matching a variant the enum does not have *)
  Lemma case_unknown_pattern_rejected to_match pre pat psp var body bsp post fall sp f ctx s :
    wf s ->
    (forall f' ctx' s0 r s1, ext s s0 -> wf s0 -> r_expr (afix f') to_match ctx' s0 = Ok (r, s1) -> enum_head K s1 (snd r)) ->
    ~ In pat K ->
    notok (r_expr (afix f) (ECase to_match (pre ++ CaseBranch pat psp var body bsp :: post) fall sp) ctx s).
  Proof.
    intros W Hv Nk. destruct f as [|f]; [apply notok_fuel|].
    cbn [Tc.afix astep r_expr]. unfold expr_body. apply bind_notok_l. cbv beta iota.
    apply bind_cases; [apply (ap_expr _ (PA _))|assumption|]. intros [ret0 m] s1 H1 W1 E1.
    pose proof (Hv _ _ _ _ _ (ext_refl s) W H1) as B1. cbn [snd] in B1.
    apply bind_cases; [apply pres_add_constraint|assumption|]. intros u2 s2 H2 W2 E2.
    apply bind_cases; [apply (gp_check G PG)|assumption|]. intros u3 s3 H3 W3 E3.
    apply bind_notok_l.
    set (J := fun s0 => wf s0 /\ enum_head K s0 m).
    assert (HJ : pres_closed J).
    { apply inv_pres_closed. intros s0 s0' _ E0. now apply enum_head_ext. }
    apply (foldM_notok_j J HJ).
    - intros [[? ?] ?] br. pose proof (PA f). eapply pres_case_branch; eassumption.
    - intros [[r0 v0] names] s4 [W4 B4]. unfold case_branch.
      apply bind_cases; [destruct var; prs|assumption|]. intros c s5 H5 W5 E5.
      apply bind_cases; [apply pres_add_constraint|assumption|]. intros u6 s6 H6 W6 E6.
      destruct (add_constraint_spec _ _ _ _ _ W5 H6) as (_ & _ & _ & _ & C6 & _).
      apply bind_notok_l. apply (check_rejects g sp m _ s6 W6 C6).
      intros g' s' W' E'. cbn [check_one].
      assert (B' : enum_head K s' m).
      { apply (enum_head_ext K s4); [|assumption]. eapply ext_trans; [exact E5|]. eapply ext_trans; [exact E6|exact E']. }
      destruct B' as (n2 & sp2 & f2 & a2 & Hb & HK2).
      rewrite (bind_ok _ _ _ _ _ (find_type_ok _ _ _ Hb)).
      destruct (flookup pat f2) as [[? ?]|] eqn:Fl.
      + exfalso. apply Nk, (HK2 pat), fmem_In_keys. unfold fmem. rewrite Fl. reflexivity.
      + destruct c; apply notok_fail.
    - split; [assumption|]. apply (enum_head_ext K s1); [eapply ext_trans; eassumption|assumption].
  Qed.

  (* the names collected by the branches *)
  Lemma smem_sinsert k x l : smem k (sinsert x l) = String.eqb k x || smem k l.
  Proof.
    unfold smem. induction l as [|y l IH]; cbn [sinsert existsb]; [reflexivity|].
    destruct (String.compare x y) eqn:E; cbn [existsb].
    - apply String.compare_eq_iff in E. subst y. destruct (String.eqb k x); reflexivity.
    - reflexivity.
    - rewrite IH. destruct (String.eqb k y), (String.eqb k x); reflexivity.
  Qed.

  Lemma case_fold_names f sp ctx m : forall branches acc s r s',
    wf s -> foldM (case_branch kinds G (afix f) sp ctx m) branches acc s = Ok (r, s') ->
    wf s' /\ ext s s' /\
    (forall k, smem k (snd r) = true <-> smem k (snd acc) = true \/ In k (map branch_pattern branches)).
  Proof.
    induction branches as [|br branches IH]; intros acc s r s' W H; cbn [foldM] in H.
    - injection H as <- <-. split; [assumption|]. split; [apply ext_refl|]. intros k. cbn [map In]. tauto.
    - apply bind_inv in H as (acc1 & s1 & H1 & H).
      assert (P1 : pres (case_branch kinds G (afix f) sp ctx m acc br)) by (eapply pres_case_branch; [exact PG|apply PA]).
      destruct (P1 _ _ _ W H1) as [W1 E1].
      destruct (IH _ _ _ _ W1 H) as (W' & E' & Hn). split; [assumption|]. split; [eapply ext_trans; eassumption|].
      assert (Hacc : snd acc1 = sinsert (branch_pattern br) (snd acc)).
      { unfold case_branch in H1. destruct acc as [[r0 v0] names0]. destruct br as [pat psp var body bsp].
        apply bind_inv in H1 as (c & s2 & _ & H1). apply bind_inv in H1 as (u3 & s3 & _ & H1).
        apply bind_inv in H1 as (u4 & s4 & _ & H1). apply bind_inv in H1 as ([bret bval] & s5 & _ & H1).
        apply bind_inv in H1 as (v' & s6 & _ & H1). apply bind_inv in H1 as (r' & s7 & _ & H1).
        injection H1 as <- _. reflexivity. }
      intros k. rewrite Hn, Hacc, smem_sinsert. cbn [map In]. rewrite orb_true_iff, String.eqb_eq. intuition congruence.
  Qed.

  (* a `case` without `else` that does not list every variant *)
  Lemma case_not_total_rejected to_match branches sp f ctx s k0 :
    wf s ->
    (forall f' ctx' s0 r s1, ext s s0 -> wf s0 -> r_expr (afix f') to_match ctx' s0 = Ok (r, s1) -> enum_head K s1 (snd r)) ->
    In k0 K -> ~ In k0 (map branch_pattern branches) ->
    notok (r_expr (afix f) (ECase to_match branches None sp) ctx s).
  Proof.
    intros W Hv Hk Nk. destruct f as [|f]; [apply notok_fuel|].
    cbn [Tc.afix astep r_expr]. unfold expr_body. apply bind_notok_l. cbv beta iota.
    apply bind_cases; [apply (ap_expr _ (PA _))|assumption|]. intros [ret0 m] s1 H1 W1 E1.
    pose proof (Hv _ _ _ _ _ (ext_refl s) W H1) as B1. cbn [snd] in B1.
    apply bind_cases; [apply pres_add_constraint|assumption|]. intros u2 s2 H2 W2 E2.
    apply bind_cases; [apply (gp_check G PG)|assumption|]. intros u3 s3 H3 W3 E3.
    apply bind_cases; [apply pres_foldM; intros [[? ?] ?] ?; eapply pres_case_branch; [exact PG|apply PA]|assumption|].
    intros [[r4 v4] names] s4 H4 W4 E4.
    destruct (case_fold_names _ _ _ _ _ _ _ _ _ W3 H4) as (_ & _ & Hn). cbn [snd] in Hn.
    apply bind_notok_l.
    apply bind_cases; [apply pres_add_constraint|assumption|]. intros u5 s5 H5 W5 E5.
    destruct (add_constraint_spec _ _ _ _ _ W4 H5) as (_ & _ & _ & _ & C5 & _).
    apply bind_notok_l. apply (check_rejects g sp m _ s5 W5 C5).
    intros g' s' W' E'. cbn [check_one].
    assert (B' : enum_head K s' m).
    { apply (enum_head_ext K s1); [|assumption]. eapply ext_trans; [exact E2|]. eapply ext_trans; [exact E3|].
      eapply ext_trans; [exact E4|]. eapply ext_trans; [exact E5|exact E']. }
    destruct B' as (n2 & sp2 & f2 & a2 & Hb & HK2).
    rewrite (bind_ok _ _ _ _ _ (find_type_ok _ _ _ Hb)).
    destruct (existsb (fun v0 => negb (fmem v0 f2)) names); [apply notok_fail|].
    assert (X : existsb (fun kv : string * (span * tyid) => negb (smem (fst kv) names)) f2 = true).
    { apply existsb_exists. apply (HK2 k0) in Hk. unfold keys in Hk. apply in_map_iff in Hk as ([k1 x] & Ek & Hin).
      cbn [fst] in Ek. subst k1. exists (k0, x). split; [assumption|]. cbn [fst].
      destruct (smem k0 names) eqn:Sm; [|reflexivity]. apply Hn in Sm. cbn [smem existsb] in Sm.
      destruct Sm as [Sm|Sm]; [discriminate|contradiction]. }
    rewrite X. apply notok_fail.
  Qed.
End CaseRules.

(* ------------------------------------------------------------------ whole programs, continued *)

(* accessing a field the blob does not have (on a freshly instantiated blob) *)
Theorem absent_field_access_rejected name v sp tvars bfields fields self isp field asp :
  ~ In field (map fst bfields) ->
  forall pre mid post dname dvar dkind dty (C : ectx) dsp sp0 fuel vars,
    let e := EBlobAccess (EBlob v fields self isp) field asp in
    typecheck fuel (mkResolved vars
      (pre ++ SBlob name v sp tvars bfields false :: mid ++
       SDefinition dname dvar dkind dty (plug_e e (SStatementExpression e sp0) C) dsp :: post))
    <> Ok tt.
Proof.
  intros Nk pre mid post dname dvar dkind dty C dsp sp0 fuel vars e.
  apply (rejected_after_decl (decl_blob v (map fst bfields))).
  - intros s s' W E. now apply decl_blob_ext.
  - intros kinds g R s u s' PR W H. exact (blob_established kinds g R PR _ _ _ _ _ false _ _ _ _ W H).
  - intros kinds g f ctx s J. now apply (absent_field_of_instance_rejected kinds g v (map fst bfields)).
Qed.

(* matching a variant that does not exist; a `case` without `else` that misses a variant
   (the scrutinee: a freshly constructed variant of the declared enum) *)
Theorem case_unknown_variant_rejected name ev sp tvars variants var0 value vsp pre0 pat psp bvar body bsp post0 fall csp :
  ~ In pat (map fst variants) ->
  forall pre mid post dname dvar dkind dty (C : ectx) dsp sp0 fuel vars,
    let e := ECase (EVariant ev var0 value vsp) (pre0 ++ CaseBranch pat psp bvar body bsp :: post0) fall csp in
    typecheck fuel (mkResolved vars
      (pre ++ SEnum name ev sp tvars variants :: mid ++
       SDefinition dname dvar dkind dty (plug_e e (SStatementExpression e sp0) C) dsp :: post))
    <> Ok tt.
Proof.
  intros Nk pre mid post dname dvar dkind dty C dsp sp0 fuel vars e.
  apply (rejected_after_decl (decl_enum ev (map fst variants))).
  - intros s s' W E. now apply decl_enum_ext.
  - intros kinds g R s u s' PR W H. exact (enum_established kinds g R PR _ _ _ _ _ _ _ _ _ W H).
  - intros kinds g f ctx s [W D]. apply (case_unknown_pattern_rejected kinds g (map fst variants)); [assumption| |assumption].
    intros f' ctx' s0 r s1 E0 W0 H.
    assert (J0 : Je ev (map fst variants) s0) by (split; [exact W0|exact (decl_enum_ext _ _ s s0 W E0 D)]).
    destruct (variant_yields kinds g ev _ _ _ _ _ _ _ _ _ J0 H) as (_ & _ & B). exact B.
Qed.

Theorem case_not_total_rejected_prog name ev sp tvars variants var0 value vsp branches csp k0 :
  In k0 (map fst variants) -> ~ In k0 (map branch_pattern branches) ->
  forall pre mid post dname dvar dkind dty (C : ectx) dsp sp0 fuel vars,
    let e := ECase (EVariant ev var0 value vsp) branches None csp in
    typecheck fuel (mkResolved vars
      (pre ++ SEnum name ev sp tvars variants :: mid ++
       SDefinition dname dvar dkind dty (plug_e e (SStatementExpression e sp0) C) dsp :: post))
    <> Ok tt.
Proof.
  intros Hk Nk pre mid post dname dvar dkind dty C dsp sp0 fuel vars e.
  apply (rejected_after_decl (decl_enum ev (map fst variants))).
  - intros s s' W E. now apply decl_enum_ext.
  - intros kinds g R s u s' PR W H. exact (enum_established kinds g R PR _ _ _ _ _ _ _ _ _ W H).
  - intros kinds g f ctx s [W D].
    apply (case_not_total_rejected kinds g (map fst variants) _ _ _ _ _ _ k0); try assumption.
    intros f' ctx' s0 r s1 E0 W0 H.
    assert (J0 : Je ev (map fst variants) s0) by (split; [exact W0|exact (decl_enum_ext _ _ s s0 W E0 D)]).
    destruct (variant_yields kinds g ev _ _ _ _ _ _ _ _ _ J0 H) as (_ & _ & B). exact B.
Qed.
