"""Evidence for corpus/c18/suggested_key_encoding.diff (NOT a check; run by hand).

Needs a LuaCore with string.format("%d" / "%.17g"): apply corpus/c18/suggested_luacore_format.diff to a COPY of
coq/Lua (LuaNum.v, LuaCore.v), extract it like coq/Extract/ExtractLua.v, build it with ocaml/lua_driver.ml and put
the path of the binary into LUAX_DRIVER; PREAMBLE_ORIG / PREAMBLE_KEY are the original and the patched preamble.lua.

Part 1: every repo test that touches std (tests/sylt_std, tests/dict, tests/for_each, every test using dict./set.)
        and that the compiler accepts behaves the same (final outcome, message, printed lines) with both preambles.
Part 2: generated histories (tools/props/c18.py streams + keys that collide under tostring + float keys + several
        live containers), compiled by the real compiler, preamble swapped in the emitted Lua, compared with the
        plain Python model."""
import collections
import glob
import os
import subprocess
import sys
from fractions import Fraction as F

sys.path.insert(0, "/verif/tools")
sys.path.insert(0, "/verif/tools/props")
import hist_gen as H          # noqa: E402
import lua_run                # noqa: E402
import vlib                   # noqa: E402
import props.c18 as c18       # noqa: E402

lua_run._EXE = os.environ.get("LUAX_DRIVER", "/verif/build/tmp/c18c19_luax/luax_driver")
orig = open(os.environ.get("PREAMBLE_ORIG", "/verif/build/tmp/c18c19_key/preamble.orig.lua")).read()
new = open(os.environ.get("PREAMBLE_KEY", "/verif/build/tmp/c18c19_key/preamble.key.lua")).read()


def part1():
    files = glob.glob('/repo/tests/sylt_std/*.sy') + glob.glob('/repo/tests/dict/*.sy') + glob.glob('/repo/tests/for_each/*.sy')
    files += subprocess.run("grep -rlE 'dict\\.|set\\.' /repo/tests --include=*.sy", shell=True, capture_output=True, text=True).stdout.split()
    files = sorted(set(files))
    cases = ["std\t%s\t%s=%s" % (f, f, vlib.hexs(open(f, encoding='utf-8').read())) for f in files]
    outs = vlib.harness("compile", cases, timeout_s=30)
    acc = [(f, vlib.unhex(o.split(" ")[1]).decode()) for f, o in zip(files, outs) if o.startswith("OK ")]
    print("part 1: files", len(files), "accepted by the compiler", len(acc))
    r0 = lua_run.run_lua([l for _, l in acc], fuel=8000000)
    r1 = lua_run.run_lua([l.replace(orig, new) for _, l in acc], fuel=8000000)
    fin = collections.Counter(a["final"] for a in r0)
    diff = [(f, a["final"], b["final"]) for (f, _), a, b in zip(acc, r0, r1)
            if (a["final"], a["msg"], a["trace"]) != (b["final"], b["msg"], b["trace"])]
    print("        same behaviour", len(acc) - len(diff), "of", len(acc), "outcomes", dict(fin), "differences", diff)


def part2():
    class Ctx:
        tier = "quick"
        seed = 7
    ctx = Ctx()
    items = c18.gen_e2e(ctx, 240, 30, 40, salt="key-e2e")
    r = vlib.rng(7, "key-extra")
    for i in range(120):
        kind = r.choice(["dict", "set"])
        ge = "any" if kind == "dict" else None
        if i % 3 == 0:
            h = H.gen_keyed_history(r, r.randint(3, 20), kind=kind, kt=H.TUP(H.STR, H.STR), strs=c18.COLLIDE, allow_collisions=True, geteq=ge)
        elif i % 3 == 1:
            h = H.gen_keyed_history(r, r.randint(3, 20), kind=kind, kt=H.FLOAT, allow_collisions=True)
        else:
            h = H.gen_keyed_history(r, r.randint(3, 20), kind=kind, kt=H.TUP(H.STR, H.TUP(H.INT, H.STR)), strs=c18.COLLIDE, allow_collisions=True)
        items.append((h, "extra"))
    items.append((H.KeyedHistory("set", H.FLOAT, H.INT, [("add", F(1000000000000001, 10**15)), ("add", F(1000000000000002, 10**15)), ("len",),
                                                         ("has", F(1)), ("remove", F(1000000000000001, 10**15)), ("len",)]).prepare(), "float"))
    items.append((H.KeyedHistory("dict", H.TUP(H.STR, H.STR), H.INT, [("update", ("a, b", "c"), 1), ("update", ("a", "b, c"), 2), ("len",),
                                                                    ("get", ("a, b", "c")), ("get", ("a", "b, c")), ("remove", ("a", "b, c")), ("len",)]).prepare(), "tuple"))
    items += [(h, "several") for h in c18.gen_alias(ctx, 60, "key-alias", False)]
    cases = ["std\t/main.sy\t/main.sy=%s" % vlib.hexs(c18.hist_program(h)) for h, _ in items]
    outs = vlib.harness("compile", cases, timeout_s=30)
    luas = [vlib.unhex(o.split(" ")[1]).decode() if o.startswith("OK ") else None for o in outs]
    for name, pre in (("original", orig), ("patched", new)):
        rs = iter(lua_run.run_lua([l.replace(orig, pre) for l in luas if l is not None], fuel=8000000))
        bad = collections.Counter()
        n = 0
        for (h, cls), l in zip(items, luas):
            if l is None:
                bad["not compiled"] += 1
                continue
            o = next(rs)
            exp, got = c18.flat_expected(h), H.utf8_trace(o)
            n += len(exp)
            if o["final"] != "done" or len(got) != len(exp) or not all(H.same_line(a, b) for a, b in zip(exp, got)):
                bad[cls if cls in ("extra", "float", "tuple") else c18.classify(h, c18.first_diff(exp, got) or 0) or cls] += 1
        print("part 2:", name, "preamble: programs", len(items), "observations", n, "programs differing from the plain Python model:", dict(bad))


if __name__ == "__main__":
    vlib.build_harness()
    part1()
    part2()
