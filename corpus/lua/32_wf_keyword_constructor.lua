-- expect-wf: bad unexpected symbol near 'end'
local t = { end = 1 }
