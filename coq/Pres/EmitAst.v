(* emit_ast: a structural twin of the text generator Back/Emit.v (gen_one / gen_lines) that produces the
   Lua ABSTRACT SYNTAX (Lua/LuaAst.v) of the emitted chunk body directly from the flat IR and the usage
   table, instead of text.  The inlining table (`lut` there, `alut` here) maps a single-use temporary
   to the Lua EXPRESSION it stands for.  Definitions only.

   TIE (run-time checked on every program of the C01 tie, tools/props/c01.py component "emit_ast"):
       LuaParse.parse_lua Lua53 (real preamble ++ real emitted text) = ParseOk (pre_block ++ emit_ast code)
   where `code` is Back.IR.lower of the real resolver output.  The semantic preservation theorem
   (Pres/PresProofs.v, Props/C01.v) is about `pre_block ++ emit_ast code`. *)
From Coq Require Import String Ascii List NArith ZArith QArith Bool.
From Sylt Require Import Syntax.Resolved Back.IR Back.Emit Lua.LuaAst Lua.LuaLex Lua.LuaNum.
Import ListNotations.
Local Open Scope string_scope.
Local Open Scope N_scope.

Definition alut := list (N * LuaAst.expr).

Fixpoint alut_get (l : alut) (v : N) : option LuaAst.expr :=
  match l with
  | [] => None
  | (k, e) :: l' => if k =? v then Some e else alut_get l' v
  end.
Definition alut_set (l : alut) (v : N) (e : LuaAst.expr) : alut := (v, e) :: l.

(* twin of Emit.expand *)
Definition aexpand (l : alut) (v : N) : LuaAst.expr :=
  match alut_get l v with Some e => e | None => EVar (fmt_var v) end.

(* where the text generator writes `expand l v` in a NAME position (local <name> = ..., local function <name>) *)
Definition aname (l : alut) (v : N) : string :=
  match alut_get l v with
  | None => fmt_var v
  | Some (EVar x) => x
  | Some _ => "?"           (* the real text would not be a chunk; never happens: names are never in the table *)
  end.

(* twin of Emit.iis *)
Definition aiis (u : counts) (l : alut) (var : N) (value : LuaAst.expr) : list LuaAst.stmt * alut :=
  let n := count_of u var in
  if n =? 0 then ([], l)
  else if n =? 1 then ([], alut_set l var value)
  else ([SLocal [fmt_var var] [value]], l).

(* an integer literal as the Lua parser reads its decimal text: a leading `-` is the unary operator *)
Definition aint (z : Z) : LuaAst.expr :=
  match z with
  | Zneg p => EUn UNeg (ENum false (q_int (Zpos p)))
  | _ => ENum false (q_int z)
  end.

(* a float literal as Rust prints it with {:?} and the Lua lexer reads it back *)
Definition afloat (r : string) : LuaAst.expr :=
  if String.eqb r "inf" then LuaAst.EIndex (EVar "math") (LuaAst.EStr "huge")
  else match r with
       | String "-"%char r' =>
           match parse_number r' with
           | Some (fl, q) => EUn UNeg (ENum fl q)
           | None => EVar r
           end
       | _ => match parse_number r with
              | Some (fl, q) => ENum fl q
              | None => EVar r
              end
       end.

Definition acall (f : string) (args : list LuaAst.expr) : LuaAst.expr := LuaAst.ECall (EVar f) args.
Definition abin (op : LuaAst.binop) (a b : LuaAst.expr) : LuaAst.expr := EParen (EBin op a b).
Definition apos (l : alut) (vs : list N) : list field := map (fun v => FPos (aexpand l v)) vs.

(* twin of Emit.gen_one for the instructions that do not open or close a block *)
Definition agen_one (u : counts) (l : alut) (op : ir) : list LuaAst.stmt * alut :=
  let bin := fun t o a b => aiis u l t (abin o (aexpand l a) (aexpand l b)) in
  let used := fun t => 0 <? count_of u t in
  match op with
  | INil t => aiis u l t (EVar "__NIL")
  | IInt t z => aiis u l t (aint z)
  | IBool t b => aiis u l t (if b then ETrue else EFalse)
  | IAdd t a b => aiis u l t (acall "__ADD" [aexpand l a; aexpand l b])
  | ISub t a b => bin t OSub a b
  | IMul t a b => bin t OMul a b
  | IDiv t a b => bin t ODiv a b
  | INeg t a => aiis u l t (EParen (EUn UNeg (aexpand l a)))
  | IStr t s => aiis u l t (LuaAst.EStr s)
  | IFloat t r => aiis u l t (afloat r)
  | IEquals t a b => bin t OEq a b
  | ILessEqual t a b => bin t OLe a b
  | ILess t a b => bin t OLt a b
  | IGreaterEqual t a b => bin t OGe a b
  | IGreater t a b => bin t OGt a b
  | INotEquals t a b => bin t ONe a b
  | INot t a => aiis u l t (EParen (EUn UNot (aexpand l a)))
  | IList t xs => aiis u l t (acall "__LIST" [ETable (apos l xs)])
  | IBlob t fs => aiis u l t (acall "__BLOB" [ETable (map (fun fv => FKey (LuaAst.EStr (fst fv)) (aexpand l (snd fv))) fs)])
  | ITuple t xs => aiis u l t (acall "__TUPLE" [ETable (apos l xs)])
  | IVariant t v a => aiis u l t (acall "__VARIANT" [ETable [FPos (LuaAst.EStr v); FPos (aexpand l a)]])
  | IIndex t a i =>
      if used t then ([SLocal [fmt_var t] [acall "__INDEX" [aexpand l a; aexpand l i]]], l) else ([], l)
  | IExternal t e =>   (* a name that is a reserved word of Lua is read through _G (lua.rs lua_global) *)
      ([SAssign [aexpand l t] [if is_lua_keyword e then LuaAst.EIndex (EVar "_G") (LuaAst.EStr e) else EVar e]], l)
  | ICall t f args => ([SLocal [aname l t] [LuaAst.ECall (aexpand l f) (map (aexpand l) args)]], l)
  | IAssert v => ([SCall (EVar "assert") [aexpand l v; LuaAst.EStr "Assert failed!"]], l)
  | IDefine t => if used t then ([SLocal [aname l t] [ENil]], l) else ([], l)
  | IBreak => ([SBreak], l)
  | IReturn t => ([SDo [SReturn [aexpand l t]]], l)
  | IHalt msg => ([SCall (acall "__CRASH" [LuaAst.EStr msg]) []], l)
  | IAccess t a f =>
      if used t then ([SLocal [fmt_var t] [LuaAst.EIndex (aexpand l a) (LuaAst.EStr f)]], l) else ([], l)
  | ICopy t a => if used t then ([SLocal [aname l t] [aexpand l a]], l) else ([], l)
  | IAssign t a => if used t then ([SAssign [aexpand l t] [aexpand l a]], l) else ([], l)
  | IAssignIndex t i a =>
      if used t then ([SCall (EVar "__ASSIGN_INDEX") [aexpand l t; aexpand l i; aexpand l a]], l) else ([], l)
  | IAssignAccess t f c =>
      if used t then ([SAssign [LuaAst.EIndex (aexpand l t) (LuaAst.EStr f)] [aexpand l c]], l) else ([], l)
  | ILabel lb => ([SLabel (fmt_label lb)], l)
  | IGoto lb => ([SGoto (fmt_label lb)], l)
  (* block structure: handled by estack *)
  | IFunction _ _ | IIf _ | IElse | IEnd | ILoop => ([], l)
  end.

(* the block structure: IFunction/IIf/ILoop open a block, IElse switches to the else part, IEnd closes.
   `cur` is the current block REVERSED; a frame remembers the (reversed) statements before the opener. *)
Inductive frame :=
| FIf (c : LuaAst.expr) (saved : list LuaAst.stmt)
| FElse (c : LuaAst.expr) (th : block) (saved : list LuaAst.stmt)
| FLoop (saved : list LuaAst.stmt)
| FFun (name : string) (ps : list string) (saved : list LuaAst.stmt).

Definition close_frame (fr : frame) (cur : list LuaAst.stmt) : list LuaAst.stmt :=
  match fr with
  | FIf c saved => SIf c (rev' cur) [] :: saved
  | FElse c th saved => SIf c th (rev' cur) :: saved
  | FLoop saved => SWhile ETrue (rev' cur) :: saved
  | FFun x ps saved => SLocalFun x ps (rev' cur) :: saved
  end.

(* input that ends inside open blocks (never produced by the lowering): close them *)
Fixpoint close_all (cur : list LuaAst.stmt) (stk : list frame) : block :=
  match stk with
  | [] => rev' cur
  | fr :: stk' => close_all (close_frame fr cur) stk'
  end.

Fixpoint estack (u : counts) (l : alut) (cur : list LuaAst.stmt) (stk : list frame) (ops : list ir) : block :=
  match ops with
  | [] => close_all cur stk
  | IIf a :: r => estack u l [] (FIf (aexpand l a) cur :: stk) r
  | IElse :: r =>
      match stk with
      | FIf c saved :: stk' => estack u l [] (FElse c (rev' cur) saved :: stk') r
      | _ => estack u l cur stk r
      end
  | IEnd :: r =>
      match stk with
      | fr :: stk' => estack u l (close_frame fr cur) stk' r
      | [] => estack u l cur stk r
      end
  | ILoop :: r => estack u l [] (FLoop cur :: stk) r
  | IFunction f ps :: r => estack u l [] (FFun (aname l f) (map fmt_var ps) cur :: stk) r
  | op :: r => let g := agen_one u l op in estack u (snd g) (rev_append (fst g) cur) stk r
  end.

(* the chunk body for the whole IR of a program *)
Definition emit_ast (ops : list ir) : block := estack (count_usages ops) [] [] [] ops.
