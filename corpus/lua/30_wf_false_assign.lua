-- expect-wf: bad unexpected symbol near 'false'
false = false
