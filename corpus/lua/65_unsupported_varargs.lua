-- expect-final: loaderr
-- expect-wf: bad unsupported: varargs
-- NOTE: LuaJIT loads this; LuaCore does not model `...` (never emitted by the Sylt compiler)
local f = function(...) return 1 end
