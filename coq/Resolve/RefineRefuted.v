(* `resolve fl ast = resolve_spec (imports_fixpoint fl) ast` (Resolve/ResolveSpec.v) is FALSE whenever one of the four
   flags is off: four witnesses, one per flag.  Each is the AST (as the parser produces it) of

     start :: fn do                 start :: fn do                       start :: fn do
         if true do                     case E.A 3 do                        case E.B do
             y := 5                         A x -> do end                        else do
         end                                else do end                              z := 1
         y                              end                                      end
     end                                x                                    end
                                    end                                      z
                                                                         end
   (with `E :: enum A int, B end` in front of the second and third).  The code accepts them: y / x / z
   resolve to the variable declared inside the branch; the specification rejects them. *)
From Coq Require Import String List NArith ZArith Bool.
From Sylt Require Import Syntax.Resolved Resolve.PAst Resolve.Resolver Resolve.ResolveSpec.
Import ListNotations.
Local Open Scope string_scope.
Local Open Scope N_scope.

Definition s_ (l : N) : span := mkSpan 0 l l 1 2.
Definition i_ (n : string) (l : N) : ident := mkIdent n (s_ l).
Definition read_ (n : string) (l : N) : pexpr := PGet (ARead (i_ n l) (s_ l)) (s_ l).
Definition fn_start (body : list pstmt) : pstmt :=
  PDefinition (i_ "start" 1) Const (PTImplied (s_ 1))
    (PFunction "lambda" [] (PTResolved BVoid (s_ 1)) body false (s_ 1)) (s_ 1).
Definition defv (n : string) (l : N) (z : Z) : pstmt :=
  PDefinition (i_ n l) Mutable (PTImplied (s_ l)) (PInt z (s_ l)) (s_ l).
Definition enum_E : pstmt :=
  PEnumDef (i_ "E" 9) [] [(i_ "A" 9, PTResolved BInt (s_ 9)); (i_ "B" 9, PTResolved BVoid (s_ 9))] (s_ 9).
Definition main_ (ss : list pstmt) : past := [mkModule (File "/main.sy") 0 ss].

Definition w_if : past :=
  main_ [fn_start [PStatementExpression (PIf [PIfBranch (Some (PBool true (s_ 2))) [defv "y" 3 5] (s_ 2)] (s_ 2)) (s_ 2);
                   PStatementExpression (read_ "y" 5) (s_ 5)]].

Definition w_case : past :=
  main_ [enum_E;
         fn_start [PStatementExpression
                     (PCase (PGet (AVariant (ARead (i_ "E" 2) (s_ 2)) (i_ "A" 2) (PInt 3 (s_ 2)) (s_ 2)) (s_ 2))
                        [PCaseBranch (i_ "A" 3) (Some (i_ "x" 3)) []] (Some []) (s_ 2)) (s_ 2);
                   PStatementExpression (read_ "x" 6) (s_ 6)]].

Definition w_else : past :=
  main_ [enum_E;
         fn_start [PStatementExpression
                     (PCase (PGet (AVariant (ARead (i_ "E" 2) (s_ 2)) (i_ "B" 2) (PNil (s_ 2)) (s_ 2)) (s_ 2))
                        [] (Some [defv "z" 4 1]) (s_ 2)) (s_ 2);
                   PStatementExpression (read_ "z" 7) (s_ 7)]].

Definition is_ok {A} (r : res A) : bool := match r with Ok _ => true | _ => false end.

Lemma w_if_refutes : forall fl, if_truncates fl = false ->
  is_ok (resolve fl w_if) = true /\ resolve_spec (imports_fixpoint fl) w_if = Err [mkRErr ENothingMatched (s_ 5)].
Proof. intros [[] [] [] [] []] H; try discriminate H; split; vm_compute; reflexivity. Qed.

Lemma w_case_refutes : forall fl, case_truncates fl = false ->
  is_ok (resolve fl w_case) = true /\ resolve_spec (imports_fixpoint fl) w_case = Err [mkRErr ENothingMatched (s_ 6)].
Proof. intros [[] [] [] [] []] H; try discriminate H; split; vm_compute; reflexivity. Qed.

Lemma w_else_refutes : forall fl, else_truncates fl = false ->
  is_ok (resolve fl w_else) = true /\ resolve_spec (imports_fixpoint fl) w_else = Err [mkRErr ENothingMatched (s_ 7)].
Proof. intros [[] [] [] [] []] H; try discriminate H; split; vm_compute; reflexivity. Qed.

(* `b.value` where b is a parameter and also the name of an imported namespace:
     main.sy:  use b    A :: blob { value: int }    f :: fn b: A do b.value end    start :: fn do end
     b.sy:     value :: 200
   the code resolves `b.value` to the global `value` of b.sy, the specification to a field access *)
Definition w_nsfield : past :=
  [mkModule (File "/main.sy") 0
     [PUse (i_ "b" 1) (Implicit (i_ "b" 1)) (File "/b.sy") (s_ 1);
      PBlobDef (i_ "A" 2) [] [(i_ "value" 2, PTResolved BInt (s_ 2))] false (s_ 2);
      PDefinition (i_ "f" 3) Const (PTImplied (s_ 3))
        (PFunction "lambda" [(i_ "b" 3, PTUser (TARead (i_ "A" 3) (s_ 3)) [] (s_ 3))] (PTResolved BVoid (s_ 3))
           [PStatementExpression (PGet (AAccess (ARead (i_ "b" 4) (s_ 4)) (i_ "value" 4) (s_ 4)) (s_ 4)) (s_ 4)]
           false (s_ 3)) (s_ 3);
      fn_start []];
   mkModule (File "/b.sy") 1
     [PDefinition (mkIdent "value" (mkSpan 1 1 1 1 2)) Const (PTImplied (mkSpan 1 1 1 1 2))
        (PInt 200 (mkSpan 1 1 1 1 2)) (mkSpan 1 1 1 1 2)]].

(* the same program with the parameter called q: no binder is named like a namespace *)
Definition w_nsfield_ok : past :=
  [mkModule (File "/main.sy") 0
     [PUse (i_ "b" 1) (Implicit (i_ "b" 1)) (File "/b.sy") (s_ 1);
      PBlobDef (i_ "A" 2) [] [(i_ "value" 2, PTResolved BInt (s_ 2))] false (s_ 2);
      PDefinition (i_ "f" 3) Const (PTImplied (s_ 3))
        (PFunction "lambda" [(i_ "q" 3, PTUser (TARead (i_ "A" 3) (s_ 3)) [] (s_ 3))] (PTResolved BVoid (s_ 3))
           [PStatementExpression (PGet (AAccess (ARead (i_ "q" 4) (s_ 4)) (i_ "value" 4) (s_ 4)) (s_ 4)) (s_ 4);
            PStatementExpression (PGet (AAccess (ARead (i_ "b" 5) (s_ 5)) (i_ "value" 5) (s_ 5)) (s_ 5)) (s_ 5)]
           false (s_ 3)) (s_ 3);
      fn_start []];
   mkModule (File "/b.sy") 1
     [PDefinition (mkIdent "value" (mkSpan 1 1 1 1 2)) Const (PTImplied (mkSpan 1 1 1 1 2))
        (PInt 200 (mkSpan 1 1 1 1 2)) (mkSpan 1 1 1 1 2)]].

Definition res_eqb_ok (r r' : res resolved) : Prop :=
  match r, r' with Ok x, Ok x' => x = x' | _, _ => False end.

Lemma w_nsfield_refutes : forall fl, access_local_first fl = false ->
  is_ok (resolve fl w_nsfield) = true /\ is_ok (resolve_spec (imports_fixpoint fl) w_nsfield) = true
  /\ resolve fl w_nsfield <> resolve_spec (imports_fixpoint fl) w_nsfield.
Proof.
  intros [[] [] [] [] []] H; try discriminate H; (split; [vm_compute; reflexivity|split; [vm_compute; reflexivity|]]);
    vm_compute; intros E; discriminate E.
Qed.

Definition all_restore (fl : rflags) : bool :=
  if_truncates fl && case_truncates fl && else_truncates fl && access_local_first fl.

(* if the code leaves any of the three scopes open, the resolver is not the specification: it accepts a
   program in which a variable is used outside the scope that declares it *)
Theorem resolve_refines_refuted : forall fl, all_restore fl = false ->
  exists ast, is_ok (resolve fl ast) = true /\ resolve fl ast <> resolve_spec (imports_fixpoint fl) ast.
Proof.
  intros fl H. unfold all_restore in H.
  destruct (if_truncates fl) eqn:E1.
  - destruct (case_truncates fl) eqn:E2.
    + destruct (else_truncates fl) eqn:E3.
      * destruct (access_local_first fl) eqn:E4; [discriminate|].
        exists w_nsfield. destruct (w_nsfield_refutes fl E4) as (A & _ & C). auto.
      * exists w_else. destruct (w_else_refutes fl E3) as [A B]. split; [exact A|].
        rewrite B. destruct (resolve fl w_else); [discriminate|discriminate A..].
    + exists w_case. destruct (w_case_refutes fl E2) as [A B]. split; [exact A|].
      rewrite B. destruct (resolve fl w_case); [discriminate|discriminate A..].
  - exists w_if. destruct (w_if_refutes fl E1) as [A B]. split; [exact A|].
    rewrite B. destruct (resolve fl w_if); [discriminate|discriminate A..].
Qed.
