"""G-hist: typed values, operator cases and operation histories for C18 / C19.

One description of a case is rendered three ways
  * `case_line`  -- the case language of ocaml/runtime_driver.ml (the extracted Coq model Sem/Runtime.v),
  * `lua_chunk`  -- Lua text that does the same through the functions of the real preamble.lua,
  * `sylt_*`     -- a Sylt program (std bundled) that does the same and prints every observation,
and evaluated by the PLAIN PYTHON MODELS below (Python lists / dicts / sets / tuples, structural ==,
lexicographic <, element-wise arithmetic).  The plain models do not look at the Coq development.

Python representation of values (by type):
  int -> int, float -> Fraction, str -> str, bool -> bool, tuple -> tuple, list -> list,
  maybe -> ("Just", v) | ("None",), blob -> dict field -> value, enum -> (tag, payload | None)."""
import re
from fractions import Fraction

INT, FLOAT, STR, BOOL = ("int",), ("float",), ("str",), ("bool",)


def TUP(*ts):
    return ("tuple", tuple(ts))


def LIST(t):
    return ("list", t)


def MAYBE(t):
    return ("maybe", t)


BLOB_P = ("blob", "P", (("x", INT), ("y", STR)))
BLOB_Q = ("blob", "Q", (("p", BLOB_P), ("t", TUP(INT, FLOAT))))
BLOB_R = ("blob", "R", (("ok", BOOL), ("n", INT), ("l", LIST(INT))))      # falsy field values: false, 0, []
ENUM_E = ("enum", "E", (("A", INT), ("B", TUP(INT, STR)), ("C", None), ("D", BOOL)))
DECLS = """P :: blob {
    x: int,
    y: str,
}
Q :: blob {
    p: P,
    t: (int, float),
}
R :: blob {
    ok: bool,
    n: int,
    l: [int],
}
E :: enum
    A int,
    B (int, str),
    C,
    D bool,
end
"""

# strings: separators of the printed forms, things that look like other values, numerals, non-ASCII
STRS_SAFE = ["", "a", "b", "ab", "a, b", "b, c", "c", ", ", "(1, 2)", "nil", "None nil", "Just 1", "x y", "ö", "€uro",
             "1", "10", " 2", "1e3", "0x10", "-", "A", "z", "[]", "true", "a,", ",b"]
STRS_LUA_ONLY = ['q"uote', "back\\slash", "new\nline", "tab\t", "\x01ctl"]     # cannot be written in Sylt source
INTS = [0, 1, 2, 3, -1, -2, 5, 7, 10, 42, -17, 100, 99999999999999, 100000000000000, 100000000000001, -100000000000000,
        2 ** 31, 2 ** 53 - 1]
FLOATS = [Fraction(0), Fraction(1), Fraction(-1), Fraction(1, 2), Fraction(-3, 2), Fraction(5, 4), Fraction(2), Fraction(10),
          Fraction(1, 8), Fraction(7, 2), Fraction(-9, 4), Fraction(100), Fraction(3, 16), Fraction(1, 10), Fraction(3, 10)]


# ------------------------------------------------------------------------------------------------
# generation

def gen_type(r, depth, kinds=("int", "float", "str", "bool", "tuple", "list", "maybe", "blob", "enum")):
    """a random type of nesting depth <= depth built from the given kinds"""
    base = [k for k in kinds if k in ("int", "float", "str", "bool")]
    comp = [k for k in kinds if k in ("tuple", "list", "maybe", "blob", "enum")]
    if depth <= 0 or not comp or r.random() < 0.3:
        return {"int": INT, "float": FLOAT, "str": STR, "bool": BOOL}[r.choice(base)]
    k = r.choice(comp)
    if k == "tuple":
        n = r.choice([1, 2, 2, 2, 3, 3, 4])
        return TUP(*[gen_type(r, depth - 1, kinds) for _ in range(n)])
    if k == "list":
        return LIST(gen_type(r, depth - 1, kinds))
    if k == "maybe":
        return MAYBE(gen_type(r, depth - 1, kinds))
    if k == "blob":
        return r.choice([BLOB_P, BLOB_Q, BLOB_R])
    return ENUM_E


def type_depth(t):
    if t[0] == "tuple":
        return 1 + max([type_depth(x) for x in t[1]] + [0])
    if t[0] in ("list", "maybe"):
        return 1 + type_depth(t[1])
    if t[0] == "blob":
        return 1 + max(type_depth(x) for _, x in t[2])
    if t[0] == "enum":
        return 1 + max(type_depth(x) if x else 0 for _, x in t[2])
    return 0


def falsy(t):
    """the value of type t that Lua-style truthiness / emptiness tests get wrong most easily"""
    k = t[0]
    if k == "int":
        return 0
    if k == "float":
        return Fraction(0)
    if k == "str":
        return ""
    if k == "bool":
        return False
    if k == "tuple":
        return tuple(falsy(x) for x in t[1])
    if k == "list":
        return []
    if k == "maybe":
        return ("Just", falsy(t[1]))
    if k == "blob":
        return {f: falsy(ft) for f, ft in t[2]}
    if k == "enum":
        return ("D", False) if t is ENUM_E else (t[2][0][0], falsy(t[2][0][1]) if t[2][0][1] else None)
    raise ValueError(t)


def gen_value(r, t, strs=STRS_SAFE, small=False):
    k = t[0]
    if r.random() < 0.12:
        return falsy(t)
    if k == "int":
        return r.choice(INTS[:11]) if small or r.random() < 0.8 else r.choice(INTS)
    if k == "float":
        return r.choice(FLOATS)
    if k == "str":
        return r.choice(strs)
    if k == "bool":
        return r.random() < 0.5
    if k == "tuple":
        return tuple(gen_value(r, x, strs, small) for x in t[1])
    if k == "list":
        return [gen_value(r, t[1], strs, small) for _ in range(r.choice([0, 1, 2, 2, 3, 4]))]
    if k == "maybe":
        return ("Just", gen_value(r, t[1], strs, small)) if r.random() < 0.7 else ("None",)
    if k == "blob":
        return {f: gen_value(r, ft, strs, small) for f, ft in t[2]}
    if k == "enum":
        tag, pt = r.choice(t[2])
        return (tag, gen_value(r, pt, strs, small) if pt else None)
    raise ValueError(t)


def mutate(r, v, t, strs=STRS_SAFE):
    """a value of the same type that differs from v in (at most) one leaf -- or v itself"""
    k = t[0]
    x = r.random()
    if x < 0.35:
        return v
    if k in ("int", "float", "str", "bool"):
        return gen_value(r, t, strs)
    if k == "tuple":
        if not t[1]:
            return v
        i = r.randrange(len(t[1]))
        return tuple(mutate(r, e, t[1][j], strs) if j == i else e for j, e in enumerate(v))
    if k == "list":
        if not v or x < 0.5:
            return gen_value(r, t, strs)
        i = r.randrange(len(v))
        return [mutate(r, e, t[1], strs) if j == i else e for j, e in enumerate(v)]
    if k == "maybe":
        if v[0] == "Just" and x < 0.8:
            return ("Just", mutate(r, v[1], t[1], strs))
        return gen_value(r, t, strs)
    if k == "blob":
        f, ft = r.choice(t[2])
        w = dict(v)
        w[f] = mutate(r, v[f], ft, strs)
        return w
    if k == "enum":
        pt = dict(t[2])[v[0]]
        if pt and x < 0.8:
            return (v[0], mutate(r, v[1], pt, strs))
        return gen_value(r, t, strs)
    raise ValueError(t)


def is_ord(t):
    return t[0] in ("int", "float", "str") or (t[0] == "tuple" and all(is_ord(x) for x in t[1]))


def is_num(t):
    return t[0] in ("int", "float") or (t[0] == "tuple" and all(is_num(x) for x in t[1]))


def is_add(t):
    return t[0] in ("int", "float", "str") or (t[0] == "tuple" and all(is_add(x) for x in t[1]))


def has_str(t):
    return t[0] == "str" or (t[0] == "tuple" and any(has_str(x) for x in t[1]))


# ------------------------------------------------------------------------------------------------
# renderers

def hexs(s):
    b = s.encode("utf-8") if isinstance(s, str) else s
    return b.hex() if b else "-"


def tok(v, t):
    """tokens of the runtime_driver case language"""
    k = t[0]
    if k == "int":
        return "I%d" % v
    if k == "float":
        return "Q%d/%d" % (v.numerator, v.denominator)
    if k == "str":
        return "S" + hexs(v)
    if k == "bool":
        return "T" if v else "F"
    if k == "tuple":
        return " ".join(["t%d" % len(v)] + [tok(e, x) for e, x in zip(v, t[1])])
    if k == "list":
        return " ".join(["l%d" % len(v)] + [tok(e, t[1]) for e in v])
    if k == "maybe":
        return ("v" + hexs("Just") + " " + tok(v[1], t[1])) if v[0] == "Just" else ("v" + hexs("None") + " Z")
    if k == "blob":
        return " ".join(["b%d" % len(t[2])] + [hexs(f) + " " + tok(v[f], ft) for f, ft in t[2]])
    if k == "enum":
        pt = dict(t[2])[v[0]]
        return "v" + hexs(v[0]) + " " + (tok(v[1], pt) if pt else "Z")
    raise ValueError(t)


def lua_str(s):
    out = ['"']
    for b in s.encode("utf-8"):
        if 32 <= b < 127 and b not in (34, 92):
            out.append(chr(b))
        else:
            out.append("\\%03d" % b)
    out.append('"')
    return "".join(out)


def lua_num(v, t):
    if t[0] == "int":
        return "(%d)" % v
    if v.denominator == 1:
        return "(%d.0)" % v.numerator
    return "(%d.0/%d.0)" % (v.numerator, v.denominator)


def lua(v, t):
    """a Lua expression that builds the value the way compiled code does"""
    k = t[0]
    if k in ("int", "float"):
        return lua_num(v, t)
    if k == "str":
        return lua_str(v)
    if k == "bool":
        return "true" if v else "false"
    if k == "tuple":
        return "__TUPLE{ " + ", ".join(lua(e, x) for e, x in zip(v, t[1])) + " }"
    if k == "list":
        return "__LIST{ " + ", ".join(lua(e, t[1]) for e in v) + " }"
    if k == "maybe":
        return ('__VARIANT{ "Just", %s }' % lua(v[1], t[1])) if v[0] == "Just" else '__VARIANT{ "None", __NIL }'
    if k == "blob":
        return "__BLOB{ " + ", ".join("%s = %s" % (f, lua(v[f], ft)) for f, ft in t[2]) + " }"
    if k == "enum":
        pt = dict(t[2])[v[0]]
        return '__VARIANT{ "%s", %s }' % (v[0], lua(v[1], pt) if pt else "__NIL")
    raise ValueError(t)


def sy_float(v):
    s = repr(float(v))
    if "e" in s or "inf" in s or "nan" in s:
        raise ValueError("float not writable")
    if Fraction(s) != v:
        raise ValueError("float not exactly writable")
    return s


def sy(v, t, blob_order=None):
    """a Sylt expression for the value"""
    k = t[0]
    if k == "int":
        return str(v) if v >= 0 else "(-%d)" % -v
    if k == "float":
        return sy_float(v) if v >= 0 else "(-%s)" % sy_float(-v)
    if k == "str":
        if any(c in v for c in '"\\\n\r'):
            raise ValueError("string not writable in Sylt")
        return '"' + v + '"'
    if k == "bool":
        return "true" if v else "false"
    if k == "tuple":
        if len(v) == 1:
            return "(" + sy(v[0], t[1][0]) + ",)"
        return "(" + ", ".join(sy(e, x) for e, x in zip(v, t[1])) + ")"
    if k == "list":
        return "[" + ", ".join(sy(e, t[1]) for e in v) + "]"
    if k == "maybe":
        return ("(Maybe.Just %s)" % sy(v[1], t[1])) if v[0] == "Just" else "Maybe.None"
    if k == "blob":
        fields = list(t[2])
        if blob_order == "rev":
            fields = fields[::-1]
        return t[1] + " { " + ", ".join("%s: %s" % (f, sy(v[f], ft)) for f, ft in fields) + " }"
    if k == "enum":
        pt = dict(t[2])[v[0]]
        return "(%s.%s %s)" % (t[1], v[0], sy(v[1], pt)) if pt else "%s.%s" % (t[1], v[0])
    raise ValueError(t)


def sy_type(t):
    k = t[0]
    if k in ("int", "float", "str", "bool"):
        return k
    if k == "tuple":
        return "(" + ", ".join(sy_type(x) for x in t[1]) + ("," if len(t[1]) == 1 else "") + ")"
    if k == "list":
        return "[" + sy_type(t[1]) + "]"
    if k == "maybe":
        return "Maybe(" + sy_type(t[1]) + ")"
    return t[1]


def fmt_float(q):
    s = "%.14g" % float(q)
    return s + ".0" if re.fullmatch(r"-?\d+", s) else s


def show(v, t):
    """the printed form of a value (Lua 5.3 tostring through the preamble's __tostring)"""
    k = t[0]
    if k == "int":
        return str(v)
    if k == "float":
        return fmt_float(v)
    if k == "str":
        return v
    if k == "bool":
        return "true" if v else "false"
    if k == "tuple":
        return "(" + ", ".join(show(e, x) for e, x in zip(v, t[1])) + ("," if len(v) == 1 else "") + ")"
    if k == "list":
        return "[" + ", ".join(show(e, t[1]) for e in v) + "]"
    if k == "maybe":
        return "Just " + show(v[1], t[1]) if v[0] == "Just" else "None nil"
    if k == "enum":
        pt = dict(t[2])[v[0]]
        return v[0] + " " + (show(v[1], pt) if pt else "nil")
    if k == "blob":
        return "blob {" + ", ".join(".%s = %s" % (f, show(v[f], ft)) for f, ft in t[2]) + "}"
    raise ValueError(t)


NUM_RE = re.compile(r"-?\d+(?:\.\d+)?(?:e[+-]?\d+)?")


def same_line(a, b):
    """printed lines are compared exactly, except that floats are compared numerically"""
    if a == b:
        return True
    pa, pb = NUM_RE.split(a), NUM_RE.split(b)
    if pa != pb:
        return False
    na, nb = NUM_RE.findall(a), NUM_RE.findall(b)
    for x, y in zip(na, nb):
        if x == y:
            continue
        fx, fy = ("." in x or "e" in x), ("." in y or "e" in y)
        if not (fx and fy):
            return False            # an integer must print exactly; int vs float subtype differs in Lua 5.3
        u, w = float(x), float(y)
        if abs(u - w) > 1e-12 * max(1.0, abs(u), abs(w)):
            return False
    return True


# ------------------------------------------------------------------------------------------------
# plain models of the operators

class Undefined(Exception):
    """the plain model gives no value (division by zero)"""


def p_eq(a, b):
    return a == b


def p_lt(a, b, t):
    k = t[0]
    if k in ("int", "float"):
        return a < b
    if k == "str":
        return a.encode("utf-8") < b.encode("utf-8")
    if k == "tuple":
        for x, y, xt in zip(a, b, t[1]):
            if x != y:
                return p_lt(x, y, xt)
        return False
    raise ValueError(t)


def p_arith(op, a, b, t):
    """(value, type) of a op b, element-wise on tuples"""
    k = t[0]
    if k == "int":
        if op == "add":
            return a + b, INT
        if op == "sub":
            return a - b, INT
        if op == "mul":
            return a * b, INT
        if b == 0:
            raise Undefined()
        return Fraction(a, b), FLOAT
    if k == "float":
        if op == "add":
            return a + b, FLOAT
        if op == "sub":
            return a - b, FLOAT
        if op == "mul":
            return a * b, FLOAT
        if b == 0:
            raise Undefined()
        return a / b, FLOAT
    if k == "str" and op == "add":
        return a + b, STR
    if k == "tuple":
        rs = [p_arith(op, x, y, xt) for x, y, xt in zip(a, b, t[1])]
        return tuple(r[0] for r in rs), TUP(*[r[1] for r in rs])
    raise ValueError(t)


def p_div_scalar(a, t, d):
    k = t[0]
    if k in ("int", "float"):
        if d == 0:
            raise Undefined()
        return Fraction(a) / Fraction(d), FLOAT
    rs = [p_div_scalar(x, xt, d) for x, xt in zip(a, t[1])]
    return tuple(r[0] for r in rs), TUP(*[r[1] for r in rs])


def p_neg(a, t):
    if t[0] in ("int", "float"):
        return -a
    return tuple(p_neg(x, xt) for x, xt in zip(a, t[1]))


# ------------------------------------------------------------------------------------------------
# operator cases (C19)

LUA_OPS = {"eq": "==", "ne": "~=", "lt": "<", "le": "<=", "gt": ">", "ge": ">=", "sub": "-", "mul": "*", "div": "/"}
SY_OPS = {"eq": "==", "ne": "!=", "lt": "<", "le": "<=", "gt": ">", "ge": ">=", "add": "+", "sub": "-", "mul": "*", "div": "/"}


class OpCase:
    """kind: op2 | op1 | fn | case;  args: list of (value, type).
    case: args = [(m, Maybe(t)), (w, t)]: `case m do Just x -> print(x <name> w) end None -> print("none") end end`"""

    def __init__(self, kind, name, args, cls):
        self.kind, self.name, self.args, self.cls = kind, name, args, cls
        self.blob_order = None          # "rev": the second operand's blob literals list their fields in reverse

    def case_line(self):
        toks = " ".join(tok(v, t) for v, t in self.args)
        if self.kind == "op2":
            return "OP2 %s %s" % (self.name, toks)
        if self.kind == "op1":
            return "OP1 %s %s" % (self.name, toks)
        if self.kind == "case":
            return "CASE %s %s" % (self.name, toks)
        return "FN %s %d %s" % (self.name, len(self.args), toks)

    def lua_expr(self):
        a = [lua(v, t) for v, t in self.args]
        if self.kind == "op2":
            if self.name == "add":
                return "__ADD(%s, %s)" % (a[0], a[1])
            return "(%s %s %s)" % (a[0], LUA_OPS[self.name], a[1])
        if self.kind == "op1":
            return "(-%s)" % a[0] if self.name == "neg" else a[0]
        if self.kind == "case":
            inner = "__ADD(x, %s)" % a[1] if self.name == "add" else "(x %s %s)" % (LUA_OPS[self.name], a[1])
            return ('(function() local m = %s; if __INDEX(m, 1) == "Just" then local x = __INDEX(m, 2); return %s '
                    'else return "none" end end)()' % (a[0], inner))
        f = {"div": "div", "sign": "sign", "floor": "floor", "rem": "rem", "index": "__INDEX"}[self.name]
        return "%s(%s)" % (f, ", ".join(a))

    def lua_stmt(self):
        return ("do local ok, r = pcall(function() return %s end); if ok then print(tostring(r)) else print(\"ERR\") end end"
                % self.lua_expr())

    def sylt_expr(self):
        a = [sy(v, t) for v, t in self.args]
        if self.kind == "op2":
            return "%s %s %s" % (a[0], SY_OPS[self.name], a[1])
        if self.kind == "op1":
            return "-%s" % a[0] if self.name == "neg" else a[0]
        if self.kind == "case":
            return "case %s do Just x -> x %s %s ... end" % (a[0], SY_OPS[self.name], a[1])
        if self.name == "index":
            return "%s[%s]" % (a[0], a[1])
        return "%s(%s)" % (self.name, ", ".join(a))

    def expected(self):
        """printed line per the plain model, or raises Undefined"""
        n = self.name
        (a, t) = self.args[0]
        if self.kind == "case":
            if a[0] != "Just":
                return "none"
            return OpCase("op2", n, [(a[1], t[1]), self.args[1]], self.cls).expected()
        if self.kind == "op2":
            (b, tb) = self.args[1]
            if n == "eq":
                return show(p_eq(a, b), BOOL)
            if n == "ne":
                return show(not p_eq(a, b), BOOL)
            if n == "lt":
                return show(p_lt(a, b, t), BOOL)
            if n == "gt":
                return show(p_lt(b, a, t), BOOL)
            if n == "le":
                return show(p_lt(a, b, t) or p_eq(a, b), BOOL)
            if n == "ge":
                return show(p_lt(b, a, t) or p_eq(a, b), BOOL)
            if n == "div" and t[0] == "tuple" and tb[0] in ("int", "float"):
                v, vt = p_div_scalar(a, t, b)
                return show(v, vt)
            v, vt = p_arith(n, a, b, t)
            return show(v, vt)
        if self.kind == "op1":
            return show(p_neg(a, t), t) if n == "neg" else show(a, t)
        if n == "min":
            return show(min(a, self.args[1][0]), t)
        if n == "max":
            return show(max(a, self.args[1][0]), t)
        if n == "abs":
            return show(abs(a), t)
        if n == "clamp":
            lo, hi = self.args[1][0], self.args[2][0]
            return show(min(hi, max(a, lo)), t)
        if n == "sign":
            return show((a > 0) - (a < 0), INT)
        if n == "div":
            b = self.args[1][0]
            return show(0 if b == 0 else a // b, INT)
        if n == "floor":
            return show(a.numerator // a.denominator if isinstance(a, Fraction) else a, INT)
        if n == "index":
            i = self.args[1][0]
            return show(a[i], t[1][i])
        raise ValueError(n)


def gen_pair(r, t, strs):
    a = gen_value(r, t, strs)
    b = mutate(r, a, t, strs) if r.random() < 0.7 else gen_value(r, t, strs)
    return a, b


def gen_op_case(r, depth, strs=STRS_SAFE, welltyped_only=True, kinds=None):
    """one operator evaluation on generated values of a generated type"""
    x = r.random()
    all_kinds = kinds or ("int", "float", "str", "bool", "tuple", "list", "maybe", "blob", "enum")
    if x < 0.30:
        t = gen_type(r, depth, all_kinds)
        a, b = gen_pair(r, t, strs)
        return OpCase("op2", r.choice(["eq", "ne"]), [(a, t), (b, t)], "eq")
    if x < 0.55:
        t = gen_type(r, depth, ("int", "float", "str", "tuple"))
        a, b = gen_pair(r, t, strs)
        return OpCase("op2", r.choice(["lt", "le", "gt", "ge"]), [(a, t), (b, t)], "cmp")
    if x < 0.75:
        t = gen_type(r, depth, ("int", "float", "tuple"))
        a, b = gen_pair(r, t, strs)
        return OpCase("op2", r.choice(["add", "sub", "mul", "div"]), [(a, t), (b, t)], "arith")
    if x < 0.80:
        t = gen_type(r, max(depth, 1), ("int", "float", "tuple"))
        while t[0] != "tuple":
            t = gen_type(r, max(depth, 1), ("int", "float", "tuple"))
        dt = r.choice([INT, FLOAT])
        return OpCase("op2", "div", [(gen_value(r, t, strs), t), (gen_value(r, dt, strs), dt)], "div-scalar")
    if x < 0.88:
        t = gen_type(r, depth, ("int", "float", "str", "tuple"))
        a, b = gen_pair(r, t, strs)
        return OpCase("op2", "add", [(a, t), (b, t)], "add-str" if has_str(t) else "arith")
    if x < 0.92:
        t = gen_type(r, depth, ("int", "float", "tuple"))
        return OpCase("op1", "neg", [(gen_value(r, t, strs), t)], "neg")
    if x < 0.95:
        # the checker admits < and > between an int and a float
        ta, tb = r.choice([(INT, FLOAT), (FLOAT, INT)])
        return OpCase("op2", r.choice(["lt", "gt"]), [(gen_value(r, ta, strs), ta), (gen_value(r, tb, strs), tb)], "cmp-mixed")
    if x < 0.975:
        t = gen_type(r, depth, all_kinds)
        return OpCase("op1", "tostring", [(gen_value(r, t, strs), t)], "tostring")
    # a payload bound by a `case` arm, then compared / ordered / added
    y = r.random()
    if y < 0.6:
        t = gen_type(r, max(0, depth - 1), all_kinds)
        name = r.choice(["eq", "ne"])
    elif y < 0.85:
        t = gen_type(r, max(0, depth - 1), ("int", "float", "str", "tuple"))
        name = r.choice(["lt", "le", "gt", "ge"])
    else:
        t = gen_type(r, max(0, depth - 1), ("int", "float", "str", "tuple"))
        name = "add"
    a, b = gen_pair(r, t, strs)
    m = ("Just", a) if r.random() < 0.85 else ("None",)
    return OpCase("case", name, [(m, MAYBE(t)), (b, t)], "case-bound")


def gen_fn_case(r):
    x = r.random()
    t = r.choice([INT, FLOAT])
    g = lambda: gen_value(r, t, small=True)
    if x < 0.15:
        return OpCase("fn", "min", [(g(), t), (g(), t)], "math")
    if x < 0.30:
        return OpCase("fn", "max", [(g(), t), (g(), t)], "math")
    if x < 0.42:
        return OpCase("fn", "abs", [(g(), t)], "math")
    if x < 0.57:
        lo, hi = sorted([g(), g()])
        return OpCase("fn", "clamp", [(g(), t), (lo, t), (hi, t)], "math")
    if x < 0.70:
        return OpCase("fn", "sign", [(g(), t)], "math")
    if x < 0.88:
        return OpCase("fn", "div", [(gen_value(r, INT, small=True), INT), (gen_value(r, INT, small=True), INT)], "math")
    return OpCase("fn", "floor", [(gen_value(r, FLOAT), FLOAT)], "math")


# ------------------------------------------------------------------------------------------------
# histories (C18)

ELEM_TYPES = [INT, STR, TUP(INT, STR), TUP(INT, INT), FLOAT, BOOL, BOOL, TUP(BOOL, INT), LIST(INT)]
KEY_TYPES = [INT, STR, TUP(INT, INT), TUP(STR, STR), TUP(INT, STR)]
# nested tuple keys, up to depth 3
NESTED_KEY_TYPES = [TUP(INT, TUP(INT, INT)), TUP(TUP(INT, INT), INT), TUP(STR, TUP(INT, STR)), TUP(TUP(INT, INT), TUP(INT, INT)),
                    TUP(INT, TUP(INT, TUP(INT, INT))), TUP(TUP(TUP(INT, STR), INT), INT), TUP(INT, FLOAT, TUP(STR,))]


def t_name(t):
    return sy_type(t)


def case_text(x, present, v, t):
    """what a `case` arm that binds the payload x prints: x | x == v [| yes/no of `if x` for bools]; "none" otherwise"""
    if not present:
        return "none"
    out = show(x, t) + "|" + show(x == v, BOOL)
    if t == BOOL:
        out += "|" + ("yes" if x else "no")
    return out


def lua_case(m_expr, v, t):
    """the Lua the compiler emits for that `case`: tag and payload are read with __INDEX"""
    body = 'tostring(x) .. "|" .. tostring(x == %s)' % lua(v, t)
    if t == BOOL:
        body += ' .. "|" .. (x and "yes" or "no")'
    return ('local m = %s; if __INDEX(m, 1) == "Just" then local x = __INDEX(m, 2); return %s else return "none" end'
            % (m_expr, body))


def sy_case(m_expr, v, t):
    body = 'as_str(x) + "|" + as_str(x == %s)' % sy(v, t)
    if t == BOOL:
        body += ' + "|" + (if x do "yes" else do "no" end)'
    return ["    case %s do" % m_expr, "        Just x ->", "            print(%s)" % body, "        end",
            "        None -> print(\"none\") end", "    end"]


class ListHistory:
    """ops: (name, args...) over elements of type et; ints in get/set are plain ints"""

    def __init__(self, et, init, ops):
        self.et, self.init, self.ops = et, init, ops

    # -- plain model: Python list
    def expected(self):
        """list of (observation text, list text); stops with ('UNDEFINED',) when the model has no answer"""
        l = list(self.init)
        et = self.et
        out = []
        M = MAYBE(et)
        for op in self.ops:
            n = op[0]
            o, ot = None, None
            if n == "push":
                l.append(op[1])
            elif n == "prepend":
                l.insert(0, op[1])
            elif n == "pop":
                o, ot = (("Just", l.pop()) if l else ("None",)), M
            elif n == "get":
                i = op[1]
                o, ot = (("Just", l[i]) if 0 <= i < len(l) else ("None",)), M
            elif n == "geteq":
                # the library's answer compared (==) with the same Maybe written in the program
                o, ot = True, BOOL
            elif n == "popeq":
                # the popped Maybe compared (==) with the same Maybe written in the program (None on an empty list)
                if l:
                    l.pop()
                o, ot = True, BOOL
            elif n == "getcase":
                o, ot = case_text(l[op[1]] if 0 <= op[1] < len(l) else None, 0 <= op[1] < len(l), op[2], et), STR
            elif n == "getisjust":
                o, ot = (0 <= op[1] < len(l)), BOOL
            elif n == "getisnone":
                o, ot = not (0 <= op[1] < len(l)), BOOL
            elif n == "getordefault":
                o, ot = (l[op[1]] if 0 <= op[1] < len(l) else op[2]), et
            elif n == "set":
                i = op[1]
                if 0 <= i < len(l):
                    l[i] = op[2]
            elif n == "len":
                o, ot = len(l), INT
            elif n == "map":
                l = [p_arith("add", e, op[2], et)[0] for e in l]
            elif n == "filter":
                l = [e for e in l if pred(op[1], e, op[2], et)]
            elif n == "fold":
                acc = op[2]
                for e in l:
                    acc = p_arith("add", acc, e, et)[0]
                o, ot = acc, et
            elif n == "find":
                hit = [e for e in l if pred(op[1], e, op[2], et)]
                o, ot = (("Just", hit[0]) if hit else ("None",)), M
            elif n == "contains":
                o, ot = (op[1] in l), BOOL
            elif n == "last":
                o, ot = (("Just", l[-1]) if l else ("None",)), M
            else:
                raise ValueError(n)
            out.append(("nil" if ot is None else show(o, ot), show(l, LIST(et))))
        return out

    def case_line(self):
        et = self.et
        parts = []
        for op in self.ops:
            n = op[0]
            if n in ("push", "prepend", "contains"):
                parts.append("%s %s" % (n, tok(op[1], et)))
            elif n in ("pop", "len", "last"):
                parts.append(n)
            elif n == "get":
                parts.append("get I%d" % op[1])
            elif n == "geteq":
                parts.append("geteq I%d %s" % (op[1], tok(self.plain_get(op), MAYBE(et))))
            elif n == "popeq":
                parts.append("popeq %s" % tok(self.plain_get(op), MAYBE(et)))
            elif n == "getcase":
                parts.append("getcase I%d %s" % (op[1], tok(op[2], et)))
            elif n in ("getisjust", "getisnone"):
                parts.append("%s I%d" % (n, op[1]))
            elif n == "getordefault":
                parts.append("getordefault I%d %s" % (op[1], tok(op[2], et)))
            elif n == "set":
                parts.append("set I%d %s" % (op[1], tok(op[2], et)))
            elif n == "map":
                parts.append("map addk %s" % tok(op[2], et))
            elif n in ("filter", "find"):
                parts.append("%s %s %s" % (n, op[1], tok(op[2], et)))
            elif n == "fold":
                parts.append("fold add %s" % tok(op[2], et))
        return "LIST %s %d %s" % (tok(self.init, LIST(et)), len(self.ops), " ".join(parts))

    def plain_get(self, op):
        """what the plain list model answers for this geteq op (computed by replaying the history)"""
        return self._geteq[id(op)]

    def prepare(self):
        """replay the plain model once to learn the expected Maybe of every geteq op"""
        self._geteq = {}
        l = list(self.init)
        et = self.et
        for op in self.ops:
            n = op[0]
            if n == "push":
                l.append(op[1])
            elif n == "prepend":
                l.insert(0, op[1])
            elif n == "pop":
                if l:
                    l.pop()
            elif n == "geteq":
                i = op[1]
                self._geteq[id(op)] = ("Just", l[i]) if 0 <= i < len(l) else ("None",)
            elif n == "popeq":
                self._geteq[id(op)] = ("Just", l[-1]) if l else ("None",)
                if l:
                    l.pop()
            elif n == "set":
                if 0 <= op[1] < len(l):
                    l[op[1]] = op[2]
            elif n == "map":
                l = [p_arith("add", e, op[2], et)[0] for e in l]
            elif n == "filter":
                l = [e for e in l if pred(op[1], e, op[2], et)]
        return self

    def lua_chunk(self):
        """only the operations that are functions of preamble.lua (contains/last are written in Sylt)"""
        et = self.et
        L = ["local l = %s" % lua(self.init, LIST(et)), "local alive = true",
             "local function step(f) if alive then local ok, r = pcall(f); if ok then print(tostring(r)); print(tostring(l)) "
             "else print(\"ERR\"); alive = false end end end"]
        for op in self.ops:
            n = op[0]
            if n == "push":
                e = "list_push(l, %s)" % lua(op[1], et)
            elif n == "prepend":
                e = "list_prepend(l, %s)" % lua(op[1], et)
            elif n == "pop":
                e = "return list_pop(l)"
            elif n == "get":
                e = "return list_get(l, %d)" % op[1]
            elif n == "geteq":
                e = "return list_get(l, %d) == %s" % (op[1], lua(self.plain_get(op), MAYBE(et)))
            elif n == "popeq":
                e = "return list_pop(l) == %s" % lua(self.plain_get(op), MAYBE(et))
            elif n == "getcase":
                e = lua_case("list_get(l, %d)" % op[1], op[2], et)
            elif n == "set":
                e = "list_set(l, %d, %s)" % (op[1], lua(op[2], et))
            elif n == "len":
                e = "return xx_len(l)"
            elif n == "map":
                e = "l = list_map(l, function(x) return __ADD(x, %s) end)" % lua(op[2], et)
            elif n == "filter":
                e = "l = list_filter(l, function(x) return %s end)" % lua_pred(op[1], lua(op[2], et))
            elif n == "fold":
                e = "return list_fold(l, %s, function(v, a) return __ADD(a, v) end)" % lua(op[2], et)
            elif n == "find":
                e = "return list_find(l, function(x) return %s end)" % lua_pred(op[1], lua(op[2], et))
            else:
                raise ValueError("not a preamble function: " + n)
            L.append("step(function() %s end)" % e)
        return "\n".join(L) + "\n"

    def sylt_lines(self):
        et = self.et
        L = ["    l: [%s] = %s" % (sy_type(et), sy(self.init, LIST(et)))]
        for op in self.ops:
            n = op[0]
            obs = None
            if n == "push":
                L.append("    list.push(l, %s)" % sy(op[1], et))
            elif n == "prepend":
                L.append("    list.prepend(l, %s)" % sy(op[1], et))
            elif n == "pop":
                obs = "list.pop(l)"
            elif n == "get":
                obs = "list.get(l, %s)" % sy(op[1], INT)
            elif n == "geteq":
                obs = "list.get(l, %s) == %s" % (sy(op[1], INT), sy(self.plain_get(op), MAYBE(et)))
            elif n == "popeq":
                obs = "list.pop(l) == %s" % sy(self.plain_get(op), MAYBE(et))
            elif n == "getisjust":
                obs = "maybe.isJust(list.get(l, %s))" % sy(op[1], INT)
            elif n == "getisnone":
                obs = "maybe.isNone(list.get(l, %s))" % sy(op[1], INT)
            elif n == "getordefault":
                obs = "maybe.orDefault(list.get(l, %s), %s)" % (sy(op[1], INT), sy(op[2], et))
            elif n == "set":
                L.append("    list.set(l, %s, %s)" % (sy(op[1], INT), sy(op[2], et)))
            elif n == "len":
                obs = "list.len(l)"
            elif n == "map":
                L.append("    l = list.map(l, pu x -> x + %s end)" % sy(op[2], et))
            elif n == "filter":
                L.append("    l = list.filter(l, pu x -> %s end)" % sy_pred(op[1], sy(op[2], et)))
            elif n == "fold":
                obs = "list.fold(l, %s, pu v, a -> a + v end)" % sy(op[2], et)
            elif n == "find":
                obs = "list.find(l, pu x -> %s end)" % sy_pred(op[1], sy(op[2], et))
            elif n == "contains":
                obs = "list.contains(l, %s)" % sy(op[1], et)
            elif n == "last":
                obs = "list.last(l)"
            if n == "getcase":
                L.extend(sy_case("list.get(l, %s)" % sy(op[1], INT), op[2], et))
            elif obs is None:
                L.append("    print(nil)")
            else:
                L.append("    print(%s)" % obs)
            L.append("    print(l)")
        return L


def pred(name, x, k, t):
    if name == "ltk":
        return p_lt(x, k, t)
    if name == "eqk":
        return x == k
    return x != k


def lua_pred(name, k):
    return {"ltk": "x < %s", "eqk": "x == %s", "nek": "x ~= %s"}[name] % k


def sy_pred(name, k):
    return {"ltk": "x < %s", "eqk": "x == %s", "nek": "x != %s"}[name] % k


def gen_list_history(r, nops, et=None, strs=STRS_SAFE, preamble_only=False, negative_set=False, geteq=None):
    """geteq: None = never, "just" = only where the plain model answers Just, "any" = also where it answers None"""
    et = et or r.choice(ELEM_TYPES)
    pool = [gen_value(r, et, strs, small=True) for _ in range(5)]
    g = lambda: r.choice(pool) if r.random() < 0.7 else gen_value(r, et, strs, small=True)
    init = [g() for _ in range(r.choice([0, 0, 1, 2, 3, 5]))]
    ops = []
    names = ["push", "push", "prepend", "pop", "get", "get", "set", "len", "map", "filter", "fold", "find", "contains", "last"]
    if preamble_only:
        names = [n for n in names if n not in ("contains", "last")]
    if not is_add(et):
        names = [n for n in names if n not in ("map", "fold")]
    names = names + ["getcase", "getcase"]
    if geteq:
        names = names + ["geteq", "geteq"] + (["popeq", "popeq"] if geteq == "any" else [])
    if not preamble_only:
        names = names + ["getisjust", "getisnone", "getordefault"]
    cur_len = len(init)
    for _ in range(nops):
        n = r.choice(names)
        if n == "geteq":
            if geteq == "just":
                if cur_len == 0:
                    continue
                ops.append((n, r.randrange(cur_len)))
            else:
                ops.append((n, r.choice([0, 1, 2, 5, 9, -1])))
            continue
        if n in ("push", "prepend"):
            cur_len += 1
        elif n in ("pop", "popeq"):
            cur_len = max(0, cur_len - 1)
        elif n == "filter":
            cur_len = 0          # unknown from here on: geteq "just" stops being generated
        if n in ("push", "prepend", "contains"):
            ops.append((n, g()))
        elif n in ("pop", "len", "last", "popeq"):
            ops.append((n,))
        elif n in ("get", "getisjust", "getisnone"):
            ops.append((n, r.choice([0, 1, 2, 3, 5, 9, -1, -2])))
        elif n == "getordefault":
            ops.append((n, r.choice([0, 1, 2, 5, 9, -1]), g()))
        elif n == "getcase":
            ops.append((n, r.choice([0, 0, 1, 2, 3, 9]), g()))
        elif n == "set":
            idx = [0, 0, 1, 2, 3, 5, 9] + ([-1, -2] if negative_set else [])
            ops.append((n, r.choice(idx), g()))
        elif n == "map":
            ops.append((n, "addk", g()))
        elif n in ("filter", "find"):
            ps = ["eqk", "nek"] + (["ltk"] if is_ord(et) else [])
            ops.append((n, r.choice(ps), g()))
        elif n == "fold":
            ops.append((n, "add", g()))
    return ListHistory(et, init, ops).prepare()


class KeyedHistory:
    """kind: dict | set; ops over keys of type kt (and values of type vt for dicts).
    Observations: after update/remove/add/fromlist the new len; get -> Maybe; has -> bool; len."""

    def __init__(self, kind, kt, vt, ops):
        self.kind, self.kt, self.vt, self.ops = kind, kt, vt, ops

    def prepare(self):
        """replay the plain dict once to learn the expected Maybe of every geteq op"""
        self._geteq = {}
        d = {}
        for op in self.ops:
            n = op[0]
            if n == "update":
                d[op[1]] = op[2]
            elif n == "remove":
                d.pop(op[1], None)
            elif n == "fromlist" and self.kind == "dict":
                d = dict(op[1])
            elif n == "geteq":
                self._geteq[id(op)] = ("Just", d[op[1]]) if op[1] in d else ("None",)
        return self

    def plain_get(self, op):
        return self._geteq[id(op)]

    def expected(self):
        out = []
        if self.kind == "dict":
            d = {}
            for op in self.ops:
                n = op[0]
                if n == "update":
                    d[op[1]] = op[2]
                    out.append(str(len(d)))
                elif n == "remove":
                    d.pop(op[1], None)
                    out.append(str(len(d)))
                elif n == "get":
                    out.append(show(("Just", d[op[1]]) if op[1] in d else ("None",), MAYBE(self.vt)))
                elif n == "geteq":
                    out.append("true")
                elif n == "getcase":
                    out.append(case_text(d.get(op[1]), op[1] in d, op[2], self.vt))
                elif n == "len":
                    out.append(str(len(d)))
                elif n == "has":
                    out.append(show(op[1] in d, BOOL))
                elif n == "fromlist":
                    d = {}
                    for k, v in op[1]:
                        d[k] = v
                    out.append(str(len(d)))
        else:
            s = set()
            for op in self.ops:
                n = op[0]
                if n == "add":
                    s.add(op[1])
                    out.append(str(len(s)))
                elif n == "remove":
                    s.discard(op[1])
                    out.append(str(len(s)))
                elif n == "has":
                    out.append(show(op[1] in s, BOOL))
                elif n == "len":
                    out.append(str(len(s)))
                elif n == "fromlist":
                    s = set(op[1])
                    out.append(str(len(s)))
        return out

    def case_line(self):
        kt, vt = self.kt, self.vt
        parts = []
        for op in self.ops:
            n = op[0]
            if n == "update":
                parts.append("update %s %s" % (tok(op[1], kt), tok(op[2], vt)))
            elif n in ("remove", "get", "has", "add"):
                parts.append("%s %s" % (n, tok(op[1], kt)))
            elif n == "geteq":
                parts.append("geteq %s %s" % (tok(op[1], kt), tok(self.plain_get(op), MAYBE(vt))))
            elif n == "getcase":
                parts.append("getcase %s %s" % (tok(op[1], kt), tok(op[2], vt)))
            elif n == "len":
                parts.append("len")
            elif n == "fromlist":
                if self.kind == "dict":
                    parts.append("fromlist " + tok([(k, v) for k, v in op[1]], LIST(TUP(kt, vt))))
                else:
                    parts.append("fromlist " + tok(list(op[1]), LIST(kt)))
        return "%s %d %s" % ("DICT" if self.kind == "dict" else "SET", len(self.ops), " ".join(parts))

    def lua_chunk(self):
        """has (contains_key) is written in Sylt for dicts: only the preamble's functions here"""
        kt, vt = self.kt, self.vt
        c = "d"
        L = ["local d = %s" % ("dict_new()" if self.kind == "dict" else "set_new()"), "local alive = true",
             "local function step(f) if alive then local ok, r = pcall(f); if ok then print(tostring(r)) "
             "else print(\"ERR\"); alive = false end end end"]
        for op in self.ops:
            n = op[0]
            if self.kind == "dict":
                if n == "update":
                    e = "dict_update(d, %s, %s); return xx_len(d)" % (lua(op[1], kt), lua(op[2], vt))
                elif n == "remove":
                    e = "dict_remove(d, %s); return xx_len(d)" % lua(op[1], kt)
                elif n == "get":
                    e = "return dict_get(d, %s)" % lua(op[1], kt)
                elif n == "geteq":
                    e = "return dict_get(d, %s) == %s" % (lua(op[1], kt), lua(self.plain_get(op), MAYBE(vt)))
                elif n == "getcase":
                    e = lua_case("dict_get(d, %s)" % lua(op[1], kt), op[2], vt)
                elif n == "len":
                    e = "return xx_len(d)"
                elif n == "fromlist":
                    e = "d = dict_from_list(%s); return xx_len(d)" % lua([(k, v) for k, v in op[1]], LIST(TUP(kt, vt)))
                else:
                    raise ValueError("not a preamble function: " + n)
            else:
                if n == "add":
                    e = "set_add(d, %s); return xx_len(d)" % lua(op[1], kt)
                elif n == "remove":
                    e = "set_remove(d, %s); return xx_len(d)" % lua(op[1], kt)
                elif n == "has":
                    e = "return set_contains(d, %s)" % lua(op[1], kt)
                elif n == "len":
                    e = "return xx_len(d)"
                elif n == "fromlist":
                    e = "d = set_from_list(%s); return xx_len(d)" % lua(list(op[1]), LIST(kt))
            L.append("step(function() %s end)" % e)
        return "\n".join(L) + "\n"

    def sylt_lines(self):
        kt, vt = self.kt, self.vt
        if self.kind == "dict":
            L = ["    d: dict.Dict(%s, %s) = dict.new()" % (sy_type(kt), sy_type(vt))]
        else:
            L = ["    d: set.Set(%s) = set.new()" % sy_type(kt)]
        m = "dict" if self.kind == "dict" else "set"
        for op in self.ops:
            n = op[0]
            if n == "update":
                L.append("    dict.update(d, %s, %s)" % (sy(op[1], kt), sy(op[2], vt)))
                L.append("    print(dict.len(d))")
            elif n == "add":
                L.append("    set.add(d, %s)" % sy(op[1], kt))
                L.append("    print(set.len(d))")
            elif n == "remove":
                L.append("    %s.remove(d, %s)" % (m, sy(op[1], kt)))
                L.append("    print(%s.len(d))" % m)
            elif n == "get":
                L.append("    print(dict.get(d, %s))" % sy(op[1], kt))
            elif n == "geteq":
                L.append("    print(dict.get(d, %s) == %s)" % (sy(op[1], kt), sy(self.plain_get(op), MAYBE(vt))))
            elif n == "getcase":
                L.extend(sy_case("dict.get(d, %s)" % sy(op[1], kt), op[2], vt))
            elif n == "len":
                L.append("    print(%s.len(d))" % m)
            elif n == "has":
                L.append("    print(%s(d, %s))" % ("dict.contains_key" if self.kind == "dict" else "set.contains", sy(op[1], kt)))
            elif n == "fromlist":
                if self.kind == "dict":
                    L.append("    d = dict.from_list(%s)" % sy([(k, v) for k, v in op[1]], LIST(TUP(kt, vt))))
                else:
                    L.append("    d = set.from_list(%s)" % sy(list(op[1]), LIST(kt)))
                L.append("    print(%s.len(d))" % m)
        return L


def distinct_printed(keys, kt):
    """keep one key per printed form (the runtime addresses entries by tostring(key))"""
    seen, out = set(), []
    for k in keys:
        p = show(k, kt)
        if p not in seen:
            seen.add(p)
            out.append(k)
    return out


def gen_keyed_history(r, nops, kind=None, kt=None, strs=STRS_SAFE, preamble_only=False, geteq=None, remove=True,
                      allow_collisions=False):
    """geteq: None | "just" | "any" (dicts only).  remove=False: no remove operations.
    allow_collisions=False: all keys of the history have different printed forms."""
    kind = kind or r.choice(["dict", "set"])
    kt = kt or r.choice(KEY_TYPES)
    vt = r.choice([INT, STR, TUP(INT, INT), BOOL, BOOL, FLOAT])
    keys = [gen_value(r, kt, strs, small=True) for _ in range(7)]
    if kt[0] == "tuple":
        # keys that share all components but one (also the trailing / nested ones): half of the pool are variants
        for i in range(3, 7):
            for _ in range(4):
                v = mutate(r, keys[r.randrange(3)], kt, strs)
                if v not in keys[:i]:
                    keys[i] = v
                    break
    if not allow_collisions:
        keys = distinct_printed(keys, kt)
    gk = lambda: r.choice(keys)
    gv = lambda: gen_value(r, vt, strs, small=True)
    ops = []
    if r.random() < 0.4:
        n = r.choice([0, 1, 2, 3, 5])
        if kind == "dict":
            ops.append(("fromlist", [(gk(), gv()) for _ in range(n)]))
        else:
            ops.append(("fromlist", [gk() for _ in range(n)]))
    if kind == "dict":
        names = ["update", "update", "update", "remove", "get", "get", "len", "has"]
        if preamble_only:
            names = [n for n in names if n != "has"]
        names += ["getcase", "getcase"]
        if geteq:
            names += ["geteq", "geteq"]
    else:
        names = ["add", "add", "add", "remove", "has", "has", "len"]
    if not remove:
        names = [n for n in names if n != "remove"]
    present = set()
    for op in ops:
        present = set(k for k, _ in op[1]) if kind == "dict" else set(op[1])
    while len(ops) < nops:
        n = r.choice(names)
        if n == "getcase":
            ops.append((n, gk(), gv()))
            continue
        if n == "geteq":
            k = gk()
            if geteq == "just" and k not in present:
                continue
            ops.append((n, k))
            continue
        if n == "update":
            k = gk()
            present.add(k)
            ops.append((n, k, gv()))
        elif n == "len":
            ops.append((n,))
        else:
            k = gk()
            if n == "add":
                present.add(k)
            elif n == "remove":
                present.discard(k)
            ops.append((n, k))
    # probe every key at the end: the final state is observed completely, whatever the table order
    for k in keys:
        ops.append(("get", k) if kind == "dict" else ("has", k))
    ops.append(("len",))
    return KeyedHistory(kind, kt, vt, ops).prepare()


# ------------------------------------------------------------------------------------------------
# histories over SEVERAL live containers (aliasing / independence)

import copy as _copy

ALIAS_STRS = ["", "a", "b", "ab", "x y", "c"]
ALIAS_ELEM_TYPES = [INT, INT, STR, TUP(INT, STR), TUP(INT, INT), LIST(INT), BOOL]


class AliasHistory:
    """Three registers c0 c1 c2.  kinds[r] in list | dict | set; every list register holds elements of type et.
    ops (the first len(kinds) ops initialise the registers and are never shrunk away):
      ("new", r, values) | ("dnew", r) | ("snew", r)
      ("on", r, lop)            lop = ("push", v) | ("prepend", v) | ("pop",) | ("get", i) | ("set", i, v) | ("len",)
                                      | ("last",) | ("contains", v)          (last / contains: Sylt only)
      ("kon", r, kop)           kop = ("update", k, v) | ("add", k) | ("remove", k) | ("len",) | ("get", k) | ("has", k)
      ("filter", dst, src, pred, k)   pred = all | none | ltk | eqk | nek
      ("map", dst, src, "id") | ("map", dst, src, "addk", k)
      ("dictfrom", dst, src) | ("setfrom", dst, src)
      ("innerpush", r, i, v)    et = [int]: push v onto the i-th element (a list) -- sharing of the ELEMENT is intended
    After every op: the observation, then every register (lists printed, dicts / sets by len).
    The plain model is Python itself: filter / map / from_list build NEW containers, elements are references."""

    def __init__(self, et, kinds, ops):
        self.et, self.kinds, self.ops = et, list(kinds), list(ops)
        self.ninit = len(kinds)
        self.kt = et[1][0] if (et[0] == "tuple" and len(et[1]) == 2) else None
        self.vt = et[1][1] if self.kt else None
        self.in_model = et[0] != "list" and not any(o[0] == "innerpush" for o in ops)

    def prepare(self):
        return self

    def preamble_only(self):
        return not any(o[0] == "on" and o[2][0] in ("last", "contains") for o in self.ops) and \
            not any(o[0] == "kon" and self.kinds[o[1]] == "dict" and o[2][0] == "has" for o in self.ops)

    # ---- plain model
    def expected(self):
        et = self.et
        regs = [[] if k == "list" else ({} if k == "dict" else set()) for k in self.kinds]
        M = MAYBE(et)
        out = []
        for op in self.ops:
            n = op[0]
            obs = "nil"
            if n == "new":
                regs[op[1]] = [_copy.deepcopy(e) for e in op[2]]     # every literal element is a fresh value
            elif n == "dnew":
                regs[op[1]] = {}
            elif n == "snew":
                regs[op[1]] = set()
            elif n == "on":
                l, o = regs[op[1]], op[2]
                k = o[0]
                if k == "push":
                    l.append(_copy.deepcopy(o[1]))
                elif k == "prepend":
                    l.insert(0, _copy.deepcopy(o[1]))
                elif k == "pop":
                    obs = show(("Just", l.pop()) if l else ("None",), M)
                elif k == "get":
                    obs = show(("Just", l[o[1]]) if 0 <= o[1] < len(l) else ("None",), M)
                elif k == "set":
                    if 0 <= o[1] < len(l):
                        l[o[1]] = _copy.deepcopy(o[2])
                elif k == "len":
                    obs = str(len(l))
                elif k == "last":
                    obs = show(("Just", l[-1]) if l else ("None",), M)
                elif k == "contains":
                    obs = show(o[1] in l, BOOL)
            elif n == "kon":
                c, o = regs[op[1]], op[2]
                k = o[0]
                if k == "update":
                    c[o[1]] = o[2]
                    obs = str(len(c))
                elif k == "add":
                    c.add(o[1])
                    obs = str(len(c))
                elif k == "remove":
                    if isinstance(c, dict):
                        c.pop(o[1], None)
                    else:
                        c.discard(o[1])
                    obs = str(len(c))
                elif k == "len":
                    obs = str(len(c))
                elif k == "get":
                    obs = show(("Just", c[o[1]]) if o[1] in c else ("None",), MAYBE(self.vt))
                elif k == "has":
                    obs = show(o[1] in c, BOOL)
            elif n == "filter":
                p = op[3]
                src = regs[op[2]]
                if p == "all":
                    regs[op[1]] = [e for e in src]
                elif p == "none":
                    regs[op[1]] = []
                else:
                    regs[op[1]] = [e for e in src if pred(p, e, op[4], et)]
            elif n == "map":
                src = regs[op[2]]
                regs[op[1]] = [e for e in src] if op[3] == "id" else [p_arith("add", e, op[4], et)[0] for e in src]
            elif n == "dictfrom":
                regs[op[1]] = {k: v for k, v in regs[op[2]]}
            elif n == "setfrom":
                regs[op[1]] = set(regs[op[2]])
            elif n == "innerpush":
                l = regs[op[1]]
                if 0 <= op[2] < len(l):
                    l[op[2]].append(op[3])
            out.append(obs)
            for kind, c in zip(self.kinds, regs):
                out.append(show(c, LIST(et)) if kind == "list" else str(len(c)))
        return out

    # ---- the model's case language
    def _lop_tok(self, o):
        et = self.et
        k = o[0]
        if k in ("push", "prepend", "contains"):
            return "%s %s" % (k, tok(o[1], et))
        if k in ("pop", "len", "last"):
            return k
        if k == "get":
            return "get I%d" % o[1]
        return "set I%d %s" % (o[1], tok(o[2], et))

    def _kop_tok(self, o):
        k = o[0]
        if k == "update":
            return "update %s %s" % (tok(o[1], self.kt), tok(o[2], self.vt))
        if k == "len":
            return "len"
        return "%s %s" % (k, tok(o[1], self._keyt(o)))

    def _keyt(self, o):
        return self._cur_keyt

    def case_line(self):
        parts = []
        for op in self.ops:
            n = op[0]
            if n == "new":
                parts.append("new %d %s" % (op[1], tok(list(op[2]), LIST(self.et))))
            elif n in ("dnew", "snew"):
                parts.append("%s %d" % (n, op[1]))
            elif n == "on":
                parts.append("on %d %s" % (op[1], self._lop_tok(op[2])))
            elif n == "kon":
                self._cur_keyt = self.kt if self.kinds[op[1]] == "dict" else self.et
                parts.append("kon %d %s" % (op[1], self._kop_tok(op[2])))
            elif n == "filter":
                parts.append("filter %d %d %s %s" % (op[1], op[2], op[3], tok(op[4], self.et)))
            elif n == "map":
                parts.append("map %d %d id" % (op[1], op[2]) if op[3] == "id" else "map %d %d addk %s" % (op[1], op[2], tok(op[4], self.et)))
            elif n in ("dictfrom", "setfrom"):
                parts.append("%s %d %d" % (n, op[1], op[2]))
            else:
                raise ValueError("not in the model: " + n)
        return "MULTI %d %d %s" % (len(self.kinds), len(self.ops), " ".join(parts))

    # ---- Lua through the real preamble
    def lua_chunk(self):
        et = self.et
        regs = ["c%d" % i for i in range(len(self.kinds))]
        shows = "; ".join("print(tostring(%s))" % r if k == "list" else "print(xx_len(%s))" % r for r, k in zip(regs, self.kinds))
        L = ["local %s = %s" % (", ".join(regs), ", ".join("__LIST{  }" if k == "list" else ("dict_new()" if k == "dict" else "set_new()")
                                                         for k in self.kinds)),
             "local alive = true",
             "local function step(f) if alive then local ok, r = pcall(f); if ok then print(tostring(r)); %s "
             "else print(\"ERR\"); alive = false end end end" % shows]
        for op in self.ops:
            n = op[0]
            if n == "new":
                e = "c%d = %s" % (op[1], lua(list(op[2]), LIST(et)))
            elif n == "dnew":
                e = "c%d = dict_new()" % op[1]
            elif n == "snew":
                e = "c%d = set_new()" % op[1]
            elif n == "on":
                c, o = "c%d" % op[1], op[2]
                k = o[0]
                if k == "push":
                    e = "list_push(%s, %s)" % (c, lua(o[1], et))
                elif k == "prepend":
                    e = "list_prepend(%s, %s)" % (c, lua(o[1], et))
                elif k == "pop":
                    e = "return list_pop(%s)" % c
                elif k == "get":
                    e = "return list_get(%s, %d)" % (c, o[1])
                elif k == "set":
                    e = "list_set(%s, %d, %s)" % (c, o[1], lua(o[2], et))
                elif k == "len":
                    e = "return xx_len(%s)" % c
                else:
                    raise ValueError("not a preamble function: " + k)
            elif n == "kon":
                c, o = "c%d" % op[1], op[2]
                k = o[0]
                if self.kinds[op[1]] == "dict":
                    if k == "update":
                        e = "dict_update(%s, %s, %s); return xx_len(%s)" % (c, lua(o[1], self.kt), lua(o[2], self.vt), c)
                    elif k == "remove":
                        e = "dict_remove(%s, %s); return xx_len(%s)" % (c, lua(o[1], self.kt), c)
                    elif k == "get":
                        e = "return dict_get(%s, %s)" % (c, lua(o[1], self.kt))
                    elif k == "len":
                        e = "return xx_len(%s)" % c
                    else:
                        raise ValueError("not a preamble function: " + k)
                else:
                    if k == "add":
                        e = "set_add(%s, %s); return xx_len(%s)" % (c, lua(o[1], et), c)
                    elif k == "remove":
                        e = "set_remove(%s, %s); return xx_len(%s)" % (c, lua(o[1], et), c)
                    elif k == "has":
                        e = "return set_contains(%s, %s)" % (c, lua(o[1], et))
                    else:
                        e = "return xx_len(%s)" % c
            elif n == "filter":
                body = {"all": "true", "none": "false"}.get(op[3]) or lua_pred(op[3], lua(op[4], et))
                e = "c%d = list_filter(c%d, function(x) return %s end)" % (op[1], op[2], body)
            elif n == "map":
                body = "x" if op[3] == "id" else "__ADD(x, %s)" % lua(op[4], et)
                e = "c%d = list_map(c%d, function(x) return %s end)" % (op[1], op[2], body)
            elif n == "dictfrom":
                e = "c%d = dict_from_list(c%d)" % (op[1], op[2])
            elif n == "setfrom":
                e = "c%d = set_from_list(c%d)" % (op[1], op[2])
            elif n == "innerpush":
                e = "local m = list_get(c%d, %d); if m[1] == \"Just\" then list_push(m[2], %s) end" % (op[1], op[2], lua(op[3], INT))
            L.append("step(function() %s end)" % e)
        return "\n".join(L) + "\n"

    # ---- Sylt
    def sylt_lines(self):
        et = self.et
        L = []
        for i, k in enumerate(self.kinds):
            if k == "list":
                L.append("    c%d: [%s] = []" % (i, sy_type(et)))
            elif k == "dict":
                L.append("    c%d: dict.Dict(%s, %s) = dict.new()" % (i, sy_type(self.kt), sy_type(self.vt)))
            else:
                L.append("    c%d: set.Set(%s) = set.new()" % (i, sy_type(et)))
        shows = ["    print(c%d)" % i if k == "list" else "    print(%s.len(c%d))" % (k, i) for i, k in enumerate(self.kinds)]
        for j, op in enumerate(self.ops):
            n = op[0]
            obs = None
            if n == "new":
                L.append("    c%d = %s" % (op[1], sy(list(op[2]), LIST(et))))
            elif n == "dnew":
                L.append("    c%d = dict.new()" % op[1])
            elif n == "snew":
                L.append("    c%d = set.new()" % op[1])
            elif n == "on":
                c, o = "c%d" % op[1], op[2]
                k = o[0]
                if k in ("push", "prepend"):
                    L.append("    list.%s(%s, %s)" % (k, c, sy(o[1], et)))
                elif k == "set":
                    L.append("    list.set(%s, %s, %s)" % (c, sy(o[1], INT), sy(o[2], et)))
                elif k == "get":
                    obs = "list.get(%s, %s)" % (c, sy(o[1], INT))
                elif k == "contains":
                    obs = "list.contains(%s, %s)" % (c, sy(o[1], et))
                else:
                    obs = "list.%s(%s)" % (k, c)
            elif n == "kon":
                c, o = "c%d" % op[1], op[2]
                k = o[0]
                m = self.kinds[op[1]]
                if k == "update":
                    L.append("    dict.update(%s, %s, %s)" % (c, sy(o[1], self.kt), sy(o[2], self.vt)))
                    obs = "dict.len(%s)" % c
                elif k == "add":
                    L.append("    set.add(%s, %s)" % (c, sy(o[1], et)))
                    obs = "set.len(%s)" % c
                elif k == "remove":
                    L.append("    %s.remove(%s, %s)" % (m, c, sy(o[1], self.kt if m == "dict" else et)))
                    obs = "%s.len(%s)" % (m, c)
                elif k == "len":
                    obs = "%s.len(%s)" % (m, c)
                elif k == "get":
                    obs = "dict.get(%s, %s)" % (c, sy(o[1], self.kt))
                elif k == "has":
                    obs = ("dict.contains_key(%s, %s)" % (c, sy(o[1], self.kt))) if m == "dict" else ("set.contains(%s, %s)" % (c, sy(o[1], et)))
            elif n == "filter":
                body = {"all": "true", "none": "false"}.get(op[3]) or sy_pred(op[3], sy(op[4], et))
                L.append("    c%d = list.filter(c%d, pu x -> %s end)" % (op[1], op[2], body))
            elif n == "map":
                body = "x" if op[3] == "id" else "x + %s" % sy(op[4], et)
                L.append("    c%d = list.map(c%d, pu x -> %s end)" % (op[1], op[2], body))
            elif n == "dictfrom":
                L.append("    c%d = dict.from_list(c%d)" % (op[1], op[2]))
            elif n == "setfrom":
                L.append("    c%d = set.from_list(c%d)" % (op[1], op[2]))
            elif n == "innerpush":
                L.append("    inner%d: [int] = maybe.orDefault(list.get(c%d, %s), [])" % (j, op[1], sy(op[2], INT)))
                L.append("    list.push(inner%d, %s)" % (j, sy(op[3], INT)))
            L.append("    print(%s)" % (obs or "nil"))
            L.extend(shows)
        return L


def gen_alias_history(r, nops, et=None, preamble_only=False):
    et = et or r.choice(ALIAS_ELEM_TYPES)
    nested = et[0] == "list"
    strs = ALIAS_STRS
    pool = [gen_value(r, et, strs, small=True) for _ in range(5)]
    g = lambda: r.choice(pool) if r.random() < 0.8 else gen_value(r, et, strs, small=True)
    third = ["list", "list"]
    if not nested and is_ord(et):                       # keys must be comparable (K: CmpEqu)
        third.append("set")
    if et[0] == "tuple" and len(et[1]) == 2 and is_ord(et[1][0]):
        third += ["dict", "dict"]
    kinds = ["list", "list", r.choice(third)]
    ops = []
    # the keyed register first (see the class comment), then the lists
    if kinds[2] != "list":
        ops.append(("dnew" if kinds[2] == "dict" else "snew", 2))
    else:
        ops.append(("new", 2, []))
    ops.append(("new", 0, [g() for _ in range(r.choice([0, 1, 2, 3, 4]))]))
    ops.append(("new", 1, [g() for _ in range(r.choice([0, 0, 1, 2]))]))
    lists = [i for i, k in enumerate(kinds) if k == "list"]

    def mutation(reg):
        k = r.choice(["push", "push", "prepend", "pop", "set", "set"])
        if k in ("push", "prepend"):
            return ("on", reg, (k, g()))
        if k == "pop":
            return ("on", reg, ("pop",))
        return ("on", reg, ("set", r.choice([0, 0, 1, 2, 5, -1]), g()))

    def observation(reg):
        ks = ["get", "len"] + ([] if preamble_only else ["last", "contains"])
        k = r.choice(ks)
        if k == "get":
            return ("on", reg, ("get", r.choice([0, 1, 2, 5])))
        if k == "contains":
            return ("on", reg, ("contains", g()))
        return ("on", reg, (k,))

    while len(ops) < nops + 3:
        x = r.random()
        if x < 0.30:
            dst, src = r.sample(lists, 2) if len(lists) > 1 else (lists[0], lists[0])
            y = r.random()
            if y < 0.55:
                ps = ["all", "all", "all", "none", "eqk", "nek"] + (["ltk"] if is_ord(et) else [])
                ops.append(("filter", dst, src, r.choice(ps), g()))
            elif y < 0.8 or not is_add(et) or nested:
                ops.append(("map", dst, src, "id"))
            else:
                neutral = {"int": 0, "str": ""}.get(et[0])
                k = neutral if (neutral is not None and r.random() < 0.5) else g()
                ops.append(("map", dst, src, "addk", k))
            # the point of the exercise: now mutate the source and the result, and look at both
            for _ in range(r.randint(1, 3)):
                ops.append(mutation(r.choice([dst, src])))
        elif x < 0.40 and kinds[2] != "list":
            ops.append(("dictfrom" if kinds[2] == "dict" else "setfrom", 2, r.choice([0, 1])))
            ops.append(mutation(r.choice([0, 1])))
        elif x < 0.55 and kinds[2] != "list":
            if kinds[2] == "dict":
                kk = r.choice(pool)[0]
                kop = r.choice([("update", kk, r.choice(pool)[1]), ("remove", kk), ("get", kk), ("len",)] +
                               ([] if preamble_only else [("has", kk)]))
            else:
                kk = r.choice(pool)
                kop = r.choice([("add", kk), ("remove", kk), ("has", kk), ("len",)])
            ops.append(("kon", 2, kop))
        elif x < 0.62 and nested:
            ops.append(("innerpush", r.choice(lists), r.choice([0, 1, 2]), r.choice([0, 1, 7])))
        elif x < 0.85:
            ops.append(mutation(r.choice(lists)))
        else:
            ops.append(observation(r.choice(lists)))
    return AliasHistory(et, kinds, ops)


# ------------------------------------------------------------------------------------------------
# containers created inside functions: every evaluation of a literal is a NEW container

ACT_DECLS = "ActBox :: blob {\n    items: [int],\n    n: int,\n}\n"


class _ActSpec:
    """one container literal as written in a function body, its access path, and its Python twin"""

    def __init__(self, r, allow_str=True, lists_only=False):
        self.kind = r.choice(["list"] * 6 + ([] if lists_only else ["dict", "set"]))
        self.et = r.choice([INT, INT, STR]) if (allow_str and self.kind != "dict") else INT
        pool = [1, 2, 3, 7] if self.et == INT else ["a", "b", "c", "q"]
        self.init = [r.choice(pool) for _ in range(r.choice([0, 0, 0, 1, 2, 3]))]
        ws = ["bare", "tup0", "tup0", "tup1", "tup1", "nest"]
        if self.kind == "list" and self.et == INT:
            ws.append("blob")
        self.wrap = r.choice(ws)
        self.bind = r.choice(["::", ":="])
        self.pool = pool

    def container_lit(self):
        et = self.et
        if self.kind == "list":
            return sy(list(self.init), LIST(et))
        if self.kind == "dict":
            return "dict.from_list(%s)" % sy([(k, k) for k in self.init], LIST(TUP(et, et))) if self.init else "dict.new()"
        return "set.from_list(%s)" % sy(list(self.init), LIST(et)) if self.init else "set.new()"

    def literal(self):
        c = self.container_lit()
        return {"bare": c, "tup0": "(%s, 0)" % c, "tup1": "(1, %s)" % c, "nest": "((%s, \"x\"), 2)" % c,
                "blob": "ActBox { items: %s, n: 0 }" % c}[self.wrap]

    def path(self, v):
        return {"bare": v, "tup0": v + "[0]", "tup1": v + "[1]", "nest": v + "[0][0]", "blob": v + ".items"}[self.wrap]

    def uses_blob(self):
        return self.wrap == "blob"

    def arg_type(self):
        return sy_type(self.et)

    def fresh(self):
        if self.kind == "list":
            return list(self.init)
        if self.kind == "dict":
            return {k: k for k in self.init}
        return set(self.init)

    def mutate_src(self, path, x_expr):
        if self.kind == "list":
            return "list.push(%s, %s)" % (path, x_expr)
        if self.kind == "dict":
            return "dict.update(%s, %s, %s)" % (path, x_expr, x_expr)
        return "set.add(%s, %s)" % (path, x_expr)

    def mutate(self, c, x):
        if self.kind == "list":
            c.append(x)
        elif self.kind == "dict":
            c[x] = x
        else:
            c.add(x)

    def len_src(self, path):
        return "%s.len(%s)" % (self.kind, path)

    def value(self, r):
        return r.choice(self.pool)

    def show_obs(self, c):
        """lines printed by obs_src"""
        return [str(len(c))] + ([show(c, LIST(self.et))] if self.kind == "list" else [])

    def obs_src(self, path, indent="    "):
        L = [indent + "print(%s)" % self.len_src(path)]
        if self.kind == "list":
            L.append(indent + "print(%s)" % path)
        return L


def _act_twice(r, u):
    sp = _ActSpec(r)
    f = "f%d" % u
    defs = ["%s :: fn x: %s -> int do" % (f, sp.arg_type()), "    c %s %s" % (sp.bind, sp.literal()),
            "    " + sp.mutate_src(sp.path("c"), "x"), "    " + sp.len_src(sp.path("c")), "end"]
    body, exp = [], []
    for _ in range(r.choice([2, 3])):
        x = sp.value(r)
        body.append("    print(%s(%s))" % (f, sy(x, sp.et)))
        c = sp.fresh()
        sp.mutate(c, x)
        exp.append(str(len(c)))
    return defs, body, exp, sp


def _act_returned(r, u):
    sp = _ActSpec(r)
    sp.wrap = r.choice(["bare", "tup0", "tup1"])
    g = "g%d" % u
    defs = ["%s :: fn x: %s do" % (g, sp.arg_type())]      # return type inferred
    defs = ["%s :: fn x: %s ->" % (g, sp.arg_type()), "    c %s %s" % (sp.bind, sp.literal()),
            "    " + sp.mutate_src(sp.path("c"), "x"), "    c", "end"]
    x1, x2, y = sp.value(r), sp.value(r), sp.value(r)
    a, b = "a%d" % u, "b%d" % u
    body = ["    %s := %s(%s)" % (a, g, sy(x1, sp.et)), "    %s := %s(%s)" % (b, g, sy(x2, sp.et)),
            "    " + sp.mutate_src(sp.path(a), sy(y, sp.et))]
    body += sp.obs_src(sp.path(a)) + sp.obs_src(sp.path(b))
    ca, cb = sp.fresh(), sp.fresh()
    sp.mutate(ca, x1)
    sp.mutate(cb, x2)
    sp.mutate(ca, y)
    return defs, body, sp.show_obs(ca) + sp.show_obs(cb), sp


def _act_recursive(r, u):
    sp = _ActSpec(r, allow_str=False)
    f = "rec%d" % u
    defs = ["%s :: fn n: int do" % f, "    acc %s %s" % (sp.bind, sp.literal()), "    " + sp.mutate_src(sp.path("acc"), "n"),
            "    if n > 0 do", "        %s(n - 1)" % f, "    end"] + sp.obs_src(sp.path("acc")) + ["end"]
    depth = r.choice([1, 2, 3])
    exp = []
    for n in range(0, depth + 1):               # the deepest level reports first
        c = sp.fresh()
        sp.mutate(c, n)
        exp += sp.show_obs(c)
    return defs, ["    %s(%d)" % (f, depth)], exp, sp


def _act_closure(r, u):
    sp = _ActSpec(r, allow_str=False)
    mk = "mk%d" % u
    defs = ["%s :: fn -> fn int -> int do" % mk, "    state %s %s" % (sp.bind, sp.literal()), "    fn x: int -> int do",
            "        " + sp.mutate_src(sp.path("state"), "x"), "        " + sp.len_src(sp.path("state")), "    end", "end"]
    k1, k2 = "k%da" % u, "k%db" % u
    body = ["    %s := %s()" % (k1, mk), "    %s := %s()" % (k2, mk)]
    c1, c2 = sp.fresh(), sp.fresh()
    exp = []
    for _ in range(r.choice([3, 4, 5])):
        which = r.random() < 0.5
        x = sp.value(r)
        body.append("    print(%s(%s))" % (k1 if which else k2, sy(x, INT)))
        c = c1 if which else c2
        sp.mutate(c, x)
        exp.append(str(len(c)))
    return defs, body, exp, sp


def _act_loop(r, u):
    sp = _ActSpec(r, allow_str=False)
    f = "lf%d" % u
    i = "i%d" % u
    defs = ["%s :: fn x: int -> int do" % f, "    c %s %s" % (sp.bind, sp.literal()),
            "    " + sp.mutate_src(sp.path("c"), "x"), "    " + sp.len_src(sp.path("c")), "end"]
    sp2 = _ActSpec(r, allow_str=False)
    n = r.choice([2, 3])
    body = ["    %s := 0" % i, "    loop %s < %d do" % (i, n), "        print(%s(%s))" % (f, i),
            "        w%d %s %s" % (u, sp2.bind, sp2.literal()), "        " + sp2.mutate_src(sp2.path("w%d" % u), i)]
    body += sp2.obs_src(sp2.path("w%d" % u), indent="        ") + ["        %s = %s + 1" % (i, i), "    end"]
    exp = []
    for k in range(n):
        c = sp.fresh()
        sp.mutate(c, k)
        exp.append(str(len(c)))
        c2 = sp2.fresh()
        sp2.mutate(c2, k)
        exp += sp2.show_obs(c2)
    sp.blob2 = sp2.uses_blob()
    return defs, body, exp, sp


def _act_default_acc(r, u):
    sp = _ActSpec(r, allow_str=False, lists_only=True)
    sp.wrap = "bare"
    go, wrap = "go%d" % u, "wrap%d" % u
    defs = ["%s :: fn n: int, acc: [int] -> [int] do" % go, "    list.push(acc, n)", "    if n > 0 do",
            "        ret %s(n - 1, acc)" % go, "    end", "    acc", "end",
            "%s :: fn n: int -> [int] do" % wrap, "    %s(n, %s)" % (go, sp.literal()), "end"]
    body, exp = [], []
    for _ in range(2):
        n = r.choice([0, 1, 2])
        body.append("    print(%s(%d))" % (wrap, n))
        exp.append(show(list(sp.init) + list(range(n, -1, -1)), LIST(INT)))
    return defs, body, exp, sp


_ACT_TEMPLATES = [_act_twice, _act_returned, _act_recursive, _act_recursive, _act_closure, _act_closure, _act_loop, _act_default_acc]


def activation_programs(r, n):
    """n std-bundled Sylt programs in which containers are created INSIDE functions from literals (lists, dicts,
    sets; bare, inside tuples, nested tuples and blobs; `::` and `:=`) and the function is called twice, is
    recursive, is a closure factory called twice, is called in a loop, or passes the literal as an accumulator.
    Returns (source, expected printed lines); the expectation is the obvious one: a fresh container per
    evaluation of the literal."""
    out = []
    for _ in range(n):
        defs, body, exp, blob = [], [], [], False
        for u in range(r.choice([1, 2, 2, 3])):
            d, b, e, sp = r.choice(_ACT_TEMPLATES)(r, u)
            defs += d
            body += b
            exp += e
            blob = blob or sp.uses_blob() or getattr(sp, "blob2", False)
        src = "from maybe use (Maybe)\n" + (ACT_DECLS if blob else "") + "\n".join(defs) + "\nstart :: fn do\n" + "\n".join(body) + "\nend\n"
        out.append((src, exp))
    return out


def check_activation_programs(ctx, n, salt="activation"):
    """compile the programs with the real compiler, run them, and return the failing (source, expected, actual)"""
    r = _vlib().rng(ctx.seed, salt)
    progs = activation_programs(r, n)
    runs = compile_run([p for p, _ in progs])
    bad = []
    for (src, exp), run in zip(progs, runs):
        got = run["trace"] if run["status"] == "OK" else ["<rejected by the compiler: %s>" % run["status"][:160]]
        if run["status"] != "OK" or run["final"] != "done" or got != exp:
            if run["status"] == "OK" and run["final"] != "done":
                got = got + ["<%s %s>" % (run["final"], run["msg"])]
            bad.append((src, exp, got))
    bad.sort(key=lambda t: len(t[0]))
    return bad


# ------------------------------------------------------------------------------------------------
# Sylt programs

def sylt_program(body_lines, use_decls=False):
    head = "from maybe use (Maybe)\n" + (DECLS if use_decls else "")
    return head + "start :: fn do\n" + "\n".join(body_lines) + "\nend\n"


# ------------------------------------------------------------------------------------------------
# runners shared by tools/props/c18.py and c19.py

def _vlib():
    import vlib
    return vlib


def preamble_text():
    vlib = _vlib()
    import os
    return open(os.path.join(vlib.REPO, "sylt-compiler", "src", "preamble.lua"), encoding="utf-8").read()


def build_model():
    """(ok, exe, log): the extracted Runtime model + driver"""
    vlib = _vlib()
    ok, out = vlib.coq_make(["Sem/Runtime.vo"])
    if not ok:
        return False, None, out
    return vlib.build_ocaml("runtime", "ExtractRuntime.v", "runtime_driver.ml", "runtimemodel")


def model_lines(exe, case_lines):
    return _vlib().model(exe, [], case_lines)


def _txt(h):
    return _vlib().unhex(h).decode("utf-8", "replace")


def decode_model(m):
    """R lines -> ("R", text | "ERR" | "UNSUP");  H lines -> ("H", [printed lines...], None | "ERR" | "UNSUP")"""
    f = m.split(" ")
    if f[0] == "R":
        if f[1].startswith("OK:"):
            return ("R", _txt(f[1][3:]))
        return ("R", f[1])
    if f[0] == "H":
        lines, tail = [], None
        for it in f[1:]:
            if it in ("ERR", "UNSUP"):
                tail = it
            else:
                lines.extend(_txt(x) for x in it.split("/"))
        return ("H", lines, tail)
    return ("BAD", m)


def utf8_trace(r):
    return [l.encode("latin-1").decode("utf-8", "replace") for l in r["trace"]]


def run_lua_bodies(bodies, fuel=4000000):
    """run preamble.lua + body for every body; returns dict(final, msg, trace[utf-8 text])"""
    import lua_run
    pre = preamble_text()
    out = []
    for r in lua_run.run_lua([pre + "\n" + b for b in bodies], fuel=fuel):
        out.append({"final": r["final"], "msg": r["msg"], "trace": utf8_trace(r)})
    return out


def run_op_cases_lua(cases, model, batch=25):
    """the printed line of every operator case on the real preamble ("ERR" for a Lua error, "UNSUP" when
    LuaCore reports unsupported).  Cases whose model outcome is UNSUP run alone (they may stop the chunk)."""
    res = [None] * len(cases)
    groups, cur = [], []
    for i, c in enumerate(cases):
        if model[i][1] == "UNSUP":
            groups.append([i])
        else:
            cur.append(i)
            if len(cur) == batch:
                groups.append(cur)
                cur = []
    if cur:
        groups.append(cur)
    outs = run_lua_bodies(["\n".join(cases[i].lua_stmt() for i in g) for g in groups])
    redo = []
    for g, o in zip(groups, outs):
        if o["final"] == "done" and len(o["trace"]) == len(g):
            for i, l in zip(g, o["trace"]):
                res[i] = l
        elif len(g) == 1:
            res[g[0]] = "UNSUP" if o["final"] == "unsupported" else "FINAL:%s %s %r" % (o["final"], o["msg"], o["trace"])
        else:
            redo.extend(g)
    if redo:
        outs = run_lua_bodies([cases[i].lua_stmt() for i in redo])
        for i, o in zip(redo, outs):
            if o["final"] == "done" and len(o["trace"]) == 1:
                res[i] = o["trace"][0]
            else:
                res[i] = "UNSUP" if o["final"] == "unsupported" else "FINAL:%s %s %r" % (o["final"], o["msg"], o["trace"])
    return res


def compile_run(sources, fuel=6000000):
    """compile Sylt programs (std bundled) with the real compiler and run the emitted Lua.
    Returns dict(status = "OK" | the harness line, final, msg, trace)."""
    vlib = _vlib()
    import lua_run
    cases = ["std\t/main.sy\t/main.sy=%s" % vlib.hexs(s) for s in sources]
    outs = vlib.harness("compile", cases, timeout_s=30)
    luas = [vlib.unhex(o.split(" ")[1]) if o.startswith("OK ") else None for o in outs]
    runs = iter(lua_run.run_lua([l for l in luas if l is not None], fuel=fuel))
    res = []
    for o, l in zip(outs, luas):
        if l is None:
            res.append({"status": o[:300], "final": "not-compiled", "msg": "", "trace": []})
        else:
            r = next(runs)
            res.append({"status": "OK", "final": r["final"], "msg": r["msg"], "trace": utf8_trace(r)})
    return res


def op_program(cases):
    """a Sylt program printing one line per operator case; operands are annotated locals"""
    lines = []
    for j, c in enumerate(cases):
        names = []
        for k, (v, t) in enumerate(c.args):
            nm = "v%d_%d" % (j, k)
            lines.append("    %s: %s = %s" % (nm, sy_type(t), sy(v, t, c.blob_order if k == 1 else None)))
            names.append(nm)
        if c.kind == "case":
            lines += ["    case %s do" % names[0], "        Just x -> print(x %s %s) end" % (SY_OPS[c.name], names[1]),
                      "        None -> print(\"none\") end", "    end"]
            continue
        if c.kind == "op2":
            e = "%s %s %s" % (names[0], SY_OPS[c.name], names[1])
        elif c.kind == "op1":
            e = ("-" + names[0]) if c.name == "neg" else names[0]
        else:
            e = "%s(%s)" % (c.name, ", ".join(names))
        lines.append("    print(%s)" % e)
    return sylt_program(lines, use_decls=any(uses_decls(t) for c in cases for _, t in c.args))


def uses_decls(t):
    if t[0] in ("blob", "enum"):
        return True
    if t[0] == "tuple":
        return any(uses_decls(x) for x in t[1])
    if t[0] in ("list", "maybe"):
        return uses_decls(t[1])
    return False


def writable(c):
    """can the case be written as Sylt source and does the plain model define its result?"""
    try:
        c.expected()
        for v, t in c.args:
            sy(v, t)
        return True
    except (Undefined, ValueError):
        return False
