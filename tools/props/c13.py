"""C13 -- operators parse with the documented precedence and associativity."""
import os
import re
import sys
sys.setrecursionlimit(max(sys.getrecursionlimit(), 40000))      # chains of 400 operands nest 400 levels deep in every tree walker

sys.path.insert(0, os.path.dirname(os.path.dirname(os.path.abspath(__file__))))
import sylt_gen as G  # noqa: E402
import vlib  # noqa: E402

GEN = ["GenTokens", "GenPrec", "GenSrcDigest"]
TRUSTED = [
    "Coq 8.16.1 kernel (coqc); vm_compute for C13_table_ok / C13_tokens_known / the examples; no axioms "
    "(Print Assumptions: Closed under the global context)",
    "translator tools/gens/gen_prec.py (parser.rs Prec enum order + derive(Next); expression.rs precedence(), "
    "unary(), valid_infix(), infix() -> Gen/GenPrec.v) and tools/gen_tables.py:gen_tokens",
    "Parse/Parser.v as the model of sylt-parser's control flow (hand-written, definitions only): modelled, not "
    "verified; validated on every run by the differential tie against the real parser (tree, accept/reject and "
    "number of tokens consumed)",
    "Lex/Logos.v (token stream the model parser runs on in the tie), validated by C17",
    "extraction: ExtrOcamlBasic + ExtrOcamlString only; ocaml/parse_driver.ml (UTF-8 decoding, printing)",
    "harness/src/sexp.rs (prints the public tree of sylt_parser::expression::expression and Context.curr)",
]
ASSUMPTIONS = [
    "the theorems speak about token lists; that the printed text lexes to those tokens is checked by the tie "
    "(text through the real tokenizer and through Lex/Logos.v), not proved",
    "operand kinds in the theorem: int literals and identifier-rooted chains of .field / [const] / (args) with "
    "lower-case identifiers; other operand kinds (strings, floats, bools, nil, lists, calls on results) only in the tie",
    "float payloads are compared numerically",
]
EXPLANATION = ("Theorem (all trees, all depths): for any operator table accepted by the decidable check prec_table_ok "
               "-- and the table regenerated from expression.rs/parser.rs on this run is accepted, by vm_compute -- the "
               "model parser maps the minimally and the fully parenthesised token strings of every operator tree to "
               "that tree (modulo Parenthesis nodes), consuming exactly the printed tokens.  Tie: extracted model vs "
               "real parser on exhaustive/sampled operator trees printed both ways.  Oracle for the search: real "
               "parser on print_min(e) vs print_full(e) vs the expected tree, printed independently in Python.")

_model = {}


def build(ctx):
    ok, out = vlib.coq_make(["Parse/Entry.vo"])      # the extraction's own dependencies
    if not ok:
        return False, out
    ok, exe, out = vlib.build_ocaml("parse", "ExtractParse.v", "parse_driver.ml", "parsemodel")
    _model["exe"] = exe
    return ok, out


# ------------------------------------------------------------------------------------------------
# input families

def gen_trees(ctx):
    """list of (class, tree)"""
    r = vlib.rng(ctx.seed, "c13")
    out = []
    quick = ctx.tier == "quick"
    sh2 = G.shapes(2)
    rot = 0
    for s in sh2:
        for k in range(2 if quick else 5):
            out.append(("exh2", G.fill(s, G.atom_cycle(rot))))
            rot += 1
    # depth 3: for every (outer operator, inner operator, side) a few random completions
    n3 = 2 if quick else 40
    ops = [("bin", b) for b in G.BINOPS] + [("un", u) for u in G.UNOPS]
    for (ko, o) in ops:
        for (ki, i) in ops:
            for side in ((0, 1) if ko == "bin" else (0,)):
                for _ in range(n3):
                    def sub(d):
                        return G.random_tree(r, d)
                    inner = ("bin", i, sub(1), sub(1)) if ki == "bin" else ("un", i, sub(1))
                    if ko == "un":
                        t = ("un", o, inner)
                    elif side == 0:
                        t = ("bin", o, inner, sub(2))
                    else:
                        t = ("bin", o, sub(2), inner)
                    out.append(("pair3", t))
    nrand = 1500 if quick else 60000
    for _ in range(nrand):
        out.append(("rand8", G.random_tree(r, r.randint(1, 8), rich=True)))
    # long chains: n operands joined by ONE operator (or by operators of one level), written without parentheses --
    # the grouping must not depend on the length of the chain (a parser that rebalances or special-cases long chains)
    lens = [3, 5, 8, 12, 15, 16, 17, 24, 31, 32, 33, 48, 64, 100] if quick else list(range(3, 70)) + [100, 128, 129, 200, 400]
    for b in G.BINOPS:
        for n in lens:
            t = G.random_tree(r, 0)
            for _ in range(n - 1):
                t = ("bin", b, t, G.random_tree(r, 0))
            out.append(("chain", t))
            if n in (16, 17, 33, 64):
                # the chain as an operand of other operators, and with one foreign operator inside
                other = r.choice(G.BINOPS)
                out.append(("chain", ("bin", other, G.random_tree(r, 0), t)))
                out.append(("chain", ("bin", other, t, G.random_tree(r, 1))))
                out.append(("chain", ("un", r.choice(G.UNOPS), t)))
    return out


def texts_of(trees):
    """two source texts per tree"""
    cases = []
    for cls, t in trees:
        cases.append((cls, "min", t, G.print_min(t)))
        cases.append((cls, "full", t, G.print_full(t)))
    return cases


def norm(line):
    """whole line: `OK consumed/total tree` or `ERR consumed/total line:col:col ...` (floats numerically)"""
    return G.norm_floats(line)


def run_real(srcs):
    return vlib.harness("expr", [vlib.hexs(s) for s in srcs])


def run_model(srcs):
    return vlib.model(_model["exe"], ["expr"], [vlib.hexs(s) for s in srcs])


def corpus_sources():
    import glob
    import os
    out = []
    for f in sorted(glob.glob(os.path.join(vlib.VERIF, "corpus", "c13", "*.txt"))):
        for l in open(f, encoding="utf-8"):
            l = l.rstrip("\n")
            if l and not l.startswith("#"):
                out.append(l.encode().decode("unicode_escape"))
    return out


def tie(ctx):
    trees = gen_trees(ctx)
    cases = texts_of(trees)
    srcs = corpus_sources() + [c[3] for c in cases]
    # a trailing newline / trailing tokens must not matter to the expression parser's result
    r = vlib.rng(ctx.seed, "c13-trail")
    extra = [s + r.choice(["\n", "\n x", " // c", " , y", " )", " do", " end"]) for s in r.sample(srcs, min(len(srcs), 2000))]
    srcs = srcs + extra
    real = run_real(srcs)
    mod = run_model(srcs)
    n0 = len(corpus_sources())
    ctx.c13 = {"trees": [t for _, t in trees], "real": real[n0:n0 + len(cases)]}
    mism = []
    dist = {"corpus": len(corpus_sources()), "trailing_variants": len(extra)}
    nontrivial = set()
    depth_hist = {}
    for cls, how, t, s in cases:
        dist[cls + "/" + how] = dist.get(cls + "/" + how, 0) + 1
        d = G.tree_depth(t)
        depth_hist[d] = depth_hist.get(d, 0) + 1
    for s, a, b in zip(srcs, real, mod):
        if norm(a) != norm(b):
            if len(mism) < 10:
                mism.append({"source": s, "real": a, "model": b})
        if a.startswith("OK") and a.count("(") >= 3:
            nontrivial.add(s)
    dist["depth_histogram"] = {str(k): v for k, v in sorted(depth_hist.items())}
    dist["real_accepts"] = sum(1 for a in real if a.startswith("OK"))
    dist["real_rejects"] = sum(1 for a in real if a.startswith("ERR"))
    dist["other_outcomes"] = sum(1 for a in real if not a.startswith(("OK", "ERR")))
    ops_seen = {}
    for cls, how, t, s in cases[::2]:
        def walk(x):
            if x[0] == "bin":
                ops_seen[x[1]] = ops_seen.get(x[1], 0) + 1
                walk(x[2])
                walk(x[3])
            elif x[0] == "un":
                ops_seen["u" + x[1]] = ops_seen.get("u" + x[1], 0) + 1
                walk(x[2])
            elif x[0] == "paren":
                walk(x[1])
        walk(t)
    dist["operator_occurrences"] = ops_seen
    samples = [{"source": srcs[i], "real": real[i]} for i in (len(srcs) // 7, len(srcs) // 2, len(srcs) - 1)]
    return {"name": "expr", "ok": not mism, "mismatches": mism, "evaluations": len(srcs),
            "distinct_nontrivial": len(nontrivial),
            "rule": "operator trees: every shape of depth <= 2 over 13 binary + 2 unary operators (x %d atom rotations "
                    "over ident/int/call/index/field), every (outer, inner, side) operator pair completed randomly to "
                    "depth 3, random trees to depth 8 with 12 operand kinds and nested call arguments; each printed "
                    "minimally and fully parenthesised; plus trailing-token variants and corpus/c13; real "
                    "sylt_parser::expression::expression vs extracted model, whole output line (tree, tokens consumed); "
                    "non-trivial = accepted with at least three nodes; distinct by source text"
                    % (2 if ctx.tier == "quick" else 5),
            "samples": samples, "distribution": dist}


# ------------------------------------------------------------------------------------------------
# the property's own oracle, on the real implementation only

def oracle_check(tree, line_min, line_full):
    """None if the property holds for this tree given the real parser's two output lines"""
    want = G.expected_sexp(tree)
    res = []
    for how, line in (("min", line_min), ("full", line_full)):
        m = re.match(r"OK (\d+)/(\d+) (.*)$", line)
        if not m:
            return "%s-parenthesised text is not accepted: %s" % (how, line[:120])
        if m.group(1) != m.group(2):
            return "%s-parenthesised text: parser stopped after %s of %s tokens" % (how, m.group(1), m.group(2))
        try:
            res.append(G.norm_floats(G.strip_paren_text(m.group(3))))
        except Exception as e:  # malformed output
            return "cannot read tree: %s" % e
    if res[0] != res[1]:
        return "minimal and full parenthesisation parse to different trees: %s vs %s" % (res[0], res[1])
    if res[0] != G.norm_floats(want):
        return "both forms parse to %s, the documented table gives %s" % (res[0], want)
    return None


def always(ctx):
    """the property's oracle on the real parser's outputs for every tree of the tie (no model involved)"""
    d = getattr(ctx, "c13", None)
    if not d:
        return {}
    bad = 0
    first = None
    for i, t in enumerate(d["trees"]):
        why = oracle_check(t, d["real"][2 * i], d["real"][2 * i + 1])
        if why:
            bad += 1
            first = first or {"source_min": G.print_min(t), "what": why}
    if bad:
        ctx.brk("oracle:min-vs-full", "%d trees; first: %s" % (bad, first))
    return {"oracle_evaluations": len(d["trees"]), "oracle_failures": bad}


def failing(trees, parse=None):
    """[(tree, why)] for the trees on which the real parser violates the property"""
    parse = parse or run_real
    srcs = []
    for t in trees:
        srcs.append(G.print_min(t))
        srcs.append(G.print_full(t))
    out = parse(srcs)
    bad = []
    for i, t in enumerate(trees):
        why = oracle_check(t, out[2 * i], out[2 * i + 1])
        if why:
            bad.append((t, why))
    # layouts with a line break before / after every binary operator outside brackets: the language need not accept
    # them as ONE expression (the parser may stop at the line break), but when it consumes the whole text the
    # grouping must be the documented one
    lay = []
    for t in trees:
        lay.append(G.print_min_breaks(t, after=False))
        lay.append(G.print_min_breaks(t, after=True))
    lout = parse(lay)
    seen = set(id(t) for t, _ in bad)
    for i, t in enumerate(trees):
        if id(t) in seen:
            continue
        for j, how in ((0, "line break before every operator"), (1, "line break after every operator")):
            m = re.match(r"OK (\d+)/(\d+) (.*)$", lout[2 * i + j])
            if not m or m.group(1) != m.group(2):
                continue
            try:
                got = G.norm_floats(G.strip_paren_text(m.group(3)))
            except Exception:
                continue
            if got != G.norm_floats(G.expected_sexp(t)):
                bad.append((t, "%s: the whole text is accepted as one expression but parses to %s, the documented table gives %s"
                            % (how, got, G.expected_sexp(t))))
                break
    return bad


def shrink(tree, parse=None):
    cur = tree
    for _ in range(200):
        cands = G.subtrees_for_shrinking(cur)
        if not cands:
            break
        bad = failing(cands, parse)
        if not bad:
            break
        bad.sort(key=lambda x: G.tree_size(x[0]))
        if G.tree_size(bad[0][0]) >= G.tree_size(cur):
            break
        cur = bad[0][0]
    return cur


def search(ctx, parse=None):
    trees = [t for _, t in gen_trees(ctx)]
    bad = failing(trees, parse)
    if not bad:
        return None
    bad.sort(key=lambda x: G.tree_size(x[0]))
    small = shrink(bad[0][0], parse)
    why = failing([small], parse)
    why = why[0][1] if why else bad[0][1]
    smin, sfull = G.print_min(small), G.print_full(small)
    out = (parse or run_real)([smin, sfull])
    if "line break" in why:
        smin = G.print_min_breaks(small, after="after every" in why)
        out = (parse or run_real)([smin, sfull])
    return {"tree": repr(small), "source_min": smin, "source_full": sfull, "what": why,
            "expected_tree": G.expected_sexp(small), "real_min": out[0], "real_full": out[1],
            "replay_cmd": "printf '%%s\\n%%s\\n' %s %s > /tmp/c && %s expr /tmp/c"
                          % (vlib.hexs(smin), vlib.hexs(sfull), vlib.HARNESS_BIN),
            "failing_inputs_found": len(bad)}


def replay_known(ctx, kf):
    return False


def replay(ctx, rep):
    fi = rep.get("failing_input") or {}
    if not fi:
        print("nothing to replay: no failing input in this file")
        return 0
    vlib.build_harness()
    out = run_real([fi["source_min"], fi["source_full"]])
    print("min :", fi["source_min"], "->", out[0])
    print("full:", fi["source_full"], "->", out[1])
    a = G.strip_paren_text(out[0].split(" ", 2)[2]) if out[0].startswith("OK") else out[0]
    b = G.strip_paren_text(out[1].split(" ", 2)[2]) if out[1].startswith("OK") else out[1]
    bad = a != b or a != fi.get("expected_tree", a)
    m = re.match(r"OK (\d+)/(\d+) ", out[0])
    if "\n" in fi["source_min"] and m and m.group(1) != m.group(2):
        bad = False      # the line-break layout is not accepted as one expression: nothing is claimed about it
    print("replay:", "property violated" if bad else "property holds")
    return 1 if bad else 0


# ------------------------------------------------------------------------------------------------
# self test of the oracle: a fake "real parser" with a changed table must be caught

def fake_parser(prec, unary_level=6, right_assoc=()):
    """precedence-climbing parser over the texts this module prints; returns a run_real replacement"""
    tok_re = re.compile(r'"[^"]*"|\d+\.\d+|[A-Za-z_][A-Za-z0-9_]*|\d+|<=>|==|!=|>=|<=|[-+*/<>()\[\],.]')

    def parse(src):
        toks = tok_re.findall(src)
        pos = [0]

        def peek():
            return toks[pos[0]] if pos[0] < len(toks) else None

        def eat():
            pos[0] += 1
            return toks[pos[0] - 1]

        def postfix(a):
            while peek() in ("(", "[", "."):
                t = eat()
                if t == "(":
                    args = []
                    while peek() != ")":
                        args.append(expr(0))
                        if peek() == ",":
                            eat()
                    eat()
                    a = "(call %s%s)" % (a, "".join(" " + x for x in args))
                elif t == "[":
                    a = "(index %s (int %s))" % (a, eat())
                    eat()
                else:
                    a = "(access %s %s)" % (a, eat())
            return a

        def prefix():
            t = eat()
            if t == "(":
                e = expr(0)
                eat()
                return "(paren %s)" % e
            if t == "[":
                es = []
                while peek() != "]":
                    es.append(expr(0))
                    if peek() == ",":
                        eat()
                eat()
                return "(list%s)" % "".join(" " + x for x in es)
            if t in ("-", "not"):
                return "(%s %s)" % (G.UN_SEXP[t], expr(unary_level))
            if t in ("true", "false"):
                return "(bool %s)" % t
            if t == "nil":
                return "(nil)"
            if t[0] == '"':
                return "(str %s)" % (t[1:-1].encode().hex() or "-")
            if re.fullmatch(r"\d+\.\d+", t):
                return "(float %s)" % t
            if t.isdigit():
                return "(int %d)" % int(t)
            return "(get %s)" % postfix("(read %s)" % t)

        def expr(p):
            lhs = prefix()
            while peek() in prec and prec[peek()] >= p:
                op = eat()
                rhs = expr(prec[op] if op in right_assoc else prec[op] + 1)
                lhs = "(%s %s %s)" % (G.BIN_SEXP[op], lhs, rhs)
            return lhs
        try:
            e = expr(0)
            return "OK %d/%d %s" % (pos[0], len(toks), e)
        except Exception:
            return "ERR 0/0"
    return lambda srcs: [parse(s) for s in srcs]


def selftest():
    class Ctx:
        tier = "quick"
        seed = 1
    good = dict(G.DOC_RANK)
    assert search(Ctx, fake_parser(good)) is None, "oracle rejects a parser that follows the documented table"
    muts = {
        "star_at_term": dict(good, **{"*": 5, "/": 5}),
        "and_or_swapped": dict(good, **{"and": 2, "or": 3}),
        "cmp_above_term": dict(good, **{"<": 6}),
    }
    for name, tab in muts.items():
        f = search(Ctx, fake_parser(tab))
        assert f is not None, "mutation %s not detected" % name
        print("selftest %-16s -> caught on %r: %s" % (name, f["source_min"], f["what"][:90]))
    f = search(Ctx, fake_parser(good, right_assoc=("-",)))
    assert f is not None, "right-associative '-' not detected"
    print("selftest %-16s -> caught on %r: %s" % ("minus_right_assoc", f["source_min"], f["what"][:90]))
    f = search(Ctx, fake_parser(good, unary_level=4))
    assert f is not None, "unary below comparison not detected"
    print("selftest %-16s -> caught on %r: %s" % ("unary_at_comp", f["source_min"], f["what"][:90]))
    print("selftest ok")


if __name__ == "__main__":
    if "--selftest" in sys.argv:
        selftest()
