From Coq Require Import String Ascii List NArith ZArith QArith Bool Lia.
From Sylt Require Import Lua.LuaAst Lua.LuaLex Lua.LuaParse Lua.LuaMap Lua.LuaNum Lua.LuaCore.
Import ListNotations.

Definition res_state {A : Type} (r : res A) : state :=
  match r with ROk _ s => s | RErr _ s => s | RFuel s => s | RUnsup _ s => s end.

Definition st_le (a b : state) : Prop :=
  (s_ncell a <= s_ncell b)%positive /\ (s_ntab a <= s_ntab b)%positive /\ (s_nclo a <= s_nclo b)%positive.

Lemma st_le_refl : forall a, st_le a a.
Proof. intros; unfold st_le; lia. Qed.
Lemma st_le_trans : forall a b c, st_le a b -> st_le b c -> st_le a c.
Proof. unfold st_le; intros; lia. Qed.

Lemma bind_le : forall (A B : Type) s0 (r : res A) (f : A -> state -> res B),
  st_le s0 (res_state r) ->
  (forall a s1, st_le s0 s1 -> st_le s0 (res_state (f a s1))) ->
  st_le s0 (res_state (bind r f)).
Proof. intros A B s0 r f H Hf. destruct r; cbn [bind res_state] in *; auto. Qed.

Ltac le_now :=
  unfold st_le, raw_set_in, set_cell, alloc_cell, put_table, alloc_table, alloc_closure, emit_line in *;
  cbn [s_ncell s_ntab s_nclo fst snd] in *; lia.

Lemma set_cell_le : forall s0 st c v, st_le s0 st -> st_le s0 (set_cell st c v).
Proof. intros. unfold st_le, set_cell in *. cbn [s_ncell s_ntab s_nclo] in *. lia. Qed.
Lemma put_table_le : forall s0 st i t, st_le s0 st -> st_le s0 (put_table st i t).
Proof. intros. unfold st_le, put_table in *. cbn [s_ncell s_ntab s_nclo] in *. lia. Qed.
Lemma raw_set_in_le : forall s0 st i k v, st_le s0 st -> st_le s0 (raw_set_in st i k v).
Proof. intros; le_now. Qed.
Lemma emit_line_le : forall s0 st l, st_le s0 st -> st_le s0 (emit_line st l).
Proof. intros; le_now. Qed.
Lemma alloc_cell_le : forall s0 st v, st_le s0 st -> st_le s0 (snd (alloc_cell st v)).
Proof. intros; le_now. Qed.
Lemma alloc_table_le : forall s0 st t, st_le s0 st -> st_le s0 (snd (alloc_table st t)).
Proof. intros; le_now. Qed.
Lemma alloc_closure_le : forall s0 st c, st_le s0 st -> st_le s0 (snd (alloc_closure st c)).
Proof. intros; le_now. Qed.

Lemma set_positional_le : forall vs s0 st i k, st_le s0 st -> st_le s0 (set_positional st i k vs).
Proof. induction vs; intros; cbn [set_positional]; [assumption|]. apply IHvs. apply raw_set_in_le; assumption. Qed.

Lemma bind_locals_le : forall xs s0 e vs st, st_le s0 st -> st_le s0 (snd (bind_locals e xs vs st)).
Proof.
  induction xs; intros; cbn [bind_locals snd]; [assumption|].
  destruct (alloc_cell st (first vs)) as [c st1] eqn:E.
  apply IHxs. change st1 with (snd (c, st1)). rewrite <- E. apply alloc_cell_le; auto.
Qed.
