(* Parentheses in the parser's AST: `strip_parens` removes every Parenthesis node.

   The resolver drops EK::Parenthesis in `expression`, and it decides "is this value a function literal" -- for a
   definition (the variable of a function is declared before its body, so that it can call itself) and for a blob
   field (`self` is visible only in function fields) -- with fn is_function_literal, which looks through
   parentheses (PAst.is_function).  (Until /repo b5cd999 it did not: `f :: (fn .. f() .. end)` was not a function
   for it -- found while proving resolve_erases_parens, repaired, and checked by tools/gens/gen_resolve.py.)
   Definitions only. *)
From Coq Require Import String List NArith ZArith Bool.
From Sylt Require Import Syntax.Resolved Resolve.PAst Resolve.Wf.
Import ListNotations.

Fixpoint strip_e (e : pexpr) : pexpr :=
  match e with
  | PGet a sp => PGet (strip_a a) sp
  | PAdd a b sp => PAdd (strip_e a) (strip_e b) sp
  | PSub a b sp => PSub (strip_e a) (strip_e b) sp
  | PMul a b sp => PMul (strip_e a) (strip_e b) sp
  | PDiv a b sp => PDiv (strip_e a) (strip_e b) sp
  | PNeg a sp => PNeg (strip_e a) sp
  | PComparison a k b sp => PComparison (strip_e a) k (strip_e b) sp
  | PAssertEq a b sp => PAssertEq (strip_e a) (strip_e b) sp
  | PAnd a b sp => PAnd (strip_e a) (strip_e b) sp
  | POr a b sp => POr (strip_e a) (strip_e b) sp
  | PNot a sp => PNot (strip_e a) sp
  | PParenthesis a _ => strip_e a
  | PIf brs sp => PIf (map strip_b brs) sp
  | PCase tm brs ft sp =>
      PCase (strip_e tm) (map strip_c brs) (match ft with Some b => Some (map strip_s b) | None => None end) sp
  | PFunction nm ps rt body pure sp => PFunction nm ps rt (map strip_s body) pure sp
  | PBlob b fields sp => PBlob b (map (fun f => (fst f, strip_e (snd f))) fields) sp
  | PTuple vs sp => PTuple (map strip_e vs) sp
  | PList vs sp => PList (map strip_e vs) sp
  | PFloat r sp => PFloat r sp
  | PInt z sp => PInt z sp
  | PStr s sp => PStr s sp
  | PBool b sp => PBool b sp
  | PNil sp => PNil sp
  end
with strip_a (a : passign) : passign :=
  match a with
  | ARead i sp => ARead i sp
  | AVariant x v value sp => AVariant (strip_a x) v (strip_e value) sp
  | ACall f args sp => ACall (strip_a f) (map strip_e args) sp
  | AArrowCall x f args sp => AArrowCall (strip_e x) (strip_a f) (map strip_e args) sp
  | AAccess x i sp => AAccess (strip_a x) i sp
  | AIndex x i sp => AIndex (strip_a x) (strip_e i) sp
  | AExpression e sp => AExpression (strip_e e) sp
  end
with strip_b (b : pifbranch) : pifbranch :=
  match b with
  | PIfBranch c body sp => PIfBranch (match c with Some c => Some (strip_e c) | None => None end) (map strip_s body) sp
  end
with strip_c (b : pcasebranch) : pcasebranch :=
  match b with
  | PCaseBranch pat v body => PCaseBranch pat v (map strip_s body)
  end
with strip_s (s : pstmt) : pstmt :=
  match s with
  | PAssignment op t v sp => PAssignment op (strip_a t) (strip_e v) sp
  | PDefinition i k t v sp => PDefinition i k t (strip_e v) sp
  | PLoop c b sp => PLoop (strip_e c) (strip_s b) sp
  | PRet (Some v) sp => PRet (Some (strip_e v)) sp
  | PBlock ss sp => PBlock (map strip_s ss) sp
  | PStatementExpression v sp => PStatementExpression (strip_e v) sp
  | other => other
  end.

Definition strip_module (m : pmodule) : pmodule := mkModule (m_file m) (m_file_id m) (map strip_s (m_stmts m)).
Definition strip_parens (ast : past) : past := map strip_module ast.
