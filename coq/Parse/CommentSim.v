(* C14, whole programs: comments do not matter to the parser.
   Two token lists that are equal once the comment tokens are removed are both rejected by sylt_parser's
   module(), or both accepted with the same tree up to empty statements at the top level (a comment before a
   blank line, or after the last statement, leaves an EmptyStatement that carries it).
   Instance of SimGen.v: contexts are related when they agree on the newline flag and the past-the-end count,
   their token lists ahead and behind are equal without the comments, and neither cursor rests on a comment. *)
From Coq Require Import List NArith Bool Arith Lia.
From Sylt Require Import Syntax.Ast Syntax.Tok Parse.PrecTable Parse.Parser Parse.ParserProofs Parse.ParserTotal
  Parse.SimGen.
Import ListNotations.

Definition ec (l : list tok) : list tok := filter not_comment l.

Definition hd_ok (c : ctx) : Prop := match post c with TComment :: _ => False | _ => True end.

Definition CR (c c' : ctx) : Prop :=
  nl c = nl c' /\ over c = over c' /\ ec (post c) = ec (post c') /\ ec (pre c) = ec (pre c') /\ hd_ok c /\ hd_ok c'.

Lemma ec_app a b : ec (a ++ b) = ec a ++ ec b.
Proof. apply filter_app. Qed.

Lemma ec_rev a : ec (rev a) = rev (ec a).
Proof.
  induction a as [|x a IH]; [reflexivity|]. cbn [rev]. rewrite ec_app, IH. cbn [ec filter].
  destruct (not_comment x); [reflexivity|]. cbn [rev]. rewrite app_nil_r. reflexivity.
Qed.

(* ---- skip on comment-erased lists ---- *)

Lemma adv_cons t ts n p : adv (t :: ts) (S n) p = adv ts (if not_comment t then n else S n) (t :: p).
Proof. destruct t; reflexivity. Qed.

Lemma adv_ec : forall ts n p,
  ec (snd (fst (adv ts n p))) = skipn n (ec ts) /\
  ec (fst (fst (adv ts n p))) = rev (firstn n (ec ts)) ++ ec p /\
  snd (adv ts n p) = n - length (ec ts).
Proof.
  induction ts as [|t ts IH]; intros n p.
  - destruct n; cbn [adv fst snd ec filter skipn firstn rev app length]; repeat split; lia.
  - destruct n; [cbn [adv fst snd skipn firstn rev app]; repeat split; lia|].
    rewrite adv_cons. cbn [ec filter]. fold (ec ts). fold (ec p).
    destruct (not_comment t) eqn:Nt.
    + destruct (IH n (t :: p)) as (A & B & D). rewrite A, B, D. cbn [ec filter]. rewrite Nt. fold (ec p).
      cbn [skipn firstn rev length]. repeat split; try lia. rewrite <- app_assoc. reflexivity.
    + destruct (IH (S n) (t :: p)) as (A & B & D). rewrite A, B, D. cbn [ec filter]. rewrite Nt. fold (ec p).
      repeat split.
Qed.

Fixpoint dropnl (l : list tok) : list tok := match l with TK KNewline :: l' => dropnl l' | _ => l end.
Fixpoint takenl (l : list tok) : list tok := match l with TK KNewline :: l' => TK KNewline :: takenl l' | _ => [] end.

Lemma strip_ec b : forall ts p,
  ec (snd (strip b ts p)) = (if b then dropnl (ec ts) else ec ts) /\
  ec (fst (strip b ts p)) = (if b then rev (takenl (ec ts)) else []) ++ ec p /\
  match snd (strip b ts p) with TComment :: _ => False | _ => True end.
Proof.
  induction ts as [|t ts IH]; intros p.
  - cbn. destruct b; repeat split.
  - assert (Stop : t <> TComment -> (b = true -> t <> TK KNewline) -> strip b (t :: ts) p = (p, t :: ts) ->
                   ec (snd (strip b (t :: ts) p)) = (if b then dropnl (ec (t :: ts)) else ec (t :: ts)) /\
                   ec (fst (strip b (t :: ts) p)) = (if b then rev (takenl (ec (t :: ts))) else []) ++ ec p /\
                   match snd (strip b (t :: ts) p) with TComment :: _ => False | _ => True end).
    { intros Hc Hn E. rewrite E. cbn [fst snd]. cbn [ec filter]. fold (ec ts). fold (ec p).
      assert (Nt : not_comment t = true) by (destruct t; try reflexivity; congruence). rewrite Nt.
      destruct b.
      - assert (D : dropnl (t :: ec ts) = t :: ec ts /\ takenl (t :: ec ts) = []).
        { destruct t as [| | | | | |k|]; try (split; reflexivity). destruct k; try (split; reflexivity).
          exfalso. apply Hn; reflexivity. }
        destruct D as [-> ->]. repeat split. destruct t; try exact I. congruence.
      - repeat split. destruct t; try exact I. congruence. }
    destruct t as [| | | | | |k|]; try (apply Stop; [discriminate|intros _; discriminate|reflexivity]).
    + (* comment *) cbn [strip]. destruct (IH (TComment :: p)) as (A & B & D).
      cbn [ec filter not_comment] in *. repeat split; assumption.
    + destruct k; try (apply Stop; [discriminate|intros _; discriminate|reflexivity]).
      destruct b.
      * cbn [strip]. destruct (IH (TK KNewline :: p)) as (A & B & D).
        cbn [ec filter not_comment dropnl takenl rev] in *. fold (ec ts) in *. fold (ec p) in *.
        rewrite A, B. repeat split; [rewrite <- app_assoc; reflexivity|exact D].
      * apply Stop; [discriminate|intros X; discriminate X|reflexivity].
Qed.

Lemma CR_skip n c c' : CR c c' -> CR (skip n c) (skip n c').
Proof.
  intros (Hn & Ho & Hp & Hq & _ & _). unfold skip.
  destruct (adv_ec (post c) n (pre c)) as (A1 & A2 & A3). destruct (adv_ec (post c') n (pre c')) as (B1 & B2 & B3).
  destruct (adv (post c) n (pre c)) as [[p1 q1] l1]. destruct (adv (post c') n (pre c')) as [[p1' q1'] l1'].
  cbn [fst snd] in *.
  destruct (strip_ec (nl c) q1 p1) as (C1 & C2 & C3). destruct (strip_ec (nl c') q1' p1') as (D1 & D2 & D3).
  destruct (strip (nl c) q1 p1) as [p2 q2]. destruct (strip (nl c') q1' p1') as [p2' q2'].
  cbn [fst snd] in *. unfold CR, hd_ok. cbn [pre post over nl].
  rewrite <- Hn in *. rewrite <- Hp in *. rewrite <- Hq in *.
  split; [reflexivity|]. split; [lia|]. split; [rewrite C1, D1, A1, B1; reflexivity|].
  split; [rewrite C2, D2, A1, B1, A2, B2; reflexivity|]. split; assumption.
Qed.

Lemma CR_token c c' : CR c c' -> token c' = token c.
Proof.
  intros (_ & _ & Hp & _ & H1 & H2). unfold token, hd_ok in *.
  destruct (post c) as [|t ts], (post c') as [|t' ts']; try reflexivity.
  - cbn [ec filter] in Hp. destruct t'; try discriminate Hp. contradiction.
  - cbn [ec filter] in Hp. destruct t; try discriminate Hp. contradiction.
  - cbn [ec filter] in Hp. destruct t; try contradiction; destruct t'; try contradiction;
      cbn [not_comment] in Hp; inversion Hp; reflexivity.
Qed.

Lemma CR_nl c c' : CR c c' -> nl c' = nl c.
Proof. intros (H & _). symmetry. exact H. Qed.

Lemma CR_set_nl b c c' : CR c c' -> CR (set_nl b c) (set_nl b c').
Proof. intros (Hn & Ho & Hp & Hq & H1 & H2). unfold CR, hd_ok, set_nl in *. cbn [pre post over nl]. repeat split; assumption. Qed.

(* ---- prev ---- *)

Lemma ec_comments cs : forallb is_comment cs = true -> ec cs = [].
Proof.
  induction cs as [|x cs IH]; [reflexivity|]. cbn [forallb]. intros H. apply andb_prop in H. destruct H as [Hx H].
  destruct x; try discriminate Hx. cbn [ec filter not_comment]. apply IH. exact H.
Qed.

Lemma prev_shape c : over c = 0 -> (exists t, find not_comment (pre c) = Some t) -> hd_ok c ->
  exists cp t cs, prev c = Some cp /\ not_comment t = true /\ forallb is_comment cs = true /\
                  post cp = t :: cs ++ post c /\ pre c = rev cs ++ t :: pre cp /\ over cp = 0 /\ nl cp = nl c.
Proof.
  intros Ho [t0 Hf] Hh.
  assert (Hex : existsb not_comment (pre c) = true).
  { clear -Hf. induction (pre c) as [|x l IH]; [discriminate|]. cbn [find existsb] in *.
    destruct (not_comment x); [reflexivity|]. apply IH. exact Hf. }
  destruct (prev_some_of_pre c Ho Hex) as [cp Hp]. exists cp.
  unfold prev in Hp. rewrite Ho in Hp. destruct (pre c) as [|x pr0] eqn:Ep; [discriminate|].
  destruct (unwind pr0 (x :: post c)) as [[p1 p2]|] eqn:U; [|discriminate]. inversion Hp; subst cp. clear Hp.
  destruct (unwind_shape pr0 x [] (post c) p1 p2 eq_refl U) as (t & cs' & H1 & H2 & H3 & H4).
  cbn [rev app] in H4. exists t, cs'. cbn [pre post over nl].
  repeat split; try assumption; try reflexivity.
  - unfold prev. rewrite Ho, Ep, U. reflexivity.
  - symmetry. exact H4.
Qed.

Lemma CR_prev_ltm c2 c2' c c' : CR c2 c2' -> ltm c2 c -> ltm c2' c' -> CR c c' ->
  exists cp cp', prev c = Some cp /\ prev c' = Some cp' /\ CR cp cp'.
Proof.
  intros _ (_ & l & Hl & Hm) (_ & l' & Hl' & Hm') HR.
  pose proof HR as (Hn & Ho & Hp & Hq & H1 & H2).
  destruct (over c) as [|o] eqn:Eo.
  - symmetry in Ho.
    assert (F : forall l X, mark l -> exists t, find not_comment (l ++ X) = Some t).
    { clear. intros l X Hm. unfold mark in Hm. induction l as [|x l IH]; [discriminate|]. cbn [app find existsb] in *.
      destruct (not_comment x); [eexists; reflexivity|]. apply IH. exact Hm. }
    destruct (prev_shape c Eo ltac:(rewrite Hl; apply F; exact Hm) H1) as (cp & t & cs & E1 & T1 & K1 & P1 & Q1 & O1 & N1).
    destruct (prev_shape c' Ho ltac:(rewrite Hl'; apply F; exact Hm') H2) as (cp' & t' & cs' & E1' & T1' & K1' & P1' & Q1' & O1' & N1').
    exists cp, cp'. split; [exact E1|split; [exact E1'|]].
    rewrite Q1, Q1', !ec_app, !ec_rev, (ec_comments cs K1), (ec_comments cs' K1') in Hq. cbn [rev app ec filter] in Hq.
    rewrite T1, T1' in Hq. inversion Hq; subst t'.
    unfold CR, hd_ok. rewrite P1, P1', O1, O1', N1, N1'.
    cbn [ec filter]. rewrite T1, !ec_app, (ec_comments cs K1), (ec_comments cs' K1'). cbn [app].
    repeat split; try assumption; try congruence.
    + destruct t; try exact I. discriminate T1.
    + destruct t; try exact I. discriminate T1.
  - unfold prev. rewrite <- Ho, Eo. eexists. eexists. split; [reflexivity|split; [reflexivity|]].
    unfold CR, hd_ok in *. cbn [pre post over nl]. auto 7.
Qed.

(* ------------------------------------------------------------------------------------------- *)
(* the theorems *)

Section Thm.
Variable T : ptab.
Hypothesis TOK : total_ok T.

Lemma init_CR ts ts' : ec ts = ec ts' ->
  (match ts with TComment :: _ => False | _ => True end) ->
  (match ts' with TComment :: _ => False | _ => True end) -> CR (init ts) (init ts').
Proof. intros H A B. unfold CR, hd_ok, init. cbn [pre post over nl]. repeat split; assumption. Qed.

(* any request: comments do not change the outcome (same fuel, same kind of outcome, same tree) *)
Theorem comments_go f q q' : qrel CR q q' -> resrel CR (orel CR) (go T f q) (go T f q').
Proof. apply (go_rel CR CR_token CR_nl CR_skip CR_set_nl CR_prev_ltm T TOK). Qed.

(* whole files *)
Theorem comments_program ts ts' f : ec ts = ec ts' ->
  (match ts with TComment :: _ => False | _ => True end) ->
  (match ts' with TComment :: _ => False | _ => True end) ->
  match parse_program T f ts, parse_program T f ts' with
  | Ok (ss, _), Ok (ss', _) => noempty ss = noempty ss'
  | Err _ _, Err _ _ => True
  | Fuel, Fuel => True
  | Panic, Panic => True
  | _, _ => False
  end.
Proof.
  intros H A B. unfold parse_program.
  pose proof (module_rel CR CR_token CR_nl CR_skip CR_set_nl CR_prev_ltm T TOK f [] [] [] [] 0 0
                (init ts) (init ts') eq_refl eq_refl (init_CR ts ts' H A B)) as G.
  unfold mrel in G.
  destruct (go T f (QModule [] [] 0 (init ts))) as [o|ce es| |], (go T f (QModule [] [] 0 (init ts'))) as [o'|ce' es'| |];
    cbn [as_Ss]; try contradiction; try exact I; try (destruct o; contradiction).
  destruct o, o'; try contradiction; try exact I. exact G.
Qed.

(* single statements and expressions: the same tree *)
Theorem comments_statement ts ts' f : ec ts = ec ts' ->
  (match ts with TComment :: _ => False | _ => True end) ->
  (match ts' with TComment :: _ => False | _ => True end) ->
  match parse_statement T f ts, parse_statement T f ts' with
  | Ok (s, _), Ok (s', _) => s = s'
  | Err _ _, Err _ _ => True
  | Fuel, Fuel => True
  | Panic, Panic => True
  | _, _ => False
  end.
Proof.
  intros H A B. unfold parse_statement.
  pose proof (comments_go f (QStmt (init ts)) (QStmt (init ts')) (init_CR ts ts' H A B)) as G.
  destruct (go T f (QStmt (init ts))) as [o|ce es| |], (go T f (QStmt (init ts'))) as [o'|ce' es'| |];
    cbn [as_S resrel] in *; try contradiction; try exact I.
  destruct o, o'; cbn [orel] in G; try contradiction; try exact I. apply G.
Qed.

(* ---- a file that starts with comments ---- *)

Lemma skip0_eq c :
  skip 0 c = mkctx (fst (strip (nl c) (post c) (pre c))) (snd (strip (nl c) (post c) (pre c))) (over c) (nl c).
Proof.
  unfold skip. assert (A : adv (post c) 0 (pre c) = (pre c, post c, 0)) by (destruct (post c); reflexivity).
  rewrite A. destruct (strip (nl c) (post c) (pre c)). rewrite Nat.add_0_r. reflexivity.
Qed.

Lemma skip0_idem c : skip 0 (skip 0 c) = skip 0 c.
Proof.
  rewrite (skip0_eq c). pose proof (strip_result_head (nl c) (post c) (pre c)) as Hh.
  destruct (strip (nl c) (post c) (pre c)) as [p2 q2]. cbn [fst snd] in *.
  rewrite skip0_eq. cbn [pre post over nl]. rewrite (strip_head_ok (nl c) q2 p2 Hh). reflexivity.
Qed.

Lemma set_nl_same b c : nl c = b -> set_nl b c = c.
Proof. destruct c. unfold set_nl. cbn. intros <-. reflexivity. Qed.

Lemma push_false_skip0 c : nl c = false -> push_nl false c = (skip 0 c, false) /\ push_nl false (skip 0 c) = (skip 0 c, false).
Proof.
  intros N. unfold push_nl. rewrite skip_nl, N, (set_nl_same false c N).
  rewrite (set_nl_same false (skip 0 c)) by (rewrite skip_nl; exact N). rewrite skip0_idem. split; reflexivity.
Qed.

Lemma step_stmt_skip0 c : nl c = false -> step_stmt T c = step_stmt T (skip 0 c).
Proof. intros N. unfold step_stmt. destruct (push_false_skip0 c N) as [-> ->]. reflexivity. Qed.

Lemma go_stmt_skip0 f c : nl c = false -> go T f (QStmt c) = go T f (QStmt (skip 0 c)).
Proof. intros N. destruct f; [reflexivity|]. rewrite !go_S. cbn [step]. rewrite (step_stmt_skip0 c N). reflexivity. Qed.

(* a statement that starts on a newline token is the empty statement *)
Lemma go_stmt_newline f c : nl c = false -> token (skip 0 c) = TK KNewline ->
  go T (S f) (QStmt c) = Ok (RS SEmpty (skip 1 (skip 0 c))).
Proof.
  intros N Tk. rewrite go_S. cbn [step]. unfold step_stmt. destruct (push_false_skip0 c N) as [-> _].
  unfold look3. rewrite Tk. cbv iota beta. cbn [ok ptry].
  unfold is_k, pexpect, expect, is_k. rewrite Tk. cbn [tok_is kw_eqb orb ok ptry run].
  unfold pop_nl. rewrite (set_nl_same false (skip 1 (skip 0 c))) by (rewrite !skip_nl; exact N). reflexivity.
Qed.

Lemma CR_init_skip0 ts ts' : ec ts = ec ts' ->
  (match ts' with TComment :: _ => False | _ => True end) -> CR (skip 0 (init ts)) (init ts').
Proof.
  intros H B. unfold skip, init. cbn [pre post over nl].
  assert (A : adv ts 0 [] = ([], ts, 0)) by (destruct ts; reflexivity). rewrite A.
  destruct (strip_ec false ts []) as (C1 & C2 & C3). destruct (strip false ts []) as [p2 q2]. cbn [fst snd] in *.
  unfold CR, hd_ok. cbn [pre post over nl]. rewrite C1, C2. cbn [app ec filter].
  repeat split; try assumption.
Qed.

Definition prog_rel (r r' : res (list stmt * ctx)) : Prop :=
  match r, r' with
  | Ok (ss, _), Ok (ss', _) => noempty ss = noempty ss'
  | Err _ _, Err _ _ => True
  | Fuel, Fuel => True
  | Panic, Panic => True
  | _, _ => False
  end.

Lemma prog_rel_mrel (a b : res out) : mrel a b -> prog_rel (as_Ss a) (as_Ss b).
Proof.
  unfold mrel, prog_rel. destruct a as [oa| | |], b as [ob| | |]; cbn [as_Ss]; try contradiction; try trivial;
    try (destruct oa; contradiction).
  destruct oa; try contradiction; destruct ob; try contradiction. trivial.
Qed.

(* a file against the same file with all comments that precede its first token removed *)
Lemma comments_leading f ts ts' : ec ts = ec ts' -> hd TEOF (ec ts) <> TEOF ->
  (match ts' with TComment :: _ => False | _ => True end) ->
  mrel (go T f (QModule [] [] 0 (init ts))) (go T f (QModule [] [] 0 (init ts'))).
Proof.
  intros H Hne B.
  pose proof (module_rel CR CR_token CR_nl CR_skip CR_set_nl CR_prev_ltm T TOK) as MR.
  destruct ts as [|t0 ts0]; [exfalso; apply Hne; reflexivity|].
  destruct (not_comment t0) eqn:N0.
  { apply MR; [reflexivity|reflexivity|]. apply init_CR; [exact H| |exact B]. destruct t0; try exact I. discriminate. }
  destruct t0; try discriminate N0. set (ts := TComment :: ts0) in *.
  pose proof (CR_init_skip0 ts ts' H B) as R0.
  destruct f as [|f]; [exact I|].
  rewrite !go_S. cbn [step]. unfold step_module.
  assert (Tc : token (init ts) = TComment) by reflexivity. rewrite Tc.
  pose proof (CR_token _ _ R0) as Tk.
  assert (G : resrel CR (orel CR) (go T f (QStmt (init ts))) (go T f (QStmt (init ts')))).
  { rewrite (go_stmt_skip0 f (init ts) eq_refl). apply comments_go. exact R0. }
  pose proof (module_D CR CR_token CR_skip T f [] [] [] [] 0 0 (init ts) (init ts') (MR f) eq_refl eq_refl G) as D.
  destruct (token (init ts')) as [| | | | | |k|] eqn:Tk'; try exact D.
  - destruct k; try exact D.
    (* the first token is a newline: an empty statement on one side, skipped on the other *)
    rewrite run_call, run_ptry, run_outer.
    destruct f as [|f]; [exact I|].
    rewrite (go_stmt_newline f (init ts) eq_refl (eq_sym Tk)). cbn [is_outer]. rewrite run_call.
    apply MR; [reflexivity|reflexivity|]. apply CR_skip. exact R0.
  - (* no token at all, or an end-of-file token first: excluded *)
    exfalso. apply Hne. rewrite H. unfold token, init in Tk'. cbn [post] in Tk'.
    destruct ts' as [|x l]; [reflexivity|]. subst x. reflexivity.
Qed.

Lemma ec_idem l : ec (ec l) = ec l.
Proof.
  induction l as [|x l IH]; [reflexivity|]. cbn [ec filter]. destruct (not_comment x) eqn:N; [|exact IH].
  cbn [ec filter]. rewrite N. fold (ec l). fold (ec (ec l)). rewrite IH. reflexivity.
Qed.

Lemma ec_head l : match ec l with TComment :: _ => False | _ => True end.
Proof.
  induction l as [|x l IH]; [exact I|]. cbn [ec filter]. destruct (not_comment x) eqn:N; [|exact IH].
  destruct x; try exact I. discriminate N.
Qed.

(* C14, whole programs, comments: two files with the same tokens apart from comments - comment lines, comments
   at the end of a line, comments before the first token, inside brackets, anywhere - are both rejected or both
   accepted with the same statements (the same trees), up to EmptyStatements at the top level.  At every fuel,
   with the same kind of outcome.  The file must have a token other than a comment (a file that consists of a
   comment without a line break is rejected by the parser while the empty file is accepted: known finding). *)
Theorem comments_anywhere ts ts' f : ec ts = ec ts' -> hd TEOF (ec ts) <> TEOF ->
  prog_rel (parse_program T f ts) (parse_program T f ts').
Proof.
  intros H Hne. unfold parse_program. apply prog_rel_mrel.
  apply (mrel_trans _ (go T f (QModule [] [] 0 (init (ec ts))))).
  - apply comments_leading; [symmetry; apply ec_idem|exact Hne|apply ec_head].
  - apply mrel_sym. apply comments_leading; [rewrite ec_idem; symmetry; exact H|rewrite <- H; exact Hne|apply ec_head].
Qed.

End Thm.
