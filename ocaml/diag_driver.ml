(* Driver for the extracted C15 models.  One case per line, tab separated:
     conflict <hex utf-8 source>                      -> C <line> <line> ...
     graph <0|1 std> <main> <file>=<use,use,...|.|!|#> ...
            `.` no imports, `!` file with conflict markers, `#` file whose parse fails without imports,
            a leading `#` before the use list = parse fails but the imports are followed;
            files that are not listed are unreadable
                                                       -> G <file>:<id> ...   (the module list, in push order)
                                                          then ` | ` and <file>:<namespace_to_file id> for each *)
open Diagmodel

let rec pos_of_int n = if n = 1 then XH else if n land 1 = 1 then XI (pos_of_int (n lsr 1)) else XO (pos_of_int (n lsr 1))
let n_of_int n = if n = 0 then N0 else Npos (pos_of_int n)
let rec int_of_nat = function O -> 0 | S n -> 1 + int_of_nat n
let rec nat_of_int n = if n <= 0 then O else S (nat_of_int (n - 1))

let unhex s =
  if s = "-" then Bytes.empty else begin
    let n = String.length s / 2 in
    let b = Bytes.create n in
    for i = 0 to n - 1 do
      Bytes.set b i (Char.chr (int_of_string ("0x" ^ String.sub s (2*i) 2)))
    done; b end

let decode_utf8 (b : Bytes.t) : int list =
  let n = Bytes.length b in
  let rec go i acc =
    if i >= n then List.rev acc else
    let c = Char.code (Bytes.get b i) in
    let g k = Char.code (Bytes.get b (i+k)) land 0x3f in
    if c < 0x80 then go (i+1) (c :: acc)
    else if c < 0xe0 then go (i+2) ((((c land 0x1f) lsl 6) lor g 1) :: acc)
    else if c < 0xf0 then go (i+3) ((((c land 0x0f) lsl 12) lor (g 1 lsl 6) lor g 2) :: acc)
    else go (i+4) ((((c land 0x07) lsl 18) lor (g 1 lsl 12) lor (g 2 lsl 6) lor g 3) :: acc)
  in go 0 []

let chars s = List.init (String.length s) (String.get s)
let str l = String.of_seq (List.to_seq l)

let () =
  let ic = open_in Sys.argv.(1) in
  (try
    while true do
      let line = input_line ic in
      match String.split_on_char '\t' line with
      | ["conflict"; h] ->
        let cps = List.map n_of_int (decode_utf8 (unhex h)) in
        let ls = conflict_lines cps in
        print_endline (String.concat " " ("C" :: List.map (fun n -> string_of_int (int_of_nat n)) ls))
      | "graph" :: std :: main :: ents ->
        let tbl = Hashtbl.create 16 in
        List.iter (fun e ->
          match String.index_opt e '=' with
          | None -> ()
          | Some i ->
            let name = String.sub e 0 i and v = String.sub e (i+1) (String.length e - i - 1) in
            let r =
              if v = "!" then HasConflict
              else if v = "#" then Parsed (false, [])
              else if v = "." then Parsed (true, [])
              else
                let ok, v = if v.[0] = '#' then false, String.sub v 1 (String.length v - 1) else true, v in
                Parsed (ok, List.map chars (String.split_on_char ',' v)) in
            Hashtbl.replace tbl name r) ents;
        let read f = match Hashtbl.find_opt tbl (str f) with Some r -> r | None -> Unreadable in
        (match tree_state (nat_of_int 10000) read (std = "1") (chars main) with
         | None -> print_endline "G OUT-OF-FUEL"
         | Some s ->
           let ms = s.modules in
           let a = List.map (fun (f, id) -> Printf.sprintf "%s:%d" (str f) (int_of_nat id)) ms in
           let b = List.map (fun (f, id) ->
             match namespace_to_file ms id with
             | Some g -> Printf.sprintf "%s:%s" (str f) (str g)
             | None -> Printf.sprintf "%s:?" (str f)) ms in
           print_endline (String.concat " " ("G" :: a @ ("|" :: b))))
      | _ -> print_endline "BADCASE"
    done
  with End_of_file -> ());
  close_in ic
