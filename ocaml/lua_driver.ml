(* Driver for the extracted LuaCore.
   Case file: one case per line,  <mode> TAB <fuel> TAB <hex of Lua source>
     mode run53 | runjit | run (= run53):
                prints  RUN <final> <n> <hex trace line>...     n = number of printed lines
                final = done | error:<hex msg> | fuel | unsupported:<hex> | loaderr:<hex>
     mode wf53 | wfjit | wf (= wf53):
                prints  WF ok | WF bad:<hex reason>
     The suffix selects the dialect: 53 = Lua 5.3 (the project's reference semantics), jit = LuaJIT 2.x /
     Lua 5.1 rules.
   Strings are hex-encoded, "-" is the empty string.
   Deep recursion: run it with an unlimited stack (tools/lua_run.py does). *)
open Luamodel

let unhex s =
  if s = "-" then "" else begin
    let n = String.length s / 2 in
    let b = Bytes.create n in
    let v c = match c with
      | '0'..'9' -> Char.code c - 48
      | 'a'..'f' -> Char.code c - 87
      | 'A'..'F' -> Char.code c - 55
      | _ -> failwith "bad hex" in
    for i = 0 to n - 1 do
      Bytes.set b i (Char.chr (v s.[2*i] * 16 + v s.[2*i+1]))
    done; Bytes.to_string b end

let hex_of_chars (l : char list) =
  match l with
  | [] -> "-"
  | _ ->
    let b = Buffer.create 64 in
    List.iter (fun c -> Buffer.add_string b (Printf.sprintf "%02x" (Char.code c))) l;
    Buffer.contents b

let chars_of_string (s : string) : char list =
  let r = ref [] in
  for i = String.length s - 1 downto 0 do r := s.[i] :: !r done; !r

let nat_of_int (n : int) : nat =
  let r = ref O in
  for _ = 1 to n do r := S !r done; !r

let split_tabs s = String.split_on_char '\t' s

let () =
  let ic = open_in Sys.argv.(1) in
  (try
    while true do
      let line = input_line ic in
      (match split_tabs line with
       | [mode; fuel; src] ->
         let src = chars_of_string (unhex src) in
         let dialect_of m = if String.length m >= 3 && String.sub m (String.length m - 3) 3 = "jit" then LuaJIT else Lua53 in
         if mode = "run" || mode = "run53" || mode = "runjit" then begin
           let o = run (dialect_of mode) (nat_of_int (int_of_string fuel)) src in
           let fin = match o.o_final with
             | FDone -> "done"
             | FError m -> "error:" ^ hex_of_chars m
             | FOutOfFuel -> "fuel"
             | FUnsupported w -> "unsupported:" ^ hex_of_chars w
             | FLoadError m -> "loaderr:" ^ hex_of_chars m in
           let b = Buffer.create 256 in
           Buffer.add_string b (Printf.sprintf "RUN %s %d" fin (List.length o.o_trace));
           List.iter (fun l -> Buffer.add_char b ' '; Buffer.add_string b (hex_of_chars l)) o.o_trace;
           print_endline (Buffer.contents b)
         end else if mode = "wf" || mode = "wf53" || mode = "wfjit" then begin
           match lua_wf (dialect_of mode) src with
           | WfOk -> print_endline "WF ok"
           | WfBad r -> print_endline ("WF bad:" ^ hex_of_chars r)
         end else print_endline "BADMODE"
       | _ -> print_endline "BADCASE");
      flush stdout
    done
  with End_of_file -> ());
  close_in ic
