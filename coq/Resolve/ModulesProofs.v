(* Theorems about module discovery (Resolve/Modules.v): every file is visited once, file ids are the
   positions in the visit order (distinct, increasing along the module list); the use-path mapping is
   the documented one. *)
From Coq Require Import String List NArith Bool Ascii Lia Arith Sorted.
From Sylt Require Import Syntax.Resolved Resolve.PAst Resolve.Modules.
Import ListNotations.
Local Open Scope list_scope.

Lemma fol_eqb_eq a b : fol_eqb a b = true <-> a = b.
Proof.
  destruct a, b; cbn; try (split; [discriminate|intros H; discriminate H]).
  - rewrite String.eqb_eq. split; [intros ->; reflexivity|intros H; inversion H; reflexivity].
  - rewrite String.eqb_eq. split; [intros ->; reflexivity|intros H; inversion H; reflexivity].
Qed.

Lemma mem_fol_In x l : mem_fol x l = true <-> In x l.
Proof.
  induction l as [|y l IH]; cbn; [split; [discriminate|intros []]|].
  rewrite orb_true_iff, IH, fol_eqb_eq. split; intros [H|H]; auto.
Qed.

Lemma NoDup_snoc {X} (l : list X) x : NoDup l -> ~ In x l -> NoDup (l ++ [x]).
Proof.
  induction l as [|y l IH]; cbn; intros Hnd Hni.
  - constructor; [intros []|constructor].
  - inversion Hnd; subst. constructor.
    + intros Hin. apply in_app_or in Hin as [Hin|[<-|[]]]; [contradiction|]. apply Hni. left. reflexivity.
    + apply IH; [assumption|]. intros Hin. apply Hni. right. assumption.
Qed.

(* ---------------------------------------------------------------------------------------------- *)
(* visit_once *)

Record tinv (st : tstate) : Prop := mkTinv {
  ti_nodup : NoDup (t_visited st);
  ti_ids : forall f id, In (f, id) (t_modules st) -> nth_error (t_visited st) (N.to_nat id) = Some f;
  ti_sorted : StronglySorted N.lt (map snd (t_modules st))
}.

Lemma tinv_init : tinv (mkT [] [] []).
Proof. constructor; cbn; [constructor|intros ? ? []|constructor]. Qed.

Lemma tinv_visit st inc :
  tinv st -> ~ In inc (t_visited st) ->
  tinv (mkT (t_visited st ++ [inc]) (t_modules st) (inc :: t_errors st))
  /\ tinv (mkT (t_visited st ++ [inc]) (t_modules st ++ [(inc, N.of_nat (length (t_visited st)))]) (t_errors st)).
Proof.
  intros [Hnd Hids Hs] Hni.
  assert (Hnd' : NoDup (t_visited st ++ [inc])).
  { apply NoDup_snoc; assumption. }
  assert (Hold : forall f id, In (f, id) (t_modules st) ->
                 nth_error (t_visited st ++ [inc]) (N.to_nat id) = Some f).
  { intros f id H. specialize (Hids _ _ H). rewrite nth_error_app1; [assumption|].
    apply nth_error_Some. congruence. }
  split; constructor; cbn [t_visited t_modules]; auto.
  - intros f id H. apply in_app_or in H as [H|[H|[]]]; [auto|].
    inversion H; subst. rewrite Nat2N.id, nth_error_app2, Nat.sub_diag by lia. reflexivity.
  - rewrite map_app. cbn.
    assert (Hlt : Forall (fun i => N.lt i (N.of_nat (length (t_visited st)))) (map snd (t_modules st))).
    { apply Forall_forall. intros i Hi. apply in_map_iff in Hi as ([f id] & <- & Hin). cbn.
      specialize (Hids _ _ Hin). assert (N.to_nat id < length (t_visited st)) by (apply nth_error_Some; congruence).
      lia. }
    clear - Hs Hlt. induction (map snd (t_modules st)) as [|x l IH]; cbn.
    + constructor; constructor.
    + inversion Hs; subst. inversion Hlt; subst. constructor; [apply IH; assumption|].
      apply Forall_app. split; [assumption|]. constructor; [assumption|constructor].
Qed.

Lemma tree_loop_inv fuel libs lib_uses root m : forall to_visit st st',
  tinv st -> tree_loop fuel libs lib_uses root m to_visit st = Some st' -> tinv st'.
Proof.
  induction fuel as [|f IH]; intros to_visit st st' Hinv H; cbn in H; [discriminate|].
  destruct to_visit as [|inc rest]; [inversion H; subst; assumption|].
  destruct (mem_fol inc (t_visited st)) eqn:Em; [eapply IH; eauto|].
  assert (Hni : ~ In inc (t_visited st)).
  { intros Hin. apply mem_fol_In in Hin. congruence. }
  destruct (tinv_visit st inc Hinv Hni) as [Herr Hok].
  match type of H with
  | context [match ?c with _ => _ end] => destruct c as [[parses uses|]|] eqn:Ec
  end.
  - destruct (followed libs root inc uses) as [next uses_ok].
    destruct (parses && uses_ok); [exact (IH _ _ _ Hok H)|exact (IH _ _ _ Herr H)].
  - exact (IH _ _ _ Herr H).
  - exact (IH _ _ _ Herr H).
Qed.

(* visit_once: in a successfully discovered project no file occurs twice in `modules` (also with import
   cycles and diamonds); the file ids are distinct, increase along the module list, and each is the
   position of its file in the visit order. *)
Theorem visit_once lib_uses m main std mods :
  tree lib_uses m main std = TOk mods ->
  NoDup (map fst mods)
  /\ StronglySorted N.lt (map snd mods)
  /\ exists visited, NoDup visited /\ forall f id, In (f, id) mods -> nth_error visited (N.to_nat id) = Some f.
Proof.
  unfold tree. intros H.
  match type of H with
  | context [tree_loop ?fu ?li ?lu ?ro ?mm ?tv ?s0] => destruct (tree_loop fu li lu ro mm tv s0) as [st|] eqn:E
  end; [|discriminate].
  destruct (t_errors st); [|discriminate]. inversion H; subst; clear H.
  destruct (tree_loop_inv _ _ _ _ _ _ _ _ tinv_init E) as [Hnd Hids Hs].
  split; [|split; [assumption|exists (t_visited st); auto]].
  (* distinct files: equal files would have equal positions in the duplicate-free visit order *)
  clear E. induction (t_modules st) as [|[f id] l IH]; cbn in *; [constructor|].
  inversion Hs as [|? ? Hs' Hall]; subst. constructor.
  - intros Hin. apply in_map_iff in Hin as ([f' id'] & Ef & Hin'). cbn in Ef. subst f'.
    assert (N.lt id id').
    { eapply Forall_forall in Hall; [exact Hall|]. apply in_map_iff. exists (f, id'). auto. }
    pose proof (Hids f id (or_introl eq_refl)) as H1. pose proof (Hids f id' (or_intror Hin')) as H2.
    assert (N.to_nat id = N.to_nat id').
    { eapply NoDup_nth_error; [exact Hnd| |congruence]. apply nth_error_Some. congruence. }
    lia.
  - apply IH; auto.
Qed.

(* ---------------------------------------------------------------------------------------------- *)
(* use_path_spec *)
Local Open Scope string_scope.

Lemma trim_start_id s : starts_with_slash s = false -> trim_start s = s.
Proof. destruct s as [|c s]; cbn; [reflexivity|]. intros ->. reflexivity. Qed.

Lemma trim_end_id s : ends_with_slash s = false -> trim_end s = s.
Proof.
  induction s as [|c s IH]; [reflexivity|]. intros H. cbn in H |- *.
  destruct s as [|c' s'].
  - cbn. rewrite H. reflexivity.
  - rewrite (IH H). reflexivity.
Qed.

Lemma trim_end_slash d : ends_with_slash d = false -> trim_end (d ++ "/") = d.
Proof.
  induction d as [|c d IH]; [reflexivity|]. intros H.
  change ((String c d) ++ "/") with (String c (d ++ "/")). cbn [trim_end].
  destruct d as [|c' d'].
  - cbn in H |- *. rewrite H. reflexivity.
  - cbn in H. rewrite (IH H). reflexivity.
Qed.

Lemma ends_with_slash_app d : ends_with_slash (d ++ "/") = true.
Proof.
  induction d as [|c d IH]; [reflexivity|].
  change ((String c d) ++ "/") with (String c (d ++ "/")). cbn [ends_with_slash].
  destruct (d ++ "/") eqn:E; [destruct d; discriminate|exact IH].
Qed.

Section UsePath.
Variable libs : list string.
Variable root : string.
Variable cur : string.        (* the file the use statement is written in *)

(* `use f` / `use d/f`: relative to the directory of the current file *)
Theorem use_path_relative_file p :
  starts_with_slash p = false -> ends_with_slash p = false -> mem_str p libs = false ->
  use_path libs root (File cur) p = Some (File (join (parent cur) (p ++ ".sy"))).
Proof.
  intros Hs He Hl. unfold use_path. rewrite (trim_start_id p Hs), (trim_end_id p He), Hl, Hs, He.
  assert (String.eqb p "/" = false) as ->.
  { apply String.eqb_neq. intros ->. discriminate. }
  reflexivity.
Qed.

(* `use d/`: the folder's exports.sy *)
Theorem use_path_relative_folder d :
  starts_with_slash d = false -> ends_with_slash d = false -> d <> "" -> mem_str d libs = false ->
  use_path libs root (File cur) (d ++ "/") = Some (File (join (parent cur) (d ++ "/exports.sy"))).
Proof.
  intros Hs He Hne Hl. unfold use_path.
  assert (Hs' : starts_with_slash (d ++ "/") = false) by (destruct d; [congruence|exact Hs]).
  rewrite (trim_start_id _ Hs'), (trim_end_slash d He), Hl, Hs', ends_with_slash_app.
  assert (String.eqb (d ++ "/") "/" = false) as ->.
  { apply String.eqb_neq. destruct d as [|c [|c' d']]; [congruence| |]; cbn; intros H; inversion H; subst; discriminate. }
  reflexivity.
Qed.

(* `use /f`, `use /d/f`: relative to the directory of the main file *)
Theorem use_path_rooted_file p :
  starts_with_slash p = false -> ends_with_slash p = false -> p <> "" -> mem_str p libs = false ->
  use_path libs root (File cur) ("/" ++ p) = Some (File (join root (p ++ ".sy"))).
Proof.
  intros Hs He Hne Hl. unfold use_path. cbn [append trim_start starts_with_slash].
  rewrite Ascii.eqb_refl. rewrite (trim_start_id p Hs), (trim_end_id p He), Hl.
  assert (String.eqb (String "/" p) "/" = false) as ->.
  { apply String.eqb_neq. intros H. inversion H. contradiction. }
  assert (ends_with_slash (String "/" p) = false) as ->.
  { cbn. destruct p; [congruence|exact He]. }
  reflexivity.
Qed.

(* `use /d/` *)
Theorem use_path_rooted_folder d :
  starts_with_slash d = false -> ends_with_slash d = false -> d <> "" -> mem_str d libs = false ->
  use_path libs root (File cur) ("/" ++ d ++ "/") = Some (File (join root (d ++ "/exports.sy"))).
Proof.
  intros Hs He Hne Hl. unfold use_path. cbn [append trim_start starts_with_slash].
  rewrite Ascii.eqb_refl.
  assert (Hs' : starts_with_slash (d ++ "/") = false) by (destruct d; [congruence|exact Hs]).
  rewrite (trim_start_id _ Hs'), (trim_end_slash d He), Hl.
  assert (String.eqb (String "/" (d ++ "/")) "/" = false) as ->.
  { apply String.eqb_neq. intros H. inversion H. destruct d; discriminate. }
  assert (ends_with_slash (String "/" (d ++ "/")) = true) as ->.
  { cbn. destruct (d ++ "/") eqn:E; [destruct d; discriminate|]. rewrite <- E. apply ends_with_slash_app. }
  reflexivity.
Qed.

(* `use / as x`: exports.sy next to the main file *)
Theorem use_path_root : mem_str "" libs = false ->
  use_path libs root (File cur) "/" = Some (File (join root "exports.sy")).
Proof. intros Hl. unfold use_path. cbn. rewrite Hl. reflexivity. Qed.

(* the names of the standard library win over files, with or without slashes around them *)
Theorem use_path_lib p c :
  mem_str (trim_end (trim_start p)) libs = true -> use_path libs root c p = Some (Lib (trim_end (trim_start p))).
Proof. intros H. unfold use_path. rewrite H. reflexivity. Qed.

(* a library file cannot import a project file *)
Theorem use_path_from_lib p l :
  mem_str (trim_end (trim_start p)) libs = false -> use_path libs root (Lib l) p = None.
Proof. intros H. unfold use_path. rewrite H. reflexivity. Qed.

End UsePath.

(* the namespace name of `use <path>` without `as` is the last component of the path *)
Lemma last_component_plain s : parent_aux s = None -> last_component s = s.
Proof. destruct s; cbn; [reflexivity|]. intros ->. reflexivity. Qed.

Example implicit_name_examples :
  implicit_name "f" = Some "f" /\ implicit_name "d/f" = Some "f" /\ implicit_name "d/e/" = Some "e"
  /\ implicit_name "/d/f" = Some "f" /\ implicit_name "/d/" = Some "d" /\ implicit_name "/" = None.
Proof. vm_compute. repeat split. Qed.
