(* EmptyStatements (blank lines, comment-only lines) removed from every statement list of the tree: the module
   level, function bodies, blocks, the branches of if / case.  The body of a `loop` is one statement and stays.
   Definitions only (proofs: Parse/BlankSim.v). *)
From Coq Require Import List NArith Bool.
From Sylt Require Import Syntax.Ast.
Import ListNotations.

Definition is_empty_stmt (s : stmt) : bool := match s with SEmpty => true | _ => false end.

(* map [f] over the statements that are not EmptyStatements *)
Definition drop_with (f : stmt -> stmt) : list stmt -> list stmt :=
  fix go (l : list stmt) : list stmt :=
    match l with
    | [] => []
    | s :: l' => if is_empty_stmt s then go l' else f s :: go l'
    end.

Fixpoint de_e (e : expr) : expr :=
  match e with
  | EGet a => EGet (de_a a)
  | EBin o l r => EBin o (de_e l) (de_e r)
  | EUn u x => EUn u (de_e x)
  | EParen x => EParen (de_e x)
  | EIf bs => EIf (map de_ib bs)
  | ECase m bs ft =>
      ECase (de_e m) (map de_cb bs) (match ft with Some b => Some (drop_with de_s b) | None => None end)
  | EFn ps r b pu => EFn ps r (drop_with de_s b) pu
  | EBlob b fs => EBlob b (map (fun f => (fst f, de_e (snd f))) fs)
  | ETuple es => ETuple (map de_e es)
  | EList es => EList (map de_e es)
  | EFloat _ | EInt _ | EStr _ | EBool _ | ENil => e
  end
with de_a (a : assignable) : assignable :=
  match a with
  | ARead n => ARead n
  | AVariant ea v x => AVariant (de_a ea) v (de_e x)
  | ACall f args => ACall (de_a f) (map de_e args)
  | AArrowCall x f args => AArrowCall (de_e x) (de_a f) (map de_e args)
  | AAccess b n => AAccess (de_a b) n
  | AIndex b x => AIndex (de_a b) (de_e x)
  | AExpr x => AExpr (de_e x)
  end
with de_ib (b : ifbranch) : ifbranch :=
  match b with
  | IfBranch c body => IfBranch (match c with Some x => Some (de_e x) | None => None end) (drop_with de_s body)
  end
with de_cb (b : casebranch) : casebranch :=
  match b with
  | CaseBranch p v body => CaseBranch p v (drop_with de_s body)
  end
with de_s (s : stmt) : stmt :=
  match s with
  | SAssign k t v => SAssign k (de_a t) (de_e v)
  | SDef i k t v => SDef i k t (de_e v)
  | SLoop c b => SLoop (de_e c) (de_s b)
  | SRet (Some v) => SRet (Some (de_e v))
  | SBlock ss => SBlock (drop_with de_s ss)
  | SExpr v => SExpr (de_e v)
  | _ => s
  end.

Definition de_ss (ss : list stmt) : list stmt := drop_with de_s ss.

(* whole files *)
Definition de_program (ss : list stmt) : list stmt := de_ss ss.
