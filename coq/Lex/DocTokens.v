(* The documented token set of Sylt, written from the language documentation (docs/guide.adoc,
   docs/quick-reference.adoc) and the property statement -- NOT generated from token.rs.
   The check compares it (as a finite map keyed by token kind, after normalisation) with the table
   regenerated from sylt-tokenizer/src/token.rs on every run. *)
From Coq Require Import String List NArith Bool Ascii.
From Sylt Require Import Lex.Regex Lex.Logos.
Import ListNotations.
Local Open Scope N_scope.

Fixpoint cps (s : string) : list N :=
  match s with
  | EmptyString => []
  | String a s' => N_of_ascii a :: cps s'
  end.

(* keywords and punctuation: fixed spellings; a spelling of n characters has priority 2n, so that a
   keyword wins against the identifier pattern matching the same text *)
Definition lit (kind spelling : string) : pat :=
  mkPat kind (XLit (cps spelling)) (2 * N.of_nat (String.length spelling)) CbUnit.

Definition letters_ : list (N * N) := [(65, 90); (95, 95); (97, 122)].       (* A-Z _ a-z *)
Definition alnum_ : list (N * N) := [(48, 57); (65, 90); (95, 95); (97, 122)]. (* 0-9 A-Z _ a-z *)

Section Doc.
Variable digit : list (N * N).   (* what counts as a decimal digit *)
Local Open Scope string_scope.

Definition D := XSet false digit.

Definition doc_table : table := [
  (* identifiers: a letter or underscore, then letters, digits, underscores *)
  mkPat "Identifier" (XCat (XSet false letters_) (XStar (XSet false alnum_))) 1 CbSlice;
  lit "VoidType" "void"; lit "BoolType" "bool"; lit "IntType" "int"; lit "FloatType" "float";
  lit "StrType" "str";
  (* string literals: anything but a double quote between double quotes (newlines allowed) *)
  mkPat "String" (XCat (XLit [34]) (XCat (XStar (XSet true [(34, 34)])) (XLit [34]))) 4 CbStrip;
  (* floats: `X.`, `.Y`, `X.Y`, `XeY`, `Xe-Y`, `Xe+Y` *)
  mkPat "Float"
    (XAlt (XAlt (XCat (XPlus D) (XCat (XLit [46]) (XStar D)))
                (XCat (XLit [46]) (XPlus D)))
          (XCat (XPlus D) (XCat (XLit [101]) (XCat (XOpt (XAlt (XLit [45]) (XLit [43]))) (XPlus D)))))
    2 CbFloat;
  mkPat "Int" (XPlus D) 1 CbInt;
  lit "Nil" "nil";
  mkPat "Bool" (XAlt (XLit (cps "true")) (XLit (cps "false"))) 2 CbBool;
  lit "If" "if"; lit "Elif" "elif"; lit "Else" "else"; lit "Case" "case"; lit "Is" "is";
  lit "Break" "break"; lit "Continue" "continue"; lit "In" "in"; lit "Loop" "loop";
  lit "Blob" "blob"; lit "ExternBlob" "externblob"; lit "Enum" "enum"; lit "Ret" "ret";
  lit "Plus" "+"; lit "Minus" "-"; lit "Star" "*"; lit "Slash" "/";
  lit "PlusEqual" "+="; lit "MinusEqual" "-="; lit "StarEqual" "*="; lit "SlashEqual" "/=";
  lit "Hash" "#"; lit "Colon" ":"; lit "ColonColon" "::"; lit "ColonEqual" ":=";
  lit "Equal" "="; lit "EqualEqual" "=="; lit "NotEqual" "!=";
  lit "AssertEqual" "<=>"; lit "Unreachable" "<!>";
  lit "LeftParen" "("; lit "RightParen" ")"; lit "LeftBracket" "["; lit "RightBracket" "]";
  lit "LeftBrace" "{"; lit "RightBrace" "}";
  lit "Do" "do"; lit "End" "end";
  lit "Greater" ">"; lit "GreaterEqual" ">="; lit "Less" "<"; lit "LessEqual" "<=";
  lit "Fn" "fn"; lit "Pu" "pu";
  lit "And" "and"; lit "Or" "or"; lit "Not" "not";
  lit "Bang" "!"; lit "QuestionMark" "?"; lit "Pipe" "|"; lit "Prime" "'";
  lit "Comma" ","; lit "Dot" "."; lit "Arrow" "->";
  mkPat "Newline" (XLit [10]) 2 CbUnit;
  lit "Use" "use"; lit "From" "from"; lit "As" "as"; lit "External" "external";
  lit "GitConflictBegin" "<<<<<<<"; lit "GitConflictEnd" ">>>>>>>";
  (* comments: `//` to the end of the line *)
  mkPat "Comment" (XCat (XLit [47; 47]) (XStar (XSet true [(10, 10)]))) 4 CbComment;
  (* between tokens: spaces, tabs, carriage returns *)
  mkPat "Whitespace" (XPlus (XSet false [(9, 9); (13, 13); (32, 32)])) 1 CbSkip
].
End Doc.

(* ---- comparison of two tables as finite maps keyed by kind, modulo association of
        concatenation/alternation ---- *)

Fixpoint rcat_app (a b : re) : re :=
  match a with
  | RCat x y => RCat x (rcat_app y b)
  | _ => RCat a b
  end.
Fixpoint ralt_app (a b : re) : re :=
  match a with
  | RAlt x y => RAlt x (ralt_app y b)
  | _ => RAlt a b
  end.
Fixpoint norm (r : re) : re :=
  match r with
  | RCat a b => rcat_app (norm a) (norm b)
  | RAlt a b => ralt_app (norm a) (norm b)
  | RStar a => RStar (norm a)
  | _ => r
  end.

Fixpoint ranges_eqb (a b : list (N * N)) : bool :=
  match a, b with
  | [], [] => true
  | (x1, y1) :: a', (x2, y2) :: b' => (x1 =? x2) && (y1 =? y2) && ranges_eqb a' b'
  | _, _ => false
  end.

Fixpoint re_eqb (a b : re) : bool :=
  match a, b with
  | RNone, RNone => true
  | REps, REps => true
  | RSet n1 r1, RSet n2 r2 => Bool.eqb n1 n2 && ranges_eqb r1 r2
  | RCat a1 b1, RCat a2 b2 => re_eqb a1 a2 && re_eqb b1 b2
  | RAlt a1 b1, RAlt a2 b2 => re_eqb a1 a2 && re_eqb b1 b2
  | RStar a1, RStar a2 => re_eqb a1 a2
  | _, _ => false
  end.

Definition cb_eqb (a b : callback) : bool :=
  match a, b with
  | CbUnit, CbUnit | CbSkip, CbSkip | CbSlice, CbSlice | CbStrip, CbStrip
  | CbComment, CbComment | CbInt, CbInt | CbFloat, CbFloat | CbBool, CbBool => true
  | _, _ => false
  end.

Definition pat_eqb (p q : pat) : bool :=
  String.eqb (p_kind p) (p_kind q) && re_eqb (norm (compile (p_rx p))) (norm (compile (p_rx q)))
  && (p_prio p =? p_prio q) && cb_eqb (p_cb p) (p_cb q).

Definition covered (a b : table) : bool := forallb (fun p => existsb (pat_eqb p) b) a.
Definition kinds_unique (a : table) : bool :=
  (fix go (l : list pat) := match l with
                            | [] => true
                            | p :: l' => negb (existsb (fun q => String.eqb (p_kind p) (p_kind q)) l') && go l'
                            end) a.

Definition table_equiv (a b : table) : bool :=
  covered a b && covered b a && kinds_unique a && kinds_unique b.
