-- expect-final: loaderr
-- expect-wf: bad unsupported: method
-- NOTE: LuaJIT loads this; LuaCore does not model method syntax (never emitted by the Sylt compiler)
local s = ('x'):rep(3)
