(* C01 -- compiled Lua behaves as the Sylt source denotes.
   The full statement is NOT proved; it is kept visible here.  What is machine-checked for all programs
   are structural facts about the lowering (C10_lower_scoped, C06 lemmas); the behavioural claim is
   validated per program by running both interpreters (tools/props/c01.py). *)
From Coq Require Import String List NArith ZArith Bool.
From Sylt Require Import Syntax.Resolved Back.IR Back.Emit Sem.SyltSem Lua.LuaAst Lua.LuaCore.
Import ListNotations.

(* "for every accepted program in the core fragment, if the reference interpreter terminates with a
   trace and a final outcome, then the emitted chunk (preamble ++ text), run in the Lua interpreter
   model with enough fuel, prints the same lines and ends the same way" *)
Definition same_final (o : SyltSem.outcome) (f : LuaCore.final) : Prop :=
  match o, f with
  | ODone, FDone => True
  | OAssert, FError _ => True
  | OUnreachable _, FError _ => True
  | _, _ => False
  end.

Definition C01_full_statement (preamble : string) : Prop :=
  forall (r : resolved) (text : string) (n : nat) (res : SyltSem.run_result),
    backend n None r = Ok text ->
    SyltSem.run n r = res ->
    (match r_final res with ODone | OAssert | OUnreachable _ => True | _ => False end) ->
    exists m, let out := LuaCore.run Lua53 m (preamble ++ text) in
              o_trace out = r_trace res /\ same_final (r_final res) (o_final out).
