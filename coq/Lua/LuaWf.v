(* LuaWf: the model of "the interpreter loads this chunk", per dialect.  Definitions only.
     Lua53  (reference): PUC-Rio Lua 5.3 (lparser.c / llex.c)
     LuaJIT (information): LuaJIT 2.x without 5.2 compatibility (lj_parse.c / lj_lex.c)

   Differences between the dialects:
                                     Lua53                          LuaJIT
     `break`                         anywhere in a block            last statement of its block
     upvalues per function           255 (MAXUPVAL)                 60 (LJ_MAX_UPVAL)
     empty statement `;`             allowed                        syntax error
     `//`                            operator                       syntax error
     `\u{XXX}` in strings            allowed                        invalid escape
     bytes >= 128 in names           not allowed                    allowed
   Common: `return` last in its block, `goto` keyword, 200 locals per function (LUAI_MAXVARS /
   LJ_MAX_LOCVAR), unknown escapes and raw newlines in quoted strings are errors, the goto/label rules
   below (lparser.c of 5.3 and lj_parse.c implement the same resolution).
   Not supported in either dialect (answer WfBad "...unsupported: ..."): `...`, method syntax, and
   in Lua53 the bitwise operators and hexadecimal floats.

   lua_wf d src = WfOk  iff
   1. the source tokenizes and parses (LuaLex / LuaParse).  This already covers: reserved words used as
      a variable, field or label name; assignment to something that is not a name or an index
      expression; an expression statement that is not a call; string literals with a raw
      newline, a lone trailing backslash or an invalid escape; malformed numbers;
   2. `return` is the last statement of its block; in LuaJIT so is `break` (Lua 5.1 rule);
   3. `break` occurs inside a loop of the same function;
   4. goto/labels, as lj_parse.c resolves them: a label may not be declared twice in the same block;
      every goto has a label with its name in the same block or in an enclosing block of the same
      function; a *forward* goto must not jump into the scope of a local, i.e. no local may be
      declared in the label's block between the goto (or the nested block containing it) and the
      label -- except that a label followed only by labels up to the end of a block that is not a
      repeat-until body counts as outside the scope of the block's locals;
   5. no function (the main chunk included) has more than 200 simultaneously active local
      variables (parameters, the 3 hidden control variables of a for loop and its declared
      variables included), LJ_MAX_LOCVAR;
   6. no function refers to more than 60 (LuaJIT) / 255 (Lua53) distinct variables of enclosing
      functions, directly or through its nested functions.

   Not modelled: the limit on registers/"function or expression too complex" (250 slots), on
   constants (65536), on nesting depth of the C parser (200 levels), on jump distances. *)
From Coq Require Import String Ascii List NArith Bool.
From Sylt Require Import Lua.LuaAst Lua.LuaLex Lua.LuaParse Lua.LuaNum.
Import ListNotations.
Local Open Scope string_scope.

Inductive wf_result := WfOk | WfBad (reason : string).

Definition max_locals : N := 200%N.
Definition max_upvalues (d : dialect) : nat := if is53 d then 255 else 60.

(* inl reason | inr result *)
Definition wres (A : Type) : Type := (string + A)%type.

Definition wbind {A B : Type} (r : wres A) (f : A -> wres B) : wres B :=
  match r with inl m => inl m | inr a => f a end.

Local Notation "'do*' x <- e ; f" := (wbind e (fun x => f))
  (at level 200, x pattern, e at level 100, f at level 200).

(* static context at a program point *)
Record wctx := mkCtx {
  x_scope : list (string * (N * nat));   (* visible locals, innermost first: name -> (uid, depth) *)
  x_depth : nat;                         (* nesting depth of the current function, main chunk = 0 *)
  x_nact : N;                            (* active locals of the current function *)
  x_loop : bool }.                       (* inside a loop of the current function *)

(* state threaded through the whole chunk *)
Record wst := mkW {
  w_next : N;                            (* next fresh variable id *)
  w_upv : list (list N) }.               (* upvalue sets of the functions being checked, innermost first *)

Fixpoint lookup (x : string) (sc : list (string * (N * nat))) : option (N * nat) :=
  match sc with
  | [] => None
  | (y, r) :: sc' => if String.eqb x y then Some r else lookup x sc'
  end.

Fixpoint mem_n (x : N) (l : list N) : bool :=
  match l with [] => false | y :: l' => if (x =? y)%N then true else mem_n x l' end.

(* record uid as an upvalue of the k innermost functions *)
Fixpoint add_upvalue (d : dialect) (uid : N) (k : nat) (upv : list (list N)) : wres (list (list N)) :=
  match k, upv with
  | O, _ => inr upv
  | S k', [] => inr []
  | S k', s :: rest =>
      let s' := if mem_n uid s then s else uid :: s in
      if Nat.ltb (max_upvalues d) (List.length s')
      then inl (if is53 d then "function has more than 255 upvalues" else "function has more than 60 upvalues")
      else do* rest' <- add_upvalue d uid k' rest; inr (s' :: rest')
  end.

(* a use of variable x *)
Definition reference (d : dialect) (c : wctx) (x : string) (w : wst) : wres wst :=
  match lookup x (x_scope c) with
  | None => inr w                                   (* global *)
  | Some (uid, dp) =>
      if Nat.ltb dp (x_depth c) then
        do* upv <- add_upvalue d uid (x_depth c - dp) (w_upv w);
        inr (mkW (w_next w) upv)
      else inr w
  end.

(* declare locals, one at a time *)
Fixpoint declare (xs : list string) (c : wctx) (w : wst) : wres (wctx * wst) :=
  match xs with
  | [] => inr (c, w)
  | x :: xs' =>
      if (max_locals <=? x_nact c)%N then inl "function has more than 200 local variables"
      else declare xs'
             (mkCtx ((x, (w_next w, x_depth c)) :: x_scope c) (x_depth c) (x_nact c + 1)%N (x_loop c))
             (mkW (w_next w + 1)%N (w_upv w))
  end.

Definition labels := list (string * N).            (* name, number of active locals there *)

Fixpoint has_label (l : string) (ls : labels) : bool :=
  match ls with [] => false | (l', _) :: ls' => if String.eqb l l' then true else has_label l ls' end.

Fixpoint only_labels (b : block) : bool :=
  match b with
  | [] => true
  | SLabel _ :: b' => only_labels b'
  | _ => false
  end.

(* pending forward gotos named l are resolved by a label with `slot` active locals *)
Fixpoint resolve (l : string) (slot : N) (pending : labels) : wres labels :=
  match pending with
  | [] => inr []
  | (g, gslot) :: rest =>
      if String.eqb g l then
        if (gslot <? slot)%N then inl ("<goto " ++ l ++ "> jumps into the scope of a local")
        else resolve l slot rest
      else do* rest' <- resolve l slot rest; inr ((g, gslot) :: rest')
  end.

(* gotos leaving a nested block: resolved by a label already seen here, else pending here *)
Fixpoint merge_pending (inner : labels) (seen : labels) (nact : N) (pending : labels) : labels :=
  match inner with
  | [] => pending
  | (g, _) :: rest =>
      if has_label g seen then merge_pending rest seen nact pending
      else merge_pending rest seen nact ((g, nact) :: pending)
  end.

Definition out_of_fuel {A : Type} : wres A := inl "internal: lua_wf out of fuel".

Fixpoint wf_expr (d : dialect) (n : nat) (c : wctx) (e : expr) (w : wst) {struct n} : wres wst :=
  match n with
  | O => out_of_fuel
  | S n =>
      match e with
      | ENil | ETrue | EFalse | ENum _ _ | EStr _ => inr w
      | EVar x => reference d c x w
      | EIndex a k => do* w1 <- wf_expr d n c a w; wf_expr d n c k w1
      | ECall f args => do* w1 <- wf_expr d n c f w; wf_exprs d n c args w1
      | EFunc ps b => wf_func d n c ps b w
      | EBin _ a b => do* w1 <- wf_expr d n c a w; wf_expr d n c b w1
      | EUn _ a => wf_expr d n c a w
      | ETable fs => wf_fields d n c fs w
      | EParen a => wf_expr d n c a w
      end
  end

with wf_exprs (d : dialect) (n : nat) (c : wctx) (es : list expr) (w : wst) {struct n} : wres wst :=
  match n with
  | O => out_of_fuel
  | S n =>
      match es with
      | [] => inr w
      | e :: es' => do* w1 <- wf_expr d n c e w; wf_exprs d n c es' w1
      end
  end

with wf_fields (d : dialect) (n : nat) (c : wctx) (fs : list field) (w : wst) {struct n} : wres wst :=
  match n with
  | O => out_of_fuel
  | S n =>
      match fs with
      | [] => inr w
      | FPos e :: fs' => do* w1 <- wf_expr d n c e w; wf_fields d n c fs' w1
      | FKey k v :: fs' =>
          do* w1 <- wf_expr d n c k w;
          do* w2 <- wf_expr d n c v w1;
          wf_fields d n c fs' w2
      end
  end

(* a function literal in context c *)
with wf_func (d : dialect) (n : nat) (c : wctx) (ps : list string) (b : block) (w : wst) {struct n} : wres wst :=
  match n with
  | O => out_of_fuel
  | S n =>
      let c0 := mkCtx (x_scope c) (S (x_depth c)) 0%N false in
      do* (c1, w1) <- declare ps c0 (mkW (w_next w) ([] :: w_upv w));
      do* (_, pending, w2) <- wf_block d n c1 (x_nact c1) false b [] [] w1;
      match pending with
      | (l, _) :: _ => inl ("undefined label '" ++ l ++ "'")
      | [] => inr (mkW (w_next w2) (tl (w_upv w2)))
      end
  end

(* a nested block b entered in context ci (the enclosing statement list is in context c with the
   labels `seen` so far); `cond` is the until-condition of a repeat, checked in the scope at the end of b *)
with wf_sub (d : dialect) (n : nat) (c ci : wctx) (is_repeat : bool) (b : block) (cond : option expr)
            (seen pending : labels) (w : wst) {struct n} : wres (labels * wst) :=
  match n with
  | O => out_of_fuel
  | S n =>
      do* (cend, inner, w1) <- wf_block d n ci (x_nact ci) is_repeat b [] [] w;
      do* w2 <- (match cond with Some e => wf_expr d n cend e w1 | None => inr w1 end);
      inr (merge_pending inner seen (x_nact c) pending, w2)
  end

(* the statements of one block, in order.  entry = active locals when the block was entered;
   seen = labels of this block passed so far; pending = unresolved forward gotos.
   Returns the context at the end of the block, the gotos that leave it, and the state. *)
with wf_block (d : dialect) (n : nat) (c : wctx) (entry : N) (is_repeat : bool) (b : block) (seen pending : labels) (w : wst)
              {struct n} : wres (wctx * labels * wst) :=
  match n with
  | O => out_of_fuel
  | S n =>
      match b with
      | [] => inr (c, pending, w)
      | s :: rest =>
          let loop_ctx (ci : wctx) := mkCtx (x_scope ci) (x_depth ci) (x_nact ci) true in
          match s with
          | SLocal xs es =>
              do* w1 <- wf_exprs d n c es w;
              do* (c1, w2) <- declare xs c w1;
              wf_block d n c1 entry is_repeat rest seen pending w2
          | SAssign ts es =>
              do* w1 <- wf_exprs d n c ts w;
              do* w2 <- wf_exprs d n c es w1;
              wf_block d n c entry is_repeat rest seen pending w2
          | SCall f args =>
              do* w1 <- wf_expr d n c f w;
              do* w2 <- wf_exprs d n c args w1;
              wf_block d n c entry is_repeat rest seen pending w2
          | SLocalFun x ps fb =>
              do* (c1, w1) <- declare [x] c w;
              do* w2 <- wf_func d n c1 ps fb w1;
              wf_block d n c1 entry is_repeat rest seen pending w2
          | SDo blk =>
              do* (pending1, w1) <- wf_sub d n c c false blk None seen pending w;
              wf_block d n c entry is_repeat rest seen pending1 w1
          | SWhile cond blk =>
              do* w1 <- wf_expr d n c cond w;
              do* (pending1, w2) <- wf_sub d n c (loop_ctx c) false blk None seen pending w1;
              wf_block d n c entry is_repeat rest seen pending1 w2
          | SRepeat blk cond =>
              do* (pending1, w1) <- wf_sub d n c (loop_ctx c) true blk (Some cond) seen pending w;
              wf_block d n c entry is_repeat rest seen pending1 w1
          | SIf cond t e =>
              do* w1 <- wf_expr d n c cond w;
              do* (pending1, w2) <- wf_sub d n c c false t None seen pending w1;
              do* (pending2, w3) <- wf_sub d n c c false e None seen pending1 w2;
              wf_block d n c entry is_repeat rest seen pending2 w3
          | SNumFor x lo hi st blk =>
              do* w1 <- wf_expr d n c lo w;
              do* w2 <- wf_expr d n c hi w1;
              do* w3 <- (match st with Some e => wf_expr d n c e w2 | None => inr w2 end);
              do* (ci, w4) <- declare ["(for index)"; "(for limit)"; "(for step)"; x] c w3;
              do* (pending1, w5) <- wf_sub d n c (loop_ctx ci) false blk None seen pending w4;
              wf_block d n c entry is_repeat rest seen pending1 w5
          | SGenFor xs es blk =>
              do* w1 <- wf_exprs d n c es w;
              do* (ci, w2) <- declare ("(for generator)" :: "(for state)" :: "(for control)" :: xs) c w1;
              do* (pending1, w3) <- wf_sub d n c (loop_ctx ci) false blk None seen pending w2;
              wf_block d n c entry is_repeat rest seen pending1 w3
          | SReturn es =>
              match rest with
              | _ :: _ => inl "'return' is not the last statement of its block"
              | [] => do* w1 <- wf_exprs d n c es w; inr (c, pending, w1)
              end
          | SBreak =>
              match rest with
              | _ :: _ =>
                  if is53 d then
                    (if x_loop c then wf_block d n c entry is_repeat rest seen pending w
                     else inl "break outside a loop")
                  else inl "'break' is not the last statement of its block"
              | [] => if x_loop c then inr (c, pending, w)
                      else inl (if is53 d then "break outside a loop" else "no loop to break")
              end
          | SGoto l =>
              if has_label l seen then wf_block d n c entry is_repeat rest seen pending w
              else wf_block d n c entry is_repeat rest seen ((l, x_nact c) :: pending) w
          | SLabel l =>
              if has_label l seen then inl ("duplicate label '" ++ l ++ "'") else
              let slot := if only_labels rest && negb is_repeat then entry else x_nact c in
              do* pending1 <- resolve l slot pending;
              wf_block d n c entry is_repeat rest ((l, slot) :: seen) pending1 w
          end
      end
  end.

Definition wf_chunk (d : dialect) (fuel : nat) (b : block) : wf_result :=
  match wf_block d fuel (mkCtx [] O 0%N false) 0%N false b [] [] (mkW 0%N [[]]) with
  | inl m => WfBad m
  | inr (_, (l, _) :: _, _) => WfBad ("undefined label '" ++ l ++ "'")
  | inr (_, [], _) => WfOk
  end.

Definition lua_wf (d : dialect) (src : string) : wf_result :=
  match parse_lua d src with
  | ParseErr l m => WfBad ("line " ++ n_to_dec l ++ ": " ++ m)
  | ParseOk b => wf_chunk d (2 * String.length src + 100) b
  end.
