(* C14 nl_in_brackets, parser level: a simulation proof.
   For token lists of the expression fragment (no fn / pu / if / case), two inputs that differ only by
   comments anywhere and by newline tokens strictly inside ( ... ), [ ... ] or { ... } (any nesting) are parsed by
   `expression` to the same tree, or are both rejected.  [E] is the bracket-aware "equal up to insignificant
   tokens" relation on token lists; [rel] lifts it to parser contexts; the proof goes through every step
   function the expression parser can reach, using a relational reading of programs ([prel]). *)
From Coq Require Import List NArith Bool Arith Lia.
From Sylt Require Import Syntax.Ast Syntax.Tok Parse.PrecTable Parse.Parser Parse.ParserProofs Parse.Layout.
Import ListNotations.

Definition opener (t : tok) : bool :=
  match t with TK KLeftParen | TK KLeftBracket | TK KLeftBrace => true | _ => false end.
Definition closer (t : tok) : bool :=
  match t with TK KRightParen | TK KRightBracket | TK KRightBrace => true | _ => false end.
Definition frag_tok (t : tok) : bool :=
  match t with TK KFn | TK KPu | TK KIf | TK KCase => false | _ => true end.
Definition frag (ts : list tok) : Prop := Forall (fun t => frag_tok t = true) ts.

(* [E b s ts ts']: [b] is the skip_newlines flag in force, [s] the flags to be restored by the enclosing
   brackets.  Opening a bracket turns the flag on, closing it restores the saved flag. *)
Inductive E : bool -> list bool -> list tok -> list tok -> Prop :=
| E_nil b s : E b s [] []
| E_tok b s t ts ts' : opener t = false -> closer t = false -> trivia b t = false ->
    E b s ts ts' -> E b s (t :: ts) (t :: ts')
| E_open b s t ts ts' : opener t = true -> E true (b :: s) ts ts' -> E b s (t :: ts) (t :: ts')
| E_close b b0 s t ts ts' : closer t = true -> E b0 s ts ts' -> E b (b0 :: s) (t :: ts) (t :: ts')
| E_close0 b t ts ts' : closer t = true -> E b [] ts ts' -> E b [] (t :: ts) (t :: ts')
| E_trl b s t ts ts' : trivia b t = true -> E b s ts ts' -> E b s (t :: ts) ts'
| E_trr b s t ts ts' : trivia b t = true -> E b s ts ts' -> E b s ts (t :: ts').

Lemma E_sym b s ts ts' : E b s ts ts' -> E b s ts' ts.
Proof. induction 1; eauto using E. Qed.

Lemma E_refl ts : forall b s, E b s ts ts.
Proof.
  induction ts as [|t ts IH]; intros b s; [constructor|].
  destruct (trivia b t) eqn:Tr; [apply E_trl; [exact Tr|apply E_trr; [exact Tr|apply IH]]|].
  destruct (opener t) eqn:O; [apply E_open; [exact O|apply IH]|].
  destruct (closer t) eqn:Cl.
  - destruct s as [|b0 s]; [apply E_close0|apply E_close]; auto.
  - apply E_tok; auto.
Qed.

Lemma opener_not_trivia b t : opener t = true -> trivia b t = false.
Proof. destruct t as [| | | | | |k|]; try discriminate. destruct k; try discriminate; reflexivity. Qed.
Lemma closer_not_trivia b t : closer t = true -> trivia b t = false.
Proof. destruct t as [| | | | | |k|]; try discriminate. destruct k; try discriminate; reflexivity. Qed.

Lemma E_drop_l b s t ts ts' : E b s (t :: ts) ts' -> trivia b t = true -> E b s ts ts'.
Proof.
  intros H. remember (t :: ts) as l eqn:El. revert t ts El.
  induction H; intros t0 ts0 El Tr; try discriminate; inversion El; subst.
  - congruence.
  - rewrite (opener_not_trivia b t0 H) in Tr. discriminate.
  - rewrite (closer_not_trivia b t0 H) in Tr. discriminate.
  - rewrite (closer_not_trivia b t0 H) in Tr. discriminate.
  - exact H0.
  - apply E_trr; [exact H|]. eapply IHE; eauto.
Qed.

Lemma E_drop_r b s t ts ts' : E b s ts (t :: ts') -> trivia b t = true -> E b s ts ts'.
Proof. intros H Tr. apply E_sym. eapply E_drop_l; [apply E_sym; exact H|exact Tr]. Qed.

Lemma strip_drop b ts : forall p,
  snd (strip b ts p) = ts /\ (match ts with [] => True | t :: _ => trivia b t = false end)
  \/ exists t ts0, ts = t :: ts0 /\ trivia b t = true /\ snd (strip b ts p) = snd (strip b ts0 (t :: p)).
Proof.
  intros p. destruct ts as [|t ts]; [left; split; [reflexivity|exact I]|].
  destruct t as [s0|s0|z|s0|b0| |k|]; try (left; split; reflexivity).
  - right. exists TComment, ts. repeat split.
  - destruct k; try (left; split; reflexivity). destruct b.
    + right. exists (TK KNewline), ts. repeat split.
    + left. split; reflexivity.
Qed.

Lemma E_strip_l b s ts : forall ts' p, E b s ts ts' -> E b s (snd (strip b ts p)) ts'.
Proof.
  induction ts as [|t ts IH]; intros ts' p H; [exact H|].
  destruct (strip_drop b (t :: ts) p) as [[-> _]|(t0 & ts0 & Eq & Tr & ->)]; [exact H|].
  inversion Eq; subst. apply IH. eapply E_drop_l; eauto.
Qed.

Lemma E_strip b s ts ts' p p' : E b s ts ts' -> E b s (snd (strip b ts p)) (snd (strip b ts' p')).
Proof. intros H. apply E_strip_l. apply E_sym. apply E_strip_l. apply E_sym. exact H. Qed.

(* heads of settled lists agree, and the tails are related at the appropriate level *)
Definition tail_rel (b : bool) (s : list bool) (t : tok) (ts ts' : list tok) : Prop :=
  if opener t then E true (b :: s) ts ts'
  else if closer t then match s with b0 :: s0 => E b0 s0 ts ts' | [] => E b [] ts ts' end
  else E b s ts ts'.

Lemma closer_not_opener t : closer t = true -> opener t = false.
Proof. destruct t as [| | | | | |k|]; try discriminate. destruct k; try discriminate; reflexivity. Qed.

Lemma E_head b s t t' ts ts' : E b s (t :: ts) (t' :: ts') -> trivia b t = false -> trivia b t' = false ->
  t = t' /\ tail_rel b s t ts ts'.
Proof.
  intros H T1 T2. inversion H; subst; unfold tail_rel; try congruence; (split; [reflexivity|]);
    repeat match goal with
           | Hc : closer ?x = true |- context [opener ?x] => rewrite (closer_not_opener x Hc)
           | Ho : opener ?x = _ |- context [opener ?x] => rewrite Ho
           | Hc : closer ?x = _ |- context [closer ?x] => rewrite Hc
           end; assumption.
Qed.

Lemma E_nil_head b s t ts' : E b s [] (t :: ts') -> trivia b t = true.
Proof. intros H. inversion H; subst. assumption. Qed.

(* ---- contexts ---- *)

(* the last non-comment token behind the cursor (what Context::prev steps back onto) *)
Definition lastreal (c : ctx) : option tok := find not_comment (pre c).

Lemma strip_false_find : forall ts p, find not_comment (fst (strip false ts p)) = find not_comment p.
Proof.
  induction ts as [|t ts IH]; intros p; [reflexivity|]. cbn [strip].
  destruct t as [| | | | | |k|]; try reflexivity; [rewrite IH; reflexivity|].
  destruct k; reflexivity.
Qed.

Lemma skip1_lastreal c t ts : post c = t :: ts -> nl c = false -> t <> TComment -> lastreal (skip 1 c) = Some t.
Proof.
  intros Ep N Tc. unfold lastreal, skip. rewrite Ep, N. cbn [adv].
  assert (A : adv ts match t with TComment => 1 | _ => 0 end (t :: pre c) = (t :: pre c, ts, 0)).
  { destruct t; try (destruct ts; reflexivity). congruence. }
  rewrite A. pose proof (strip_false_find ts (t :: pre c)) as S0.
  destruct (strip false ts (t :: pre c)) as [p2 q2]. cbn [pre fst] in *. rewrite S0. cbn [find].
  destruct t; try reflexivity. congruence.
Qed.

Lemma skip0_lastreal c : nl c = false -> lastreal (skip 0 c) = lastreal c.
Proof.
  intros N. unfold lastreal, skip. rewrite N.
  assert (A : adv (post c) 0 (pre c) = (pre c, post c, 0)) by (destruct (post c); reflexivity).
  rewrite A. pose proof (strip_false_find (post c) (pre c)) as S0.
  destruct (strip false (post c) (pre c)) as [p2 q2]. cbn [pre fst] in *. exact S0.
Qed.

Lemma skip1_nil_lastreal c : post c = [] -> lastreal (skip 1 c) = lastreal c.
Proof. intros Ep. unfold lastreal, skip. rewrite Ep. reflexivity. Qed.

Lemma trivia_false_not_comment b t : trivia b t = false -> t <> TComment.
Proof. intros H ->. discriminate. Qed.

Record rel (b : bool) (s : list bool) (c c' : ctx) : Prop := {
  r_nl : nl c = b;
  r_nl' : nl c' = b;
  r_over : over c = over c';
  r_set : settled c;
  r_set' : settled c';
  r_E : E b s (post c) (post c');
  r_frag : frag (post c);
  r_frag' : frag (post c');
  (* while newlines count, both cursors have the same last real token behind them (with the flag on, a newline
     skipped inside brackets may be the last token behind one of them only) *)
  r_last : b = false -> lastreal c = lastreal c'
}.

Lemma rel_token b s c c' : rel b s c c' -> token c = token c'.
Proof.
  intros R. destruct R as [N N' _ S S' He _ _ _]. unfold token, settled in *. rewrite N in S. rewrite N' in S'.
  destruct (post c) as [|t ts], (post c') as [|t' ts']; try reflexivity.
  - apply E_nil_head in He. congruence.
  - apply E_sym in He. apply E_nil_head in He. congruence.
  - destruct (E_head b s t t' ts ts' He S S') as [-> _]. reflexivity.
Qed.

Lemma rel_is_k b s c c' k : rel b s c c' -> is_k k c = is_k k c'.
Proof. intros R. unfold is_k. rewrite (rel_token b s c c' R). reflexivity. Qed.

Lemma rel_frag_tok b s c c' : rel b s c c' -> frag_tok (token c) = true.
Proof.
  intros R. unfold token. destruct (post c) as [|t ts] eqn:Ep; [reflexivity|].
  pose proof (r_frag b s c c' R) as F. rewrite Ep in F. inversion F. assumption.
Qed.

(* ---- how skip moves ---- *)

Lemma strip_suffix b ts : forall p, exists l, ts = l ++ snd (strip b ts p).
Proof.
  induction ts as [|t ts IH]; intros p; [exists []; reflexivity|].
  destruct (strip_drop b (t :: ts) p) as [[-> _]|(t0 & ts0 & Eq & _ & ->)]; [exists []; reflexivity|].
  inversion Eq; subst. destruct (IH (t0 :: p)) as [l Hl]. exists (t0 :: l). cbn [app]. rewrite <- Hl. reflexivity.
Qed.

Lemma strip_frag b ts p : frag ts -> frag (snd (strip b ts p)).
Proof.
  intros F. destruct (strip_suffix b ts p) as [l Hl]. unfold frag in *. rewrite Hl in F.
  apply Forall_app in F. apply F.
Qed.

Lemma strip_len b ts p : length (snd (strip b ts p)) <= length ts.
Proof. destruct (strip_suffix b ts p) as [l Hl]. rewrite Hl at 2. rewrite app_length. lia. Qed.

Lemma strip_head b ts p : match snd (strip b ts p) with [] => True | t :: _ => trivia b t = false end.
Proof. apply (strip_spec b ts p). Qed.

Lemma skip1_cons c t ts : post c = t :: ts -> trivia (nl c) t = false ->
  post (skip 1 c) = snd (strip (nl c) ts (t :: pre c)) /\ over (skip 1 c) = over c /\ nl (skip 1 c) = nl c.
Proof.
  intros Ep Tr. unfold skip. rewrite Ep. cbn [adv].
  assert (A : adv ts match t with TComment => 1 | _ => 0 end (t :: pre c) = (t :: pre c, ts, 0)).
  { destruct t; try (destruct ts; reflexivity). discriminate. }
  rewrite A. destruct (strip (nl c) ts (t :: pre c)) as [p2 q2]. cbn [post over nl snd]. repeat split. lia.
Qed.

Lemma skip1_nil c : post c = [] ->
  post (skip 1 c) = [] /\ over (skip 1 c) = over c + 1 /\ nl (skip 1 c) = nl c.
Proof. intros Ep. unfold skip. rewrite Ep. cbn [adv strip post over nl]. repeat split. Qed.

Lemma skip0_post c : post (skip 0 c) = snd (strip (nl c) (post c) (pre c)) /\ over (skip 0 c) = over c /\ nl (skip 0 c) = nl c.
Proof.
  unfold skip. assert (A : adv (post c) 0 (pre c) = (pre c, post c, 0)) by (destruct (post c); reflexivity).
  rewrite A. destruct (strip (nl c) (post c) (pre c)) as [p2 q2]. cbn [post over nl snd]. repeat split. lia.
Qed.

Lemma trivia_mono b1 b2 t : (b2 = true -> b1 = true) -> trivia b2 t = true -> trivia b1 t = true.
Proof.
  intros M. destruct t as [| | | | | |k|]; try discriminate; try reflexivity.
  destruct k; try discriminate. cbn [trivia]. exact M.
Qed.

Lemma E_strip_l2 b1 b2 s ts : (b2 = true -> b1 = true) -> forall ts' p, E b1 s ts ts' -> E b1 s (snd (strip b2 ts p)) ts'.
Proof.
  intros M. induction ts as [|t ts IH]; intros ts' p H; [exact H|].
  destruct (strip_drop b2 (t :: ts) p) as [[-> _]|(t0 & ts0 & Eq & Tr & ->)]; [exact H|].
  inversion Eq; subst. apply IH. eapply E_drop_l; [exact H|]. eapply trivia_mono; eauto.
Qed.

Lemma E_strip2 b1 b2 s ts ts' p p' : (b2 = true -> b1 = true) ->
  E b1 s ts ts' -> E b1 s (snd (strip b2 ts p)) (snd (strip b2 ts' p')).
Proof.
  intros M H. apply E_strip_l2; [exact M|]. apply E_sym. apply E_strip_l2; [exact M|]. apply E_sym. exact H.
Qed.

(* decomposition of two related, settled contexts *)
Lemma rel_cases b s c c' : rel b s c c' ->
  (post c = [] /\ post c' = []) \/
  exists t ts ts', post c = t :: ts /\ post c' = t :: ts' /\ trivia b t = false /\ tail_rel b s t ts ts'
                   /\ frag ts /\ frag ts'.
Proof.
  intros [N N' _ S S' He F F' _]. unfold settled in *. rewrite N in S. rewrite N' in S'.
  destruct (post c) as [|t ts], (post c') as [|t' ts'].
  - left. split; reflexivity.
  - apply E_nil_head in He. congruence.
  - apply E_sym in He. apply E_nil_head in He. congruence.
  - destruct (E_head b s t t' ts ts' He S S') as [<- Tl]. right. exists t, ts, ts'.
    inversion F; inversion F'; subst. repeat split; assumption.
Qed.

Lemma settled_strip b ts p o : settled (mkctx (fst (strip b ts p)) (snd (strip b ts p)) o b).
Proof. unfold settled. cbn [post nl]. apply strip_head. Qed.

Lemma settled_of c : match post c with [] => True | t :: _ => trivia (nl c) t = false end -> settled c.
Proof. trivial. Qed.

(* skip(1) over an ordinary token *)
Lemma rel_skip_plain b s c c' : rel b s c c' -> opener (token c) = false -> closer (token c) = false ->
  rel b s (skip 1 c) (skip 1 c').
Proof.
  intros R O Cl. pose proof R as [N N' Ov _ _ _ _ _ RL].
  destruct (rel_cases b s c c' R) as [[Ep Ep']|(t & ts & ts' & Ep & Ep' & Tr & Tl & F & F')].
  - destruct (skip1_nil c Ep) as (A1 & A2 & A3). destruct (skip1_nil c' Ep') as (B1 & B2 & B3).
    constructor; try congruence.
    + apply skip_settled.
    + apply skip_settled.
    + rewrite A1, B1. constructor.
    + rewrite A1. constructor.
    + rewrite B1. constructor.
    + intros Hb. rewrite (skip1_nil_lastreal c Ep), (skip1_nil_lastreal c' Ep'). apply RL. exact Hb.
  - unfold token in O, Cl. rewrite Ep in O, Cl. unfold tail_rel in Tl. rewrite O, Cl in Tl.
    destruct (skip1_cons c t ts Ep) as (A1 & A2 & A3); [rewrite N; exact Tr|].
    destruct (skip1_cons c' t ts' Ep') as (B1 & B2 & B3); [rewrite N'; exact Tr|].
    constructor; try congruence.
    + apply skip_settled.
    + apply skip_settled.
    + rewrite A1, B1, N, N'. apply E_strip. exact Tl.
    + rewrite A1. apply strip_frag. exact F.
    + rewrite B1. apply strip_frag. exact F'.
    + intros Hb.
      rewrite (skip1_lastreal c t ts Ep (eq_trans N Hb) (trivia_false_not_comment _ _ Tr)),
              (skip1_lastreal c' t ts' Ep' (eq_trans N' Hb) (trivia_false_not_comment _ _ Tr)). reflexivity.
Qed.

(* `(` / `[` followed by push_skip_newlines(true) *)
Lemma rel_enter b s c c' : rel b s c c' -> opener (token c) = true ->
  rel true (b :: s) (fst (push_nl true (skip 1 c))) (fst (push_nl true (skip 1 c')))
  /\ snd (push_nl true (skip 1 c)) = b /\ snd (push_nl true (skip 1 c')) = b.
Proof.
  intros R O. pose proof R as [N N' Ov _ _ _ _ _ RL].
  destruct (rel_cases b s c c' R) as [[Ep Ep']|(t & ts & ts' & Ep & Ep' & Tr & Tl & F & F')].
  - unfold token in O. rewrite Ep in O. discriminate.
  - unfold token in O. rewrite Ep in O. unfold tail_rel in Tl. rewrite O in Tl.
    destruct (skip1_cons c t ts Ep) as (A1 & A2 & A3); [rewrite N; exact Tr|].
    destruct (skip1_cons c' t ts' Ep') as (B1 & B2 & B3); [rewrite N'; exact Tr|].
    unfold push_nl. cbn [fst snd]. split; [|split; congruence].
    destruct (skip0_post (set_nl true (skip 1 c))) as (C1 & C2 & C3).
    destruct (skip0_post (set_nl true (skip 1 c'))) as (D1 & D2 & D3).
    cbn [set_nl post pre over nl] in C1, C2, C3, D1, D2, D3.
    constructor; try congruence.
    + apply skip_settled.
    + apply skip_settled.
    + rewrite C1, D1, A1, B1, N, N'. apply E_strip. apply E_strip2; [intros _; reflexivity|]. exact Tl.
    + rewrite C1, A1. apply strip_frag. apply strip_frag. exact F.
    + rewrite D1, B1. apply strip_frag. apply strip_frag. exact F'.
Qed.

(* pop_skip_newlines(saved) followed by `)` / `]` *)
Lemma rel_leave b b0 s c c' : rel b (b0 :: s) c c' -> closer (token c) = true ->
  rel b0 s (skip 1 (pop_nl b0 c)) (skip 1 (pop_nl b0 c')).
Proof.
  intros R Cl. pose proof R as [N N' Ov _ _ _ _ _ RL].
  destruct (rel_cases b (b0 :: s) c c' R) as [[Ep Ep']|(t & ts & ts' & Ep & Ep' & Tr & Tl & F & F')].
  - unfold token in Cl. rewrite Ep in Cl. discriminate.
  - unfold token in Cl. rewrite Ep in Cl. unfold tail_rel in Tl.
    rewrite (closer_not_opener t Cl), Cl in Tl.
    assert (Tr0 : trivia b0 t = false) by (apply closer_not_trivia; exact Cl).
    destruct (skip1_cons (pop_nl b0 c) t ts Ep) as (A1 & A2 & A3); [exact Tr0|].
    destruct (skip1_cons (pop_nl b0 c') t ts' Ep') as (B1 & B2 & B3); [exact Tr0|].
    cbn [pop_nl set_nl post pre over nl] in A1, A2, A3, B1, B2, B3.
    constructor; try congruence.
    + apply skip_settled.
    + apply skip_settled.
    + rewrite A1, B1. apply E_strip. exact Tl.
    + rewrite A1. apply strip_frag. exact F.
    + rewrite B1. apply strip_frag. exact F'.
    + intros Hb. rewrite Hb in *.
      rewrite (skip1_lastreal (pop_nl false c) t ts Ep eq_refl (trivia_false_not_comment _ _ Tr0)),
              (skip1_lastreal (pop_nl false c') t ts' Ep' eq_refl (trivia_false_not_comment _ _ Tr0)). reflexivity.
Qed.

(* push_skip_newlines with the flag already in force, and the matching pop *)
Lemma rel_push_same b s c c' : rel b s c c' ->
  rel b s (fst (push_nl b c)) (fst (push_nl b c')) /\ snd (push_nl b c) = b /\ snd (push_nl b c') = b.
Proof.
  intros R. pose proof R as [N N' Ov S S' He F F' RL]. unfold push_nl. cbn [fst snd]. split; [|split; assumption].
  destruct (skip0_post (set_nl b c)) as (C1 & C2 & C3). destruct (skip0_post (set_nl b c')) as (D1 & D2 & D3).
  cbn [set_nl post pre over nl] in C1, C2, C3, D1, D2, D3.
  constructor; try congruence.
  - apply skip_settled.
  - apply skip_settled.
  - rewrite C1, D1. apply E_strip. exact He.
  - rewrite C1. apply strip_frag. exact F.
  - rewrite D1. apply strip_frag. exact F'.
  - intros Hb. rewrite Hb. rewrite (skip0_lastreal (set_nl false c) eq_refl), (skip0_lastreal (set_nl false c') eq_refl).
    apply RL. exact Hb.
Qed.

Lemma rel_pop_same b s c c' : rel b s c c' -> rel b s (pop_nl b c) (pop_nl b c').
Proof.
  intros [N N' Ov S S' He F F' RL]. unfold pop_nl, set_nl.
  constructor; cbn [post pre over nl]; try assumption; try reflexivity.
  - unfold settled in *. cbn [post nl]. rewrite N in S. exact S.
  - unfold settled in *. cbn [post nl]. rewrite N' in S'. exact S'.
Qed.

Lemma rel_skip_if b s c c' k : rel b s c c' -> opener (TK k) = false -> closer (TK k) = false ->
  rel b s (skip_if k c) (skip_if k c').
Proof.
  intros R O Cl. unfold skip_if. rewrite <- (rel_is_k b s c c' k R).
  destruct (is_k k c) eqn:Ek; [|exact R].
  apply rel_skip_plain; [exact R| |]; unfold is_k in Ek; destruct (token c) as [| | | | | |k0|]; try discriminate;
    cbn [tok_is] in Ek; destruct k, k0; try discriminate; assumption.
Qed.

(* ---- skip_while!(Newline), after_arg ---- *)

Lemma skip1_len c : post c <> [] -> settled c -> length (post (skip 1 c)) < length (post c).
Proof.
  intros Ne S. destruct (post c) as [|t ts] eqn:Ep; [congruence|].
  unfold settled in S. rewrite Ep in S. destruct (skip1_cons c t ts Ep S) as (A1 & _). rewrite A1.
  pose proof (strip_len (nl c) ts (t :: pre c)). cbn [length]. lia.
Qed.

Lemma newline_plain : opener (TK KNewline) = false /\ closer (TK KNewline) = false.
Proof. split; reflexivity. Qed.

Lemma is_k_token k c : is_k k c = true -> token c = TK k.
Proof.
  unfold is_k. destruct (token c) as [| | | | | |k0|]; try discriminate. cbn [tok_is].
  destruct k, k0; try discriminate; reflexivity.
Qed.

Lemma token_nonempty c k : token c = TK k -> post c <> [].
Proof. unfold token. destruct (post c); [discriminate|discriminate]. Qed.

Lemma rel_skip_while b s : forall f f' c c', rel b s c c' ->
  length (post c) < f -> length (post c') < f' ->
  rel b s (skip_while_nl f c) (skip_while_nl f' c').
Proof.
  induction f as [|f IH]; intros f' c c' R L L'; [lia|]. destruct f' as [|f']; [lia|].
  cbn [skip_while_nl]. rewrite <- (rel_is_k b s c c' KNewline R).
  destruct (is_k KNewline c) eqn:Ek; [|exact R].
  pose proof (is_k_token _ _ Ek) as Tk. pose proof (rel_token b s c c' R) as Tk'.
  assert (R1 : rel b s (skip 1 c) (skip 1 c')) by (apply rel_skip_plain; [exact R| |]; rewrite Tk; reflexivity).
  apply IH; [exact R1| |].
  - pose proof (skip1_len c (token_nonempty c _ Tk) (r_set b s c c' R)). lia.
  - rewrite Tk' in Tk. pose proof (skip1_len c' (token_nonempty c' _ Tk) (r_set' b s c c' R)). lia.
Qed.

Lemma rel_skip_nls b s c c' : rel b s c c' -> rel b s (skip_nls c) (skip_nls c').
Proof. intros R. unfold skip_nls, local_fuel. apply rel_skip_while; [exact R|lia|lia]. Qed.

Lemma skip_nls_stay c : is_k KNewline c = false -> skip_nls c = c.
Proof. intros H. unfold skip_nls, local_fuel. cbn [skip_while_nl]. rewrite H. reflexivity. Qed.

Lemma rel_after_arg b s c c' : rel b s c c' -> rel b s (after_arg c) (after_arg c').
Proof.
  intros R. unfold after_arg.
  pose proof (rel_skip_nls b s c c' R) as Rn.
  rewrite <- (rel_token b s c c' R), <- (rel_token b s _ _ Rn).
  destruct (tok_is KComma (token c) || tok_is KNewline (token c) && tok_is KComma (token (skip_nls c))) eqn:Cd;
    [|exact R].
  apply rel_skip_nls. apply rel_skip_plain; [exact Rn| |].
  - assert (Tk : token (skip_nls c) = TK KComma).
    { apply orb_prop in Cd. destruct Cd as [Cd|Cd].
      - rewrite skip_nls_stay; [apply is_k_token; exact Cd|].
        unfold is_k. apply (is_k_token KComma c) in Cd. rewrite Cd. reflexivity.
      - apply andb_prop in Cd. apply is_k_token. exact (proj2 Cd). }
    rewrite Tk. reflexivity.
  - assert (Tk : token (skip_nls c) = TK KComma).
    { apply orb_prop in Cd. destruct Cd as [Cd|Cd].
      - rewrite skip_nls_stay; [apply is_k_token; exact Cd|].
        unfold is_k. apply (is_k_token KComma c) in Cd. rewrite Cd. reflexivity.
      - apply andb_prop in Cd. apply is_k_token. exact (proj2 Cd). }
    rewrite Tk. reflexivity.
Qed.

(* ---- the blob probe: type_assignable never runs out of its local fuel, and never finds a `{` ---- *)

Lemma skip_frag n c : frag (post c) -> frag (post (skip n c)).
Proof.
  intros F. unfold skip.
  assert (A : forall (q : list tok) n0 pre0, exists l, q = l ++ snd (fst (adv q n0 pre0))).
  { induction q as [|t ts IH]; intros n0 pre0.
    - destruct n0; exists []; reflexivity.
    - destruct n0; [exists []; reflexivity|]. cbn [adv].
      destruct (IH (match t with TComment => S n0 | _ => n0 end) (t :: pre0)) as [l Hl].
      exists (t :: l). cbn [app]. rewrite <- Hl. reflexivity. }
  destruct (A (post c) n (pre c)) as [l Hl].
  destruct (adv (post c) n (pre c)) as [[p1 q1] l1]. cbn [fst snd] in Hl.
  pose proof (strip_frag (nl c) q1 p1) as Sf. destruct (strip (nl c) q1 p1) as [p2 q2]. cbn [snd post] in *.
  apply Sf. unfold frag in *. rewrite Hl in F. apply Forall_app in F. apply F.
Qed.

Lemma skip_len_le n c : length (post (skip n c)) <= length (post c).
Proof.
  unfold skip.
  assert (A : forall (q : list tok) n0 pre0, length (snd (fst (adv q n0 pre0))) <= length q).
  { induction q as [|t ts IH]; intros n0 pre0.
    - destruct n0; cbn; lia.
    - destruct n0; [cbn; lia|]. cbn [adv length].
      specialize (IH (match t with TComment => S n0 | _ => n0 end) (t :: pre0)). lia. }
  specialize (A (post c) n (pre c)). destruct (adv (post c) n (pre c)) as [[p1 q1] l1]. cbn [fst snd] in A.
  pose proof (strip_len (nl c) q1 p1) as Sl. destruct (strip (nl c) q1 p1) as [p2 q2]. cbn [snd post] in *. lia.
Qed.

Lemma skip1_len_tok c : post c <> [] -> token c <> TComment -> length (post (skip 1 c)) < length (post c).
Proof.
  intros Ne Tk. unfold skip, token in *. destruct (post c) as [|t ts]; [congruence|]. cbn [adv].
  assert (A : adv ts match t with TComment => 1 | _ => 0 end (t :: pre c) = (t :: pre c, ts, 0)).
  { destruct t; try (destruct ts; reflexivity). congruence. }
  rewrite A. pose proof (strip_len (nl c) ts (t :: pre c)) as Sl.
  destruct (strip (nl c) ts (t :: pre c)) as [p2 q2]. cbn [snd post length] in *. lia.
Qed.

(* type_assignable on related contexts: same type path, related cursors (the local fuels differ) *)
Definition TAR b s (x x' : tyass * ctx) : Prop := fst x = fst x' /\ rel b s (snd x) (snd x').

Definition resrel0 {A : Type} (RA : A -> A -> Prop) (r r' : res A) : Prop :=
  match r, r' with
  | Ok a, Ok a' => RA a a'
  | Err _ _, Err _ _ => True
  | Fuel, Fuel => True
  | Panic, Panic => True
  | _, _ => False
  end.

Lemma expect_rel_plain b s c c' k : rel b s c c' -> opener (TK k) = false -> closer (TK k) = false ->
  resrel0 (rel b s) (expect k c) (expect k c').
Proof.
  intros R O Cl. unfold expect. rewrite <- (rel_is_k b s c c' k R).
  destruct (is_k k c) eqn:Ek; [|exact I]. cbn [resrel0].
  apply rel_skip_plain; [exact R| |]; rewrite (is_k_token _ _ Ek); assumption.
Qed.

Lemma ident_nonempty c n : token c = TIdent n -> post c <> [].
Proof. unfold token. destruct (post c); [discriminate|intros _; discriminate]. Qed.

Lemma ta_inner_rel b s : forall f f' c c' acc, rel b s c c' ->
  length (post c) < f -> length (post c') < f' ->
  resrel0 (TAR b s) (type_assignable_inner f c acc) (type_assignable_inner f' c' acc).
Proof.
  induction f as [|f IH]; intros f' c c' acc R L L'; [lia|]. destruct f' as [|f']; [lia|].
  cbn [type_assignable_inner]. pose proof (rel_token b s c c' R) as Tk'. rewrite <- Tk'.
  destruct (token c) as [n| | | | | | |] eqn:Tk; try (split; [reflexivity|exact R]).
  assert (R1 : rel b s (skip 1 c) (skip 1 c')) by (apply rel_skip_plain; [exact R| |]; rewrite Tk; reflexivity).
  destruct (is_capitalized n); [split; [reflexivity|exact R1]|].
  unfold expect. rewrite <- (rel_is_k b s _ _ KDot R1).
  destruct (is_k KDot (skip 1 c)) eqn:Ed; [|exact I]. cbn [bind].
  assert (R2 : rel b s (skip 1 (skip 1 c)) (skip 1 (skip 1 c')))
    by (apply rel_skip_plain; [exact R1| |]; rewrite (is_k_token _ _ Ed); reflexivity).
  apply IH; [exact R2| |].
  - pose proof (skip1_len_tok c (ident_nonempty c n Tk) ltac:(rewrite Tk; discriminate)).
    pose proof (skip_len_le 1 (skip 1 c)). lia.
  - symmetry in Tk'.
    pose proof (skip1_len_tok c' (ident_nonempty c' n Tk') ltac:(rewrite Tk'; discriminate)).
    pose proof (skip_len_le 1 (skip 1 c')). lia.
Qed.

Lemma ta_rel b s c c' : rel b s c c' -> resrel0 (TAR b s) (type_assignable c) (type_assignable c').
Proof.
  intros R. unfold type_assignable. pose proof (rel_token b s c c' R) as Tk'. rewrite <- Tk'.
  destruct (token c) as [n| | | | | | |] eqn:Tk; try exact I.
  assert (R1 : rel b s (skip 1 c) (skip 1 c')) by (apply rel_skip_plain; [exact R| |]; rewrite Tk; reflexivity).
  destruct (is_capitalized n); [split; [reflexivity|exact R1]|].
  unfold expect. rewrite <- (rel_is_k b s _ _ KDot R1).
  destruct (is_k KDot (skip 1 c)) eqn:Ed; [|exact I]. cbn [bind].
  assert (R2 : rel b s (skip 1 (skip 1 c)) (skip 1 (skip 1 c')))
    by (apply rel_skip_plain; [exact R1| |]; rewrite (is_k_token _ _ Ed); reflexivity).
  apply ta_inner_rel; [exact R2| |]; unfold local_fuel.
  - pose proof (skip_len_le 1 (skip 1 c)). pose proof (skip_len_le 1 c). lia.
  - pose proof (skip_len_le 1 (skip 1 c')). pose proof (skip_len_le 1 c'). lia.
Qed.

(* ------------------------------------------------------------------------------------------- *)
(* programs, relationally *)

Definition qrel (b : bool) (s : list bool) (q q' : req) : Prop :=
  match q, q' with
  | QPrec p c, QPrec p' c' => p = p' /\ rel b s c c'
  | QLoop p l c, QLoop p' l' c' => p = p' /\ l = l' /\ rel b s c c'
  | QSub a c, QSub a' c' => a = a' /\ rel b s c c'
  | QArgs pr acc c, QArgs pr' acc' c' => pr = pr' /\ acc = acc' /\ rel b s c c'
  | QTuple i acc c, QTuple i' acc' c' => i = i' /\ acc = acc' /\ rel b s c c'
  | QList acc c, QList acc' c' => acc = acc' /\ rel b s c c'
  | QFields acc c, QFields acc' c' => acc = acc' /\ rel b s c c'
  | _, _ => False
  end.

Definition orel (b : bool) (s : list bool) (o o' : out) : Prop :=
  match o, o' with
  | RE e c, RE e' c' => e = e' /\ rel b s c c'
  | RA a c, RA a' c' => a = a' /\ rel b s c c'
  | REs es c, REs es' c' => es = es' /\ rel b s c c'
  | RTup i es c, RTup i' es' c' => i = i' /\ es = es' /\ rel b s c c'
  | RFs fs c, RFs fs' c' => fs = fs' /\ rel b s c c'
  | _, _ => False
  end.

Definition resrel {A : Type} (RA : A -> A -> Prop) (r r' : res A) : Prop :=
  match r, r' with
  | Ok a, Ok a' => RA a a'
  | Err _ _, Err _ _ => True
  | Fuel, Fuel => True
  | Panic, Panic => True
  | _, _ => False
  end.

Inductive prel {A : Type} (RA : A -> A -> Prop) : prog A -> prog A -> Prop :=
| prel_ret r r' : resrel RA r r' -> prel RA (Ret r) (Ret r')
| prel_call b s q q' k k' e e' :
    qrel b s q q' -> (forall o o', orel b s o o' -> prel RA (k o) (k' o')) ->
    (forall c es c' es', prel RA (e c es) (e' c' es')) ->
    prel RA (Call q k e) (Call q' k' e').

Lemma run_rel {A : Type} (RA : A -> A -> Prop) (rec rec' : req -> res out) :
  (forall b s q q', qrel b s q q' -> resrel (orel b s) (rec q) (rec' q')) ->
  forall m m', prel RA m m' -> resrel RA (run rec m) (run rec' m').
Proof.
  intros HR m m' H. induction H as [r r' Hr|b s q q' k k' e e' Hq Hk IHk He IHe].
  - exact Hr.
  - cbn [run]. specialize (HR b s q q' Hq). unfold resrel in HR.
    destruct (rec q) as [o|c es| |], (rec' q') as [o'|c' es'| |]; try contradiction; try exact I.
    + apply IHk. exact HR.
    + apply IHe.
Qed.

Lemma ptry_rel {A B : Type} (RA : A -> A -> Prop) (RB : B -> B -> Prop) m m' (k k' : A -> prog B)
  (e e' : ctx -> list nat -> prog B) :
  prel RA m m' -> (forall a a', RA a a' -> prel RB (k a) (k' a')) ->
  (forall c es c' es', prel RB (e c es) (e' c' es')) ->
  prel RB (ptry m k e) (ptry m' k' e').
Proof.
  intros H Hk He. induction H as [r r' Hr|b s q q' k0 k0' e0 e0' Hq Hk0 IHk He0 IHe].
  - destruct r as [a|c es| |], r' as [a'|c' es'| |]; try contradiction; cbn [ptry].
    + apply Hk. exact Hr.
    + apply He.
    + constructor. exact I.
    + constructor. exact I.
  - cbn [ptry]. econstructor; [exact Hq| |]; [intros o o' Ho; apply IHk; exact Ho|].
    intros c es c' es'. apply IHe.
Qed.

Lemma prel_ok {A : Type} (RA : A -> A -> Prop) a a' : RA a a' -> prel RA (ok a) (ok a').
Proof. intros H. constructor. exact H. Qed.
(* two errors are related whatever they carry *)
Lemma prel_raise {A : Type} (RA : A -> A -> Prop) c c' : prel RA (praise c) (praise c').
Proof. constructor. exact I. Qed.
Lemma prel_reraise {A : Type} (RA : A -> A -> Prop) c es c' es' : prel RA (reraise c es) (reraise c' es').
Proof. constructor. exact I. Qed.
Lemma prel_panic {A : Type} (RA : A -> A -> Prop) : prel RA panic panic.
Proof. constructor. exact I. Qed.
Ltac rr := first [apply prel_raise | apply prel_panic | (intros; apply prel_reraise)].

Definition ER b s (x x' : expr * ctx) : Prop := fst x = fst x' /\ rel b s (snd x) (snd x').
Definition AR b s (x x' : assignable * ctx) : Prop := fst x = fst x' /\ rel b s (snd x) (snd x').
Definition EsR b s (x x' : list expr * ctx) : Prop := fst x = fst x' /\ rel b s (snd x) (snd x').
Definition TupR b s (x x' : bool * list expr * ctx) : Prop := fst x = fst x' /\ rel b s (snd x) (snd x').
Definition FsR b s (x x' : list (name * expr) * ctx) : Prop := fst x = fst x' /\ rel b s (snd x) (snd x').
Definition CR b s (c c' : ctx) : Prop := rel b s c c'.

Lemma call_rel b s q q' : qrel b s q q' -> prel (orel b s) (call q) (call q').
Proof. intros H. unfold call. econstructor; [exact H| |rr]. intros o o' Ho. apply prel_ok. exact Ho. Qed.

Lemma call_E_rel b s q q' : qrel b s q q' -> prel (ER b s) (call_E q) (call_E q').
Proof.
  intros H. unfold call_E. econstructor; [exact H| |rr]. intros o o' Ho.
  destruct o, o'; try contradiction; cbn [get_E]; try apply prel_panic. apply prel_ok. exact Ho.
Qed.

Lemma call_A_rel b s q q' : qrel b s q q' -> prel (AR b s) (call_A q) (call_A q').
Proof.
  intros H. unfold call_A. econstructor; [exact H| |rr]. intros o o' Ho.
  destruct o, o'; try contradiction; cbn [get_A]; try apply prel_panic. apply prel_ok. exact Ho.
Qed.

Lemma call_Es_rel b s q q' : qrel b s q q' -> prel (EsR b s) (call_Es q) (call_Es q').
Proof.
  intros H. unfold call_Es. econstructor; [exact H| |rr]. intros o o' Ho.
  destruct o, o'; try contradiction; cbn [get_Es]; try apply prel_panic. apply prel_ok. exact Ho.
Qed.

Lemma call_Fs_rel b s q q' : qrel b s q q' -> prel (FsR b s) (call_Fs q) (call_Fs q').
Proof.
  intros H. unfold call_Fs. econstructor; [exact H| |rr]. intros o o' Ho.
  destruct o, o'; try contradiction; cbn [get_Fs]; try apply prel_panic. apply prel_ok. exact Ho.
Qed.

Lemma call_Tup_rel b s q q' : qrel b s q q' -> prel (TupR b s) (call_Tup q) (call_Tup q').
Proof.
  intros H. unfold call_Tup. econstructor; [exact H| |rr]. intros o o' Ho.
  destruct o, o'; try contradiction; cbn [get_Tup]; try apply prel_panic. apply prel_ok.
  destruct Ho as (-> & -> & R). split; [reflexivity|exact R].
Qed.

(* ------------------------------------------------------------------------------------------- *)
(* every step function of the expression parser preserves the relation *)

Definition bracket_sane (T : ptab) : Prop :=
  forall t, opener t = true \/ closer t = true -> pt_unary T t = None /\ pt_bin T t = None.

Section Sim.
Variable T : ptab.
Hypothesis sane : bracket_sane T.

Lemma expression_rel b s c c' : rel b s c c' -> prel (ER b s) (expression T c) (expression T c').
Proof. intros R. unfold expression. apply call_E_rel. split; [reflexivity|exact R]. Qed.

Lemma pexpect_rel_plain b s c c' k : rel b s c c' -> opener (TK k) = false -> closer (TK k) = false ->
  prel (CR b s) (pexpect k c) (pexpect k c').
Proof.
  intros R O Cl. unfold pexpect, expect. rewrite <- (rel_is_k b s c c' k R).
  destruct (is_k k c) eqn:Ek; constructor; [|exact I].
  apply rel_skip_plain; [exact R| |]; rewrite (is_k_token _ _ Ek); assumption.
Qed.

(* pop_skip_newlines(saved); expect!(closer) *)
Lemma pexpect_leave b b0 s c c' k : rel b (b0 :: s) c c' -> closer (TK k) = true ->
  prel (CR b0 s) (pexpect k (pop_nl b0 c)) (pexpect k (pop_nl b0 c')).
Proof.
  intros R Cl. unfold pexpect, expect.
  unfold is_k. change (token (pop_nl b0 c)) with (token c). change (token (pop_nl b0 c')) with (token c').
  rewrite <- (rel_token _ _ _ _ R). fold (is_k k c).
  destruct (is_k k c) eqn:Ek; constructor; [|exact I].
  apply (rel_leave b); [exact R|]. rewrite (is_k_token _ _ Ek). exact Cl.
Qed.

Lemma step_args_rel b s pr acc c c' : rel b s c c' ->
  prel (orel b s) (step_args T pr acc c) (step_args T pr acc c').
Proof.
  intros R. unfold step_args. rewrite <- (rel_token b s c c' R).
  assert (D : prel (orel b s)
    (ptry (expression T c) (fun '(e, c1) => call (QArgs pr (acc ++ [e]) (after_arg c1)))
          (fun c0 es => if pr then ok (REs acc c) else reraise c0 es))
    (ptry (expression T c') (fun '(e, c1) => call (QArgs pr (acc ++ [e]) (after_arg c1)))
          (fun c0 es => if pr then ok (REs acc c') else reraise c0 es))).
  { apply (ptry_rel (ER b s)); [apply expression_rel; exact R| |].
    - intros [e c1] [e' c1'] [He Rc]. cbn [fst snd] in He, Rc. subst e'. apply call_rel.
      repeat (split; [reflexivity|]). apply rel_after_arg. exact Rc.
    - intros c0 es c0' es'. destruct pr; [apply prel_ok; split; [reflexivity|exact R]|apply prel_reraise]. }
  destruct (token c) as [| | | | | |k|]; try exact D.
  - destruct k; try exact D. apply prel_ok. split; [reflexivity|exact R].
  - apply prel_ok. split; [reflexivity|exact R].
Qed.

Lemma comma_plain : opener (TK KComma) = false /\ closer (TK KComma) = false.
Proof. split; reflexivity. Qed.

Lemma step_tuple_rel b s i acc c c' : rel b s c c' ->
  prel (orel b s) (step_tuple T i acc c) (step_tuple T i acc c').
Proof.
  intros R0. unfold step_tuple.
  pose proof (rel_skip_if b s c c' KComma R0 eq_refl eq_refl) as R.
  set (d := skip_if KComma c) in *. set (d' := skip_if KComma c') in *.
  rewrite <- (rel_token b s d d' R).
  assert (D : prel (orel b s)
    (ptry (expression T d)
       (fun '(e, c1) => let is_tuple' := i || is_k KComma c1 in
          if is_tuple' then if is_k KComma c1 || is_k KRightParen c1
                            then call (QTuple true (acc ++ [e]) (skip_if KComma c1)) else praise c1
          else ok (RTup false (acc ++ [e]) c1)) reraise)
    (ptry (expression T d')
       (fun '(e, c1) => let is_tuple' := i || is_k KComma c1 in
          if is_tuple' then if is_k KComma c1 || is_k KRightParen c1
                            then call (QTuple true (acc ++ [e]) (skip_if KComma c1)) else praise c1
          else ok (RTup false (acc ++ [e]) c1)) reraise)).
  { apply (ptry_rel (ER b s)); [apply expression_rel; exact R| |rr].
    intros [e c1] [e' c1'] [He Rc]. cbn [fst snd] in He, Rc. subst e'. cbv zeta.
    rewrite <- !(rel_is_k b s c1 c1' _ Rc).
    destruct (i || is_k KComma c1).
    - destruct (is_k KComma c1 || is_k KRightParen c1); [|rr].
      apply call_rel. repeat (split; [reflexivity|]). apply rel_skip_if; [exact Rc|reflexivity|reflexivity].
    - apply prel_ok. repeat (split; [reflexivity|]). exact Rc. }
  destruct (token d) as [| | | | | |k|]; try exact D.
  - destruct k; try exact D. apply prel_ok. repeat (split; [reflexivity|]). exact R.
  - apply prel_ok. repeat (split; [reflexivity|]). exact R.
Qed.

Lemma step_list_rel b s acc c c' : rel b s c c' ->
  prel (orel b s) (step_list T acc c) (step_list T acc c').
Proof.
  intros R. unfold step_list. rewrite <- (rel_token b s c c' R).
  assert (D : prel (orel b s)
    (ptry (expression T c)
       (fun '(e, c1) => if is_k KComma c1 || is_k KRightBracket c1
                        then call (QList (acc ++ [e]) (skip_if KComma c1)) else praise c1) reraise)
    (ptry (expression T c')
       (fun '(e, c1) => if is_k KComma c1 || is_k KRightBracket c1
                        then call (QList (acc ++ [e]) (skip_if KComma c1)) else praise c1) reraise)).
  { apply (ptry_rel (ER b s)); [apply expression_rel; exact R| |rr].
    intros [e c1] [e' c1'] [He Rc]. cbn [fst snd] in He, Rc. subst e'.
    rewrite <- !(rel_is_k b s c1 c1' _ Rc).
    destruct (is_k KComma c1 || is_k KRightBracket c1); [|rr].
    apply call_rel. repeat (split; [reflexivity|]). apply rel_skip_if; [exact Rc|reflexivity|reflexivity]. }
  destruct (token c) as [| | | | | |k|]; try exact D.
  - destruct k; try exact D. apply prel_ok. split; [reflexivity|exact R].
  - apply prel_ok. split; [reflexivity|exact R].
Qed.

(* ---- sub_assignable ---- *)

Lemma sub_tail_rel b s a c c' : rel b s c c' -> prel (orel b s) (call (QSub a c)) (call (QSub a c')).
Proof. intros R. apply call_rel. split; [reflexivity|exact R]. Qed.

Lemma assignable_call_rel b s a c c' : rel b s c c' ->
  token c = TK KPrime \/ token c = TK KLeftParen ->
  prel (orel b s) (assignable_call c a) (assignable_call c' a).
Proof.
  intros R Tk. unfold assignable_call. rewrite <- (rel_is_k b s c c' KPrime R).
  destruct Tk as [Tk|Tk].
  - (* f' ... : newlines keep their meaning *)
    assert (P : is_k KPrime c = true) by (unfold is_k; rewrite Tk; reflexivity). rewrite P.
    assert (R1 : rel b s (skip 1 c) (skip 1 c')) by (apply rel_skip_plain; [exact R| |]; rewrite Tk; reflexivity).
    rewrite (r_nl _ _ _ _ R1), (r_nl' _ _ _ _ R1).
    destruct (rel_push_same b s _ _ R1) as (R2 & O1 & O2).
    destruct (push_nl b (skip 1 c)) as [c2 old]. destruct (push_nl b (skip 1 c')) as [c2' old'].
    cbn [fst snd] in R2, O1, O2. subst old old'.
    apply (ptry_rel (EsR b s)); [apply call_Es_rel; repeat (split; [reflexivity|]); exact R2| |rr].
    intros [args c3] [args' c3'] [Ha Rc]. cbn [fst snd] in Ha, Rc. subst args'.
    apply (ptry_rel (CR b s)); [apply prel_ok; apply rel_pop_same; exact Rc| |rr].
    intros c5 c5' R5. apply sub_tail_rel. exact R5.
  - (* f( ... ) *)
    assert (P : is_k KPrime c = false) by (unfold is_k; rewrite Tk; reflexivity). rewrite P.
    destruct (rel_enter b s c c' R) as (R2 & O1 & O2); [rewrite Tk; reflexivity|].
    destruct (push_nl true (skip 1 c)) as [c2 old]. destruct (push_nl true (skip 1 c')) as [c2' old'].
    cbn [fst snd] in R2, O1, O2. subst old old'.
    apply (ptry_rel (EsR true (b :: s))); [apply call_Es_rel; repeat (split; [reflexivity|]); exact R2| |rr].
    intros [args c3] [args' c3'] [Ha Rc]. cbn [fst snd] in Ha, Rc. subst args'.
    apply (ptry_rel (CR b s)); [apply (pexpect_leave true); [exact Rc|reflexivity]| |rr].
    intros c5 c5' R5. apply sub_tail_rel. exact R5.
Qed.

Lemma assignable_index_rel b s a c c' : rel b s c c' -> token c = TK KLeftBracket ->
  prel (orel b s) (assignable_index T c a) (assignable_index T c' a).
Proof.
  intros R Tk. unfold assignable_index.
  destruct (rel_enter b s c c' R) as (R2 & O1 & O2); [rewrite Tk; reflexivity|].
  destruct (push_nl true (skip 1 c)) as [c2 old]. destruct (push_nl true (skip 1 c')) as [c2' old'].
  cbn [fst snd] in R2, O1, O2. subst old old'.
  apply (ptry_rel (ER true (b :: s))); [apply expression_rel; exact R2| |rr].
  intros [e c3] [e' c3'] [He Rc]. cbn [fst snd] in He, Rc. subst e'.
  destruct e; try apply prel_raise.
  apply (ptry_rel (CR b s)); [apply (pexpect_leave true); [exact Rc|reflexivity]| |rr].
  intros c5 c5' R5. apply sub_tail_rel. exact R5.
Qed.

Lemma ident_plain n : opener (TIdent n) = false /\ closer (TIdent n) = false.
Proof. split; reflexivity. Qed.

Lemma assignable_variant_rel b s a c c' : rel b s c c' ->
  prel (orel b s) (assignable_variant T c a) (assignable_variant T c' a).
Proof.
  intros R. unfold assignable_variant.
  destruct (match a with ARead n => Some n | AAccess _ n => Some n | _ => None end) as [en|]; [|rr].
  destruct (negb (is_capitalized en)); [apply prel_raise|].
  apply (ptry_rel (CR b s)); [apply pexpect_rel_plain; [exact R|reflexivity|reflexivity]| |rr].
  intros c1 c1' R1. rewrite <- (rel_token b s c1 c1' R1).
  destruct (token c1) as [v| | | | | | |] eqn:Tk; try apply prel_raise. cbv zeta.
  destruct (negb (is_capitalized v)); [apply prel_raise|].
  assert (R2 : rel b s (skip 1 c1) (skip 1 c1')) by (apply rel_skip_plain; [exact R1| |]; rewrite Tk; reflexivity).
  apply (ptry_rel (ER b s)); [| |rr].
  - apply (ptry_rel (ER b s)); [apply expression_rel; exact R2| |].
    + intros x x' Hx. apply prel_ok. exact Hx.
    + intros. apply prel_ok. split; [reflexivity|exact R2].
  - intros [value c3] [value' c3'] [Hv Rc]. cbn [fst snd] in Hv, Rc. subst value'.
    apply prel_ok. split; [reflexivity|exact Rc].
Qed.

Lemma assignable_dot_rel b s a c c' : rel b s c c' -> token c = TK KDot ->
  prel (orel b s) (assignable_dot c a) (assignable_dot c' a).
Proof.
  intros R Tk. unfold assignable_dot.
  assert (R1 : rel b s (skip 1 c) (skip 1 c')) by (apply rel_skip_plain; [exact R| |]; rewrite Tk; reflexivity).
  rewrite <- (rel_token b s _ _ R1).
  destruct (token (skip 1 c)) as [n| | | | | | |] eqn:Tk1; try apply prel_raise.
  apply sub_tail_rel. apply rel_skip_plain; [exact R1| |]; rewrite Tk1; reflexivity.
Qed.

Lemma step_sub_rel b s a c c' : rel b s c c' -> prel (orel b s) (step_sub T a c) (step_sub T a c').
Proof.
  intros R. unfold step_sub. rewrite <- (rel_token b s c c' R).
  assert (D : prel (orel b s) (ok (RA a c)) (ok (RA a c'))) by (apply prel_ok; split; [reflexivity|exact R]).
  destruct (token c) as [| | | | | |k|] eqn:Tk; try exact D.
  destruct k; try exact D.
  - apply assignable_call_rel; [exact R|right; exact Tk].
  - apply assignable_index_rel; [exact R|exact Tk].
  - apply assignable_call_rel; [exact R|left; exact Tk].
  - apply (ptry_rel (orel b s)); [apply assignable_variant_rel; exact R| |intros; apply assignable_dot_rel; assumption].
    intros o o' Ho. apply prel_ok. exact Ho.
Qed.

(* ---- blob instantiation ---- *)

Lemma step_fields_rel b s acc c c' : rel b s c c' ->
  prel (orel b s) (step_fields T acc c) (step_fields T acc c').
Proof.
  intros R. unfold step_fields. rewrite <- (rel_token b s c c' R).
  destruct (token c) as [n| | | | | |k|] eqn:Tk; try apply prel_raise.
  - assert (R1 : rel b s (skip 1 c) (skip 1 c')) by (apply rel_skip_plain; [exact R| |]; rewrite Tk; reflexivity).
    apply (ptry_rel (CR b s)); [apply pexpect_rel_plain; [exact R1|reflexivity|reflexivity]| |rr].
    intros c1 c1' Rc1.
    apply (ptry_rel (ER b s)); [apply expression_rel; exact Rc1| |rr].
    intros [e c2] [e' c2'] [He Rc]. cbn [fst snd] in He, Rc. subst e'.
    rewrite <- !(rel_is_k b s c2 c2' _ Rc).
    destruct (is_k KComma c2 || is_k KRightBrace c2); [|rr].
    apply call_rel. repeat (split; [reflexivity|]). apply rel_skip_if; [exact Rc|reflexivity|reflexivity].
  - destruct k; try apply prel_raise. apply prel_ok. split; [reflexivity|exact R].
  - apply prel_ok. split; [reflexivity|exact R].
Qed.

Lemma expect_enter b s c c' k : rel b s c c' -> opener (TK k) = true -> is_k k c = true ->
  rel true (b :: s) (fst (push_nl true (skip 1 c))) (fst (push_nl true (skip 1 c')))
  /\ snd (push_nl true (skip 1 c)) = b /\ snd (push_nl true (skip 1 c')) = b.
Proof. intros R O Ek. apply rel_enter; [exact R|]. rewrite (is_k_token _ _ Ek). exact O. Qed.

Lemma blob_rel b s c c' : rel b s c c' -> prel (orel b s) (blob c) (blob c').
Proof.
  intros R. unfold blob.
  pose proof (ta_rel b s c c' R) as Ta.
  destruct (type_assignable c) as [[x c1]|ce es| |], (type_assignable c') as [[x' c1']|ce' es'| |];
    try contradiction; cbn [ptry]; try (constructor; exact I).
  destruct Ta as [Hx R1]. cbn [fst snd] in Hx, R1. subst x'.
  unfold pexpect at 1 3. unfold expect. rewrite <- (rel_is_k b s c1 c1' KLeftBrace R1).
  destruct (is_k KLeftBrace c1) eqn:Ek; cbn [ptry raise]; [|constructor; exact I].
  destruct (expect_enter b s c1 c1' KLeftBrace R1 eq_refl Ek) as (R2 & O1 & O2).
  destruct (push_nl true (skip 1 c1)) as [c3 old]. destruct (push_nl true (skip 1 c1')) as [c3' old'].
  cbn [fst snd] in R2, O1, O2. subst old old'.
  apply (ptry_rel (FsR true (b :: s)));
    [apply call_Fs_rel; repeat (split; [reflexivity|]); exact R2| |rr].
  intros [fs c4] [fs' c4'] [Hf Rc]. cbn [fst snd] in Hf, Rc. subst fs'.
  apply (ptry_rel (CR b s)); [apply (pexpect_leave true); [exact Rc|reflexivity]| |rr].
  intros c6 c6' R6. rewrite <- (rel_is_k b s c6 c6' KElse R6).
  destruct (is_k KElse c6); [apply prel_raise|]. apply prel_ok. split; [reflexivity|exact R6].
Qed.

(* ---- prefix ---- *)

Lemma value_rel b s c c' : rel b s c c' -> opener (token c) = false -> closer (token c) = false ->
  prel (orel b s) (value c) (value c').
Proof.
  intros R O Cl. unfold value. rewrite <- (rel_token b s c c' R).
  pose proof (rel_skip_plain b s c c' R O Cl) as R1.
  destruct (token c) as [| | | | | |k|]; try apply prel_raise; try (apply prel_ok; split; [reflexivity|exact R1]).
  destruct k; try apply prel_raise. apply prel_ok; split; [reflexivity|exact R1].
Qed.

Lemma unary_rel b s c c' : rel b s c c' -> opener (token c) = false -> closer (token c) = false ->
  prel (orel b s) (unary T c) (unary T c').
Proof.
  intros R O Cl. unfold unary. rewrite <- (rel_token b s c c' R).
  pose proof (rel_skip_plain b s c c' R O Cl) as R1.
  apply (ptry_rel (ER b s)); [apply call_E_rel; split; [reflexivity|exact R1]| |rr].
  intros [e c2] [e' c2'] [He Rc]. cbn [fst snd] in He, Rc. subst e'.
  destruct (pt_unary T (token c)); [|rr]. apply prel_ok. split; [reflexivity|exact Rc].
Qed.

Lemma grouping_rel b s c c' : rel b s c c' -> token c = TK KLeftParen ->
  prel (orel b s) (grouping_or_tuple c) (grouping_or_tuple c').
Proof.
  intros R Tk. unfold grouping_or_tuple.
  destruct (rel_enter b s c c' R) as (R2 & O1 & O2); [rewrite Tk; reflexivity|].
  destruct (push_nl true (skip 1 c)) as [c2 old]. destruct (push_nl true (skip 1 c')) as [c2' old'].
  cbn [fst snd] in R2, O1, O2. subst old old'. cbv zeta.
  rewrite <- !(rel_is_k true (b :: s) c2 c2' _ R2).
  apply (ptry_rel (TupR true (b :: s)));
    [apply call_Tup_rel; repeat (split; [reflexivity|]); exact R2| |rr].
  intros [[i es] c3] [[i' es'] c3'] [Hx Rc]. cbn [fst snd] in Hx, Rc. inversion Hx; subst i' es'.
  apply (ptry_rel (CR b s)); [apply (pexpect_leave true); [exact Rc|reflexivity]| |rr].
  intros c5 c5' R5. destruct i.
  - apply prel_ok. split; [reflexivity|exact R5].
  - destruct es; [apply prel_panic|]. apply prel_ok. split; [reflexivity|exact R5].
Qed.

Lemma list_expr_rel b s c c' : rel b s c c' -> token c = TK KLeftBracket ->
  prel (orel b s) (list_expr c) (list_expr c').
Proof.
  intros R Tk. unfold list_expr.
  destruct (rel_enter b s c c' R) as (R2 & O1 & O2); [rewrite Tk; reflexivity|].
  destruct (push_nl true (skip 1 c)) as [c2 old]. destruct (push_nl true (skip 1 c')) as [c2' old'].
  cbn [fst snd] in R2, O1, O2. subst old old'.
  apply (ptry_rel (EsR true (b :: s)));
    [apply call_Es_rel; repeat (split; [reflexivity|]); exact R2| |rr].
  intros [es c3] [es' c3'] [Hx Rc]. cbn [fst snd] in Hx, Rc. subst es'.
  apply (ptry_rel (CR b s)); [apply (pexpect_leave true); [exact Rc|reflexivity]| |rr].
  intros c5 c5' R5. apply prel_ok. split; [reflexivity|exact R5].
Qed.

Lemma ident_prefix_rel b s c c' n : rel b s c c' -> token c = TIdent n ->
  prel (orel b s)
    (match type_assignable c with
     | Fuel => Ret Fuel
     | Panic => Ret Panic
     | probe =>
         let is_blob := match probe with Ok (_, c1) => is_k KLeftBrace c1 | _ => false end in
         if is_blob then ptry (blob c) ok (fun c' es => Ret (Err (skip_until KRightBrace c') es))
         else ptry (assignable_p c) (fun '(a, c1) => ok (RE (EGet a) c1)) reraise
     end)
    (match type_assignable c' with
     | Fuel => Ret Fuel
     | Panic => Ret Panic
     | probe =>
         let is_blob := match probe with Ok (_, c1) => is_k KLeftBrace c1 | _ => false end in
         if is_blob then ptry (blob c') ok (fun c' es => Ret (Err (skip_until KRightBrace c') es))
         else ptry (assignable_p c') (fun '(a, c1) => ok (RE (EGet a) c1)) reraise
     end).
Proof.
  intros R Tk.
  assert (G : prel (orel b s) (ptry (assignable_p c) (fun '(a, c1) => ok (RE (EGet a) c1)) reraise)
                              (ptry (assignable_p c') (fun '(a, c1) => ok (RE (EGet a) c1)) reraise)).
  { unfold assignable_p. rewrite <- (rel_token b s c c' R), Tk.
    apply (ptry_rel (AR b s)); [| |rr].
    - apply call_A_rel. split; [reflexivity|]. apply rel_skip_plain; [exact R| |]; rewrite Tk; reflexivity.
    - intros [a c1] [a' c1'] [Ha Rc]. cbn [fst snd] in Ha, Rc. subst a'. apply prel_ok. split; [reflexivity|exact Rc]. }
  pose proof (ta_rel b s c c' R) as Ta.
  destruct (type_assignable c) as [[x c1]|ce es| |], (type_assignable c') as [[x' c1']|ce' es'| |]; try contradiction.
  - destruct Ta as [_ R1]. cbn [snd] in R1. cbv zeta. rewrite <- (rel_is_k b s c1 c1' KLeftBrace R1).
    destruct (is_k KLeftBrace c1); [|exact G].
    apply (ptry_rel (orel b s)); [apply blob_rel; exact R| |].
    + intros o o' Ho. apply prel_ok. exact Ho.
    + intros. constructor. exact I.
  - exact G.
  - constructor. exact I.
  - constructor. exact I.
Qed.

Lemma prefix_rel b s c c' : rel b s c c' -> prel (orel b s) (prefix T c) (prefix T c').
Proof.
  intros R. pose proof (rel_frag_tok b s c c' R) as Fr. unfold prefix.
  rewrite <- (rel_token b s c c' R).
  destruct (token c) as [n|n|z|n|v| |k|] eqn:Tk.
  - apply (ident_prefix_rel b s c c' n R Tk).
  - apply value_rel; [exact R| |]; rewrite Tk; reflexivity.
  - apply value_rel; [exact R| |]; rewrite Tk; reflexivity.
  - apply value_rel; [exact R| |]; rewrite Tk; reflexivity.
  - apply value_rel; [exact R| |]; rewrite Tk; reflexivity.
  - destruct (pt_unary T TComment); [|rr]. apply unary_rel; [exact R| |]; rewrite Tk; reflexivity.
  - destruct k; try discriminate;
      try (apply value_rel; [exact R| |]; rewrite Tk; reflexivity);
      try (apply grouping_rel; assumption); try (apply list_expr_rel; assumption);
      try (match goal with
           | |- prel _ (match pt_unary T ?t with _ => _ end) _ =>
               destruct (pt_unary T t) eqn:Eu; [|apply prel_raise];
               apply unary_rel; [exact R| |]; rewrite Tk; try reflexivity
           end).
    + (* `)` as a unary operator is excluded by [bracket_sane] *)
      destruct (sane (TK KRightParen) (or_intror eq_refl)) as [X _]. congruence.
    + destruct (sane (TK KRightBracket) (or_intror eq_refl)) as [X _]. congruence.
    + destruct (sane (TK KLeftBrace) (or_introl eq_refl)) as [X _]. congruence.
    + destruct (sane (TK KRightBrace) (or_intror eq_refl)) as [X _]. congruence.
  - destruct (pt_unary T TEOF); [|rr]. apply unary_rel; [exact R| |]; rewrite Tk; reflexivity.
Qed.

(* ---- infix, the loop, parse_precedence ---- *)

Lemma arrow_call_rel b s lhs c c' : rel b s c c' ->
  prel (orel b s) (arrow_call T c lhs) (arrow_call T c' lhs).
Proof.
  intros R. unfold arrow_call.
  apply (ptry_rel (CR b s)); [apply pexpect_rel_plain; [exact R|reflexivity|reflexivity]| |rr].
  intros c1 c1' R1.
  apply (ptry_rel (ER b s)); [apply expression_rel; exact R1| |rr].
  intros [rhs c2] [rhs' c2'] [Hr Rc]. cbn [fst snd] in Hr, Rc. subst rhs'.
  destruct (prepend lhs rhs); [|rr]. apply prel_ok. split; [reflexivity|exact Rc].
Qed.

Lemma infix_rel b s lhs c c' : rel b s c c' -> prel (orel b s) (infix T c lhs) (infix T c' lhs).
Proof.
  intros R. unfold infix. rewrite <- (rel_token b s c c' R).
  destruct (tok_is KArrow (token c)); [apply arrow_call_rel; exact R|].
  destruct (pt_postfix T (token c)).
  - apply (ptry_rel (AR b s)); [apply call_A_rel; split; [reflexivity|exact R]| |rr].
    intros [a c1] [a' c1'] [Ha Rc]. cbn [fst snd] in Ha, Rc. subst a'. apply prel_ok. split; [reflexivity|exact Rc].
  - destruct (pt_bin T (token c)) as [o|] eqn:Eb.
    2:{ assert (Nc : forall x, settled x -> token x <> TComment).
        { intros x Sx Tx. unfold settled, token in *. destruct (post x) as [|t0 ts0]; [discriminate|].
          subst t0. discriminate. }
        destruct (prev_skip1_some c (Nc c (r_set _ _ _ _ R))) as [cp ->].
        destruct (prev_skip1_some c' (Nc c' (r_set' _ _ _ _ R))) as [cp' ->]. apply prel_raise. }
    cbv zeta.
    assert (Pl : opener (token c) = false /\ closer (token c) = false).
    { split.
      - destruct (opener (token c)) eqn:O; [|reflexivity].
        destruct (sane (token c) (or_introl O)) as [_ X]. congruence.
      - destruct (closer (token c)) eqn:Cl; [|reflexivity].
        destruct (sane (token c) (or_intror Cl)) as [_ X]. congruence. }
    apply (ptry_rel (ER b s)); [| |rr].
    + apply call_E_rel. split; [reflexivity|]. apply rel_skip_plain; [exact R|apply Pl|apply Pl].
    + intros [rhs c2] [rhs' c2'] [Hr Rc]. cbn [fst snd] in Hr, Rc. subst rhs'.
      apply prel_ok. split; [reflexivity|exact Rc].
Qed.

Lemma get_E_rel b s o o' : orel b s o o' -> prel (ER b s) (get_E o) (get_E o').
Proof.
  intros Ho. destruct o, o'; try contradiction; cbn [get_E]; try apply prel_panic. apply prel_ok. exact Ho.
Qed.

Lemma step_loop_rel b s p lhs c c' : rel b s c c' ->
  prel (orel b s) (step_loop T p lhs c) (step_loop T p lhs c').
Proof.
  intros R. unfold step_loop. rewrite <- (rel_token b s c c' R).
  destruct ((p <=? pt_prec T (token c)) && pt_valid T (token c)).
  - apply (ptry_rel (ER b s)); [| |rr].
    + apply (ptry_rel (orel b s)); [apply infix_rel; exact R| |rr]. intros o o' Ho. apply get_E_rel. exact Ho.
    + intros [e c1] [e' c1'] [He Rc]. cbn [fst snd] in He, Rc. subst e'.
      apply call_rel. repeat (split; [reflexivity|]). exact Rc.
  - apply prel_ok. split; [reflexivity|exact R].
Qed.

Lemma step_prec_rel b s p c c' : rel b s c c' ->
  prel (orel b s) (step_prec T p c) (step_prec T p c').
Proof.
  intros R. unfold step_prec.
  apply (ptry_rel (ER b s)); [| |rr].
  - apply (ptry_rel (orel b s)); [apply prefix_rel; exact R| |rr]. intros o o' Ho. apply get_E_rel. exact Ho.
  - intros [e c1] [e' c1'] [He Rc]. cbn [fst snd] in He, Rc. subst e'.
    apply call_rel. repeat (split; [reflexivity|]). exact Rc.
Qed.

Theorem step_rel b s q q' : qrel b s q q' -> prel (orel b s) (step T q) (step T q').
Proof.
  intros H. destruct q, q'; try contradiction; cbn [qrel] in H; cbn [step].
  - destruct H as [<- R]. apply step_prec_rel. exact R.
  - destruct H as (<- & <- & R). apply step_loop_rel. exact R.
  - destruct H as (<- & R). apply step_sub_rel. exact R.
  - destruct H as (<- & <- & R). apply step_args_rel. exact R.
  - destruct H as (<- & <- & R). apply step_tuple_rel. exact R.
  - destruct H as (<- & R). apply step_list_rel. exact R.
  - destruct H as (<- & R). apply step_fields_rel. exact R.
Qed.

Theorem go_rel f : forall b s q q', qrel b s q q' -> resrel (orel b s) (go T f q) (go T f q').
Proof.
  induction f as [|f IH]; intros b s q q' H; [exact I|].
  rewrite !go_S. apply (run_rel (orel b s)); [exact IH|]. apply step_rel. exact H.
Qed.

End Sim.

(* ------------------------------------------------------------------------------------------- *)
(* the theorem *)

Definition insignificant_diff (ts ts' : list tok) : Prop := E false [] ts ts'.

Lemma init_rel ts ts' : insignificant_diff ts ts' -> frag ts -> frag ts' ->
  (match ts with TComment :: _ => False | _ => True end) ->
  (match ts' with TComment :: _ => False | _ => True end) ->
  rel false [] (init ts) (init ts').
Proof.
  intros He F F' S S'. unfold init. constructor; cbn [post pre over nl]; try reflexivity; try assumption.
  - unfold settled. cbn [post nl]. destruct ts as [|t r]; [exact I|].
    destruct t as [| | | | | |k|]; try reflexivity; [contradiction|]. destruct k; reflexivity.
  - unfold settled. cbn [post nl]. destruct ts' as [|t r]; [exact I|].
    destruct t as [| | | | | |k|]; try reflexivity; [contradiction|]. destruct k; reflexivity.
Qed.

(* C14 nl_in_brackets, parser level.  [ts] and [ts'] are token lists of the expression fragment (no fn, pu,
   if, case) that do not start with a comment and are equal up to comments anywhere and newlines inside
   ( ) / [ ] / { } at any depth ([E false []]): grouping and tuples, lists, call arguments, index brackets
   and blob-instantiation braces.  Then `expression` gives the same outcome on both: the same tree
   (and cursors that are again equal up to such tokens), or an error on both, or out-of-fuel on both. *)
Theorem nl_in_brackets T : bracket_sane T ->
  forall ts ts' f, insignificant_diff ts ts' -> frag ts -> frag ts' ->
  (match ts with TComment :: _ => False | _ => True end) ->
  (match ts' with TComment :: _ => False | _ => True end) ->
  match parse_expression T f ts, parse_expression T f ts' with
  | Ok (e, c), Ok (e', c') => e = e' /\ rel false [] c c'
  | Err _ _, Err _ _ => True
  | Fuel, Fuel => True
  | Panic, Panic => True
  | _, _ => False
  end.
Proof.
  intros Hs ts ts' f He F F' S S'. unfold parse_expression.
  pose proof (go_rel T Hs f false [] (QPrec (pt_entry T) (init ts)) (QPrec (pt_entry T) (init ts'))
                (conj eq_refl (init_rel ts ts' He F F' S S'))) as H.
  unfold resrel in H.
  destruct (go T f (QPrec (pt_entry T) (init ts))) as [o|ce es| |],
           (go T f (QPrec (pt_entry T) (init ts'))) as [o'|ce' es'| |]; try contradiction; cbn [as_E]; try exact I.
  destruct o, o'; try contradiction; try exact I. exact H.
Qed.

(* What is NOT proved (visible, not assumed anywhere): the same for the STATEMENT parser on the same token
   fragment (definitions with type annotations -- whose ( ) [ ] brackets also skip newlines --, assignments,
   ret, loops and blocks without fn/if/case).  Missing: relatedness of the statement-level step functions
   (step_stmt, step_stmts, the type parser, enum/blob declarations), to be added to [step_rel] in the same
   style; expressions that contain fn / if / case bodies additionally need [E] to switch the flag off inside
   `do ... end`. *)
Definition nl_in_brackets_statement_level (T : ptab) : Prop :=
  forall ts ts' f, insignificant_diff ts ts' -> frag ts -> frag ts' ->
  (match ts with TComment :: _ => False | _ => True end) ->
  (match ts' with TComment :: _ => False | _ => True end) ->
  match parse_statement T f ts, parse_statement T f ts' with
  | Ok (s, _), Ok (s', _) => s = s'
  | Err _ _, Err _ _ => True
  | Fuel, Fuel => True
  | Panic, Panic => True
  | _, _ => False
  end.

(* CORRECTION (see Props/C14.v, C14_nl_in_brackets_statement_level_same_fuel_refuted): the statement above asks
   for the same outcome KIND at the same fuel, and that is false.  After a syntax error inside a `do ... end`
   block the parser resumes at the next newline token; a newline inside brackets is such a token in one input
   and absent from the other, so the two runs go round the block loop a different number of times and reach a
   different recursion depth: at some fuels one run is out of fuel while the other has already reported its
   errors.  What the real parser (which has no fuel) satisfies is the statement with enough fuel on both
   sides ([parse_fuel], ParserTotal.v), where [Fuel] and [Panic] cannot occur.
   PROVED in LayoutStmt.v ([nl_in_brackets_statement_settled]): the simulation is extended to the type parser,
   declarations, statements and blocks; it is read with [Fuel] as a wildcard and with "a block request that has
   recorded an error never answers Ok" (ParserTotal) for the runs after the first error; and [rel] carries the
   last real token behind the cursor ([r_last]) for the `loop` arm's Context::prev. *)
Definition nl_in_brackets_statement_settled_statement (T : ptab) : Prop :=
  forall ts ts' f, insignificant_diff ts ts' -> frag ts -> frag ts' ->
  (match ts with TComment :: _ => False | _ => True end) ->
  (match ts' with TComment :: _ => False | _ => True end) ->
  parse_fuel ts <= f -> parse_fuel ts' <= f ->
  match parse_statement T f ts, parse_statement T f ts' with
  | Ok (s, _), Ok (s', _) => s = s'
  | Err _ _, Err _ _ => True
  | _, _ => False
  end.
