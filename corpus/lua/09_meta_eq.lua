-- expect: true	false	false	true	4
-- expect: true	4
-- expect: true	5
-- expect[jit]: false	false
-- expect[5.3]: true	true
-- expect[jit]: false	false
-- expect[5.3]: true	true
-- expect: false	false	false	false
-- expect: true
-- expect: false	true
-- expect: true	false	false
-- expect: false	true
-- expect: true	false	true
-- expect: true	true	true	false	false	false	true
local calls = 0
local function eq(a, b) calls = calls + 1; return a.v == b.v end
local mt = {__eq = eq}
local a = setmetatable({v = 1}, mt)
local b = setmetatable({v = 1}, mt)
local c = setmetatable({v = 2}, mt)
print(a == b, a == c, a ~= b, a ~= c, calls)
-- primitively equal: no call
print(a == a, calls)
-- different metatables holding the same function: called
local mt2 = {__eq = eq}
local d = setmetatable({v = 1}, mt2)
print(a == d, calls)
-- different __eq functions: not called, result false (Lua 5.1 / LuaJIT rule)
local mt3 = {__eq = function() return true end}
local e = setmetatable({v = 1}, mt3)
print(a == e, e == a)
-- only one operand has the metamethod
print(a == {v = 1}, {v = 1} == a)
-- non-table operand: never called
print(a == 1, a == "x", a == nil, nil == a)
-- the result is converted to a boolean
local mt4 = {__eq = function() return 1 end}
local f1, f2 = setmetatable({}, mt4), setmetatable({}, mt4)
print(f1 == f2)
local mt5 = {__eq = function() return nil end}
local g1, g2 = setmetatable({}, mt5), setmetatable({}, mt5)
print(g1 == g2, g1 ~= g2)
local t = {}
local u = t
print(t == u, t == {}, {} == {})
print(rawequal(a, b), rawequal(a, a))
local fn = function() end
print(fn == fn, fn == function() end, print == print)
print(1 == 1, "a" == "a", nil == nil, nil == false, 0 == false, "1" == 1, true == true)
