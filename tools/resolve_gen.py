"""Generators and helpers shared by the C09 / C11 / C12 checks: case construction for the harness,
the programs under /repo/tests as bases, generated well-typed base programs with an explicit binder
structure, consistent renamings (maximally distinct / maximal shadowing), planted scope violations,
top-level permutations, partitions into files with every import style."""
import os
import re
import sys

HERE = os.path.dirname(os.path.abspath(__file__))
sys.path.insert(0, HERE)
import vlib  # noqa: E402

TESTS = os.path.join(vlib.REPO, "tests")


# ------------------------------------------------------------------------------------------------
# cases

def case(files, main="/main.sy", std=False):
    """files: dict path -> source.  One line of a `compile`/`phases`/`tree`/`treef` case file."""
    parts = ["std" if std else "nostd", main]
    for p in sorted(files):
        parts.append("%s=%s" % (p, vlib.hexs(files[p])))
    return "\t".join(parts)


def single(src, std=False):
    return case({"/main.sy": src}, "/main.sy", std)


_repo_cache = {}


def repo_tests():
    """[(relative name, main path, file map, needs_std)] for every /repo/tests/**/*.sy; the whole
    test tree is served as the file map so that imports resolve as they do on disk."""
    if "t" in _repo_cache:
        return _repo_cache["t"]
    allfiles = {}
    for root, _, files in os.walk(TESTS):
        for f in files:
            if f.endswith(".sy"):
                p = os.path.join(root, f)
                try:
                    allfiles[p] = open(p, encoding="utf-8").read()
                except UnicodeDecodeError:
                    pass
    out = []
    for p in sorted(allfiles):
        rel = os.path.relpath(p, TESTS)
        out.append((rel, p, allfiles))
    _repo_cache["t"] = out
    return out


def repo_cases(std=True):
    """case lines for all repo tests.  The file map of each case is restricted to the directory of the
    main file and below plus what tree() can reach (everything under tests/ would be 340 files per case)."""
    cases = []
    for rel, p, allfiles in repo_tests():
        d = os.path.dirname(p)
        fm = {q: s for q, s in allfiles.items() if q.startswith(d + os.sep) or os.path.dirname(q) == d}
        cases.append((rel, case(fm, p, std)))
    return cases


MSG_CLASS = [
    (re.compile(r"^When resolving the name .* - a namespace was found"), "NamespaceFound"),
    (re.compile(r"^Failed to resolve .* - nothing matched"), "NothingMatched"),
    (re.compile(r"^This is not a reference to a user defined type"), "NotUserType"),
    (re.compile(r"^.* is a variable, not a type"), "VariableNotType"),
    (re.compile(r"^No type named"), "NoType"),
    (re.compile(r"^.* is a namespace, not a type"), "NamespaceNotType"),
    (re.compile(r"^This is not ok TODO"), "VariantNotRead"),
    (re.compile(r"^Name collision - duplicate definitions of the namespace"), "CollisionDef"),
    (re.compile(r"^Name collision - duplicate definitions of"), "CollisionUse"),
    (re.compile(r"^A Name collision - duplicate definitions of"), "CollisionFrom"),
    (re.compile(r"^No namespace named"), "NoNamespace"),
    (re.compile(r"^Cannot find .* in namespace"), "CannotFind"),
    (re.compile(r"^Expected a start function in the main module"), "NoStart"),
]


def msg_class(msg):
    for rx, k in MSG_CLASS:
        if rx.match(msg):
            return k
    return "?"


def first_error(tail):
    """`ERR kind|file|line|cs|ce|hexmsg ...` -> (kind, file, line, cs, ce, message) of the first error"""
    parts = tail.split(" ")
    if len(parts) < 2 or parts[0] != "ERR":
        return None
    f = parts[1].split("|")
    if len(f) < 6:
        return (f[0], "", 0, 0, 0, "")
    try:
        msg = vlib.unhex(f[5]).decode("utf-8", "replace")
    except ValueError:
        msg = ""
    return (f[0], f[1], int(f[2]), int(f[3]), int(f[4]), msg)
