(* Abstract syntax of the Lua subset understood by LuaParse / LuaCore / LuaWf.
   Definitions only.

   The subset is Lua 5.1 plus `goto`/labels (LuaJIT), minus: method syntax (`a:b()`,
   `function a:b()`), varargs (`...`), and string-call syntax (`f"str"`).  The parser reports
   each of those as an explicit "unsupported" load error.

   Desugarings done by the parser (all are exact equalities in the Lua reference manual):
     a.name                       ==>  EIndex a (EStr "name")
     { name = e }                 ==>  FKey (EStr "name") e
     function a.b.c(ps) body end  ==>  SAssign [a.b.c] [EFunc ps body]
     if c1 then A elseif c2 then B else C end
                                  ==>  SIf c1 A [SIf c2 B C]
     f{...}                       ==>  ECall f [ETable ...]
   Parentheses are kept (EParen) because `(f())` truncates a multiple result to one value and
   because `(a) = 1` is not a valid assignment. *)
From Coq Require Import String List QArith.

(* Which interpreter is modelled.  Lua53: PUC-Rio Lua 5.3 built with LUA_COMPAT_5_2 (what the repo's CI
   installs as `lua5.3`) -- the REFERENCE semantics of the project.  LuaJIT: LuaJIT 2.x without
   5.2 compatibility (= Lua 5.1 rules + goto); kept for information (the LÖVE deployment target). *)
Inductive dialect := Lua53 | LuaJIT.

Definition is53 (d : dialect) : bool := match d with Lua53 => true | LuaJIT => false end.

Inductive binop :=
| OAdd | OSub | OMul | ODiv | OIDiv | OMod | OPow | OConcat       (* OIDiv `//` exists in Lua53 only *)
| OEq | ONe | OLt | OLe | OGt | OGe
| OAnd | OOr.

Inductive unop := UNeg | UNot | ULen.

Inductive expr :=
| ENil
| ETrue
| EFalse
| ENum (fl : bool) (q : Q)                   (* q in lowest terms; fl: written as a float (`1.0`, `1e3`) *)
| EStr (s : string)
| EVar (x : string)                          (* local, upvalue or global: decided by the scope *)
| EIndex (e k : expr)
| ECall (f : expr) (args : list expr)
| EFunc (params : list string) (body : list stmt)
| EBin (op : binop) (a b : expr)
| EUn (op : unop) (a : expr)
| ETable (fields : list field)
| EParen (e : expr)
with field :=
| FPos (e : expr)                            (* positional item *)
| FKey (k v : expr)                          (* [k] = v   and   name = v *)
with stmt :=
| SLocal (xs : list string) (es : list expr)
| SAssign (targets : list expr) (es : list expr)   (* targets are EVar / EIndex (parser-checked) *)
| SCall (f : expr) (args : list expr)
| SLocalFun (x : string) (params : list string) (body : list stmt)
| SDo (b : list stmt)
| SWhile (c : expr) (b : list stmt)
| SRepeat (b : list stmt) (c : expr)
| SIf (c : expr) (t e : list stmt)
| SNumFor (x : string) (lo hi : expr) (step : option expr) (b : list stmt)
| SGenFor (xs : list string) (es : list expr) (b : list stmt)
| SReturn (es : list expr)
| SBreak
| SGoto (l : string)
| SLabel (l : string).

Definition block := list stmt.
