(* Extraction of the name-resolution / dependency-order / module-discovery models.
   Directives: only those of ExtrOcamlBasic and ExtrOcamlString. *)
From Coq Require Import Extraction ExtrOcamlBasic ExtrOcamlString.
From Sylt Require Import Syntax.Resolved Resolve.PAst Resolve.Resolver.
Extraction Language OCaml.
Extraction "resolvemodel.ml" Resolved.mkResolved PAst.mkModule Resolver.resolve.
