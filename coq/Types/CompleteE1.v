(* Completeness of the type checker on the E1 fragment, syntax level: a TYPED block (SoundE1.ty_block1) whose variables
   are still fresh is ACCEPTED, with explicit fuel.  Graph level: Types/Complete1.v. *)
From Coq Require Import String List NArith ZArith PArith Bool Lia FMapPositive.
From Sylt Require Import Syntax.Resolved Types.TyGraph Types.Tc Types.TcInv Types.Reject Types.Mismatch Types.ShapesDecl
  Types.SoundE0 Types.SoundE1 Types.Complete1.
Import ListNotations.
Local Open Scope positive_scope.
Local Open Scope tc_scope.

Notation vid := N.succ_pos.

(* the Unknown roots are not touched *)
Definition ukeep (s s' : st) : Prop :=
  forall u n, lk s u = Some n -> nrep n = u -> nty n = HUnknown -> lk s' u = Some n.

Lemma ukeep_refl s : ukeep s s.
Proof. intros u n L _ _. exact L. Qed.

Lemma ukeep_trans s1 s2 s3 : ukeep s1 s2 -> ukeep s2 s3 -> ukeep s1 s3.
Proof. intros A B u n L E U. apply B; [now apply A|exact E|exact U]. Qed.

Lemma root_unknown_head s u n : lk s u = Some n -> nrep n = u -> nty n = HUnknown -> head s u = Some HUnknown.
Proof. intros L E U. unfold head. rewrite L, E, L. cbn. congruence. Qed.

(* an operation on two classes with known heads *)
Lemma others_ukeep s s' a b ra rb ta tb :
  wf s -> rep s a = Some ra -> rep s b = Some rb -> head s a = Some ta -> head s b = Some tb ->
  ta <> HUnknown -> tb <> HUnknown -> others_kept s s' ra rb -> ukeep s s'.
Proof.
  intros W Ra Rb Ha Hb Na Nb K u n L E U. apply K; [exact L| |].
  - rewrite E. intros ->. pose proof (root_unknown_head _ _ _ L E U) as Hu.
    destruct (head_of_rep _ _ _ W Ra) as [H1 _]. congruence.
  - rewrite E. intros ->. pose proof (root_unknown_head _ _ _ L E U) as Hu.
    destruct (head_of_rep _ _ _ W Rb) as [H1 _]. congruence.
Qed.

Lemma good_rep s i : good s i -> exists r, rep s i = Some r.
Proof. intros (r & n & (R & _) & _). eauto. Qed.

Lemma good_same_rep s i j : same_rep s i j -> good s i -> good s j.
Proof.
  intros Sr (r & n & (R & L & E) & Okn & Cn). exists r, n. split; [split; [|auto]|split; [exact Okn|]].
  - destruct Sr as (q & Hi & Hj). congruence.
  - intros c Hin. apply (cok_same_rep s i j c Sr). now apply Cn.
Qed.

Lemma bty_head_known t : bty_head t <> HUnknown.
Proof. destruct t; discriminate. Qed.

Lemma bty_isbase t : isbase (bty_head t) = true.
Proof. destruct t; reflexivity. Qed.

Lemma bty_rigid t : rigid (bty_head t) = true.
Proof. destruct t; reflexivity. Qed.

Lemma step_head s s' i t : step s s' -> head s i = Some (bty_head t) -> head s' i = Some (bty_head t).
Proof. intros (_ & E & _) H. exact (head_keep _ _ _ _ E H (bty_rigid t)). Qed.

Lemma step_good s s' i : step s s' -> good s i -> good s' i.
Proof. intros (_ & _ & G & _). apply G. Qed.

Lemma step_wf s s' : step s s' -> wf s'.
Proof. intros (W & _). exact W. Qed.

(* ------------------------------------------------------------------ the tails of the operators, on good operands *)
Section Tails.
  Variable g : nat.
  Notation G := (gfix (S (S (S (S g))))).
  Variable sp : span.

  (* what the value of an expression of type t looks like *)
  Definition val_ok (s : st) (v : tyid) (t : bty) : Prop := good s v /\ head s v = Some (bty_head t).

  Lemma val_step s s' v t : step s s' -> val_ok s v t -> val_ok s' v t.
  Proof. intros St [Gv Hv]. split; [exact (step_good _ _ _ St Gv)|exact (step_head _ _ _ _ St Hv)]. Qed.

  Definition arith_con (k : arithk) : tyid -> constr :=
    match k with AAdd => CAdd | ASub => CSub | AMul => CMul | ACmp => CCmp end.

  Lemma cok_arith_con s k x y : arith_ok s k x y -> cok s x (arith_con k y).
  Proof. destruct k; exact (fun H => H). Qed.

  Lemma arith_ok_sym s k x y : arith_ok s k x y -> arith_ok s k y x.
  Proof.
    intros (ta & tb & Ha & Hb & Ok'). exists tb, ta. split; [exact Hb|split; [exact Ha|]].
    destruct k, ta, tb; try discriminate Ok'; reflexivity.
  Qed.

  (* + - * < > : the two constraints and the two checks *)
  Lemma arith_tail k x y s tx ty :
    wf s -> val_ok s x tx -> val_ok s y ty -> arith_base_ok k (bty_head tx) (bty_head ty) = true ->
    exists s', (add_constraint x (arith_con k y) ;;; add_constraint y (arith_con k x) ;;; g_check G sp x ;;; g_check G sp y) s
               = Ok (tt, s') /\ step s s' /\ ukeep s s' /\ next s' = next s.
  Proof.
    intros W [Gx Hx] [Gy Hy] Ok'.
    assert (A : arith_ok s k x y) by (exists (bty_head tx), (bty_head ty); auto).
    destruct (add_constraint_good s x (arith_con k y) W Gx (cok_arith_con _ _ _ _ A)) as (s1 & A1 & St1 & N1 & Hd1 & Rp1 & K1).
    pose proof St1 as (W1 & E1 & G1 & _).
    assert (A' : arith_ok s1 k y x) by (apply arith_ok_sym; exact (arith_ok_ext s s1 k x y E1 A)).
    destruct (add_constraint_good s1 y (arith_con k x) W1 (G1 _ Gy) (cok_arith_con _ _ _ _ A')) as (s2 & A2 & St2 & N2 & Hd2 & Rp2 & K2).
    pose proof St2 as (W2 & E2 & G2 & _).
    exists s2. rewrite (bind_ok _ _ _ _ _ A1), (bind_ok _ _ _ _ _ A2).
    rewrite (bind_ok _ _ _ _ _ (good_check _ sp x s2 (G2 _ (G1 _ Gx)))). split; [exact (good_check _ sp y s2 (G2 _ (G1 _ Gy)))|].
    split; [exact (step_trans _ _ _ St1 St2)|]. split; [|congruence].
    destruct (good_rep _ _ Gx) as (rx & Rx). destruct (good_rep _ _ (G1 _ Gy)) as (ry & Ry).
    apply (ukeep_trans s s1 s2).
    - intros u n L E U. apply (K1 rx Rx); [exact L|]. intros ->.
      pose proof (root_unknown_head _ _ _ L E U) as Hu. destruct (head_of_rep _ _ _ W Rx) as [H1 _].
      rewrite Hx in H1. rewrite Hu in H1. injection H1 as H1. exact (bty_head_known _ (eq_sym H1)).
    - intros u n L E U. apply (K2 ry Ry); [exact L|]. intros ->.
      pose proof (root_unknown_head _ _ _ L E U) as Hu. destruct (head_of_rep _ _ _ W1 Ry) as [H1 _].
      rewrite Hu, Hd1, Hy in H1. injection H1 as H1. exact (bty_head_known _ (eq_sym H1)).
  Qed.

  (* == != <=> >= <= *)
  Lemma equ_tail (con : tyid -> constr) x y s t :
    equ_con con -> (con = CCmpEqu -> arith_base_ok ACmp (bty_head t) (bty_head t) = true) ->
    wf s -> val_ok s x t -> val_ok s y t ->
    exists s', (add_constraint x (con y) ;;; add_constraint y (con x) ;;; g_check G sp x ;;; g_check G sp y) s
               = Ok (tt, s') /\ step s s' /\ ukeep s s' /\ next s' = next s.
  Proof.
    intros Hcon Hcmp W [Gx Hx] [Gy Hy].
    destruct (equ_checks g sp con x y s (bty_head t) Hcon Hcmp W Gx Gy Hx Hy (bty_isbase t)) as (s' & H & St & N & _ & K).
    exists s'. split; [exact H|]. split; [exact St|]. split; [|exact N].
    destruct (good_rep _ _ Gx) as (rx & Rx). destruct (good_rep _ _ Gy) as (ry & Ry).
    exact (others_ukeep s s' x y rx ry _ _ W Rx Ry Hx Hy (bty_head_known t) (bty_head_known t) (K rx ry Rx Ry)).
  Qed.

  (* unify of two values of one type *)
  Lemma unify_vals a b s t :
    wf s -> val_ok s a t -> val_ok s b t ->
    exists r s', unify G sp a b s = Ok (r, s') /\ step s s' /\ ukeep s s' /\ next s' = next s /\ val_ok s' r t.
  Proof.
    intros W [Ga Ha] [Gb Hb].
    assert (J : hjoin (bty_head t) (bty_head t) = Some (bty_head t)) by (destruct t; reflexivity).
    destruct (unify_good (S g) sp a b s _ _ _ W Ga Gb Ha Hb J) as (r & s' & U & St & Sr & Hd & Sr2 & N & K).
    exists r, s'. split; [exact U|]. split; [exact St|]. split; [|split; [exact N|]].
    - destruct (good_rep _ _ Ga) as (ra & Ra). destruct (good_rep _ _ Gb) as (rb & Rb).
      exact (others_ukeep s s' a b ra rb _ _ W Ra Rb Ha Hb (bty_head_known t) (bty_head_known t) (proj1 (K ra rb Ra Rb))).
    - split; [apply (good_same_rep s' a r); [now apply same_rep_sym|exact (step_good _ _ _ St Ga)]|].
      rewrite (same_rep_head _ _ _ Sr2). exact Hd.
  Qed.

  (* a fresh node of a base type *)
  Lemma push_val s t :
    wf s -> exists s', push_type (bty_head t) s = Ok (next s, s') /\ step s s' /\ ukeep s s' /\
                       next s' = Pos.succ (next s) /\ val_ok s' (next s) t.
  Proof.
    intros W. destruct (push_good (bty_head t) s W (isbase_okhead _ (bty_isbase t))) as (St & Gn & Hn & N & K).
    eexists. split; [apply push_type_eq|]. split; [exact St|]. split; [|split; [exact N|split; [exact Gn|exact Hn]]].
    intros u n L _ _. now apply K.
  Qed.
End Tails.

Lemma nodup_app_r {A} (l1 l2 : list A) : NoDup (l1 ++ l2) -> NoDup l2.
Proof. induction l1 as [|a l1 IH]; cbn [app]; intros H; [exact H|]. inversion H; subst. auto. Qed.

Lemma nodup_app_disj {A} (l1 l2 : list A) a : NoDup (l1 ++ l2) -> In a l1 -> In a l2 -> False.
Proof.
  induction l1 as [|b l1 IH]; intros ND H1 H2; [destruct H1|]. cbn [app] in ND. inversion ND as [|? ? Nb ND']; subst.
  destruct H1 as [->|H1]; [apply Nb; apply in_or_app; now right|exact (IH ND' H1 H2)].
Qed.

Lemma cequ_not_ccmpequ : CEqu = CCmpEqu -> False.
Proof. intros H. assert (X : CEqu 1%positive = CCmpEqu 1%positive) by (rewrite H; reflexivity). discriminate X. Qed.

Lemma seq4_k {A} (m1 m2 m3 m4 : M unit) (k : M A) s s' :
  (m1 ;;; m2 ;;; m3 ;;; m4) s = Ok (tt, s') -> (m1 ;;; m2 ;;; m3 ;;; m4 ;;; k) s = k s'.
Proof.
  intros H. apply bind_inv in H as ([] & s1 & H1 & H). apply bind_inv in H as ([] & s2 & H2 & H).
  apply bind_inv in H as ([] & s3 & H3 & H4).
  rewrite (bind_ok _ _ _ _ _ H1), (bind_ok _ _ _ _ _ H2), (bind_ok _ _ _ _ _ H3), (bind_ok _ _ _ _ _ H4). reflexivity.
Qed.

(* ------------------------------------------------------------------ expressions *)
Section Expr.
  Variable kinds : PositiveMap.t varkind.
  Variable g : nat.
  Notation G := (gfix (S (S (S (S g))))).
  Variable ctx : tctx.
  Variable sp : span.

  (* the checks of fn expression on a read that do not look at types *)
  Definition read_ok (x : N) : bool :=
    match PositiveMap.find (vid x) kinds with
    | Some k => negb (inside_pure ctx && negb (immutable k))
    | None => false
    end.

  Fixpoint side_e (e : e1) : bool :=
    match e with
    | Bin1 _ a b => side_e a && side_e b
    | Un1 _ a => side_e a
    | If1 c a b => side_e c && side_e a && side_e b
    | R1 x => read_ok x
    | _ => true
    end.

  Fixpoint depth (e : e1) : nat :=
    match e with
    | Bin1 _ a b => S (Nat.max (depth a) (depth b))
    | Un1 _ a => S (depth a)
    | If1 c a b => S (Nat.max (depth c) (Nat.max (depth a) (depth b)))
    | _ => 0
    end.

  (* the variables of the environment: their classes are good, have the type of the environment, and are no type names *)
  Definition env_good (E : tenv) (s : st) : Prop :=
    forall x t, tlookup E x = Some t -> val_ok s (vid x) t /\ existsb (N.eqb x) (tnames s) = false.

  Lemma env_good_step E s s' : step s s' -> env_good E s -> env_good E s'.
  Proof.
    intros St EG x t H. destruct (EG x t H) as [V T]. split; [exact (val_step _ _ _ _ St V)|].
    destruct St as (_ & _ & _ & Tn). rewrite Tn. exact T.
  Qed.

  Definition eres (s : st) (t : bty) (v : tyid) (s' : st) : Prop :=
    step s s' /\ val_ok s' v t /\ ukeep s s' /\ (next s <= next s')%positive.

  Definition ran (R : arec) (e' : expr) (s : st) (t : bty) (v : tyid) (s' : st) : Prop :=
    r_expr R e' ctx s = Ok ((None, v), s') /\ eres s t v s'.

  Lemma eres_then s s1 s2 t v : eres s t v s1 -> step s1 s2 -> ukeep s1 s2 -> (next s1 <= next s2)%positive -> eres s t v s2.
  Proof.
    intros (St & V & U & N) St2 U2 N2. split; [exact (step_trans _ _ _ St St2)|]. split; [exact (val_step _ _ _ _ St2 V)|].
    split; [exact (ukeep_trans _ _ _ U U2)|lia].
  Qed.

  (* a step after which the value is another one *)
  Lemma eres_new s s1 s2 t v w tw : eres s t v s1 -> step s1 s2 -> ukeep s1 s2 -> (next s1 <= next s2)%positive ->
    val_ok s2 w tw -> eres s tw w s2.
  Proof.
    intros (St & V & U & N) St2 U2 N2 Vw. split; [exact (step_trans _ _ _ St St2)|]. split; [exact Vw|].
    split; [exact (ukeep_trans _ _ _ U U2)|lia].
  Qed.

  Lemma post_base (r : option tyid) v s t :
    head s v = Some (bty_head t) ->
    (t0 <- find_type v ;; match t0 with HFn _ _ _ => c <- copy G v ;; ret (r, c) | _ => ret (r, v) end) s = Ok ((r, v), s).
  Proof. intros H. rewrite (bind_ok _ _ _ _ _ (find_type_ok _ _ _ H)). destruct t; reflexivity. Qed.

  Lemma unify_option_none s : unify_option G sp None None s = Ok (None, s).
  Proof. reflexivity. Qed.

  Section Bin.
    Variable R : arec.
    Variables (a' b' : expr) (s s1 s2 : st) (ta tb : bty) (x y : tyid).
    Hypothesis Ha : ran R a' s ta x s1.
    Hypothesis Hb : ran R b' s1 tb y s2.

    Let W2 : wf s2. Proof. destruct Hb as (_ & St & _). exact (step_wf _ _ St). Qed.
    Let Vx2 : val_ok s2 x ta. Proof. destruct Ha as (_ & _ & V & _), Hb as (_ & St & _). exact (val_step _ _ _ _ St V). Qed.
    Let Vy2 : val_ok s2 y tb. Proof. destruct Hb as (_ & _ & V & _). exact V. Qed.
    Let E02 : eres s ta x s2.
    Proof. destruct Hb as (_ & St & _ & U & N). exact (eres_then _ _ _ _ _ (proj2 Ha) St U N). Qed.

    Lemma bin_op_run con s3 :
      (add_constraint x (con y) ;;; add_constraint y (con x) ;;; g_check G sp x ;;; g_check G sp y) s2 = Ok (tt, s3) ->
      bin_op G R sp ctx a' b' con s = Ok ((None, x), s3).
    Proof.
      intros H. unfold bin_op. rewrite (bind_ok _ _ _ _ _ (proj1 Ha)). cbv beta iota.
      rewrite (bind_ok _ _ _ _ _ (proj1 Hb)). cbv beta iota. rewrite (seq4_k _ _ _ _ _ _ _ H). reflexivity.
    Qed.

    (* + - * *)
    Lemma run_arith op k :
      (op = Add /\ k = AAdd) \/ (op = Sub /\ k = ASub) \/ (op = Mul /\ k = AMul) ->
      arith_base_ok k (bty_head ta) (bty_head tb) = true ->
      exists s', expr_body kinds G R (EBinOp op a' b' sp) ctx s = Ok ((None, x), s') /\ eres s ta x s'.
    Proof.
      intros Hop Hk. destruct (arith_tail g sp k x y s2 ta tb W2 Vx2 Vy2 Hk) as (s3 & T & St & U & N).
      assert (E3 : eres s ta x s3) by (apply (eres_then _ _ _ _ _ E02 St U); lia).
      exists s3. split; [|exact E3]. unfold expr_body.
      destruct Hop as [[-> ->]|[[-> ->]|[-> ->]]]; cbv beta iota;
        rewrite (bind_ok _ _ _ _ _ (bin_op_run _ s3 T)); exact (post_base None x s3 ta (proj2 (proj1 (proj2 E3)))).
    Qed.

    (* < > *)
    Lemma run_cmp op :
      op = Greater \/ op = Less -> arith_base_ok ACmp (bty_head ta) (bty_head tb) = true ->
      exists v s', expr_body kinds G R (EBinOp op a' b' sp) ctx s = Ok ((None, v), s') /\ eres s TB v s'.
    Proof.
      intros Hop Hk. destruct (arith_tail g sp ACmp x y s2 ta tb W2 Vx2 Vy2 Hk) as (s3 & T & St & U & N).
      assert (E3 : eres s ta x s3) by (apply (eres_then _ _ _ _ _ E02 St U); lia).
      destruct (push_val s3 TB (step_wf _ _ St)) as (s4 & P & St4 & U4 & N4 & V4).
      assert (E4 : eres s TB (next s3) s4) by (apply (eres_new _ _ _ _ _ _ _ E3 St4 U4); [lia|exact V4]).
      assert (BR : bin_op_ret G R sp ctx a' b' CCmp HBool s = Ok ((None, next s3), s4)).
      { unfold bin_op_ret. rewrite (bind_ok _ _ _ _ _ (bin_op_run _ s3 T)). cbv beta iota.
        change (bty_head TB) with HBool in P. rewrite (bind_ok _ _ _ _ _ P). reflexivity. }
      exists (next s3), s4. split; [|exact E4]. unfold expr_body.
      destruct Hop as [-> | ->]; cbv beta iota; rewrite (bind_ok _ _ _ _ _ BR); exact (post_base None (next s3) s4 TB (proj2 V4)).
    Qed.

    (* == != <=> *)
    Lemma run_equ op :
      op = Equals \/ op = NotEquals \/ op = AssertEq -> ta = tb ->
      exists v s', expr_body kinds G R (EBinOp op a' b' sp) ctx s = Ok ((None, v), s') /\ eres s TB v s'.
    Proof.
      intros Hop Et. assert (Vy2' : val_ok s2 y ta) by (rewrite Et; exact Vy2).
      destruct (equ_tail g sp CEqu x y s2 ta (or_introl eq_refl) (fun H => match cequ_not_ccmpequ H with end) W2 Vx2 Vy2') as (s3 & T & St & U & N).
      assert (E3 : eres s ta x s3) by (apply (eres_then _ _ _ _ _ E02 St U); lia).
      destruct (push_val s3 TB (step_wf _ _ St)) as (s4 & P & St4 & U4 & N4 & V4).
      assert (E4 : eres s TB (next s3) s4) by (apply (eres_new _ _ _ _ _ _ _ E3 St4 U4); [lia|exact V4]).
      assert (BR : bin_op_ret G R sp ctx a' b' CEqu HBool s = Ok ((None, next s3), s4)).
      { unfold bin_op_ret. rewrite (bind_ok _ _ _ _ _ (bin_op_run _ s3 T)). cbv beta iota.
        change (bty_head TB) with HBool in P. rewrite (bind_ok _ _ _ _ _ P). reflexivity. }
      exists (next s3), s4. split; [|exact E4]. unfold expr_body.
      destruct Hop as [-> | [-> | ->]]; cbv beta iota; rewrite (bind_ok _ _ _ _ _ BR); exact (post_base None (next s3) s4 TB (proj2 V4)).
    Qed.

    (* >= <= *)
    Lemma run_cmpequ op :
      op = GreaterEqual \/ op = LessEqual -> ta = tb -> arith_base_ok ACmp (bty_head ta) (bty_head ta) = true ->
      exists v s', expr_body kinds G R (EBinOp op a' b' sp) ctx s = Ok ((None, v), s') /\ eres s TB v s'.
    Proof.
      intros Hop Et Hk. assert (Vy2' : val_ok s2 y ta) by (rewrite Et; exact Vy2).
      destruct (equ_tail g sp CCmpEqu x y s2 ta (or_intror eq_refl) (fun _ => Hk) W2 Vx2 Vy2') as (s3 & T & St & U & N).
      assert (E3 : eres s ta x s3) by (apply (eres_then _ _ _ _ _ E02 St U); lia).
      destruct (push_val s3 TB (step_wf _ _ St)) as (s4 & P & St4 & U4 & N4 & V4).
      assert (E4 : eres s TB (next s3) s4) by (apply (eres_new _ _ _ _ _ _ _ E3 St4 U4); [lia|exact V4]).
      assert (BR : bin_op_ret G R sp ctx a' b' CCmpEqu HBool s = Ok ((None, next s3), s4)).
      { unfold bin_op_ret. rewrite (bind_ok _ _ _ _ _ (bin_op_run _ s3 T)). cbv beta iota.
        change (bty_head TB) with HBool in P. rewrite (bind_ok _ _ _ _ _ P). reflexivity. }
      exists (next s3), s4. split; [|exact E4]. unfold expr_body.
      destruct Hop as [-> | ->]; cbv beta iota; rewrite (bind_ok _ _ _ _ _ BR); exact (post_base None (next s3) s4 TB (proj2 V4)).
    Qed.

    (* and or *)
    Lemma run_andor op :
      op = And \/ op = Or -> ta = TB -> tb = TB ->
      exists s', expr_body kinds G R (EBinOp op a' b' sp) ctx s = Ok ((None, x), s') /\ eres s TB x s'.
    Proof.
      intros Hop Eta Etb. subst ta tb.
      destruct (push_val s2 TB W2) as (s3 & P & St3 & U3 & N3 & V3).
      destruct (unify_vals g sp x (next s2) s3 TB (step_wf _ _ St3) (val_step _ _ _ _ St3 Vx2) V3) as (r4 & s4 & U4 & St4 & Uk4 & N4 & V4).
      destruct (unify_vals g sp y (next s2) s4 TB (step_wf _ _ St4) (val_step _ _ _ _ St4 (val_step _ _ _ _ St3 Vy2))
                           (val_step _ _ _ _ St4 V3)) as (r5 & s5 & U5 & St5 & Uk5 & N5 & V5).
      assert (E5 : eres s TB x s5).
      { apply (eres_then _ s4 _); [apply (eres_then _ s3 _); [apply (eres_then _ _ _ _ _ E02 St3 U3); lia|exact St4|exact Uk4|lia]
                                  |exact St5|exact Uk5|lia]. }
      change (bty_head TB) with HBool in P.
      assert (IN : ('(a_ret, a) <- r_expr R a' ctx ;; '(b_ret, b) <- r_expr R b' ctx ;;
                    boolean <- push_type HBool ;; unify G sp a boolean ;;; unify G sp b boolean ;;;
                    r <- unify_option G sp a_ret b_ret ;; ret (r, a)) s = Ok ((None, x), s5)).
      { rewrite (bind_ok _ _ _ _ _ (proj1 Ha)). cbv beta iota. rewrite (bind_ok _ _ _ _ _ (proj1 Hb)). cbv beta iota.
        rewrite (bind_ok _ _ _ _ _ P), (bind_ok _ _ _ _ _ U4), (bind_ok _ _ _ _ _ U5). reflexivity. }
      exists s5. split; [|exact E5]. unfold expr_body.
      destruct Hop as [-> | ->]; cbv beta iota; rewrite (bind_ok _ _ _ _ _ IN);
        exact (post_base None x s5 TB (proj2 (proj1 (proj2 E5)))).
    Qed.
  End Bin.

  Lemma addcon_tail c x s t :
    wf s -> val_ok s x t -> cok s x c ->
    exists s', add_constraint x c s = Ok (tt, s') /\ step s s' /\ ukeep s s' /\ next s' = next s.
  Proof.
    intros W [Gx Hx] Hc. destruct (add_constraint_good s x c W Gx Hc) as (s1 & A1 & St1 & N1 & Hd1 & Rp1 & K1).
    exists s1. split; [exact A1|]. split; [exact St1|]. split; [|exact N1].
    destruct (good_rep _ _ Gx) as (rx & Rx). intros u n L E U. apply (K1 rx Rx); [exact L|]. intros ->.
    pose proof (root_unknown_head _ _ _ L E U) as Hu. destruct (head_of_rep _ _ _ W Rx) as [H1 _].
    rewrite Hx in H1. rewrite Hu in H1. injection H1 as H1. exact (bty_head_known _ (eq_sym H1)).
  Qed.

  Section Un.
    Variable R : arec.
    Variables (a' : expr) (s s1 : st) (ta : bty) (x : tyid).
    Hypothesis Ha : ran R a' s ta x s1.

    Lemma run_neg :
      ta = TI \/ ta = TF ->
      exists s', expr_body kinds G R (EUniOp Neg a' sp) ctx s = Ok ((None, x), s') /\ eres s ta x s'.
    Proof.
      intros Ht. destruct Ha as (Hx & St & Vx & U & N).
      assert (Hc : cok s1 x CNeg).
      { cbn [cok]. exists (bty_head ta). split; [exact (proj2 Vx)|]. destruct Ht as [-> | ->]; reflexivity. }
      destruct (addcon_tail CNeg x s1 ta (step_wf _ _ St) Vx Hc) as (s2 & A & St2 & U2 & N2).
      assert (E2 : eres s ta x s2) by (apply (eres_then _ _ _ _ _ (proj2 Ha) St2 U2); lia).
      assert (IN : ('(a_ret, a) <- r_expr R a' ctx ;; add_constraint a CNeg ;;; g_check G sp a ;;; ret (a_ret, a)) s
                   = Ok ((None, x), s2)).
      { rewrite (bind_ok _ _ _ _ _ Hx). cbv beta iota. rewrite (bind_ok _ _ _ _ _ A).
        rewrite (bind_ok _ _ _ _ _ (good_check _ sp x s2 (proj1 (proj1 (proj2 E2))))). reflexivity. }
      exists s2. split; [|exact E2]. unfold expr_body. cbv beta iota. rewrite (bind_ok _ _ _ _ _ IN).
      exact (post_base None x s2 ta (proj2 (proj1 (proj2 E2)))).
    Qed.

    Lemma run_not :
      ta = TB ->
      exists v s', expr_body kinds G R (EUniOp Not a' sp) ctx s = Ok ((None, v), s') /\ eres s TB v s'.
    Proof.
      intros ->. destruct Ha as (Hx & St & Vx & U & N).
      destruct (push_val s1 TB (step_wf _ _ St)) as (s2 & P & St2 & U2 & N2 & V2).
      destruct (unify_vals g sp x (next s1) s2 TB (step_wf _ _ St2) (val_step _ _ _ _ St2 Vx) V2) as (r3 & s3 & U3 & St3 & Uk3 & N3 & V3).
      assert (E3 : eres s TB r3 s3).
      { apply (eres_new _ s2 _ TB x); [apply (eres_then _ _ _ _ _ (proj2 Ha) St2 U2); lia|exact St3|exact Uk3|lia|exact V3]. }
      change (bty_head TB) with HBool in P.
      assert (IN : ('(a_ret, a) <- r_expr R a' ctx ;; boolean <- push_type HBool ;; u <- unify G sp a boolean ;; ret (a_ret, u)) s
                   = Ok ((None, r3), s3)).
      { rewrite (bind_ok _ _ _ _ _ Hx). cbv beta iota. rewrite (bind_ok _ _ _ _ _ P), (bind_ok _ _ _ _ _ U3). reflexivity. }
      exists r3, s3. split; [|exact E3]. unfold expr_body. cbv beta iota. rewrite (bind_ok _ _ _ _ _ IN).
      exact (post_base None r3 s3 TB (proj2 V3)).
    Qed.
  End Un.

  (* ---- if c do a else b end *)
  Section If.
    Variable R : arec.
    Variable P : st -> Prop.
    Hypothesis P_step : forall s s', step s s' -> P s -> P s'.
    Hypothesis P_wf : forall s, P s -> wf s.
    Variables (c' a' b' : expr) (t : bty).
    Hypothesis Hc : forall s, P s -> exists v s', ran R c' s TB v s'.
    Hypothesis Ha : forall s, P s -> exists v s', ran R a' s t v s'.
    Hypothesis Hb : forall s, P s -> exists v s', ran R b' s t v s'.

    Lemma block_single_run e' s v s' :
      r_expr R e' ctx s = Ok ((None, v), s') ->
      expression_block G R sp [SStatementExpression e' sp] ctx s = Ok ((None, Some v), s').
    Proof.
      intros H. unfold expression_block. cbn [block_split fst snd foldM].
      rewrite (bind_ok _ _ _ _ _ (eq_refl : ret (@None tyid) s = Ok (None, s))). rewrite (bind_ok _ _ _ _ _ H). reflexivity.
    Qed.

    Lemma run_if s :
      P s ->
      exists v s', expr_body kinds G R
                     (EIf [IfBranch (Some c') [SStatementExpression a' sp] sp; IfBranch None [SStatementExpression b' sp] sp] sp) ctx s
                   = Ok ((None, v), s') /\ eres s t v s'.
    Proof.
      intros Ps.
      destruct (Hc s Ps) as (vc & s1 & Hcx & Ec). pose proof Ec as (St1 & Vc & U1 & N1).
      destruct (push_val s1 TB (step_wf _ _ St1)) as (s2 & Pu & St2 & U2 & N2 & V2).
      destruct (unify_vals g (expr_span c') (next s1) vc s2 TB (step_wf _ _ St2) V2 (val_step _ _ _ _ St2 Vc))
        as (r3 & s3 & U3 & St3 & Uk3 & N3 & V3).
      assert (St03 : step s s3) by (eapply step_trans; [exact St1|]; eapply step_trans; eassumption).
      assert (P3 : P s3) by exact (P_step _ _ St03 Ps).
      destruct (Ha s3 P3) as (va & s4 & Hax & Ea). pose proof Ea as (St4 & Va & U4 & N4).
      assert (P4 : P s4) by exact (P_step _ _ St4 P3).
      destruct (Hb s4 P4) as (vb & s5 & Hbx & Eb). pose proof Eb as (St5 & Vb & U5 & N5).
      destruct (unify_vals g sp vb va s5 t (step_wf _ _ St5) Vb (val_step _ _ _ _ St5 Va)) as (r6 & s6 & U6 & St6 & Uk6 & N6 & V6).
      change (bty_head TB) with HBool in Pu.
      (* the first branch *)
      assert (CR : ('(r, ct) <- r_expr R c' ctx ;; b <- push_type HBool ;; unify G (expr_span c') b ct ;;; ret r) s = Ok (None, s3)).
      { rewrite (bind_ok _ _ _ _ _ Hcx). cbv beta iota. rewrite (bind_ok _ _ _ _ _ Pu), (bind_ok _ _ _ _ _ U3). reflexivity. }
      assert (IB1 : if_branch G R sp ctx (IfBranch (Some c') [SStatementExpression a' sp] sp) s = Ok ((None, Some va), s4)).
      { unfold if_branch. cbv zeta. rewrite (bind_ok _ _ _ _ _ CR). rewrite (bind_ok _ _ _ _ _ (block_single_run _ _ _ _ Hax)).
        reflexivity. }
      assert (IB2 : if_branch G R sp ctx (IfBranch None [SStatementExpression b' sp] sp) s4 = Ok ((None, Some vb), s5)).
      { unfold if_branch. rewrite (bind_ok _ _ _ _ _ (eq_refl : ret (@None tyid) s4 = Ok (None, s4))).
        rewrite (bind_ok _ _ _ _ _ (block_single_run _ _ _ _ Hbx)). reflexivity. }
      assert (MM2 : mapM (if_branch G R sp ctx) [IfBranch None [SStatementExpression b' sp] sp] s4 = Ok ([(None, Some vb)], s5)).
      { cbn [mapM]. rewrite (bind_ok _ _ _ _ _ IB2). reflexivity. }
      assert (MM : mapM (if_branch G R sp ctx)
                     [IfBranch (Some c') [SStatementExpression a' sp] sp; IfBranch None [SStatementExpression b' sp] sp] s
                   = Ok ([(None, Some va); (None, Some vb)], s5)).
      { change (mapM (if_branch G R sp ctx) [IfBranch (Some c') [SStatementExpression a' sp] sp; IfBranch None [SStatementExpression b' sp] sp])
          with (y <- if_branch G R sp ctx (IfBranch (Some c') [SStatementExpression a' sp] sp) ;;
                ys <- mapM (if_branch G R sp ctx) [IfBranch None [SStatementExpression b' sp] sp] ;; ret (y :: ys)).
        rewrite (bind_ok _ _ _ _ _ IB1), (bind_ok _ _ _ _ _ MM2). reflexivity. }
      assert (UO : unify_option G sp (Some vb) (Some va) s5 = Ok (Some r6, s6)).
      { cbn [unify_option]. rewrite (bind_ok _ _ _ _ _ U6). reflexivity. }
      assert (FV : foldM (fun (acc : option tyid) (b : option tyid * option tyid) => unify_option G sp (snd b) acc)
                         [(@None tyid, Some va); (None, Some vb)] None s5 = Ok (Some r6, s6)).
      { cbn [foldM snd]. rewrite (bind_ok _ _ _ _ _ (eq_refl : unify_option G sp (Some va) None s5 = Ok (Some va, s5))).
        rewrite (bind_ok _ _ _ _ _ UO). reflexivity. }
      assert (E6 : eres s t r6 s6).
      { split; [|split; [exact V6|split]].
        - eapply step_trans; [exact St03|]. eapply step_trans; [exact St4|]. eapply step_trans; eassumption.
        - eapply ukeep_trans; [exact U1|]. eapply ukeep_trans; [exact U2|]. eapply ukeep_trans; [exact Uk3|].
          eapply ukeep_trans; [exact U4|]. eapply ukeep_trans; eassumption.
        - lia. }
      exists r6, s6. split; [|exact E6]. unfold expr_body. cbv beta iota.
      assert (IN : (tys <- mapM (if_branch G R sp ctx)
                            [IfBranch (Some c') [SStatementExpression a' sp] sp; IfBranch None [SStatementExpression b' sp] sp] ;;
                    r <- foldM (fun (acc : option tyid) (b : option tyid * option tyid) => unify_option G sp (fst b) acc) tys None ;;
                    value <- foldM (fun (acc : option tyid) (b : option tyid * option tyid) => unify_option G sp (snd b) acc) tys None ;;
                    value <- ret value ;;
                    v <- value_or_ret value r ;;
                    ret (r, v)) s = Ok ((None, r6), s6)).
      { rewrite (bind_ok _ _ _ _ _ MM).
        rewrite (bind_ok _ _ _ _ _ (eq_refl : foldM (fun (acc : option tyid) (b : option tyid * option tyid) => unify_option G sp (fst b) acc)
                                                 [(@None tyid, Some va); (None, Some vb)] None s5 = Ok (None, s5))).
        rewrite (bind_ok _ _ _ _ _ FV). reflexivity. }
      cbn [last_branch existsb if_falls falls_through last_stmt orb]. rewrite (bind_ok _ _ _ _ _ IN).
      exact (post_base None r6 s6 t (proj2 V6)).
    Qed.
  End If.

  Notation afix := (afix kinds G).

  Lemma run_lit e' t f s :
    lit_type e' = Some (bty_head t) -> wf s ->
    exists v s', r_expr (afix (S f)) e' ctx s = Ok ((None, v), s') /\ eres s t v s'.
  Proof.
    intros L W. destruct (push_val s t W) as (s' & Pu & St & U & N & V). rewrite push_type_eq in Pu. injection Pu as <-.
    exists (next s), (push_st (bty_head t) s). split; [exact (lit_eval kinds G f e' _ ctx s L (bty_rigid t))|].
    split; [exact St|]. split; [exact V|]. split; [exact U|lia].
  Qed.

  Lemma run_read E x t f s :
    tlookup E x = Some t -> read_ok x = true -> wf s -> env_good E s ->
    r_expr (afix (S f)) (ERead x sp) ctx s = Ok ((None, vid x), s) /\ eres s t (vid x) s.
  Proof.
    intros Hx Rk W EG. destruct (EG x t Hx) as [V T]. split.
    - cbn [Tc.afix astep r_expr]. unfold expr_body. unfold read_ok in Rk.
      assert (IN : (tn <- is_type_name x ;; if tn then fail KExotic sp else
                    k <- var_kind kinds x ;;
                    if inside_pure ctx && negb (immutable k) then fail KImpurity sp
                    else t0 <- var_ty kinds x ;; ret (@None tyid, t0)) s = Ok ((None, vid x), s)).
      { rewrite (bind_ok _ _ _ _ _ (eq_refl : is_type_name x s = Ok (existsb (N.eqb x) (tnames s), s))). rewrite T.
        unfold var_kind, var_ty. destruct (PositiveMap.find (vid x) kinds) as [k|]; [|discriminate].
        rewrite (bind_ok _ _ _ _ _ (eq_refl : ret k s = Ok (k, s))).
        destruct (inside_pure ctx && negb (immutable k)); [discriminate|]. reflexivity. }
      cbv beta iota. rewrite (bind_ok _ _ _ _ _ IN). exact (post_base None (vid x) s t (proj2 V)).
    - split; [now apply step_refl|]. split; [exact V|]. split; [apply ukeep_refl|lia].
  Qed.

  Lemma bin_ty_cases op ta tb t :
    bin_ty op ta tb = Some t ->
    ((op = Add /\ arith_base_ok AAdd (bty_head ta) (bty_head tb) = true \/
      op = Sub /\ arith_base_ok ASub (bty_head ta) (bty_head tb) = true \/
      op = Mul /\ arith_base_ok AMul (bty_head ta) (bty_head tb) = true) /\ t = ta) \/
    ((op = Greater \/ op = Less) /\ arith_base_ok ACmp (bty_head ta) (bty_head tb) = true /\ t = TB) \/
    ((op = GreaterEqual \/ op = LessEqual) /\ ta = tb /\ arith_base_ok ACmp (bty_head ta) (bty_head ta) = true /\ t = TB) \/
    ((op = Equals \/ op = NotEquals \/ op = AssertEq) /\ ta = tb /\ t = TB) \/
    ((op = And \/ op = Or) /\ ta = TB /\ tb = TB /\ t = TB).
  Proof.
    destruct op, ta, tb; cbn; intros H; try discriminate; injection H as <-; intuition auto.
  Qed.

  Theorem complete_expr : forall e E t,
    ty1 E e = Some t -> side_e e = true ->
    forall f s, (depth e < f)%nat -> wf s -> env_good E s ->
    exists v s', r_expr (afix f) (to_expr1 sp e) ctx s = Ok ((None, v), s') /\ eres s t v s'.
  Proof.
    induction e as [z|x|str|b|op a IHa b IHb|op a IHa|c IHc a IHa b IHb|x]; intros E t Ty Sd f s Hf W EG;
      (destruct f as [|f]; [lia|]); cbn [to_expr1 ty1 side_e depth] in *.
    - injection Ty as <-. now apply run_lit.
    - injection Ty as <-. now apply run_lit.
    - injection Ty as <-. now apply run_lit.
    - injection Ty as <-. now apply run_lit.
    - destruct (ty1 E a) as [ta|] eqn:Ta; [|discriminate]. destruct (ty1 E b) as [tb|] eqn:Tb; [|discriminate].
      apply andb_true_iff in Sd as [Sa Sb].
      destruct (IHa E ta Ta Sa f s ltac:(lia) W EG) as (x & s1 & Hx & Ex).
      destruct (IHb E tb Tb Sb f s1 ltac:(lia) (step_wf _ _ (proj1 Ex)) (env_good_step _ _ _ (proj1 Ex) EG)) as (y & s2 & Hy & Ey).
      cbn [Tc.afix astep r_expr].
      destruct (bin_ty_cases _ _ _ _ Ty) as [[Hop ->]|[(Hop & Hk & ->)|[(Hop & Et & Hk & ->)|[(Hop & Et & ->)|(Hop & Eta & Etb & ->)]]]].
      + destruct Hop as [[-> Hk]|[[-> Hk]|[-> Hk]]];
          [destruct (run_arith (afix f) _ _ s s1 s2 ta tb x y (conj Hx Ex) (conj Hy Ey) Add AAdd) as (s' & H & Er); auto
          |destruct (run_arith (afix f) _ _ s s1 s2 ta tb x y (conj Hx Ex) (conj Hy Ey) Sub ASub) as (s' & H & Er); auto
          |destruct (run_arith (afix f) _ _ s s1 s2 ta tb x y (conj Hx Ex) (conj Hy Ey) Mul AMul) as (s' & H & Er); auto];
          eauto.
      + exact (run_cmp (afix f) _ _ s s1 s2 ta tb x y (conj Hx Ex) (conj Hy Ey) op Hop Hk).
      + exact (run_cmpequ (afix f) _ _ s s1 s2 ta tb x y (conj Hx Ex) (conj Hy Ey) op Hop Et Hk).
      + exact (run_equ (afix f) _ _ s s1 s2 ta tb x y (conj Hx Ex) (conj Hy Ey) op Hop Et).
      + destruct (run_andor (afix f) _ _ s s1 s2 ta tb x y (conj Hx Ex) (conj Hy Ey) op Hop Eta Etb) as (s' & H & Er). eauto.
    - destruct (ty1 E a) as [ta|] eqn:Ta; [|discriminate].
      destruct (IHa E ta Ta Sd f s ltac:(lia) W EG) as (x & s1 & Hx & Ex). cbn [Tc.afix astep r_expr].
      destruct op, ta; cbn in Ty; try discriminate; injection Ty as <-.
      + destruct (run_neg (afix f) _ s s1 TI x (conj Hx Ex)) as (s' & H & Er); eauto.
      + destruct (run_neg (afix f) _ s s1 TF x (conj Hx Ex)) as (s' & H & Er); eauto.
      + exact (run_not (afix f) _ s s1 TB x (conj Hx Ex) eq_refl).
    - destruct (ty1 E c) as [[]|] eqn:Tc; try discriminate.
      destruct (ty1 E a) as [ta|] eqn:Ta; [|discriminate]. destruct (ty1 E b) as [tb|] eqn:Tb; [|discriminate].
      destruct (bty_eqb ta tb) eqn:Eq; [|discriminate]. injection Ty as <-. apply bty_eqb_eq in Eq. subst tb.
      apply andb_true_iff in Sd as [Sd Sb]. apply andb_true_iff in Sd as [Sc Sa].
      cbn [Tc.afix astep r_expr].
      apply (run_if (afix f) (fun s0 => wf s0 /\ env_good E s0)).
      + intros s0 s0' St [W0 EG0]. split; [exact (step_wf _ _ St)|exact (env_good_step _ _ _ St EG0)].
      + intros s0 [W0 EG0]. exact (IHc E TB Tc Sc f s0 ltac:(lia) W0 EG0).
      + intros s0 [W0 EG0]. exact (IHa E ta Ta Sa f s0 ltac:(lia) W0 EG0).
      + intros s0 [W0 EG0]. exact (IHb E ta Tb Sb f s0 ltac:(lia) W0 EG0).
      + split; assumption.
    - destruct (run_read E x t f s Ty Sd W EG) as [H Er]. eauto.
  Qed.

  (* ---------------------------------------------------------------- statements *)
  Lemma vid_inj x y : vid x = vid y -> x = y.
  Proof. intros H. rewrite <- (N.pos_pred_succ x), <- (N.pos_pred_succ y), H. reflexivity. Qed.

  (* the variable has not been defined yet: its node is the one TypeChecker::new gave it *)
  Definition fresh (s : st) (x : N) : Prop :=
    exists n, lk s (vid x) = Some n /\ nrep n = vid x /\ nty n = HUnknown /\ ncons n = [] /\
              existsb (N.eqb x) (tnames s) = false.

  (* the Unknown roots other than those of l are not touched *)
  Definition ukeep_ex (s s' : st) (l : list tyid) : Prop :=
    forall u n, lk s u = Some n -> nrep n = u -> nty n = HUnknown -> ~ In u l -> lk s' u = Some n.

  Lemma ukeep_ex_of s s' l : ukeep s s' -> ukeep_ex s s' l.
  Proof. intros U u n L E Un _. now apply U. Qed.

  Lemma fresh_keep s s' l y : ukeep_ex s s' l -> tnames s' = tnames s -> ~ In (vid y) l -> fresh s y -> fresh s' y.
  Proof.
    intros U T Ni (n & L & E & Un & C & Tn). exists n. split; [apply U; assumption|]. rewrite T. auto.
  Qed.

  Lemma fresh_good s x : fresh s x -> good s (vid x) /\ head s (vid x) = Some HUnknown /\ rep s (vid x) = Some (vid x).
  Proof.
    intros (n & L & E & Un & C & _). assert (R : rep s (vid x) = Some (vid x)) by (unfold rep; rewrite L; cbn [option_map]; rewrite E; reflexivity).
    split; [|split; [exact (root_unknown_head _ _ _ L E Un)|exact R]].
    exists (vid x), n. split; [split; [exact R|auto]|]. split; [rewrite Un; reflexivity|]. rewrite C. intros c [].
  Qed.

  Lemma unknown_class_kept s s' a r n :
    root s a r n -> nty n = HUnknown -> ext s s' -> ukeep s s' -> root s' a r n.
  Proof.
    intros (Ra & L & E) Un (_ & _ & E3 & _) U. pose proof (U r n L E Un) as L'.
    assert (Rr : rep s r = Some r) by (unfold rep; rewrite L; cbn [option_map]; rewrite E; reflexivity).
    destruct (E3 a r r Ra Rr) as (r' & Ha' & Hr'). unfold rep in Hr'. rewrite L' in Hr'. cbn in Hr'.
    split; [|auto]. congruence.
  Qed.

  Definition kind_ok (k : varkind) : bool := negb (inside_pure ctx && negb (immutable k)).
  Definition has_var (x : N) : bool := match PositiveMap.find (vid x) kinds with Some _ => true | None => false end.
  Definition is_mut (x : N) : bool := match PositiveMap.find (vid x) kinds with Some Mutable => true | _ => false end.

  Definition side_s (st : s1) : bool :=
    match st with
    | D1 x k _ e => kind_ok k && has_var x && side_e e
    | A1 x e => is_mut x && negb (inside_pure ctx) && side_e e
    | X1 e => side_e e
    end.

  Definition depth_s (st : s1) : nat := match st with D1 _ _ _ e | A1 _ e | X1 e => depth e end.
  Definition def_of (st : s1) : list N := match st with D1 x _ _ _ => [x] | _ => [] end.

  Definition is_fn (e : expr) : bool := match e with EFunction _ _ _ _ _ _ => true | _ => false end.

  Lemma not_function e : is_fn (to_expr1 sp e) = false.
  Proof. destruct e; reflexivity. Qed.

  Lemma definition_nofn R x k t value :
    is_fn value = false ->
    definition kinds G R x k t value sp ctx =
    (if inside_pure ctx && negb (immutable k) then fail KImpurity sp else
     vt <- var_ty kinds x ;; ret tt ;;; dt <- resolve_type R t ;; add_constraint dt CVariable ;;; unify G sp vt dt ;;;
     '(value_ret, value_ty) <- r_expr R value ctx ;; unify G sp vt value_ty ;;; ret value_ret).
  Proof. intros H. unfold definition. destruct value; try discriminate H; reflexivity. Qed.

  Definition annot_ty (annot : option bty) : ty :=
    match annot with None => TImplied sp | Some t => TResolved (base_of t) sp end.
  Definition annot_head (annot : option bty) : tyh := match annot with None => HUnknown | Some t => bty_head t end.

  Lemma to_stmt1_def x k annot e : to_stmt1 sp (D1 x k annot e) = SDefinition "" x k (annot_ty annot) (to_expr1 sp e) sp.
  Proof. destruct annot; reflexivity. Qed.

  Lemma resolve_annot f annot s :
    resolve_type (afix (S f)) (annot_ty annot) s = Ok (next s, push_st (annot_head annot) s).
  Proof.
    unfold resolve_type. cbn [Tc.afix astep r_type]. destruct annot as [[]|]; cbn [annot_ty base_of type_body annot_head bty_head];
      rewrite (bind_ok _ _ _ _ _ (bind_ok _ _ _ _ _ (push_type_eq _ s))); reflexivity.
  Qed.

  Lemma annot_head_ok annot : okhead (annot_head annot) = true.
  Proof. destruct annot as [[]|]; reflexivity. Qed.

  Lemma run_def E x k annot e t f s :
    ty1 E e = Some t -> (forall t0, annot = Some t0 -> t0 = t) ->
    kind_ok k = true -> has_var x = true -> side_e e = true -> (depth e < S f)%nat ->
    wf s -> env_good E s -> fresh s x ->
    exists s', definition kinds G (afix (S f)) x k (annot_ty annot) (to_expr1 sp e) sp ctx s = Ok (None, s') /\
      step s s' /\ env_good ((x, t) :: E) s' /\ ukeep_ex s s' [vid x] /\ (next s <= next s')%positive.
  Proof.
    intros Ty An Kk Hv Sd Hf W EG Fr.
    destruct (fresh_good _ _ Fr) as (Gvt & Hvt & Rvt). pose proof Fr as (n0 & L0 & E0 & U0 & C0 & Tn0).
    set (vt := vid x) in *. set (h := annot_head annot). set (dt := next s).
    (* dt *)
    destruct (push_good h s W (annot_head_ok annot)) as (St1 & Gdt & Hdt & N1 & K1). set (s1 := push_st h s) in *.
    pose proof St1 as (W1 & E1 & G1 & T1).
    destruct (add_constraint_good s1 dt CVariable W1 Gdt I) as (s2 & A2 & St2 & N2 & Hd2 & Rp2 & K2).
    pose proof St2 as (W2 & E2 & G2 & T2).
    assert (Rdt1 : rep s1 dt = Some dt) by (unfold rep, s1, dt; rewrite lk_push_new; reflexivity).
    assert (L0' : lk s2 vt = Some n0).
    { apply (K2 dt Rdt1); [now apply K1|]. intros Eq. exact (wf_below _ _ _ W L0 Eq). }
    assert (Rvt2 : rep s2 vt = Some vt) by (unfold rep; rewrite L0'; cbn [option_map]; rewrite E0; reflexivity).
    assert (Rdt2 : rep s2 dt = Some dt) by (rewrite Rp2; exact Rdt1).
    assert (Hvt2 : head s2 vt = Some HUnknown) by exact (root_unknown_head _ _ _ L0' E0 U0).
    assert (J1 : hjoin HUnknown h = Some h) by (unfold h; destruct annot as [[]|]; reflexivity).
    destruct (unify_good (S g) sp vt dt s2 _ _ _ W2 (G2 _ (G1 _ Gvt)) (G2 _ Gdt) Hvt2 (eq_trans (Hd2 dt) Hdt) J1)
      as (r3 & s3 & U3 & St3 & Sr3 & Hd3 & _ & N3 & K3).
    destruct (K3 vt dt Rvt2 Rdt2) as [K3a K3b].
    pose proof St3 as (W3 & E3 & G3 & T3).
    assert (St03 : step s s3) by (eapply step_trans; [exact St1|]; eapply step_trans; eassumption).
    (* the value *)
    destruct (complete_expr e E t Ty Sd (S f) s3 Hf W3 (env_good_step _ _ _ St03 EG)) as (v & s4 & Hv4 & (St4 & Vv & U4 & N4)).
    pose proof St4 as (W4 & E4 & G4 & T4).
    assert (Gvt3 : good s3 vt) by (apply G3, G2, G1; exact Gvt).
    assert (Hvt4 : exists h', head s4 vt = Some h' /\ hjoin h' (bty_head t) = Some (bty_head t) /\
                   exists r4, rep s4 vt = Some r4 /\ (h' = HUnknown -> r4 = vt \/ r4 = dt)).
    { destruct annot as [t0|].
      - pose proof (An t0 eq_refl) as Et. subst t0. exists (bty_head t). split; [exact (step_head _ _ _ _ St4 Hd3)|].
        split; [destruct t; reflexivity|]. destruct (good_rep _ _ (G4 _ Gvt3)) as (r4 & R4). exists r4. split; [exact R4|].
        intros Hb. destruct t; discriminate Hb.
      - destruct Gvt3 as (r3' & n3 & Rt3 & _ & _). pose proof (root_head _ _ _ _ Rt3) as Hh. rewrite Hd3 in Hh. injection Hh as Hh.
        pose proof (unknown_class_kept s3 s4 vt r3' n3 Rt3 (eq_sym Hh) E4 U4) as Rt4.
        exists HUnknown. split; [rewrite (root_head _ _ _ _ Rt4), <- Hh; reflexivity|]. split; [destruct t; reflexivity|].
        exists r3'. split; [exact (proj1 Rt4)|]. intros _. destruct K3b as [K|K]; rewrite (proj1 Rt3) in K; injection K as ->; auto. }
    destruct Hvt4 as (h' & Hvt4 & J2 & r4 & R4 & Hr4).
    destruct Vv as [Gv Hv'].
    destruct (unify_good (S g) sp vt v s4 _ _ _ W4 (G4 _ Gvt3) Gv Hvt4 Hv' J2) as (r5 & s5 & U5 & St5 & Sr5 & Hd5 & _ & N5 & K5).
    destruct (good_rep _ _ Gv) as (rv & Rv). destruct (K5 r4 rv R4 Rv) as [K5a _].
    pose proof St5 as (W5 & E5 & G5 & T5).
    assert (St05 : step s s5) by (eapply step_trans; [exact St03|]; eapply step_trans; eassumption).
    exists s5. split; [|split; [exact St05|split; [|split]]].
    - rewrite (definition_nofn _ _ _ _ _ (not_function e)). unfold kind_ok in Kk. apply negb_true_iff in Kk. rewrite Kk.
      unfold var_ty. unfold has_var in Hv. fold vt in Hv |- *. destruct (PositiveMap.find vt kinds); [|discriminate Hv].
      rewrite (bind_ok _ _ _ _ _ (eq_refl : ret vt s = Ok (vt, s))).
      rewrite (bind_ok _ _ _ _ _ (eq_refl : ret tt s = Ok (tt, s))).
      rewrite (bind_ok _ _ _ _ _ (resolve_annot f annot s)). fold h s1 dt.
      rewrite (bind_ok _ _ _ _ _ A2), (bind_ok _ _ _ _ _ U3), (bind_ok _ _ _ _ _ Hv4). cbv beta iota.
      rewrite (bind_ok _ _ _ _ _ U5). reflexivity.
    - intros y ty Hy. cbn [tlookup] in Hy. destruct (N.eqb_spec y x) as [->|Ny].
      + injection Hy as <-. split; [split; [exact (G5 _ (G4 _ Gvt3))|exact Hd5]|].
        destruct St05 as (_ & _ & _ & T05). rewrite T05. exact Tn0.
      + exact (env_good_step _ _ _ St05 EG y ty Hy).
    - intros u n L Eu Un Ni. assert (Nu : u <> vt) by (intros ->; apply Ni; now left).
      assert (Nd : u <> dt) by (intros Eq; exact (wf_below _ _ _ W L Eq)).
      assert (L2 : lk s2 u = Some n) by (apply (K2 dt Rdt1); [now apply K1|exact Nd]).
      assert (L3 : lk s3 u = Some n) by (apply K3a; [exact L2|congruence|congruence]).
      assert (L4 : lk s4 u = Some n) by (apply U4; assumption).
      pose proof (root_unknown_head _ _ _ L4 Eu Un) as Hu4.
      apply K5a; [exact L4| |].
      * rewrite Eu. intros ->. destruct (head_of_rep _ _ _ W4 R4) as [H1 _]. rewrite Hvt4, Hu4 in H1. injection H1 as H1.
        destruct (Hr4 (eq_sym H1)) as [Eq|Eq]; congruence.
      * rewrite Eu. intros ->. destruct (head_of_rep _ _ _ W4 Rv) as [H1 _]. rewrite Hv', Hu4 in H1. injection H1 as H1.
        exact (bty_head_known _ (eq_sym H1)).
    - assert (next s1 = Pos.succ (next s)) by exact N1. lia.
  Qed.

  Lemma run_assign E x e t f s :
    ty1 E e = Some t -> tlookup E x = Some t -> is_mut x = true -> inside_pure ctx = false -> side_e e = true ->
    (depth e < S f)%nat -> wf s -> env_good E s ->
    exists s', stmt_body kinds G (afix (S f)) (SAssignment Nop (ERead x sp) (to_expr1 sp e) sp) ctx s = Ok (None, s') /\
      step s s' /\ ukeep s s' /\ (next s <= next s')%positive.
  Proof.
    intros Ty Tx Mx Np Sd Hf W EG.
    destruct (complete_expr e E t Ty Sd (S f) s Hf W EG) as (v & s1 & Hv & (St1 & Vv & U1 & N1)).
    assert (Rk : read_ok x = true).
    { unfold read_ok. unfold is_mut in Mx. destruct (PositiveMap.find (vid x) kinds) as [[]|]; try discriminate Mx.
      rewrite Np. reflexivity. }
    destruct (run_read E x t f s1 Tx Rk (step_wf _ _ St1) (env_good_step _ _ _ St1 EG)) as [Hr (_ & Vx & _)].
    destruct (unify_vals g sp v (vid x) s1 t (step_wf _ _ St1) Vv Vx) as (r2 & s2 & U2 & St2 & Uk2 & N2 & V2).
    exists s2. split; [|split; [exact (step_trans _ _ _ St1 St2)|split; [exact (ukeep_trans _ _ _ U1 Uk2)|lia]]].
    assert (CA : can_assign kinds sp (ERead x sp) s = Ok (tt, s)).
    { unfold can_assign, var_kind. unfold is_mut in Mx.
      destruct (PositiveMap.find (vid x) kinds) as [[]|]; try discriminate Mx. reflexivity. }
    assert (UC : (unify G sp v (vid x) ;;; g_check G sp (vid x)) s1 = Ok (tt, s2)).
    { rewrite (bind_ok _ _ _ _ _ U2). exact (good_check _ sp (vid x) s2 (step_good _ _ _ St2 (proj1 Vx))). }
    unfold stmt_body. rewrite (bind_ok _ _ _ _ _ CA). rewrite Np.
    rewrite (bind_ok _ _ _ _ _ Hv). cbv beta iota. rewrite (bind_ok _ _ _ _ _ Hr). cbv beta iota.
    rewrite (bind_ok _ _ _ _ _ (eq_refl : ret tt s1 = Ok (tt, s1))).
    rewrite (bind_ok _ _ _ _ _ UC). reflexivity.
  Qed.

  Definition defs (ss : list s1) : list N := flat_map def_of ss.

  Theorem complete_stmts f : forall ss E E',
    ty_stmts1 E ss = Some E' -> forallb side_s ss = true -> (forall st, In st ss -> (depth_s st < S f)%nat) ->
    NoDup (defs ss) ->
    forall s, wf s -> env_good E s -> (forall x, In x (defs ss) -> fresh s x) ->
    exists s', foldM (fun (acc : option tyid) (st : stmt) => sr <- r_stmt (afix (S (S f))) st ctx ;; unify_option G sp acc sr)
                     (map (to_stmt1 sp) ss) None s = Ok (None, s') /\
      step s s' /\ env_good E' s' /\ (next s <= next s')%positive.
  Proof.
    induction ss as [|st ss IH]; intros E E' Ty Sd Hd Nd s W EG Fr; cbn [ty_stmts1 map foldM] in *.
    - injection Ty as <-. exists s. split; [reflexivity|]. split; [now apply step_refl|]. split; [exact EG|lia].
    - destruct (ty_stmt1 E st) as [E1|] eqn:Ty1; [|discriminate]. cbn [forallb] in Sd. apply andb_true_iff in Sd as [Sd1 Sd2].
      assert (Hd1 : (depth_s st < S f)%nat) by (apply Hd; now left).
      assert (Step : exists s1, r_stmt (afix (S (S f))) (to_stmt1 sp st) ctx s = Ok (None, s1) /\ step s s1 /\ env_good E1 s1 /\
                     ukeep_ex s s1 (map vid (def_of st)) /\ (next s <= next s1)%positive).
      { destruct st as [x k annot e|x e|e]; cbn [ty_stmt1 side_s depth_s def_of map] in *.
        - destruct (ty1 E e) as [t|] eqn:Te; [|discriminate].
          apply andb_true_iff in Sd1 as [Sd1 Se]. apply andb_true_iff in Sd1 as [Kk Hv].
          assert (An : forall t0, annot = Some t0 -> t0 = t).
          { intros t0 ->. destruct (bty_eqb t0 t) eqn:Eq; [now apply bty_eqb_eq|discriminate]. }
          assert (E1 = (x, t) :: E) by (destruct annot as [t0|]; [destruct (bty_eqb t0 t); [|discriminate]|]; now injection Ty1).
          subst E1. rewrite to_stmt1_def. cbn [Tc.afix astep r_stmt]. unfold stmt_body.
          apply (run_def E x k annot e t f s Te An Kk Hv Se Hd1 W EG). apply Fr. cbn [defs flat_map def_of app]. now left.
        - destruct (ty1 E e) as [t|] eqn:Te; [|discriminate]. destruct (tlookup E x) as [tx|] eqn:Tx; [|discriminate].
          destruct (bty_eqb t tx) eqn:Eq; [|discriminate]. injection Ty1 as <-. apply bty_eqb_eq in Eq. subst tx.
          apply andb_true_iff in Sd1 as [Sd1 Se]. apply andb_true_iff in Sd1 as [Mx Np]. apply negb_true_iff in Np.
          cbn [to_stmt1 Tc.afix astep r_stmt].
          destruct (run_assign E x e t f s Te Tx Mx Np Se Hd1 W EG) as (s1 & H & St & U & N).
          exists s1. split; [exact H|]. split; [exact St|]. split; [exact (env_good_step _ _ _ St EG)|]. split; [now apply ukeep_ex_of|exact N].
        - destruct (ty1 E e) as [t|] eqn:Te; [|discriminate]. injection Ty1 as <-.
          destruct (complete_expr e E t Te Sd1 (S f) s Hd1 W EG) as (v & s1 & Hv & (St & _ & U & N)).
          exists s1. split; [|split; [exact St|split; [exact (env_good_step _ _ _ St EG)|split; [now apply ukeep_ex_of|exact N]]]].
          cbn [to_stmt1 Tc.afix astep r_stmt]. unfold stmt_body. rewrite (bind_ok _ _ _ _ _ Hv). reflexivity. }
      destruct Step as (s1 & H1 & St1 & EG1 & U1 & N1).
      unfold defs in Nd. cbn [flat_map] in Nd. pose proof (nodup_app_r _ _ Nd) as Nd2.
      assert (Fr1 : forall x, In x (defs ss) -> fresh s1 x).
      { intros y Hy. apply (fresh_keep s s1 (map vid (def_of st))); [exact U1|exact (proj2 (proj2 (proj2 St1)))| |].
        - intros Hin. apply in_map_iff in Hin as (z & Ez & Hz). apply vid_inj in Ez. subst z.
          exact (nodup_app_disj _ _ _ Nd Hz Hy).
        - apply Fr. unfold defs. cbn [flat_map]. apply in_or_app. now right. }
      destruct (IH E1 E' Ty Sd2 (fun st0 Hin => Hd st0 (or_intror Hin)) Nd2 s1 (step_wf _ _ St1) EG1 Fr1) as (s' & H' & St' & EG' & N').
      exists s'. split; [|split; [exact (step_trans _ _ _ St1 St')|split; [exact EG'|lia]]].
      rewrite (bind_ok _ _ _ _ _ (bind_ok _ _ _ _ _ H1)). exact H'.
  Qed.

  Fixpoint max_depth (ss : list s1) (e : e1) : nat :=
    match ss with [] => depth e | st :: q => Nat.max (depth_s st) (max_depth q e) end.

  Lemma max_depth_stmt ss e st : In st ss -> (depth_s st <= max_depth ss e)%nat.
  Proof. induction ss as [|x q IH]; intros H; [destruct H|]. cbn [max_depth]. destruct H as [->|H]; [lia|specialize (IH H); lia]. Qed.

  Lemma max_depth_expr ss e : (depth e <= max_depth ss e)%nat.
  Proof. induction ss as [|x q IH]; cbn [max_depth]; lia. Qed.

  Definition side_block (ss : list s1) (e : e1) : bool := forallb side_s ss && side_e e.

  (* a typed block whose variables are fresh is accepted *)
  Theorem complete_block ss e t f s :
    ty_block1 [] ss e = Some t -> side_block ss e = true -> NoDup (defs ss) ->
    (max_depth ss e < S f)%nat -> wf s -> (forall x, In x (defs ss) -> fresh s x) ->
    exists v s', expression_block G (afix (S (S f))) sp (to_block1 sp ss e) ctx s = Ok ((None, Some v), s') /\
                 wf s' /\ head s' v = Some (bty_head t).
  Proof.
    intros Ty Sd Nd Hf W Fr. unfold ty_block1 in Ty. destruct (ty_stmts1 [] ss) as [E'|] eqn:Tys; [|discriminate].
    unfold side_block in Sd. apply andb_true_iff in Sd as [Sds Sde].
    assert (EG0 : env_good [] s) by (intros x t0 H; discriminate H).
    destruct (complete_stmts f ss [] E' Tys Sds (fun st Hin => Nat.le_lt_trans _ _ _ (max_depth_stmt ss e st Hin) Hf) Nd s W EG0 Fr)
      as (s1 & H1 & St1 & EG1 & N1).
    destruct (complete_expr e E' t Ty Sde (S (S f)) s1 ltac:(pose proof (max_depth_expr ss e); lia) (step_wf _ _ St1) EG1)
      as (v & s2 & Hv & (St2 & Vv & _ & _)).
    exists v, s2. split; [|split; [exact (step_wf _ _ St2)|exact (proj2 Vv)]].
    unfold expression_block, to_block1. rewrite block_split_snoc. cbn [fst snd].
    rewrite (bind_ok _ _ _ _ _ H1), (bind_ok _ _ _ _ _ Hv). reflexivity.
  Qed.

  (* the same under an environment: the body of a function whose parameters have base types *)
  Theorem complete_block_env E0 ss e t f s :
    ty_block1 E0 ss e = Some t -> side_block ss e = true -> NoDup (defs ss) ->
    (max_depth ss e < S f)%nat -> wf s -> env_good E0 s -> (forall x, In x (defs ss) -> fresh s x) ->
    exists v s', expression_block G (afix (S (S f))) sp (to_block1 sp ss e) ctx s = Ok ((None, Some v), s') /\
                 wf s' /\ head s' v = Some (bty_head t).
  Proof.
    intros Ty Sd Nd Hf W EG0 Fr. unfold ty_block1 in Ty. destruct (ty_stmts1 E0 ss) as [E'|] eqn:Tys; [|discriminate].
    unfold side_block in Sd. apply andb_true_iff in Sd as [Sds Sde].
    destruct (complete_stmts f ss E0 E' Tys Sds (fun st Hin => Nat.le_lt_trans _ _ _ (max_depth_stmt ss e st Hin) Hf) Nd s W EG0 Fr)
      as (s1 & H1 & St1 & EG1 & N1).
    destruct (complete_expr e E' t Ty Sde (S (S f)) s1 ltac:(pose proof (max_depth_expr ss e); lia) (step_wf _ _ St1) EG1)
      as (v & s2 & Hv & (St2 & Vv & _ & _)).
    exists v, s2. split; [|split; [exact (step_wf _ _ St2)|exact (proj2 Vv)]].
    unfold expression_block, to_block1. rewrite block_split_snoc. cbn [fst snd].
    rewrite (bind_ok _ _ _ _ _ H1), (bind_ok _ _ _ _ _ Hv). reflexivity.
  Qed.
End Expr.
