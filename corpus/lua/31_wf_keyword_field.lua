-- expect-wf: bad <name> expected near 'end'
local t = {}
t.end = 1
