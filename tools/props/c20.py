"""C20 -- driver contract: exit status, all-or-nothing output, flags.

tie     the built `sylt` binary (rebuilt from /repo's working tree on every run) on every combination of
        output mode x --require x --no-std x -v, crossed with program classes, output-path classes and
        (run mode) scripted `lua` children, against the EXTRACTED Driver/DriverModel.v `main`.
        The model's inputs are the world: the compile outcome for these sources and flags (taken from the real
        compiler library through the harness), what the OS does with the path (by construction of the path
        class) and the scripted child.
oracle  the property itself on the same observations, without the model: status 0 iff the program is in an
        accepted class (and the child wrote nothing to stderr), every returned error is printed, FILE is
        untouched or complete, `-o -` bytes == `-o FILE` bytes, exactly one require line after the preamble,
        --no-std leaves behaviour of std-free programs unchanged (Lua model trace)."""
import atexit
import collections
import concurrent.futures
import os
import re
import resource
import shutil
import signal
import subprocess

import vlib

GEN = ["GenDriver"]
TRUSTED = [
    "Coq 8.16.1 kernel (coqc); vm_compute for C20_driver_table and C20_example; no axioms (Print Assumptions: Closed under the global context)",
    "translator tools/gens/gen_driver.py (struct Args attributes, the arms of `match &args.output` with their call skeleton and normalised text, fn main, expect() messages, the two Display arms of error.rs)",
    "coq/Driver/DocDriver.v: the hand review that relates each arm of the driver to the model's control flow",
    "Driver/DriverModel.v as the model of main/run_file_with_reader; gumdrop 0.8 (parse_args_default_or_exit: --help prints the usage and exits 0, parse errors exit 2) and Rust's Termination for Result<(), String> (status 1, `Error: {:?}`) and panic status 101: modelled, not verified; validated by the correspondence",
    "Back/Emit.v require_line/emit_after_preamble (tied byte-exactly to lua.rs by the backend correspondence of another property; re-checked here on the binary's output)",
    "extraction: ExtrOcamlBasic + ExtrOcamlString only; ocaml/driver_driver.ml",
    "the stub `lua` (a generated /bin/sh script first on PATH that records stdin and writes a scripted stdout/stderr/status); there is no real Lua interpreter in the sandbox",
    "harness `compile` (sylt_parser::tree + sylt_compiler::compile, the same library calls the driver makes) as the source of the compile outcome and of the length of each error's Display rendering",
    "the OS: file creation/truncation, pipes, exit codes, RLIMIT_FSIZE with SIGXFSZ ignored (limit 4096 provokes a short write, limit 0 a failing write with EFBIG)",
    "tools/lua_run.py (LuaCore, the Lua model extracted from Coq) for the --no-std trace comparison",
]
ASSUMPTIONS = [
    "OS behaviour outside the model, named: a missing `lua` binary and a failing File::create are panics through expect() (status 101; modelled as such and observed); signals (SIGXFSZ, SIGPIPE) are not modelled (SIGXFSZ is ignored in the file-size-limit classes); a write_all that fails after n bytes is modelled (WriteFails n) and provoked with RLIMIT_FSIZE 4096 / 0",
    "run mode decides `execution failed` by `the child wrote to stderr`, the child's exit status is not read (modelled so; class child=status1-silent shows sylt exits 0 there)",
    "the checks run as uid 0 when the sandbox does: a directory made read-only by permissions cannot be produced then; the unwritable classes are a missing directory (ENOENT), a path below a regular file (ENOTDIR), a path that is a directory (EISDIR), the empty path, and a file-size limit of 0 (create succeeds, the write fails with EFBIG); a chmod 0555 directory is added when not root",
    "when run mode fails to compile, the child is not waited for: its stdout is not ordered with sylt's own and is removed from the observation before comparing",
    "--dump-tree and the `timed` feature are outside the model; option parsing itself is gumdrop's (each case draws long/short spellings and the position of the file argument at random)",
    "error texts: the model treats each error's Display rendering as an opaque string; the tie cuts the real stdout into pieces of the lengths the harness reports for the same errors and checks each piece's header (kind, file, line)",
]
EXPLANATION = ("Theorems over the driver model for all flags and all worlds (exit status iff, errors printed in order + summary, "
               "-o FILE untouched-or-complete when the write succeeds, complete whenever the status is 0, refuted for a failing write, -o - same bytes, require line); the driver's "
               "source is re-read into a table on every run and must equal the reviewed one; the built binary is run on the full "
               "flag x program x path x child matrix and compared with the extracted model and with the property directly.")

SYLT = vlib.SYLT_BIN
PREAMBLE = os.path.join(vlib.REPO, "sylt-compiler", "src", "preamble.lua")
_state = {}

# ------------------------------------------------------------------------------------------------
# scratch area


def scratch():
    d = _state.get("scratch")
    if d and os.path.isdir(d):
        return d
    d = os.path.join(vlib.BUILD, "tmp", "c20-%d" % os.getpid())
    shutil.rmtree(d, ignore_errors=True)
    os.makedirs(os.path.join(d, "bin"))
    os.makedirs(os.path.join(d, "nolua"))
    os.makedirs(os.path.join(d, "prog"))
    os.makedirs(os.path.join(d, "out"))
    stub = os.path.join(d, "bin", "lua")
    with open(stub, "w") as f:
        f.write('#!/bin/sh\n'
                '# stub for the Lua interpreter: record stdin, then scripted stdout / stderr / status\n'
                'cat > "$C20_REC"\n'
                'if [ -n "$C20_OUT" ]; then printf "%s" "$C20_OUT"; fi\n'
                'if [ -n "$C20_ERR" ]; then printf "%s" "$C20_ERR" >&2; fi\n'
                'exit "${C20_STATUS:-0}"\n')
    os.chmod(stub, 0o755)
    _state["scratch"] = d
    atexit.register(cleanup)
    return d


def cleanup():
    d = _state.pop("scratch", None)
    if d:
        subprocess.run(["chmod", "-R", "u+rwx", d], stderr=subprocess.DEVNULL)
        shutil.rmtree(d, ignore_errors=True)


# ------------------------------------------------------------------------------------------------
# programs

def programs(ctx, variant=0):
    """class -> dict(files={rel: src}, main=rel|None, expect=accepted|rejected|missing|noarg, uses_std, fails_at_runtime)"""
    r = vlib.rng(ctx.seed, "c20-prog-%d" % variant)
    a, b = r.randint(1, 90), r.randint(1, 90)
    P = {}
    P["accepted"] = dict(files={"main.sy": "start :: fn do\n    x := %d\n    y := x + %d\n    y <=> %d\nend\n" % (a, b, a + b)},
                         main="main.sy", uses_std=False)
    P["accepted-multifile"] = dict(files={
        "main.sy": "use other\nfrom third use (k as kk)\nstart :: fn do\n    other.f(%d) <=> %d\n    kk <=> %d\nend\n" % (a, a + 1, b),
        "other.sy": "f :: fn x: int -> int do\n    ret x + 1\nend\n",
        "third.sy": "k :: %d\n" % b}, main="main.sy", uses_std=False)
    P["accepted-uses-std"] = dict(files={"main.sy": "start :: fn do\n    l := [%d, %d]\n    l -> list.push(3)\n    print(list.len(l))\nend\n" % (a, b)},
                                  main="main.sy", uses_std=True)
    P["runtime-failing"] = dict(files={"main.sy": "start :: fn do\n    x := %d\n    x <=> %d\nend\n" % (a, a + 1)},
                                main="main.sy", uses_std=False, fails_at_runtime=True)
    P["rejected-1"] = dict(files={"main.sy": "start :: fn do\n    x := %d + \"a\"\nend\n" % a}, main="main.sy", uses_std=False)
    n = r.randint(2, 4)
    P["rejected-many"] = dict(files={"main.sy": "start :: fn do\n%send\n" % "".join(
        "    v%d := undefined_%d_%d\n" % (i, i, a) for i in range(n))}, main="main.sy", uses_std=False)
    # error counts around a multiple of 256 (an exit status keeps only the low 8 bits)
    nerr = [256, 512, 255, 257][variant % 4]
    P["rejected-%d-errors" % nerr] = dict(files={"main.sy": "".join("w%d := := %d\n" % (i, i) for i in range(nerr))
                                                  + "start :: fn do end\n"}, main="main.sy", uses_std=False)
    # very long generated lines (a line-buffered stdout takes a long unfinished line differently from a file)
    P["accepted-long-list-line"] = dict(files={"main.sy": "level :: fn -> [int] do\n    ret [%s]\nend\nstart :: fn do\n    l := level()\n    l <=> l\nend\n"
                                                 % ", ".join(str(i % 97) for i in range(3000))}, main="main.sy", uses_std=False)
    nst = [200, 150, 250, 40][variant % 4]
    P["accepted-long-string-after-%d-statements" % nst] = dict(files={"main.sy": "start :: fn do\n" + "".join(
        "    q%d := %d\n" % (i, i) for i in range(nst)) + "    help := \"%s\"\n    help <=> help\nend\n" % ("lorem ipsum " * 125)},
        main="main.sy", uses_std=False)
    P["rejected-syntax-2files"] = dict(files={
        "main.sy": "use other\nstart :: fn do\n    x := )\nend\n",
        "other.sy": "f :: fn do\n    1 +\nend\n"}, main="main.sy", uses_std=False)
    P["rejected-conflict-marker"] = dict(files={"main.sy": "start :: fn do\n<<<<<<< HEAD\n    x := 1\n=======\n    x := 2\n>>>>>>> b\nend\n"},
                                         main="main.sy", uses_std=False)
    P["missing-file"] = dict(files={}, main="does_not_exist.sy", uses_std=False)
    P["no-file-argument"] = dict(files={}, main=None, uses_std=False)
    return P


REQUIRES = [None, "ext", "ext.lua", "dir/mod.lua", "a.lua.lua", "lua", "x.luax"]
CHILD = {
    # class: (stdout, stderr, status)
    "silent": ("", "", 0),
    "prints": ("STUB-LUA-OUT 1\nSTUB-LUA-OUT 2\n", "", 0),
    "stderr": ("STUB-LUA-OUT 1\n", "lua: stdin:3: Assert failed!\nstack traceback:\n\t[C]: in function 'assert'\n", 1),
    "stderr-status0": ("", "warning only\n", 0),
    "status1-silent": ("", "", 1),
    "missing-lua": None,
}
PATHCLS = ["fresh", "existing", "missing-dir", "below-a-file", "is-a-directory", "fsize-zero-fresh", "fsize-zero-existing",
           "fsize-limit-fresh", "fsize-limit-existing", "dot-slash-dash", "empty-path"]
CREATE_FAILS = ("missing-dir", "below-a-file", "is-a-directory", "readonly-dir", "empty-path")
DASH_SPELLINGS = ["-", "-/", "-/.", "-//", "-/./"]
FSIZE = 4096
# longer than any program the cases emit: a successful `-o FILE` over an existing file must REPLACE it (a writer that
# does not truncate leaves the tail of the old content behind)
OLD = b"-- old content that must survive a failed compilation\n" + b"-- stale line of the previous content\n" * 40000


def gen_cases(ctx):
    """The full matrix.  quick: one program variant; thorough: four."""
    cases = []
    nvar = 1 if ctx.tier == "quick" else 4
    # corpus first
    cp = os.path.join(vlib.VERIF, "corpus", "c20", "cases.json")
    if os.path.exists(cp):
        import json
        for c in json.load(open(cp, encoding="utf-8")):
            c = {k: v for k, v in c.items() if not k.startswith("_")}
            c.update(variant=0, spell=[True] * 4, file_pos=0, corpus=True)
            cases.append(c)
    pathcls = list(PATHCLS) + ([] if os.geteuid() == 0 else ["readonly-dir"])
    for variant in range(nvar):
        r = vlib.rng(ctx.seed, "c20-cases-%d" % variant)
        P = programs(ctx, variant)
        for prog in P:
            # one --require spelling per program (so that -o - and -o FILE of the same program can be compared)
            req_of_prog = vlib.rng(ctx.seed, "c20-req-%d-%s" % (variant, prog)).choice(REQUIRES[1:])
            for out in ("run", "dash", "file"):
                for has_req in (False, True):
                    for nostd in (False, True):
                        for v in (0, 1):
                            subs = [None]
                            if out == "run":
                                subs = list(CHILD)
                            elif out == "file":
                                subs = pathcls
                            for sub in subs:
                                c = dict(variant=variant, prog=prog, out=out, nostd=nostd,
                                         req=(req_of_prog if has_req else None),
                                         v=(r.choice([1, 2]) if v else 0), sub=sub, help=False,
                                         spell=[r.random() < 0.5 for _ in range(4)], file_pos=r.randrange(3))
                                if out == "dash":
                                    c["dash"] = "-" if (not has_req and not v) else r.choice(DASH_SPELLINGS)
                                cases.append(c)
        # help
        for hs in ("--help", "-h"):
            for prog in ("accepted", "no-file-argument", "rejected-1"):
                cases.append(dict(variant=variant, prog=prog, out=r.choice(["run", "dash", "file"]), nostd=False, req=None,
                                  v=0, sub=None, help=hs, spell=[True] * 4, file_pos=0))
    for i, c in enumerate(cases):
        c["id"] = i
        if c["out"] == "file" and c["sub"] is None:
            c["sub"] = "fresh"
        if c["out"] == "run" and c["sub"] is None:
            c["sub"] = "silent"
    return cases


def write_programs(ctx, nvar):
    d = scratch()
    out = {}
    for variant in range(nvar):
        P = programs(ctx, variant)
        for cls, p in P.items():
            pd = os.path.join(d, "prog", "v%d" % variant, cls)
            os.makedirs(pd, exist_ok=True)
            for rel, src in p["files"].items():
                with open(os.path.join(pd, rel), "w", encoding="utf-8") as f:
                    f.write(src)
            p["dir"] = pd
            out[(variant, cls)] = p
    return out


# ------------------------------------------------------------------------------------------------
# running the real binary

def argv_of(c, prog, outpath):
    sp = c["spell"]
    opts = []
    if c["out"] == "dash":
        opts.append(["-o", c.get("dash", "-")] if sp[0] else ["--output", c.get("dash", "-")])
    elif c["out"] == "file":
        opts.append(["-o", outpath] if sp[0] else ["--output", outpath])
    if c["req"] is not None:
        opts.append(["-r", c["req"]] if sp[1] else ["--require", c["req"]])
    if c["nostd"]:
        opts.append(["-n"] if sp[2] else ["--no-std"])
    if c["v"]:
        opts.append(["-" + "v" * c["v"]] if sp[3] else ["-v"] * c["v"])
    if c["help"]:
        opts.append([c["help"]])
    free = [os.path.join(prog["dir"], prog["main"])] if prog["main"] else []
    k = min(c["file_pos"], len(opts))
    groups = opts[:k] + [free] + opts[k:]
    return [x for g in groups for x in g]


def prepare_path(c, cd):
    """returns (outpath, snapshot function)"""
    sub = c["sub"]
    if c["out"] != "file":
        return None
    if sub in ("fresh", "fsize-limit-fresh", "fsize-zero-fresh"):
        return os.path.join(cd, "out.lua")
    if sub in ("existing", "fsize-limit-existing", "fsize-zero-existing"):
        p = os.path.join(cd, "out.lua")
        open(p, "wb").write(OLD)
        return p
    if sub == "missing-dir":
        return os.path.join(cd, "no", "such", "dir", "out.lua")
    if sub == "below-a-file":
        open(os.path.join(cd, "plain"), "wb").write(OLD)
        return os.path.join(cd, "plain", "out.lua")
    if sub == "is-a-directory":
        os.makedirs(os.path.join(cd, "adir", "inner"))
        return os.path.join(cd, "adir")
    if sub == "dot-slash-dash":
        return "./-"          # NOT stdout: Path::new("./-") != Path::new("-")
    if sub == "empty-path":
        return ""
    if sub == "readonly-dir":
        os.makedirs(os.path.join(cd, "ro"))
        os.chmod(os.path.join(cd, "ro"), 0o555)
        return os.path.join(cd, "ro", "out.lua")
    raise ValueError(sub)


def snapshot(cd):
    """every regular file / directory below the case directory with its content"""
    snap = {}
    for root, dirs, files in os.walk(cd):
        for x in dirs:
            snap[os.path.relpath(os.path.join(root, x), cd) + "/"] = None
        for x in files:
            if x == "stdin.rec":
                continue
            snap[os.path.relpath(os.path.join(root, x), cd)] = open(os.path.join(root, x), "rb").read()
    return snap


def observe(c, prog):
    d = scratch()
    cd = os.path.join(d, "out", "c%d" % c["id"])
    shutil.rmtree(cd, ignore_errors=True)
    os.makedirs(cd)
    outpath = prepare_path(c, cd)
    rec = os.path.join(cd, "stdin.rec")
    env = {"PATH": os.path.join(d, "bin") + ":/usr/bin:/bin", "C20_REC": rec, "NO_COLOR": "1", "HOME": cd,
           "RUST_BACKTRACE": "0"}
    child = CHILD.get(c["sub"]) if c["out"] == "run" else CHILD["silent"]
    if c["out"] == "run" and c["sub"] == "missing-lua":
        env["PATH"] = os.path.join(d, "nolua")
    elif child:
        env["C20_OUT"], env["C20_ERR"], env["C20_STATUS"] = child[0], child[1], str(child[2])
    before = snapshot(cd)
    argv = [SYLT] + argv_of(c, prog, outpath)

    def limit():
        # a file-size limit makes the OS cut (limit 4096: a short write) or refuse (limit 0: EFBIG) the write of
        # the output file; SIGXFSZ is ignored (inherited across exec) so that the write returns instead of killing
        if c["out"] == "file" and str(c["sub"]).startswith("fsize-"):
            signal.signal(signal.SIGXFSZ, signal.SIG_IGN)
            n = FSIZE if c["sub"].startswith("fsize-limit") else 0
            resource.setrlimit(resource.RLIMIT_FSIZE, (n, n))

    p = subprocess.run(argv, cwd=cd, env=env, stdout=subprocess.PIPE, stderr=subprocess.PIPE, stdin=subprocess.DEVNULL,
                       preexec_fn=limit, timeout=120)
    after = snapshot(cd)
    changed = {k: after.get(k) for k in set(before) | set(after) if before.get(k, "absent") != after.get(k, "absent")}
    child_stdin = open(rec, "rb").read() if os.path.exists(rec) else None
    return dict(argv=argv, status=p.returncode, stdout=p.stdout, stderr=p.stderr, changed=changed, outpath=outpath,
                rel_out=(outpath if not outpath else os.path.normpath(os.path.relpath(os.path.join(cd, outpath), cd))),
                child_stdin=child_stdin, before=before)


# ------------------------------------------------------------------------------------------------
# the world, as the model's input

def compile_outcomes(ctx, cases, progs):
    """(variant, prog, nostd, req) -> ('ok', bytes) | ('err', [(kind, file, line, rendered_len)])  from the real compiler library"""
    keys = sorted(set((c["variant"], c["prog"], c["nostd"], c["req"] or "") for c in cases))
    lines = []
    for (variant, cls, nostd, req) in keys:
        p = progs[(variant, cls)]
        flags = ["nostd" if nostd else "std", "render"]
        if req:
            flags.append("require=" + vlib.hexs(req))
        main = os.path.join(p["dir"], p["main"] or "none.sy")
        files = "\t".join("%s=%s" % (os.path.join(p["dir"], rel), vlib.hexs(src)) for rel, src in p["files"].items())
        lines.append("%s\t%s\t%s" % (",".join(flags), main, files))
    res = vlib.harness("compile", lines, timeout_s=30, env={"NO_COLOR": "1"})
    out = {}
    for k, l in zip(keys, res):
        if l.startswith("OK "):
            out[k] = ("ok", vlib.unhex(l[3:]))
        elif l.startswith("ERR"):
            errs = []
            for e in l.split(" ")[1:]:
                if e == "EMPTY":
                    continue
                f = e.split("|")
                rl = int(f[6][1:]) if len(f) > 6 and f[6].startswith("R") else None
                errs.append((f[0], f[1], int(f[2]), rl))
            out[k] = ("err", errs)
        else:
            out[k] = ("broken", l[:200])
    return out


LABEL = {"Syntax": b"syntax error: ", "Compile": b"compile error: ", "GitConflict": b"git conflict error: "}


def header_ok(chunk, kind, file, line):
    first = chunk.split(b"\n")[0]
    if kind == "FileNotFound":
        return chunk == b"File '%s' not found" % file.encode()
    lab = b"typecheck error: " if kind.startswith("Type") else LABEL.get(kind)
    if lab is None or not first.startswith(lab):
        return False
    if file.startswith("lib:"):
        want = b"sylt standard library %s:%d" % (file[4:].encode(), line)
    else:
        want = b"%s:%d" % (file.encode(), line)
    return first[len(lab):] == want


def split_errors(stdout, errs):
    """cut stdout into the Display renderings of the returned errors; None when it does not fit"""
    chunks, o = [], 0
    for kind, file, line, rl in errs:
        if rl is None:
            return None
        ch = stdout[o:o + rl]
        if len(ch) != rl or stdout[o + rl:o + rl + 1] != b"\n" or not header_ok(ch, kind, file, line):
            return None
        chunks.append(ch)
        o += rl + 1
    return chunks if o == len(stdout) else None


def world_of(c, obs, outcome, usage):
    """model case line + canonicalised observation line"""
    stub_out = b""
    child = None
    if c["out"] == "run" and c["sub"] != "missing-lua":
        child = CHILD[c["sub"]]
        stub_out = child[0].encode()
    real_stdout = obs["stdout"]
    note = None
    # compile outcome
    if c["prog"] == "no-file-argument" or c["help"]:
        comp = "E."
    elif outcome[0] == "ok":
        comp = "O" + vlib.hexs(outcome[1])
    elif outcome[0] == "err":
        errs = outcome[1]
        own = real_stdout
        if c["out"] == "run" and stub_out and own.count(stub_out) == 1:
            # unwaited child: its output is not ordered with ours (see ASSUMPTIONS)
            own = own.replace(stub_out, b"")
            real_stdout = own
        chunks = split_errors(own, errs)
        if chunks is None and own == b"":
            chunks = [b"<error %d: %s %s:%d>" % (i, e[0].encode(), e[1].encode(), e[2]) for i, e in enumerate(errs)]
        elif chunks is None:
            # cannot attribute the printed text to the returned errors: give the model placeholders, the
            # comparison then fails on stdout (unless nothing is printed at all, e.g. a panic before compiling)
            chunks = [b"<error %d: %s %s:%d>" % (i, e[0].encode(), e[1].encode(), e[2]) for i, e in enumerate(errs)]
            note = "printed text does not split into the %d returned errors" % len(errs)
        comp = "E" + (",".join(vlib.hexs(x) for x in chunks) if chunks else ".")
    else:
        comp = "E."
        note = "harness: " + str(outcome[1])
    sub = c["sub"]
    create, write = "ok", "all"
    if c["out"] == "file":
        if sub in CREATE_FAILS:
            create = "fail:-"
        elif sub.startswith("fsize-"):
            # write_all under a file-size limit (SIGXFSZ ignored): the first write is cut at the limit, the next
            # one fails with EFBIG; what was written before stays in FILE
            n = len(outcome[1]) if outcome[0] == "ok" else 0
            lim = FSIZE if sub.startswith("fsize-limit") else 0
            write = "fail:%d:%s" % (lim, vlib.hexs("File too large (os error 27)")) if n > lim else "all"
    lua = "0" if (c["out"] == "run" and sub == "missing-lua") else "1"
    ch = "%s:%s:%d" % (vlib.hexs(child[0]), vlib.hexs(child[1]), child[2]) if child else "-:-:0"
    outarg = {"run": "N", "dash": "S" + vlib.hexs(c.get("dash", "-")), "file": "S" + vlib.hexs(obs["outpath"] or "")}[c["out"]]
    req = "N" if c["req"] is None else "S" + vlib.hexs(c["req"])
    args = "." if c["prog"] == "no-file-argument" else vlib.hexs(obs["argv"][0])  # content irrelevant, non-empty
    line = "\t".join([outarg, req, "1" if c["nostd"] else "0", str(c["v"]), "1" if c["help"] else "0", args, comp,
                      create, write, lua, ch, vlib.hexs(usage), vlib.hexs(SYLT)])
    # the observation in the model's vocabulary
    if c["out"] == "file" and obs["changed"]:
        if set(obs["changed"]) == {obs["rel_out"]} and obs["changed"][obs["rel_out"]] is not None:
            fe = "H" + vlib.hexs(obs["changed"][obs["rel_out"]])
        else:
            fe = "OTHER:" + ",".join(sorted(obs["changed"]))
    elif obs["changed"]:
        fe = "OTHER:" + ",".join(sorted(obs["changed"]))
    else:
        fe = "U"
    if obs["child_stdin"] is None:
        chd = "N"
    else:
        chd = vlib.hexs(obs["child_stdin"])
    return line, dict(status=obs["status"], stdout=real_stdout, stderr=obs["stderr"], file=fe, child=chd), note


def compare(c, model_line, o):
    """list of differences between the model's result line and the canonicalised observation"""
    m = dict(x.split("=", 1) for x in model_line.split(" ")) if model_line.startswith("status=") else None
    if m is None:
        return ["model driver: " + model_line[:100]]
    diffs = []
    if int(m["status"]) != o["status"]:
        diffs.append("status model=%s real=%s" % (m["status"], o["status"]))
    if vlib.unhex(m["stdout"]) != o["stdout"]:
        diffs.append("stdout model=%r real=%r" % (vlib.unhex(m["stdout"])[-160:], o["stdout"][-160:]))
    ms = vlib.unhex(m["stderr"])
    if int(m["status"]) == 101:
        # a panic: the message passed to expect() must be in the real stderr (which also has thread/location/backtrace)
        if ms not in o["stderr"] or b"panicked" not in o["stderr"]:
            diffs.append("panic message model=%r real=%r" % (ms, o["stderr"][:300]))
    elif ms != o["stderr"]:
        diffs.append("stderr model=%r real=%r" % (ms, o["stderr"][:300]))
    mf = m["file"]
    if mf != o["file"]:
        diffs.append("file effect model=%s real=%s" % (mf[:80], o["file"][:80]))
    mc = m["child"]
    mc_stdin = "N" if mc == "N" else mc.split(":")[0]
    if mc_stdin != o["child"]:
        diffs.append("child stdin model=%s real=%s" % (mc_stdin[:60], o["child"][:60]))
    return diffs


# ------------------------------------------------------------------------------------------------
# the property itself, on the observations (no model)

def property_violations(c, prog, obs, outcome, dash_bytes, preamble):
    """list of (classifier, text).  `outcome` is only used for the NUMBER of returned errors."""
    v = []
    if c["help"]:
        if obs["status"] != 0 or obs["changed"]:
            v.append(("help", "--help: status %d, files changed %s" % (obs["status"], sorted(obs["changed"]))))
        return v
    cls = c["prog"]
    accepted_class = cls.startswith("accepted") or cls == "runtime-failing"
    if cls == "accepted-uses-std" and c["nostd"]:
        accepted_class = False
    compile_ok = accepted_class
    if (outcome[0] == "ok") != compile_ok and cls != "no-file-argument":
        v.append(("class", "program class %s expected compile_ok=%s but the compiler says %s" % (cls, compile_ok, outcome[0])))
    run_ok = True
    if c["out"] == "run":
        ch = CHILD.get(c["sub"])
        run_ok = ch is not None and ch[1] == ""
    os_ok = not (c["out"] == "file" and (c["sub"] in CREATE_FAILS or (c["sub"].startswith("fsize-") and compile_ok))) \
        and not (c["out"] == "run" and c["sub"] == "missing-lua")
    should_succeed = compile_ok and run_ok and cls != "no-file-argument"
    # 1. exit status
    if os_ok:
        if (obs["status"] == 0) != should_succeed:
            v.append(("exit-status", "status %d but compilation%s %s" % (
                obs["status"], "/execution" if c["out"] == "run" else "", "succeeded" if should_succeed else "failed")))
    else:
        if obs["status"] == 0:
            v.append(("exit-status", "status 0 although the output could not be written / lua could not be started"))
        elif obs["status"] == 101:
            pass  # reported as an observation (panic instead of an error message), see evidence
    # 2. every error printed
    if os_ok and not compile_ok and cls != "no-file-argument":
        n = len(outcome[1]) if outcome[0] == "err" else -1
        heads = len(re.findall(rb"^(?:syntax error|typecheck error|compile error|git conflict error): |^File '.*' not found$",
                               obs["stdout"], re.M))
        if heads != n or (b'Error: "%d errors occured."' % n) not in obs["stderr"]:
            v.append(("errors-printed", "the compiler returned %d errors, stdout shows %d, stderr %r" % (n, heads, obs["stderr"][-60:])))
    if os_ok and compile_ok and not run_ok:
        if CHILD[c["sub"]][1].encode() not in obs["stdout"] or b'Error: "1 errors occured."' not in obs["stderr"]:
            v.append(("errors-printed", "the child's stderr is not reported"))
    # 3. -o FILE all or nothing
    if c["out"] == "file":
        for path, content in obs["changed"].items():
            if path != obs["rel_out"]:
                v.append(("stray-file", "changed %s" % path))
            elif not compile_ok:
                v.append(("file-touched-on-error", "compilation failed but %s was written (%d bytes)" % (path, len(content or b""))))
            elif content != dash_bytes:
                if not c["sub"].startswith("fsize-"):
                    tag = "file-incomplete"
                elif obs["status"] == 0:
                    tag = "incomplete-file-status-0"          # a short write taken for success (fixed by /repo ddb4597)
                else:
                    tag = "incomplete-file-on-write-error"    # File::create truncated FILE, then the write failed
                v.append((tag, "FILE holds %d bytes, the complete program has %d; status %d" % (
                    len(content or b""), len(dash_bytes or b""), obs["status"])))
        if compile_ok and os_ok and obs["status"] == 0 and obs["rel_out"] not in obs["changed"]:
            v.append(("file-missing", "status 0 but FILE was not written"))
    else:
        for path in obs["changed"]:
            v.append(("stray-file", "changed %s" % path))
    # 4. -o - bytes
    if c["out"] == "dash" and compile_ok:
        if obs["stdout"] != dash_bytes:
            v.append(("dash-bytes", "-o - wrote %d bytes, expected %d" % (len(obs["stdout"]), len(dash_bytes or b""))))
        if not obs["stdout"].startswith(preamble):
            v.append(("preamble", "output does not start with preamble.lua"))
    # 5. the child got the program
    if c["out"] == "run" and compile_ok and os_ok and obs["child_stdin"] != dash_bytes:
        v.append(("child-stdin", "lua received %s bytes, the program has %d" % (
            None if obs["child_stdin"] is None else len(obs["child_stdin"]), len(dash_bytes or b""))))
    return v


def strip_lua(m):
    return m[:-4] if m.endswith(".lua") else m


def require_violations(by_key, preamble):
    """exactly one require line after the preamble: with-flag bytes == preamble ++ require "M'" ++ (without-flag bytes - preamble)"""
    v = []
    n = 0
    for (variant, cls, nostd, req), b in by_key.items():
        if not req:
            continue
        base = by_key.get((variant, cls, nostd, ""))
        if b is None or base is None:
            continue
        n += 1
        want = preamble + b'require "%s"' % strip_lua(req).encode() + base[len(preamble):]
        if not base.startswith(preamble) or b != want:
            v.append(("require", "--require %s (%s, no_std=%s): output is not preamble ++ require line ++ body" % (req, cls, nostd)))
        elif b[len(preamble):].count(b"require") - base[len(preamble):].count(b"require") != 1 + strip_lua(req).count("require"):
            v.append(("require", "--require %s: number of `require` occurrences" % req))
    return v, n


def mask(line):
    return re.sub(rb"\b([VL])\d+\b", rb"\1#", line)


def nostd_violations(ctx, by_key, preamble):
    """std-free programs: accepted both ways, the --no-std body is contained in the std body (temporaries renumbered),
    and the Lua model gives the same outcome and printed trace"""
    import lua_run
    v, pairs = [], []
    for (variant, cls, nostd, req), b in by_key.items():
        if nostd or req or cls == "accepted-uses-std":
            continue
        nb = by_key.get((variant, cls, True, ""))
        if (b is None) != (nb is None):
            v.append(("no-std", "%s: accepted with std=%s, with --no-std=%s" % (cls, b is not None, nb is not None)))
        if b is None or nb is None:
            continue
        have = collections.Counter(mask(l) for l in b[len(preamble):].split(b"\n"))
        need = collections.Counter(mask(l) for l in nb[len(preamble):].split(b"\n"))
        miss = need - have
        miss.pop(b"", None)
        # the call of start is numbered differently and is the last line in both
        if sum(miss.values()) > 0:
            v.append(("no-std", "%s: lines of the --no-std output missing from the std output: %r" % (cls, list(miss)[:3])))
        pairs.append((variant, cls, b, nb))
    traces = 0
    res = None
    if pairs:
        try:
            res = lua_run.run_lua([x for p in pairs for x in (p[2], p[3])])
        except Exception as e:      # the Lua model (another part of the development) does not build right now
            _state["lua_model_unavailable"] = str(e)[-400:]
            vlib.log("C20: Lua model unavailable, --no-std trace comparison skipped")
    if res:
        for i, (variant, cls, b, nb) in enumerate(pairs):
            a, bb = res[2 * i], res[2 * i + 1]
            traces += 1
            if a["final"] in ("fuel", "unsupported", "crash", "loaderr") or bb["final"] in ("fuel", "unsupported", "crash", "loaderr"):
                v.append(("no-std-lua-model", "%s: the Lua model could not run the output: %s / %s" % (cls, a["final"] + a["msg"][:80], bb["final"] + bb["msg"][:80])))
            elif (a["final"], a["trace"]) != (bb["final"], bb["trace"]):
                v.append(("no-std", "%s: behaviour differs: std %s %r / no-std %s %r" % (cls, a["final"], a["trace"][:5], bb["final"], bb["trace"][:5])))
            elif cls == "runtime-failing" and a["final"] != "error":
                v.append(("no-std-lua-model", "runtime-failing program did not fail in the Lua model"))
    return v, traces


# ------------------------------------------------------------------------------------------------

def build(ctx):
    ok, out = vlib.build_sylt_bin()
    if not ok:
        return False, out
    ok, exe, out2 = vlib.build_ocaml("driver", "ExtractDriver.v", "driver_driver.ml", "drivermodel")
    _state["exe"] = exe
    return ok, out2


def run_all(ctx):
    if "run" in _state:
        return _state["run"]
    cases = gen_cases(ctx)
    nvar = 1 + max(c["variant"] for c in cases)
    progs = write_programs(ctx, nvar)
    outcomes = compile_outcomes(ctx, cases, progs)
    with concurrent.futures.ThreadPoolExecutor(max_workers=vlib.NCPU) as ex:
        obs = list(ex.map(lambda c: observe(c, progs[(c["variant"], c["prog"])]), cases))
    # the usage text: from a no-argument case (stdout = usage ++ "\n")
    usage = b""
    for c, o in zip(cases, obs):
        if c["prog"] == "no-file-argument" and not c["help"] and o["stdout"].endswith(b"\n"):
            usage = o["stdout"][:-1]
            break
    _state["run"] = (cases, progs, outcomes, obs, usage)
    return _state["run"]


def key_of(c):
    return (c["variant"], c["prog"], c["nostd"], c["req"] or "")


def tie(ctx):
    cases, progs, outcomes, obs, usage = run_all(ctx)
    lines, canon, notes = [], [], []
    for c, o in zip(cases, obs):
        l, k, note = world_of(c, o, outcomes[key_of(c)], usage)
        lines.append(l)
        canon.append(k)
        notes.append(note)
    model = vlib.model(_state["exe"], [], lines)
    mism = []
    dist = collections.Counter()
    statuses = collections.Counter()
    nontrivial = set()
    for c, o, l, k, note, m in zip(cases, obs, lines, canon, notes, model):
        dist["out=%s" % c["out"]] += 1
        dist["prog=%s" % c["prog"]] += 1
        if c["out"] == "file":
            dist["path=%s" % c["sub"]] += 1
        if c["out"] == "run":
            dist["child=%s" % c["sub"]] += 1
        dist["require=%s" % ("yes" if c["req"] else "no")] += 1
        dist["no_std=%s" % c["nostd"]] += 1
        dist["v=%d" % c["v"]] += 1
        if c["help"]:
            dist["help"] += 1
        statuses[o["status"]] += 1
        d = compare(c, m, k)
        if note:
            d.append(note)
        if d and len(mism) < 10:
            mism.append({"case": {x: c[x] for x in ("prog", "out", "sub", "req", "nostd", "v", "help")},
                         "argv": o["argv"][1:], "differences": d})
        elif d:
            mism.append(None)
        if o["stdout"] or o["changed"] or o["child_stdin"]:
            nontrivial.add((c["prog"], c["out"], c["sub"], c["req"], c["nostd"], c["v"], c["help"]))
    nm = len(mism)
    mism = [m for m in mism if m]
    dist = dict(sorted(dist.items()))
    dist["exit_statuses"] = {str(k): v for k, v in sorted(statuses.items())}
    dist["flag_combinations"] = len(set((c["out"], bool(c["req"]), c["nostd"], bool(c["v"])) for c in cases))
    dist["compile_outcomes"] = dict(collections.Counter(
        ("ok" if v[0] == "ok" else "err%d" % len(v[1]) if v[0] == "err" else "broken") for v in outcomes.values()))
    samples = []
    for i in (0, len(cases) // 3, 2 * len(cases) // 3, len(cases) - 1):
        samples.append({"argv": [os.path.basename(x) if x.startswith("/") else x for x in obs[i]["argv"][1:]],
                        "class": "%s/%s/%s" % (cases[i]["prog"], cases[i]["out"], cases[i]["sub"]),
                        "status": obs[i]["status"], "stdout_bytes": len(obs[i]["stdout"]),
                        "stderr": obs[i]["stderr"][:80].decode("utf-8", "replace"), "file": canon[i]["file"][:40],
                        "model": model[i][:60]})
    return {"name": "driver", "ok": nm == 0, "mismatches": mism, "evaluations": len(cases), "distinct_nontrivial": len(nontrivial),
            "rule": "full matrix: output mode {run, -o -, -o FILE} x --require {absent, one of 6 spellings incl. .lua suffixes} x --no-std x "
                    "-v, crossed with 10 program classes (accepted single/multi-file/std-using, runtime-failing, rejected with 1 / several "
                    "errors / syntax errors in two files / conflict marker, missing file, no file argument), with 11 output-path classes "
                    "for -o FILE and 6 child classes for run mode; --help cases; option spelling (long/short) and file position drawn "
                    "at random; non-trivial = the run wrote to stdout, to a file or to the child; distinct by (class, flags)",
            "samples": samples, "distribution": dist}


def known_classifiers():
    out = set()
    for k in vlib.known_findings("C20"):
        if k.get("status") == "open":
            out.update(x for x in (k.get("classifiers") or [k.get("classifier")]) if x)
    return out


def oracle(ctx):
    cases, progs, outcomes, obs, usage = run_all(ctx)
    preamble = open(PREAMBLE, "rb").read()
    # reference bytes per (variant, prog, nostd, req): what `-o -` printed
    by_key = {}
    for c, o in zip(cases, obs):
        if c["out"] == "dash" and not c["help"] and c["v"] == 0:
            by_key[key_of(c)] = o["stdout"] if o["status"] == 0 else None
    viols = []
    for c, o in zip(cases, obs):
        prog = progs[(c["variant"], c["prog"])]
        for tag, text in property_violations(c, prog, o, outcomes[key_of(c)], by_key.get(key_of(c)), preamble):
            viols.append({"classifier": "c20:" + tag, "what": text, "argv": o["argv"][1:],
                          "case": {x: c[x] for x in ("variant", "prog", "out", "sub", "req", "nostd", "v", "help")},
                          "files": prog["files"], "status": o["status"], "stderr": o["stderr"][:400].decode("utf-8", "replace")})
    rv, nreq = require_violations(by_key, preamble)
    nv, ntr = nostd_violations(ctx, by_key, preamble)
    for tag, text in rv + nv:
        viols.append({"classifier": "c20:" + tag, "what": text})
    panics = sum(1 for o in obs if o["status"] == 101)
    extra = {"require_pairs_checked": nreq, "no_std_trace_pairs": ntr, "panics_observed_status_101": panics}
    if _state.get("lua_model_unavailable"):
        extra["lua_model_unavailable"] = _state["lua_model_unavailable"]
    return viols, extra


def always(ctx):
    if True:
        viols, extra = oracle(ctx)
        known = known_classifiers()
        unknown = [v for v in viols if v["classifier"] not in known]
        _state["violations"] = unknown
        by = collections.Counter(v["classifier"] for v in viols)
        for v in unknown[:3]:
            ctx.brk("property:" + v["classifier"], v["what"] + " argv=" + " ".join(v.get("argv", [])))
        if extra.get("lua_model_unavailable"):
            ctx.brk("oracle:no-std-trace", "the Lua model (tools/lua_run.py) could not be built/run, the --no-std trace comparison "
                    "was not evaluated: " + extra["lua_model_unavailable"])
        return {"property_oracle": {"violations_by_classifier": dict(by), "unclassified": len(unknown),
                                    "known_classifiers": sorted(x for x in known if x), **extra},
                "observations": [
                    "a failing File::create (missing directory, path below a file, path is a directory) and a missing `lua` are "
                    "panics (status 101, `thread 'main' panicked ... Failed to create file: ...`), not error messages; FILE stays untouched",
                    "child=status1-silent: sylt exits 0 when the child exits 1 without writing to stderr (the status is not read)",
                    "rejected programs in run mode: `lua` is started before compiling and is not waited for"]}


def search(ctx):
    if True:
        viols = _state.get("violations")
        if viols is None:
            build(ctx)
            v, _ = oracle(ctx)
            known = known_classifiers()
            viols = [x for x in v if x["classifier"] not in known]
        if not viols:
            return None
        viols.sort(key=lambda v: (len(v.get("argv", [])), sum(len(s) for s in v.get("files", {}).values())))
        w = dict(viols[0])
        w["failing_inputs_found"] = len(viols)
        w["replay_cmd"] = "python3 tools/check.py C20 --replay <this file>"
        return w


def run_single(ctx, case):
    """re-run one case of the matrix (used by replay and replay_known)"""
    build(ctx)
    c = dict(case)
    c.setdefault("id", 0)
    c.setdefault("spell", [True] * 4)
    c.setdefault("file_pos", 0)
    progs = write_programs(ctx, c["variant"] + 1)
    prog = progs[(c["variant"], c["prog"])]
    o = observe(c, prog)
    ref = dict(c, out="dash", sub=None, id=1, v=0)
    o2 = observe(ref, prog)
    outcome = compile_outcomes(ctx, [c], progs)[key_of(c)]
    preamble = open(PREAMBLE, "rb").read()
    return property_violations(c, prog, o, outcome, o2["stdout"] if o2["status"] == 0 else None, preamble), o


def replay_known(ctx, kf):
    w = kf.get("witness") or {}
    if "case" not in w:
        return False
    v, _ = run_single(ctx, w["case"])
    cls = kf.get("classifiers") or [kf.get("classifier")]
    return any("c20:" + tag in cls for tag, _ in v)


def replay(ctx, rep):
    fi = rep.get("failing_input") or {}
    if "case" not in fi:
        print("nothing to replay: no failing case in this file")
        return 0
    vlib.build_harness()
    v, o = run_single(ctx, fi["case"])
    print("argv:", " ".join(o["argv"][1:]))
    print("status:", o["status"], "changed:", {k: (None if x is None else len(x)) for k, x in o["changed"].items()})
    for tag, text in v:
        print("violation:", tag, text)
    if not v:
        print("property holds")
    return 1 if v else 0
