-- expect-final: loaderr
-- expect-wf: bad unsupported: method definition
-- NOTE: Lua loads this; LuaCore does not model method DEFINITIONS (never emitted by the Sylt compiler); method CALLS are supported
local t = {}
function t:m() return self end
