
(* the exported form: no interpreter function ever shrinks a store *)
Theorem exec_store_monotone : forall n e s st, st_le st (res_state (exec n e s st)).
Proof. intros. apply (m_exec _ (mono_all n)). apply st_le_refl. Qed.

Theorem exec_block_store_monotone : forall n e seen b st, st_le st (res_state (exec_block n e seen b st)).
Proof. intros. apply (m_exec_block _ (mono_all n)). apply st_le_refl. Qed.

Theorem call_store_monotone : forall n f args st, st_le st (res_state (call n f args st)).
Proof. intros. apply (m_call _ (mono_all n)). apply st_le_refl. Qed.

(* ---------------------------------------------------------------------------------------- *)
(* the trie and the coding of names *)

Lemma pget_pset_same : forall (A : Type) k (v : A) m, pget k (pset k v m) = Some v.
Proof. induction k; destruct m; cbn [pget pset]; auto. Qed.

Lemma pget_pset_other : forall (A : Type) k k' (v : A) m, k <> k' -> pget k (pset k' v m) = pget k m.
Proof.
  induction k; destruct k'; destruct m; cbn [pget pset]; intros; try congruence; auto;
    try (rewrite IHk by congruence; destruct k; reflexivity);
    try (destruct k; reflexivity).
Qed.

Lemma bit_inj : forall b b' p p', bit b p = bit b' p' -> b = b' /\ p = p'.
Proof. destruct b, b'; cbn; intros p p' H; inversion H; auto. Qed.

Lemma pos_of_ascii_inj : forall c c' p p', pos_of_ascii c p = pos_of_ascii c' p' -> c = c' /\ p = p'.
Proof.
  destruct c, c'; cbn [pos_of_ascii]; intros p p' H.
  repeat (apply bit_inj in H; destruct H as [? H]). subst. auto.
Qed.

Lemma pos_of_ascii_not_one : forall c p, pos_of_ascii c p <> xH.
Proof. destruct c as [[] ? ? ? ? ? ? ?]; cbn; discriminate. Qed.

Lemma pos_of_string_inj : forall s s', pos_of_string s = pos_of_string s' -> s = s'.
Proof.
  induction s; destruct s'; cbn [pos_of_string]; intros H; auto.
  - symmetry in H. apply pos_of_ascii_not_one in H. contradiction.
  - apply pos_of_ascii_not_one in H. contradiction.
  - apply pos_of_ascii_inj in H. destruct H as [-> H]. f_equal. auto.
Qed.

Lemma sget_sset_same : forall (A : Type) x (v : A) m, sget x (sset x v m) = Some v.
Proof. intros. apply pget_pset_same. Qed.

Lemma sget_sset_other : forall (A : Type) x y (v : A) m, x <> y -> sget x (sset y v m) = sget x m.
Proof. intros. apply pget_pset_other. intro H0. apply pos_of_string_inj in H0. contradiction. Qed.

(* ---------------------------------------------------------------------------------------- *)
(* local variables get fresh cells *)

Definition allocated (st : state) (c : positive) : Prop := (c < s_ncell st)%positive.

Lemma alloc_cell_fresh : forall st v c st',
  alloc_cell st v = (c, st') ->
  ~ allocated st c /\ allocated st' c /\ s_ncell st' = Pos.succ (s_ncell st) /\ get_cell st' c = v.
Proof.
  unfold alloc_cell, allocated, get_cell. intros st v c st' H. inversion H; subst; clear H.
  cbn [s_ncell s_cells]. rewrite pget_pset_same. repeat split; lia.
Qed.

(* every name bound by bind_locals ends up mapped to a cell that did not exist before *)
Lemma bind_locals_fresh : forall xs e vs st e' st',
  bind_locals e xs vs st = (e', st') ->
  (s_ncell st <= s_ncell st')%positive /\
  (forall x, In x xs -> exists c, sget x e' = Some c /\ ~ allocated st c /\ allocated st' c) /\
  (forall x, ~ In x xs -> sget x e' = sget x e).
Proof.
  induction xs as [|y xs IH]; intros e vs st e' st' H; cbn [bind_locals] in H.
  - inversion H; subst. split; [lia|]. split; [intros x []|auto].
  - destruct (alloc_cell st (first vs)) as [c st1] eqn:E.
    apply alloc_cell_fresh in E. destruct E as (Hn & Ha & Hs & _).
    apply IH in H. destruct H as (Hle & Hin & Hout).
    unfold allocated in *. split; [lia|]. split.
    + intros x [->|Hx].
      * destruct (in_dec string_dec x xs) as [Hi|Hi].
        -- destruct (Hin x Hi) as (c' & ? & ? & ?). exists c'. repeat split; auto; lia.
        -- exists c. rewrite (Hout x Hi), sget_sset_same. repeat split; auto; lia.
      * destruct (Hin x Hx) as (c' & ? & ? & ?). exists c'. repeat split; auto; lia.
    + intros x Hx. cbn [In] in Hx. rewrite Hout by tauto. apply sget_sset_other. intro; subst; tauto.
Qed.

(* `local x1, ..., xk = es`: after a successful execution every xi denotes a cell that was not
   allocated in the state before the statement, and no store has shrunk *)
Theorem local_fresh : forall n e xs es st e' sg st',
  exec n e (SLocal xs es) st = ROk (e', sg) st' ->
  sg = SigNormal /\ st_le st st' /\
  forall x, In x xs -> exists c, sget x e' = Some c /\ ~ allocated st c /\ allocated st' c.
Proof.
  intros n e xs es st e' sg st' H. destruct n as [|n]; [discriminate|]. cbn [exec] in H.
  pose proof (m_eval_list _ (mono_all n) st e es st (st_le_refl st)) as Hm.
  destruct (eval_list n e es st) as [vs st1| | |]; cbn [bind res_state] in *; try discriminate.
  destruct (bind_locals e xs vs st1) as [e1 st2] eqn:E. inversion H; subst; clear H.
  pose proof (bind_locals_le xs st e vs st1 Hm) as Hm2. rewrite E in Hm2. cbn [snd] in Hm2.
  apply bind_locals_fresh in E. destruct E as (Hle & Hin & _).
  split; [reflexivity|]. split; [assumption|].
  intros x Hx. destruct (Hin x Hx) as (c & ? & Hna & ?). exists c. repeat split; auto.
  unfold allocated in *. destruct Hm as (? & _). lia.
Qed.
