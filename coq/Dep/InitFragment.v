(* The abstract initialisation calculus of Dep/InitSem.v, for a fragment of the RESOLVED programs of
   Syntax/Resolved.v: top-level definitions whose values are built from booleans, numbers and nil (no content:
   unit), reads of variables, calls, function literals (parameters curried; the body is ONE statement: `ret e`, an
   expression, or an assignment `g = e` to a variable), pairs, two-armed if-expressions and binary / unary operators
   (both operands are evaluated: a pair).  `tr_e` translates; whatever lies outside the fragment becomes unit.
   `uses` of the translation is contained in `uses_e` of the expression (tr_uses), so the order computed by
   `initialization_order` -- every used global is defined earlier, or is the function's own name -- makes the
   translated program safe to run: initialised before use, for Resolved.v programs of the fragment. *)
From Coq Require Import String List NArith ZArith Bool Lia Permutation.
From Sylt Require Import Syntax.Resolved Dep.Deps Dep.Topo Dep.TopoProofs Dep.DepProofs Dep.DepsComplete
     Dep.InitSem Dep.InitSemProofs Dep.InitOrder.
Import ListNotations.

(* position of a local variable in the de Bruijn context; None entries are binders without a name *)
Fixpoint idx (v : N) (ctx : list (option N)) : option nat :=
  match ctx with
  | [] => None
  | Some w :: ctx' => if N.eqb v w then Some 0 else match idx v ctx' with Some n => Some (S n) | None => None end
  | None :: ctx' => match idx v ctx' with Some n => Some (S n) | None => None end
  end.

Fixpoint lams (n : nat) (body : tm) : tm := match n with 0 => body | S n' => TLam (lams n' body) end.

Fixpoint tr_e (ctx : list (option N)) (e : expr) {struct e} : tm :=
  match e with
  | ERead v _ => match idx v ctx with Some n => TLoc n | None => TGlob v end
  | EBool b _ => TBool b
  | ECall f args _ =>
      match args with
      | [] => TApp (tr_e ctx f) TUnit
      | _ => (fix go (acc : tm) (l : list expr) : tm :=
                match l with [] => acc | a :: l' => go (TApp acc (tr_e ctx a)) l' end) (tr_e ctx f) args
      end
  | EFunction _ params _ body _ _ =>
      let ps := map (fun p => Some (snd (fst (fst p)))) params in
      let ctx' := match ps with [] => None :: ctx | _ => rev ps ++ ctx end in
      lams (match ps with [] => 1 | _ => length ps end)
           (match body with [s] => tr_s ctx' s | _ => TUnit end)
  | ECollection CTuple [a; b] _ => TPair (tr_e ctx a) (tr_e ctx b)
  | EBinOp _ a b _ => TPair (tr_e ctx a) (tr_e ctx b)
  | EUniOp _ a _ => tr_e ctx a
  | EIf [IfBranch (Some c) [s1] _; IfBranch None [s2] _] _ => TIf (tr_e ctx c) (tr_s ctx s1) (tr_s ctx s2)
  | _ => TUnit
  end
with tr_s (ctx : list (option N)) (s : stmt) {struct s} : tm :=
  match s with
  | SRet (Some e) _ | SStatementExpression e _ => tr_e ctx e
  | SAssignment Nop (ERead g _) v _ =>
      match idx g ctx with Some _ => tr_e ctx v | None => TSet g (tr_e ctx v) end
  | _ => TUnit
  end.

(* a top-level definition *)
Definition tr_def (s : stmt) : option (N * tm) :=
  match s with SDefinition _ v _ _ value _ => Some (v, tr_e [] value) | _ => None end.

Definition tr_prog (ss : list stmt) : list (N * tm) :=
  flat_map (fun s => match tr_def s with Some d => [d] | None => [] end) ss.

(* ---- uses of the translation are uses of the expression ---- *)
Lemma uses_lams n b : uses (lams n b) = uses b.
Proof. induction n; cbn; auto. Qed.

Lemma tr_uses_e : forall e ctx g, In g (uses (tr_e ctx e)) -> In g (uses_e e)
with tr_uses_s : forall s ctx g, In g (uses (tr_s ctx s)) -> In g (uses_s s).
Proof.
  - destruct e; intros ctx g H; cbn [tr_e] in H; try (cbn in H; contradiction).
    + destruct (idx var ctx); cbn in H; [contradiction|]. cbn. exact H.
    + (* ECall *)
      cbn [uses_e]. destruct args as [|a0 args0].
      * cbn in H. rewrite app_nil_r in H. apply in_or_app. left. eapply tr_uses_e. exact H.
      * assert (G : forall l acc, In g (uses ((fix go (acc : tm) (l : list expr) : tm :=
                                                 match l with [] => acc | a :: l' => go (TApp acc (tr_e ctx a)) l' end) acc l)) ->
                                  In g (uses acc) \/ In g (flat_map uses_e l)).
        { induction l as [|a l IHl]; intros acc Hg; [left; exact Hg|]. cbn [flat_map].
          destruct (IHl _ Hg) as [Ha|Hl]; [|right; apply in_or_app; right; exact Hl].
          cbn in Ha. apply in_app_or in Ha as [Ha|Ha]; [left; exact Ha|].
          right. apply in_or_app. left. eapply tr_uses_e. exact Ha. }
        destruct (G _ _ H) as [Hf|Hl]; apply in_or_app.
        -- cbn in Hf. apply in_app_or in Hf as [Hf|Hf]; [left; eapply tr_uses_e; exact Hf|].
           right. cbn [flat_map]. apply in_or_app. left. eapply tr_uses_e. exact Hf.
        -- right. cbn [flat_map]. apply in_or_app. right. exact Hl.
    + cbn in H. apply in_app_or in H as [H|H]; cbn; apply in_or_app; [left|right]; eapply tr_uses_e; exact H.
    + cbn. eapply tr_uses_e. exact H.
    + (* EIf *)
      destruct branches as [|[[c|] [|s1 [|? ?]] ?] [|[[?|] [|s2 [|? ?]] ?] [|? ?]]]; try (cbn in H; contradiction).
      cbn in H. cbn [uses_e flat_map]. rewrite !app_nil_r.
      apply in_app_or in H as [H|H]; [apply in_or_app; left; apply in_or_app; left; eapply tr_uses_e; exact H|].
      apply in_app_or in H as [H|H].
      * apply in_or_app. left. apply in_or_app. right. eapply tr_uses_s. exact H.
      * apply in_or_app. right. cbn. eapply tr_uses_s. exact H.
    + (* EFunction *)
      rewrite uses_lams in H. cbn [uses_e].
      destruct body as [|s [|? ?]]; try (cbn in H; contradiction).
      cbn [flat_map]. rewrite app_nil_r. eapply tr_uses_s. exact H.
    + (* ECollection *)
      destruct c; try (cbn in H; contradiction).
      destruct values as [|a [|b [|? ?]]]; try (cbn in H; contradiction).
      cbn in H. cbn [uses_e flat_map]. rewrite app_nil_r.
      apply in_app_or in H as [H|H]; apply in_or_app; [left|right]; eapply tr_uses_e; exact H.
  - destruct s; intros ctx g H; cbn [tr_s] in H; try (cbn in H; contradiction).
    + (* SAssignment *)
      destruct op; try (cbn in H; contradiction).
      destruct target; try (cbn in H; contradiction).
      cbn [uses_s uses_e]. destruct (idx var ctx).
      * right. eapply tr_uses_e. exact H.
      * cbn in H. destruct H as [<-|H]; [left; reflexivity|right; eapply tr_uses_e; exact H].
    + destruct value as [v|]; [|cbn in H; contradiction]. cbn. eapply tr_uses_e. exact H.
    + cbn. eapply tr_uses_e. exact H.
Qed.

Lemma tr_is_lam e : is_function_expr e = true -> is_lam (tr_e [] e) = true.
Proof.
  destruct e; try discriminate. intros _. cbn [tr_e].
  destruct (map (fun p => Some (snd (fst (fst p)))) params); reflexivity.
Qed.

(* ---- the fragment: top-level definitions without function definitions nested inside ---- *)
Definition flat_def (s : stmt) : Prop :=
  match s with SDefinition _ _ _ _ value _ => fdefs_e value = [] | _ => False end.

Lemma tr_prog_defs l : (forall s, In s l -> flat_def s) ->
  forall m1 v e m2, tr_prog l = m1 ++ (v, e) :: m2 ->
  exists l1 s l2, l = l1 ++ s :: l2 /\ tr_prog l1 = m1 /\ tr_def s = Some (v, e).
Proof.
  induction l as [|s l IH]; intros Hf m1 v e m2 E; [destruct m1; discriminate E|].
  assert (Hs : flat_def s) by (apply Hf; left; reflexivity).
  destruct s; try contradiction. cbn [tr_prog flat_map tr_def] in E. cbn [app] in E.
  destruct m1 as [|d m1].
  - inversion E; subst. eexists [], _, l. split; [reflexivity|]. split; reflexivity.
  - inversion E; subst. destruct (IH (fun s0 H0 => Hf s0 (or_intror H0)) m1 v e m2 H1) as (l1 & s & l2 & -> & <- & Hd).
    eexists (_ :: l1), s, l2. split; [reflexivity|]. split; [reflexivity|exact Hd].
Qed.

Lemma tr_prog_fst l : (forall s, In s l -> flat_def s) ->
  forall d, (exists s', In s' l /\ defined_var s' = Some d) -> In d (map fst (tr_prog l)).
Proof.
  intros Hf d (s' & Hin & Hd). induction l as [|s l IH]; [destruct Hin|].
  assert (Hs : flat_def s) by (apply Hf; left; reflexivity).
  destruct s; try contradiction. cbn [tr_prog flat_map tr_def app map fst].
  destruct Hin as [<-|Hin]; [cbn in Hd; inversion Hd; left; reflexivity|].
  right. apply IH; [intros s0 H0; apply Hf; right; exact H0|exact Hin].
Qed.

(* initialised before use, for the fragment: the definitions of `ss`, run in the order `initialization_order`
   computes (assignment targets counted as dependencies), never read or assign an uninitialised global -- provided
   the program is closed (every global the translation mentions is defined by `ss`) *)
Theorem fragment_init_before_use ss l fuel :
  NoDup (dvars ss) ->
  (forall s, In s ss -> flat_def s) ->
  initialization_order true ss = OOk l ->
  (forall s v e g, In s ss -> tr_def s = Some (v, e) -> In g (uses e) -> In g (dvars ss)) ->
  forall g, run fuel (fun _ => None) (tr_prog l) <> RUninit g.
Proof.
  intros Hnd Hfrag Ho Hclosed.
  destruct (topo_sound true ss l Hnd Ho) as (_ & Hin & _).
  assert (Hfl : forall s, In s l -> flat_def s) by (intros s Hs; apply Hfrag; apply (Hin s Hs)).
  apply init_before_use; [apply store_ok_empty|].
  intros m1 v e m2 g E Hg.
  destruct (tr_prog_defs l Hfl m1 v e m2 E) as (l1 & s & l2 & -> & <- & Hd).
  assert (Hs : In s ss) by (apply (Hin s); apply in_or_app; right; left; reflexivity).
  pose proof (Hfl s ltac:(apply in_or_app; right; left; reflexivity)) as Hflat.
  destruct s; try discriminate Hd. cbn [tr_def] in Hd. inversion Hd; subst. clear Hd.
  assert (Hu : In g (uses_s (SDefinition name v kind t value sp))) by (cbn; eapply tr_uses_e; exact Hg).
  assert (Hdv : In g (dvars ss)) by (eapply Hclosed; [exact Hs|reflexivity|exact Hg]).
  destruct (order_respects_uses_counted true ss _ eq_refl Hnd Ho l1 _ l2 g eq_refl Hu Hdv) as [He|Hf].
  - right. left. apply tr_prog_fst; [|exact He].
    intros s0 H0. apply Hfl. apply in_or_app. left. exact H0.
  - right. right. cbn [fdefs_s] in Hf. cbn [flat_def] in Hflat. rewrite Hflat, app_nil_r in Hf.
    destruct (is_function_expr value) eqn:Efn; [|destruct Hf].
    destruct Hf as [<-|[]]. split; [reflexivity|apply tr_is_lam; exact Efn].
Qed.

(* ---- non-vacuity: `a :: f()   f :: fn -> bool do ret b end   b :: true` (variables 0 1 2), in this source order ---- *)
Definition z : span := span_zero 0.
Definition ex_ss : list stmt :=
  [SDefinition "a" 0 Const (TImplied z) (ECall (ERead 1 z) [] z) z;
   SDefinition "f" 1 Const (TImplied z) (EFunction "f" [] (TResolved BBool z) [SRet (Some (ERead 2 z)) z] false z) z;
   SDefinition "b" 2 Const (TImplied z) (EBool true z) z].

Example fragment_example :
  NoDup (dvars ex_ss)
  /\ (forall s, In s ex_ss -> flat_def s)
  /\ (forall s v e g, In s ex_ss -> tr_def s = Some (v, e) -> In g (uses e) -> In g (dvars ex_ss))
  /\ (exists l, initialization_order true ex_ss = OOk l
                /\ map fst (tr_prog l) = [2; 1; 0]%N
                /\ run_kind (run 10 (fun _ => None) (tr_prog l)) = Some None)
  (* in the source order the first definition calls f, which reads b: uninitialised *)
  /\ run_kind (run 10 (fun _ => None) (tr_prog ex_ss)) = Some (Some 1%N).
Proof.
  split; [repeat constructor; cbn; intuition discriminate|].
  split; [intros s [<-|[<-|[<-|[]]]]; reflexivity|].
  split.
  { intros s v e g [<-|[<-|[<-|[]]]] E Hg; cbn in E; inversion E; subst; cbn in Hg; cbn; intuition. }
  split; [eexists; split; [vm_compute; reflexivity|split; vm_compute; reflexivity]|vm_compute; reflexivity].
Qed.
