(* C03 -- placeholder while the theorems are being proved: the model compiles. *)
From Sylt Require Import Syntax.Resolved Types.TyGraph Types.Tc.
