(* Scoping at the level of the resolved AST: which variables are visible where, following the block
   structure that the lowering gives the emitted Lua (if/else/loop/function bodies are blocks; a
   definition is visible from its own statement to the end of the enclosing block; case bindings and
   blob `self` variables live in the block that contains the expression).
   rs_* return the USER variables that the construct introduces into the current block, or None if
   some variable is read or assigned where it is not visible.  Definitions only. *)
From Coq Require Import String List NArith ZArith Bool.
From Sylt Require Import Syntax.Resolved Back.IR Back.Scope.
Import ListNotations.
Local Open Scope N_scope.

Definition add_new (new : list (N * bool)) (sc : scopes) : scopes :=
  match sc with
  | h :: t => (new ++ h) :: t
  | [] => []
  end.

Definition obind {A B} (o : option A) (k : A -> option B) : option B :=
  match o with Some a => k a | None => None end.
Notation "x <~ m ;; k" := (obind m (fun x => k)) (at level 61, m at next level, right associativity).

(* a sequence evaluated left to right in the same block: later items see what earlier ones introduced *)
Fixpoint rs_seq {A} (f : scopes -> A -> option (list (N * bool))) (sc : scopes) (l : list A)
  : option (list (N * bool)) :=
  match l with
  | [] => Some []
  | x :: xs =>
      n1 <~ f sc x ;;
      n2 <~ rs_seq f (add_new n1 sc) xs ;;
      Some (n2 ++ n1)
  end.

(* helpers mirroring Back/IR.v lower_fbody / lower_eblock: the last statement, if it is an expression,
   is lowered as an expression *)
Definition rs_tail (rss : scopes -> stmt -> option (list (N * bool)))
           (rse : scopes -> expr -> option (list (N * bool)))
           (sc : scopes) (body : list stmt) : option (list (N * bool)) :=
  match rev body with
  | [] => Some []
  | last :: init_rev =>
      n1 <~ rs_seq rss sc (rev init_rev) ;;
      n2 <~ match last with
            | SStatementExpression value _ => rse (add_new n1 sc) value
            | s => rss (add_new n1 sc) s
            end ;;
      Some (n2 ++ n1)
  end.

Definition rs_eblock (rss : scopes -> stmt -> option (list (N * bool)))
           (rse : scopes -> expr -> option (list (N * bool)))
           (sc : scopes) (block : list stmt) : option (list (N * bool)) :=
  match rev block with
  | SStatementExpression value _ :: rest_rev =>
      n1 <~ rs_seq rss sc (rev rest_rev) ;;
      n2 <~ rse (add_new n1 sc) value ;;
      Some (n2 ++ n1)
  | _ => rs_seq rss sc block
  end.

Section Branches.
Variable rse : scopes -> expr -> option (list (N * bool)).
Variable rsblock : scopes -> list stmt -> option (list (N * bool)).

(* the first condition of an if-expression is evaluated in the current block, everything else in
   nested blocks *)
Fixpoint rs_if_branches (sc : scopes) (first : bool) (brs : list ifbranch) : option (list (N * bool)) :=
  match brs with
  | [] => Some []
  | IfBranch (Some cond) body _ :: brs' =>
      nc <~ rse sc cond ;;
      _ <~ rsblock ([] :: add_new nc sc) body ;;
      _ <~ rs_if_branches ([] :: add_new nc sc) false brs' ;;
      Some (if first then nc else [])
  | IfBranch None body _ :: brs' =>
      nb <~ rsblock ([] :: sc) body ;;
      _ <~ rs_if_branches (add_new nb ([] :: sc)) false brs' ;;
      Some []
  end.

Fixpoint rs_case_branches (ft : list stmt) (sc : scopes) (first : bool) (brs : list casebranch)
  : option (list (N * bool)) :=
  match brs with
  | [] => _ <~ rsblock sc ft ;; Some []
  | CaseBranch _ _ variable body _ :: brs' =>
      let nv := match variable with Some v => [(v, true)] | None => [] end in
      _ <~ rsblock ([] :: add_new nv sc) body ;;
      _ <~ rs_case_branches ft ([] :: add_new nv sc) false brs' ;;
      Some (if first then nv else [])
  end.
End Branches.

(* the operators an assignment statement may carry (anything else panics in intermediate.rs) *)
Definition assign_op_ok (op : binop) : bool :=
  match op with Nop | Add | Sub | Mul | Div => true | _ => false end.

Definition param_scope (params : list (string * N * span * ty)) : list (N * bool) :=
  map (fun p => (snd (fst (fst p)), true)) params.

Fixpoint rs_expr (fuel : nat) (sc : scopes) (e : expr) {struct fuel} : option (list (N * bool)) :=
  match fuel with
  | O => None
  | S f =>
    let rse := fun sc e => rs_expr f sc e in
    let rst := fun sc s => rs_stmt f sc s in
    let rsblock := rs_eblock rst rse in
    match e with
    | ERead v _ => if defined sc v then Some [] else None
    | EVariant _ _ value _ => rse sc value
    | ECall fn args _ =>
        nf <~ rse sc fn ;;
        na <~ rs_seq rse (add_new nf sc) args ;;
        Some (na ++ nf)
    | EBlobAccess value _ _ => rse sc value
    | EIndex value index _ =>
        n1 <~ rse sc value ;; n2 <~ rse (add_new n1 sc) index ;; Some (n2 ++ n1)
    | EBinOp Nop _ _ _ => None   (* never an expression operator *)
    | EBinOp And a b _ | EBinOp Or a b _ =>
        na <~ rse sc a ;;
        _ <~ rse ([] :: add_new na sc) b ;;
        Some na
    | EBinOp _ a b _ =>
        n1 <~ rse sc a ;; n2 <~ rse (add_new n1 sc) b ;; Some (n2 ++ n1)
    | EUniOp _ a _ => rse sc a
    | EIf branches _ => rs_if_branches rse rsblock sc true branches
    | ECase to_match branches fall_through _ =>
        nm <~ rse sc to_match ;;
        r <~ rs_case_branches rsblock (match fall_through with Some b => b | None => [] end)
                              (add_new nm sc) true branches ;;
        Some (r ++ nm)
    | EFunction _ params _ body _ _ =>
        _ <~ rs_tail rst rse (param_scope params :: sc) body ;;
        Some []
    | EBlob _ fields self_var _ =>
        nf <~ rs_seq (fun sc fe => rse sc (snd fe)) (add_new [(self_var, true)] sc) fields ;;
        Some (nf ++ [(self_var, true)])
    | ECollection _ values _ => rs_seq rse sc values
    | EFloat _ _ | EInt _ _ | EStr _ _ | EBool _ _ | ENil _ => Some []
    end
  end

with rs_stmt (fuel : nat) (sc : scopes) (s : stmt) {struct fuel} : option (list (N * bool)) :=
  match fuel with
  | O => None
  | S f =>
    let rse := fun sc e => rs_expr f sc e in
    let rst := fun sc s => rs_stmt f sc s in
    match s with
    | SAssignment op target value _ =>
        if negb (assign_op_ok op) then None else
        nt <~ match target with
              | ERead v _ => if hard_defined sc v then Some [] else None
              | EIndex value index _ =>
                  n1 <~ rse sc value ;; n2 <~ rse (add_new n1 sc) index ;; Some (n2 ++ n1)
              | EBlobAccess value _ _ => rse sc value
              | _ => None
              end ;;
        nv <~ rse (add_new nt sc) value ;;
        Some (nv ++ nt)
    | SDefinition _ var _ _ value _ => rs_definition f sc var value
    | SBlock statements _ => rs_seq rst sc statements
    | SLoop condition body _ =>
        nc <~ rse ([] :: sc) condition ;;
        _ <~ rs_seq rst (add_new nc ([] :: sc)) body ;;
        Some []
    | SBreak _ | SContinue _ | SUnreachable _ => Some []
    | SRet (Some value) _ => rse sc value
    | SRet None _ => Some []
    | SStatementExpression value _ => rse sc value
    | SBlob _ _ _ _ _ _ | SEnum _ _ _ _ _ | SExternalDefinition _ _ _ _ _ => None
    end
  end

with rs_definition (fuel : nat) (sc : scopes) (var : N) (value : expr) {struct fuel}
  : option (list (N * bool)) :=
  match fuel with
  | O => None
  | S f =>
    match value with
    | EFunction _ params _ body _ _ =>
        (* the function's own name is visible in its body *)
        _ <~ rs_tail (fun sc s => rs_stmt f sc s) (fun sc e => rs_expr f sc e)
                     (param_scope params :: add_new [(var, true)] sc) body ;;
        Some [(var, true)]
    | _ =>
        nv <~ rs_expr f (add_new [(var, true)] sc) value ;;
        Some (nv ++ [(var, true)])
    end
  end.

(* top level: the outer statements in initialisation order, in the chunk-level block *)
Definition rs_outer (fuel : nat) (sc : scopes) (s : stmt) : option (list (N * bool)) :=
  match s with
  | SExternalDefinition _ var _ _ _ => Some [(var, true)]
  | SDefinition _ var _ _ value _ => rs_definition fuel sc var value
  | _ => Some []
  end.

Definition rs_resolved (fuel : nat) (r : resolved) : bool :=
  match rs_seq (rs_outer fuel) [[]] (r_stmts r) with
  | Some new =>
      match find_start (r_vars r) with
      | Some start => defined (add_new new [[]]) start
      | None => false
      end
  | None => false
  end.
