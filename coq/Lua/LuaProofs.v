(* Lemmas about LuaCore.

   1. `mono_all`: no interpreter function ever shrinks a store -- the three next-free counters
      (cells, tables, closures) of the state carried by ANY result (normal, error, out of fuel,
      unsupported) are at least those of the input state -- and none changes the dialect.  Proved for all 24 mutually
      recursive functions at once by induction on the fuel.
   2. `local_fresh`: a successful `local x1, ..., xk = es` leaves every xi bound to a cell that
      was not allocated in the state before the statement (cells are never reused: allocation
      always takes the next-free index, and by 1. that index never goes down).
   3. the trie/name-coding facts these need (`pget`/`pset`, injectivity of `pos_of_string`). *)
From Coq Require Import String Ascii List NArith ZArith QArith Bool Lia.
From Sylt Require Import Lua.LuaAst Lua.LuaLex Lua.LuaParse Lua.LuaMap Lua.LuaNum Lua.LuaCore.
Import ListNotations.

Definition res_state {A : Type} (r : res A) : state :=
  match r with ROk _ s => s | RErr _ s => s | RFuel s => s | RUnsup _ s => s end.

Definition st_le (a b : state) : Prop :=
  (s_ncell a <= s_ncell b)%positive /\ (s_ntab a <= s_ntab b)%positive /\ (s_nclo a <= s_nclo b)%positive
  /\ s_dialect a = s_dialect b.

Lemma st_le_refl : forall a, st_le a a.
Proof. intros; unfold st_le; repeat split; try lia. Qed.
Lemma st_le_trans : forall a b c, st_le a b -> st_le b c -> st_le a c.
Proof. unfold st_le; intros; repeat split; try lia; intuition congruence. Qed.

Lemma bind_le : forall (A B : Type) s0 (r : res A) (f : A -> state -> res B),
  st_le s0 (res_state r) ->
  (forall a s1, st_le s0 s1 -> st_le s0 (res_state (f a s1))) ->
  st_le s0 (res_state (bind r f)).
Proof. intros A B s0 r f H Hf. destruct r; cbn [bind res_state] in *; auto. Qed.

Ltac le_now :=
  unfold st_le, raw_set_in, set_cell, alloc_cell, put_table, alloc_table, alloc_closure, emit_line in *;
  cbn [s_ncell s_ntab s_nclo s_dialect fst snd] in *; repeat split; try lia; intuition congruence.

Lemma set_cell_le : forall s0 st c v, st_le s0 st -> st_le s0 (set_cell st c v).
Proof. intros; le_now. Qed.
Lemma put_table_le : forall s0 st i t, st_le s0 st -> st_le s0 (put_table st i t).
Proof. intros; le_now. Qed.
Lemma raw_set_in_le : forall s0 st i k v, st_le s0 st -> st_le s0 (raw_set_in st i k v).
Proof. intros; le_now. Qed.
Lemma emit_line_le : forall s0 st l, st_le s0 st -> st_le s0 (emit_line st l).
Proof. intros; le_now. Qed.
Lemma alloc_cell_le : forall s0 st v, st_le s0 st -> st_le s0 (snd (alloc_cell st v)).
Proof. intros; le_now. Qed.
Lemma alloc_table_le : forall s0 st t, st_le s0 st -> st_le s0 (snd (alloc_table st t)).
Proof. intros; le_now. Qed.
Lemma alloc_closure_le : forall s0 st c, st_le s0 st -> st_le s0 (snd (alloc_closure st c)).
Proof. intros; le_now. Qed.

Lemma set_positional_le : forall vs s0 st i k, st_le s0 st -> st_le s0 (set_positional st i k vs).
Proof. induction vs; intros; cbn [set_positional]; [assumption|]. apply IHvs. apply raw_set_in_le; assumption. Qed.

Lemma bind_locals_le : forall xs s0 e vs st, st_le s0 st -> st_le s0 (snd (bind_locals e xs vs st)).
Proof.
  induction xs; intros; cbn [bind_locals snd]; [assumption|].
  destruct (alloc_cell st (first vs)) as [c st1] eqn:E.
  apply IHxs. change st1 with (snd (c, st1)). rewrite <- E. apply alloc_cell_le; auto.
Qed.

(* ---------------------------------------------------------------------------------------- *)

Ltac finish_le :=
  repeat first
    [ assumption
    | apply set_cell_le | apply raw_set_in_le | apply emit_line_le | apply set_positional_le
    | apply put_table_le ].

Ltac mono_step :=
  match goal with
  | |- st_le _ (res_state (bind _ _)) => apply bind_le; [ | intros ]
  | |- st_le _ (res_state (ROk _ _)) => cbn [res_state]; finish_le
  | |- st_le _ (res_state (RErr _ _)) => cbn [res_state]; finish_le
  | |- st_le _ (res_state (RFuel _)) => cbn [res_state]; finish_le
  | |- st_le _ (res_state (RUnsup _ _)) => cbn [res_state]; finish_le
  | |- st_le _ (res_state (err _ _)) => unfold err; cbn [res_state]; finish_le
  | |- st_le _ (res_state (bad_arg _ _ _ _ _)) => unfold bad_arg, err; cbn [res_state]; finish_le
  | |- st_le _ (res_state (compare_error _ _ _)) => unfold compare_error, err
  | |- st_le ?s0 (res_state (match alloc_closure ?st ?c with _ => _ end)) =>
      let H := fresh "Hle" in
      assert (H : st_le s0 (snd (alloc_closure st c))) by (apply alloc_closure_le; finish_le);
      destruct (alloc_closure st c); cbn [snd] in H
  | |- st_le ?s0 (res_state (match alloc_table ?st ?c with _ => _ end)) =>
      let H := fresh "Hle" in
      assert (H : st_le s0 (snd (alloc_table st c))) by (apply alloc_table_le; finish_le);
      destruct (alloc_table st c); cbn [snd] in H
  | |- st_le ?s0 (res_state (match alloc_cell ?st ?c with _ => _ end)) =>
      let H := fresh "Hle" in
      assert (H : st_le s0 (snd (alloc_cell st c))) by (apply alloc_cell_le; finish_le);
      destruct (alloc_cell st c); cbn [snd] in H
  | |- st_le ?s0 (res_state (match bind_locals ?e ?xs ?vs ?st with _ => _ end)) =>
      let H := fresh "Hle" in
      assert (H : st_le s0 (snd (bind_locals e xs vs st))) by (apply bind_locals_le; finish_le);
      destruct (bind_locals e xs vs st); cbn [snd] in H
  | |- st_le _ (res_state (match ?x with _ => _ end)) => destruct x
  | |- st_le _ (res_state (if ?x then _ else _)) => destruct x
  end.

Lemma num_arg_le : forall s0 i f args st, st_le s0 st -> st_le s0 (res_state (num_arg i f args st)).
Proof. intros; unfold num_arg; repeat mono_step. Qed.
Lemma numf_arg_le : forall s0 i f args st, st_le s0 st -> st_le s0 (res_state (numf_arg i f args st)).
Proof. intros; unfold numf_arg; repeat mono_step. Qed.
Lemma opt_num_arg_le : forall s0 i f args d st, st_le s0 st -> st_le s0 (res_state (opt_num_arg i f args d st)).
Proof. intros; unfold opt_num_arg; destruct (arg i args); cbn [res_state]; try assumption; apply num_arg_le; assumption. Qed.
Lemma str_arg_le : forall s0 i f args st, st_le s0 st -> st_le s0 (res_state (str_arg i f args st)).
Proof. intros; unfold str_arg; repeat mono_step. Qed.
Lemma tab_arg_le : forall s0 i f args st, st_le s0 st -> st_le s0 (res_state (tab_arg i f args st)).
Proof. intros; unfold tab_arg; repeat mono_step. Qed.
Lemma fold_num_le : forall rest s0 f fname i acc st,
  st_le s0 st -> st_le s0 (res_state (fold_num f fname i acc rest st)).
Proof. induction rest; intros; cbn [fold_num]; repeat mono_step. apply IHrest; assumption. Qed.
Lemma chars_of_le : forall vs s0 i st, st_le s0 st -> st_le s0 (res_state (chars_of i vs st)).
Proof.
  induction vs; intros; cbn [chars_of]; repeat mono_step.
  apply IHvs; assumption.
Qed.
Lemma arith_num_le : forall s0 op fx x fy y st,
  st_le s0 st -> st_le s0 (res_state (arith_num op fx x fy y st)).
Proof. intros; unfold arith_num; repeat mono_step. Qed.

Ltac arg_step :=
  match goal with
  | |- st_le _ (res_state (num_arg _ _ _ _)) => apply num_arg_le
  | |- st_le _ (res_state (numf_arg _ _ _ _)) => apply numf_arg_le
  | |- st_le _ (res_state (opt_num_arg _ _ _ _ _)) => apply opt_num_arg_le
  | |- st_le _ (res_state (str_arg _ _ _ _)) => apply str_arg_le
  | |- st_le _ (res_state (tab_arg _ _ _ _)) => apply tab_arg_le
  | |- st_le _ (res_state (fold_num _ _ _ _ _ _)) => apply fold_num_le
  | |- st_le _ (res_state (chars_of _ _ _)) => apply chars_of_le
  | |- st_le _ (res_state (arith_num _ _ _ _ _ _)) => apply arith_num_le
  end; finish_le.

Lemma pure_builtin_le : forall s0 b args st, st_le s0 st -> st_le s0 (res_state (pure_builtin b args st)).
Proof.
  intros s0 b args st H. unfold pure_builtin.
  destruct b; repeat first [ arg_step | mono_step ].
Qed.

(* ---------------------------------------------------------------------------------------- *)
(* the interpreter never shrinks a store: by induction on the fuel, for all functions at once *)

Record mono (n : nat) : Prop := mkMono {
  m_eval : forall s0 e ex st, st_le s0 st -> st_le s0 (res_state (eval n e ex st));
  m_eval_multi : forall s0 e ex st, st_le s0 st -> st_le s0 (res_state (eval_multi n e ex st));
  m_eval_list : forall s0 e es st, st_le s0 st -> st_le s0 (res_state (eval_list n e es st));
  m_eval_call : forall s0 e f args st, st_le s0 st -> st_le s0 (res_state (eval_call n e f args st));
  m_eval_fields : forall s0 e fs id i st, st_le s0 st -> st_le s0 (res_state (eval_fields n e fs id i st));
  m_index : forall s0 v k st, st_le s0 st -> st_le s0 (res_state (index n v k st));
  m_setindex : forall s0 t k v st, st_le s0 st -> st_le s0 (res_state (setindex n t k v st));
  m_call : forall s0 f args st, st_le s0 st -> st_le s0 (res_state (call n f args st));
  m_call_builtin : forall s0 b args st, st_le s0 st -> st_le s0 (res_state (call_builtin n b args st));
  m_tostr : forall s0 v st, st_le s0 st -> st_le s0 (res_state (tostr n v st));
  m_print_line : forall s0 args st, st_le s0 st -> st_le s0 (res_state (print_line n args st));
  m_binop : forall s0 op a b st, st_le s0 st -> st_le s0 (res_state (binop_apply n op a b st));
  m_equals : forall s0 a b st, st_le s0 st -> st_le s0 (res_state (equals n a b st));
  m_less_than : forall s0 a b st, st_le s0 st -> st_le s0 (res_state (less_than n a b st));
  m_less_equal : forall s0 a b st, st_le s0 st -> st_le s0 (res_state (less_equal n a b st));
  m_unop : forall s0 op a st, st_le s0 st -> st_le s0 (res_state (unop_apply n op a st));
  m_eval_targets : forall s0 e ts st, st_le s0 st -> st_le s0 (res_state (eval_targets n e ts st));
  m_assign_all : forall s0 rs vs st, st_le s0 st -> st_le s0 (res_state (assign_all n rs vs st));
  m_exec : forall s0 e s st, st_le s0 st -> st_le s0 (res_state (exec n e s st));
  m_exec_block : forall s0 e seen b st, st_le s0 st -> st_le s0 (res_state (exec_block n e seen b st));
  m_exec_while : forall s0 e c b st, st_le s0 st -> st_le s0 (res_state (exec_while n e c b st));
  m_exec_repeat : forall s0 e b c st, st_le s0 st -> st_le s0 (res_state (exec_repeat n e b c st));
  m_exec_numfor : forall s0 e x fl i h d b st,
    st_le s0 st -> st_le s0 (res_state (exec_numfor n e x fl i h d b st));
  m_exec_genfor : forall s0 e xs f s c b st, st_le s0 st -> st_le s0 (res_state (exec_genfor n e xs f s c b st))
}.

Ltac use_ih IH :=
  match goal with
  | |- st_le _ (res_state (eval _ _ _ _)) => apply (m_eval _ IH)
  | |- st_le _ (res_state (eval_multi _ _ _ _)) => apply (m_eval_multi _ IH)
  | |- st_le _ (res_state (eval_list _ _ _ _)) => apply (m_eval_list _ IH)
  | |- st_le _ (res_state (eval_call _ _ _ _ _)) => apply (m_eval_call _ IH)
  | |- st_le _ (res_state (eval_fields _ _ _ _ _ _)) => apply (m_eval_fields _ IH)
  | |- st_le _ (res_state (index _ _ _ _)) => apply (m_index _ IH)
  | |- st_le _ (res_state (setindex _ _ _ _ _)) => apply (m_setindex _ IH)
  | |- st_le _ (res_state (call _ _ _ _)) => apply (m_call _ IH)
  | |- st_le _ (res_state (call_builtin _ _ _ _)) => apply (m_call_builtin _ IH)
  | |- st_le _ (res_state (tostr _ _ _)) => apply (m_tostr _ IH)
  | |- st_le _ (res_state (print_line _ _ _)) => apply (m_print_line _ IH)
  | |- st_le _ (res_state (binop_apply _ _ _ _ _)) => apply (m_binop _ IH)
  | |- st_le _ (res_state (equals _ _ _ _)) => apply (m_equals _ IH)
  | |- st_le _ (res_state (less_than _ _ _ _)) => apply (m_less_than _ IH)
  | |- st_le _ (res_state (less_equal _ _ _ _)) => apply (m_less_equal _ IH)
  | |- st_le _ (res_state (unop_apply _ _ _ _)) => apply (m_unop _ IH)
  | |- st_le _ (res_state (eval_targets _ _ _ _)) => apply (m_eval_targets _ IH)
  | |- st_le _ (res_state (assign_all _ _ _ _)) => apply (m_assign_all _ IH)
  | |- st_le _ (res_state (exec _ _ _ _)) => apply (m_exec _ IH)
  | |- st_le _ (res_state (exec_block _ _ _ _ _)) => apply (m_exec_block _ IH)
  | |- st_le _ (res_state (exec_while _ _ _ _ _)) => apply (m_exec_while _ IH)
  | |- st_le _ (res_state (exec_repeat _ _ _ _ _)) => apply (m_exec_repeat _ IH)
  | |- st_le _ (res_state (exec_numfor _ _ _ _ _ _ _ _ _)) => apply (m_exec_numfor _ IH)
  | |- st_le _ (res_state (exec_genfor _ _ _ _ _ _ _ _)) => apply (m_exec_genfor _ IH)
  | |- st_le _ (res_state (pure_builtin _ _ _)) => apply pure_builtin_le
  | |- st_le _ (res_state (arith_num _ _ _ _ _ _)) => apply arith_num_le
  end; finish_le.

(* pcall inspects the result of the call *)
Ltac pcall_step IH :=
  match goal with
  | |- st_le ?s0 (res_state (match call ?n ?f ?a ?st with _ => _ end)) =>
      let H := fresh "Hc" in
      assert (H : st_le s0 (res_state (call n f a st))) by (apply (m_call _ IH); finish_le);
      destruct (call n f a st); cbn [res_state] in H
  end.

Ltac mono_solve IH := repeat first [ pcall_step IH | use_ih IH | mono_step ].

Lemma mono_zero : mono O.
Proof. constructor; intros; cbn; assumption. Qed.

Lemma mono_succ : forall n, mono n -> mono (S n).
Proof.
  intros n IH. constructor; intros.
  - cbn [eval]. mono_solve IH.
  - cbn [eval_multi]. mono_solve IH.
  - cbn [eval_list]. mono_solve IH.
  - cbn [eval_call]. mono_solve IH.
  - cbn [eval_fields]. mono_solve IH.
  - cbn [index]. mono_solve IH.
  - cbn [setindex]. mono_solve IH.
  - cbn [call]. mono_solve IH.
  - cbn [call_builtin]. mono_solve IH.
  - cbn [tostr]. mono_solve IH.
  - cbn [print_line]. mono_solve IH.
  - cbn [binop_apply]. mono_solve IH.
  - cbn [equals]. mono_solve IH.
  - cbn [less_than]. mono_solve IH.
  - cbn [less_equal]. mono_solve IH.
  - cbn [unop_apply]. mono_solve IH.
  - cbn [eval_targets]. mono_solve IH.
  - cbn [assign_all]. mono_solve IH.
  - cbn [exec]. mono_solve IH.
  - cbn [exec_block]. mono_solve IH.
  - cbn [exec_while]. mono_solve IH.
  - cbn [exec_repeat]. mono_solve IH.
  - cbn [exec_numfor]. mono_solve IH.
  - cbn [exec_genfor]. mono_solve IH.
Qed.

Theorem mono_all : forall n, mono n.
Proof. induction n; [apply mono_zero | apply mono_succ; assumption]. Qed.

(* the exported form: no interpreter function ever shrinks a store *)
Theorem exec_store_monotone : forall n e s st, st_le st (res_state (exec n e s st)).
Proof. intros. apply (m_exec _ (mono_all n)). apply st_le_refl. Qed.

Theorem exec_block_store_monotone : forall n e seen b st, st_le st (res_state (exec_block n e seen b st)).
Proof. intros. apply (m_exec_block _ (mono_all n)). apply st_le_refl. Qed.

Theorem call_store_monotone : forall n f args st, st_le st (res_state (call n f args st)).
Proof. intros. apply (m_call _ (mono_all n)). apply st_le_refl. Qed.

(* ---------------------------------------------------------------------------------------- *)
(* the trie and the coding of names *)

Lemma pget_pset_same : forall (A : Type) k (v : A) m, pget k (pset k v m) = Some v.
Proof. induction k; destruct m; cbn [pget pset]; auto. Qed.

Lemma pget_pset_other : forall (A : Type) k k' (v : A) m, k <> k' -> pget k (pset k' v m) = pget k m.
Proof.
  induction k; destruct k'; destruct m; cbn [pget pset]; intros; try congruence; auto;
    try (rewrite IHk by congruence; destruct k; reflexivity);
    try (destruct k; reflexivity).
Qed.

Lemma bit_inj : forall b b' p p', bit b p = bit b' p' -> b = b' /\ p = p'.
Proof. destruct b, b'; cbn; intros p p' H; inversion H; auto. Qed.

Lemma pos_of_ascii_inj : forall c c' p p', pos_of_ascii c p = pos_of_ascii c' p' -> c = c' /\ p = p'.
Proof.
  destruct c, c'; cbn [pos_of_ascii]; intros p p' H.
  repeat (apply bit_inj in H; destruct H as [? H]). subst. auto.
Qed.

Lemma pos_of_ascii_not_one : forall c p, pos_of_ascii c p <> xH.
Proof. destruct c as [[] ? ? ? ? ? ? ?]; cbn; discriminate. Qed.

Lemma pos_of_string_inj : forall s s', pos_of_string s = pos_of_string s' -> s = s'.
Proof.
  induction s; destruct s'; cbn [pos_of_string]; intros H; auto.
  - symmetry in H. apply pos_of_ascii_not_one in H. contradiction.
  - apply pos_of_ascii_not_one in H. contradiction.
  - apply pos_of_ascii_inj in H. destruct H as [-> H]. f_equal. auto.
Qed.

Lemma sget_sset_same : forall (A : Type) x (v : A) m, sget x (sset x v m) = Some v.
Proof. intros. apply pget_pset_same. Qed.

Lemma sget_sset_other : forall (A : Type) x y (v : A) m, x <> y -> sget x (sset y v m) = sget x m.
Proof. intros. apply pget_pset_other. intro H0. apply pos_of_string_inj in H0. contradiction. Qed.

(* ---------------------------------------------------------------------------------------- *)
(* local variables get fresh cells *)

Definition allocated (st : state) (c : positive) : Prop := (c < s_ncell st)%positive.

Lemma alloc_cell_fresh : forall st v c st',
  alloc_cell st v = (c, st') ->
  ~ allocated st c /\ allocated st' c /\ s_ncell st' = Pos.succ (s_ncell st) /\ get_cell st' c = v.
Proof.
  unfold alloc_cell, allocated, get_cell. intros st v c st' H. inversion H; subst; clear H.
  cbn [s_ncell s_cells]. rewrite pget_pset_same. repeat split; lia.
Qed.

(* every name bound by bind_locals ends up mapped to a cell that did not exist before *)
Lemma bind_locals_fresh : forall xs e vs st e' st',
  bind_locals e xs vs st = (e', st') ->
  (s_ncell st <= s_ncell st')%positive /\
  (forall x, In x xs -> exists c, sget x e' = Some c /\ ~ allocated st c /\ allocated st' c) /\
  (forall x, ~ In x xs -> sget x e' = sget x e).
Proof.
  induction xs as [|y xs IH]; intros e vs st e' st' H; cbn [bind_locals] in H.
  - inversion H; subst. split; [lia|]. split; [intros x []|auto].
  - destruct (alloc_cell st (first vs)) as [c st1] eqn:E.
    apply alloc_cell_fresh in E. destruct E as (Hn & Ha & Hs & _).
    apply IH in H. destruct H as (Hle & Hin & Hout).
    unfold allocated in *. split; [lia|]. split.
    + intros x [->|Hx].
      * destruct (in_dec string_dec x xs) as [Hi|Hi].
        -- destruct (Hin x Hi) as (c' & ? & ? & ?). exists c'. repeat split; auto; lia.
        -- exists c. rewrite (Hout x Hi), sget_sset_same. repeat split; auto; lia.
      * destruct (Hin x Hx) as (c' & ? & ? & ?). exists c'. repeat split; auto; lia.
    + intros x Hx. cbn [In] in Hx. rewrite Hout by tauto. apply sget_sset_other. intro; subst; tauto.
Qed.

(* `local x1, ..., xk = es`: after a successful execution every xi denotes a cell that was not
   allocated in the state before the statement, and no store has shrunk *)
Theorem local_fresh : forall n e xs es st e' sg st',
  exec n e (SLocal xs es) st = ROk (e', sg) st' ->
  sg = SigNormal /\ st_le st st' /\
  forall x, In x xs -> exists c, sget x e' = Some c /\ ~ allocated st c /\ allocated st' c.
Proof.
  intros n e xs es st e' sg st' H. destruct n as [|n]; [discriminate|]. cbn [exec] in H.
  pose proof (m_eval_list _ (mono_all n) st e es st (st_le_refl st)) as Hm.
  destruct (eval_list n e es st) as [vs st1| | |]; cbn [bind res_state] in *; try discriminate.
  destruct (bind_locals e xs vs st1) as [e1 st2] eqn:E. inversion H; subst; clear H.
  pose proof (bind_locals_le xs st e vs st1 Hm) as Hm2. rewrite E in Hm2. cbn [snd] in Hm2.
  apply bind_locals_fresh in E. destruct E as (Hle & Hin & _).
  split; [reflexivity|]. split; [assumption|].
  intros x Hx. destruct (Hin x Hx) as (c & ? & Hna & ?). exists c. repeat split; auto.
  unfold allocated in *. destruct Hm as (? & _). lia.
Qed.

Print Assumptions mono_all.
Print Assumptions local_fresh.
