(* C02 -- Type soundness: accepted programs never hit dynamic type errors.
   Only pinned statements, `exact`, Examples / refutation witnesses by vm_compute, and Print Assumptions. *)
From Coq Require Import String List NArith ZArith PArith Bool FMapPositive.
From Sylt Require Import Syntax.Resolved Types.TyGraph Types.Tc Types.TcInv Types.SoundE0 Types.SoundE1 Types.SoundE2
  Types.Complete1 Types.CompleteE1 Types.EraseAccept Types.Reject Types.Mismatch Types.LiteralRet.
Import ListNotations.
Local Open Scope string_scope.

(* C02_E0.  Soundness of the checker on the fragment E0: closed expressions over int / float / str / bool
   literals, + - *, < > <= >=, == != <=>, and / or / not, unary minus and if-expressions (no division).  If the
   type checker accepts such an expression - in any well-formed state of the type graph, any TypeCtx, with
   any fuel - the tagged evaluator (None = an operation applied to a value of the wrong tag) returns a
   value, and the tag of that value is the base type at the head of the class the checker assigned to the
   expression.  The evaluator is parameterised by the interpretation of float arithmetic and of float /
   string comparisons; the theorem holds for every interpretation. *)
Theorem C02_E0 : forall farith fneg fcmp of_int scmp kinds g f ctx sp (e : e0) s r s',
  in_fragment e = true -> wf s ->
  r_expr (afix kinds (gfix g) f) (to_expr sp e) ctx s = Ok (r, s') ->
  exists v t, eval farith fneg fcmp of_int scmp e = Some v /\ tag v = t /\ head s' (snd r) = Some (bty_head t).
Proof. exact SoundE0.C02_E0. Qed.

(* its two halves *)
Theorem C02_accepted_simply_typed : forall kinds g sp e,
  in_fragment e = true -> sound_expr kinds g (fun _ => True) (to_expr sp e) (ty0 e).
Proof. intros kinds g. exact (SoundE0.accepted_simply_typed kinds g (fun _ => True) (fun _ _ _ _ _ => I)). Qed.

Theorem C02_simply_typed_sound : forall farith fneg fcmp of_int scmp e t,
  ty0 e = Some t -> exists v, eval farith fneg fcmp of_int scmp e = Some v /\ tag v = t.
Proof. exact SoundE0.simply_typed_sound. Qed.

(* a tuple or list literal returns from the function only if one of its parts does (/repo 8f8db35).  The `ret` component the
   checker gives to a tuple / list of literals is None; so a function with a declared non-void result whose body is the
   single definition `x := <tuple / list of literals>` does not count as returning and is rejected, in every state, TypeCtx
   and with every fuel.  (Before the fix a made-up unknown return type made `f :: fn -> int do l := [1] end` accepted:
   `f() + 1` is arithmetic on nil at run time -- a C02 violation found by the run probes.) *)
Theorem C02_literal_does_not_return : forall kinds g k values sp f ctx s r s',
  Forall is_lit values -> r_expr (afix kinds (gfix g) f) (ECollection k values sp) ctx s = Ok (r, s') -> fst r = None.
Proof. exact LiteralRet.collection_ret_none. Qed.

Theorem C02_literal_body_rejected : forall kinds g name params rty dname dvar dkind dty k values csp dsp pure fsp f ctx s,
  is_void_ty rty = false -> Forall is_lit values -> wf s ->
  notok (r_expr (afix kinds (gfix g) f)
           (EFunction name params rty [SDefinition dname dvar dkind dty (ECollection k values csp) dsp] pure fsp) ctx s).
Proof. exact LiteralRet.literal_body_rejected. Qed.

(* the same for a blob literal whose field initialisers are literals, and the general form: a value that never carries a
   return *)
Theorem C02_blob_literal_does_not_return : forall kinds g v fields self sp f ctx s r s',
  Forall (fun fe => is_lit (snd fe)) fields ->
  r_expr (afix kinds (gfix g) f) (EBlob v fields self sp) ctx s = Ok (r, s') -> fst r = None.
Proof. exact LiteralRet.blob_ret_none. Qed.

Theorem C02_blob_literal_body_rejected : forall kinds g name params rty dname dvar dkind dty v fields self bsp dsp pure fsp f ctx s,
  is_void_ty rty = false -> Forall (fun fe => is_lit (snd fe)) fields -> wf s ->
  notok (r_expr (afix kinds (gfix g) f)
           (EFunction name params rty [SDefinition dname dvar dkind dty (EBlob v fields self bsp) dsp] pure fsp) ctx s).
Proof. exact LiteralRet.blob_literal_body_rejected. Qed.

Theorem C02_noret_body_rejected : forall kinds g name params rty dname dvar dkind dty value dsp pure fsp f ctx s,
  is_void_ty rty = false ->
  (forall f' ctx' s0 r0 s0', r_expr (afix kinds (gfix g) f') value ctx' s0 = Ok (r0, s0') -> fst r0 = None) -> wf s ->
  notok (r_expr (afix kinds (gfix g) f) (EFunction name params rty [SDefinition dname dvar dkind dty value dsp] pure fsp) ctx s).
Proof. exact LiteralRet.noret_body_rejected. Qed.

Example C02_is_lit_def : forall e, is_lit e = (exists t, lit_type e = Some t /\ rigid t = true).
Proof. reflexivity. Qed.

(* C02_E1.  Beyond closed expressions: blocks `s1 .. sn e` whose statements are local definitions (`x := e`, `x :: e`,
   with or without a base-type annotation), assignments `x = e` to and reads of variables defined in the block, and
   expression statements, over the expressions of C02_E0.  If the checker accepts the block (as fn expression_block
   checks a function / branch / loop body: every statement, then the last expression once more as the value), in any
   well-formed state, any TypeCtx, with any fuel, then the tagged evaluator with a variable store does not get stuck
   (no operation on a value of the wrong tag, no read of an undefined variable) and returns a value whose tag is the
   base type at the head of the class the checker gave to the value of the block. *)
Theorem C02_E1 : forall farith fneg fcmp of_int scmp kinds g f ctx sp ss (e : e1) s r ov s',
  frag_stmts1 [] ss e = true -> wf s ->
  expression_block (gfix g) (afix kinds (gfix g) f) sp (to_block1 sp ss e) ctx s = Ok ((r, ov), s') ->
  exists v t c, run1 farith fneg fcmp of_int scmp [] ss e = Some v /\ tag v = t /\
                ov = Some c /\ head s' c = Some (bty_head t).
Proof. exact SoundE1.C02_E1. Qed.

(* its two halves: accepted => typed with a type environment; typed => the evaluator is not stuck *)
Theorem C02_accepted_block_typed : forall kinds g sp ss e f ctx s r ov s',
  frag_stmts1 [] ss e = true -> wf s ->
  expression_block (gfix g) (afix kinds (gfix g) f) sp (to_block1 sp ss e) ctx s = Ok ((r, ov), s') ->
  exists t v, ty_block1 [] ss e = Some t /\ ov = Some v /\ head s' v = Some (bty_head t).
Proof. exact SoundE1.accepted_block1. Qed.

(* the converse of C02_accepted_block_typed: the checker is COMPLETE on the fragment.  A block that is typed by the simple
   types with an environment (ty_block1) and passes the checks that do not look at types (side_block: every variable has
   an entry in the variable table, assigned variables are mutable, no assignment / mutable definition / read of a
   mutable variable in a pure context) is accepted -- from every well-formed state in which its variables (one per
   definition: NoDup) are still fresh, with the explicit fuel 4+g for the graph functions and 2 + the nesting depth of
   its expressions for the syntax functions -- and its value gets the type of the block.  With
   C02_accepted_block_typed: on the fragment, accepted <=> typed, so the rejection of a block of the fragment is never
   spurious. *)
Theorem C02_typed_block_accepted : forall kinds g f ctx sp ss e t s,
  ty_block1 [] ss e = Some t -> side_block kinds ctx ss e = true -> NoDup (defs ss) ->
  (max_depth ss e < S f)%nat -> wf s -> (forall x, In x (defs ss) -> fresh s x) ->
  exists v s', expression_block (gfix (S (S (S (S g))))) (afix kinds (gfix (S (S (S (S g))))) (S (S f))) sp
                 (to_block1 sp ss e) ctx s = Ok ((None, Some v), s') /\ wf s' /\ head s' v = Some (bty_head t).
Proof. exact EraseAccept.typed_accepted_E1. Qed.

(* and the checks that do not look at types hold of every accepted block *)
Theorem C02_accepted_block_side : forall kinds g ctx sp ss e f s r s',
  expression_block (gfix g) (afix kinds (gfix g) f) sp (to_block1 sp ss e) ctx s = Ok (r, s') -> side_block kinds ctx ss e = true.
Proof. exact EraseAccept.side_of_accepted. Qed.

Theorem C02_typed_block_sound : forall farith fneg fcmp of_int scmp ss G r e t,
  store_ok G r -> ty_block1 G ss e = Some t ->
  exists v, run1 farith fneg fcmp of_int scmp r ss e = Some v /\ tag v = t.
Proof. exact SoundE1.typed_run1. Qed.

(* the invariant that links the two: the class of every variable in scope has the variable's base type, and every
   extension of the state keeps it *)
Theorem C02_env_invariant : forall E s s', wf s -> ext s s' -> env_ok E s -> env_ok E s'.
Proof. exact SoundE1.env_ok_ext. Qed.

(* C02_E2.  The blocks of C02_E1 with tuples: construction `(e1, .., en)` from base-typed components, constant index
   `t[i]`, == != < > between tuples, if-expressions whose branches are tuples, tuples in local variables.  The fragment is
   delimited by a shape analysis (base / n-tuple; `frag2`, computable, does not look at types): operands of arithmetic and
   boolean operators are base-shaped, both operands of a comparison / both branches of an if have one shape, an index is
   applied to a tuple shape and is in range.  If the checker accepts such a block, the tagged evaluator (values: base values
   and tuples of base values) is not stuck, and the tag of the result -- a base type or the list of the components' base
   types -- is the type of the class of the block's value: `has_ty`, a tuple class whose component classes have the
   components' base types (kept by every extension of the graph: C03_component_keeps_leaf_type). *)
Theorem C02_E2 : forall farith fneg fcmp of_int scmp kinds g f ctx sp ss (e : e2) s r ov s',
  frag2 [] ss e = true -> wf s ->
  expression_block (gfix g) (afix kinds (gfix g) f) sp (to_block2 sp ss e) ctx s = Ok ((r, ov), s') ->
  exists v t c, run2 farith fneg fcmp of_int scmp [] ss e = Some v /\ tag2 v = t /\ ov = Some c /\ has_ty s' c t.
Proof. exact SoundE2.C02_E2. Qed.

Theorem C02_accepted_block_typed2 : forall kinds g sp ss e f ctx s r ov s',
  frag2 [] ss e = true -> wf s ->
  expression_block (gfix g) (afix kinds (gfix g) f) sp (to_block2 sp ss e) ctx s = Ok ((r, ov), s') ->
  exists t v, ty_block2 [] ss e = Some t /\ ov = Some v /\ has_ty s' v t.
Proof. exact SoundE2.accepted_block2. Qed.

Theorem C02_typed_block_sound2 : forall farith fneg fcmp of_int scmp ss E r e t,
  store_ok2 E r -> ty_block2 E ss e = Some t ->
  exists v, run2 farith fneg fcmp of_int scmp r ss e = Some v /\ tag2 v = t.
Proof. exact SoundE2.typed_run2. Qed.

(* The full statement - every accepted program without externals runs without a dynamic type error - is
   not proved, and it is FALSE of the model as it is of the code: the first program below is accepted by the
   type checker (here: by the model, on the real compiler's own resolved statements) and fails at run time with
   a dynamic type error when the real emitted Lua is run (replayed by the check: known finding
   C02-fn-param-reinstantiated).  The second program below was such a witness too (C02-type-name-as-value) until
   /repo 9c09349: the name of a blob or an enum is no longer a value, the program is rejected. *)
Definition C02_full_statement := SoundE0.C02_full_statement.

(*
     print: fn *X -> void : external
     apply :: fn g: fn *A -> *A do
         print(g(1))
         print(g("a"))
     end
     start :: fn do
         apply(fn x: int -> int do x + 1 end)
     end
*)
Definition reinstantiated_param_program : resolved :=
(mkResolved
  [(mkVar 0%N "print" (mkSpan 0 1 1 1 6) true Const); (mkVar 1%N "apply" (mkSpan 0 2 2 1 6) true Const); (mkVar 2%N "start" (mkSpan 0 6 6 1 6) true Const); (mkVar 3%N "== STACK BEGIN ""apply"" ==" (mkSpan 0 2 2 1 6) false Const); (mkVar 4%N "g" (mkSpan 0 2 2 13 14) false Const); (mkVar 5%N "== STACK BEGIN ""start"" ==" (mkSpan 0 6 6 1 6) false Const); (mkVar 6%N "x" (mkSpan 0 7 7 14 15) false Const)]
  [(SExternalDefinition "print" 0%N Const (TFn [] [(TGeneric "X" (mkSpan 0 1 1 11 12))] (TResolved BVoid (mkSpan 0 1 1 17 21)) false (mkSpan 0 1 1 8 10)) (mkSpan 0 1 1 1 6)); (SDefinition "apply" 1%N Const (TImplied (mkSpan 0 5 5 4 5)) (EFunction "lambda" [("g", 4%N, (mkSpan 0 2 2 13 14), (TFn [] [(TGeneric "A" (mkSpan 0 2 2 19 20))] (TGeneric "A" (mkSpan 0 2 2 25 26)) false (mkSpan 0 2 2 16 18)))] (TResolved BVoid (mkSpan 0 2 2 28 30)) [(SStatementExpression (ECall (ERead 0%N (mkSpan 0 3 3 5 10)) [(ECall (ERead 4%N (mkSpan 0 3 3 11 12)) [(EInt (1)%Z (mkSpan 0 3 3 13 14))] (mkSpan 0 3 3 12 13))] (mkSpan 0 3 3 10 11)) (mkSpan 0 3 3 5 10)); (SStatementExpression (ECall (ERead 0%N (mkSpan 0 4 4 5 10)) [(ECall (ERead 4%N (mkSpan 0 4 4 11 12)) [(EStr "a" (mkSpan 0 4 4 13 16))] (mkSpan 0 4 4 12 13))] (mkSpan 0 4 4 10 11)) (mkSpan 0 4 4 5 10))] false (mkSpan 0 2 2 10 12)) (mkSpan 0 2 2 1 6)); (SDefinition "start" 2%N Const (TImplied (mkSpan 0 8 8 4 5)) (EFunction "lambda" [] (TResolved BVoid (mkSpan 0 6 6 13 15)) [(SStatementExpression (ECall (ERead 1%N (mkSpan 0 7 7 5 10)) [(EFunction "lambda" [("x", 6%N, (mkSpan 0 7 7 14 15), (TResolved BInt (mkSpan 0 7 7 17 20)))] (TResolved BInt (mkSpan 0 7 7 24 27)) [(SStatementExpression (EBinOp Add (ERead 6%N (mkSpan 0 7 7 31 32)) (EInt (1)%Z (mkSpan 0 7 7 35 36)) (mkSpan 0 7 7 33 34)) (mkSpan 0 7 7 31 32))] false (mkSpan 0 7 7 11 13))] (mkSpan 0 7 7 10 11)) (mkSpan 0 7 7 5 10))] false (mkSpan 0 6 6 10 12)) (mkSpan 0 6 6 1 6))]).

Theorem C02_refuted_reinstantiated_param : exists fuel, typecheck fuel reinstantiated_param_program = Ok tt.
Proof. exists 80. vm_compute. reflexivity. Qed.

(*
     A :: blob { a: int }
     start :: fn do
         A.a = 3
     end
*)
Definition type_name_as_value_program : resolved :=
(mkResolved
  [(mkVar 0%N "A" (mkSpan 0 1 1 1 2) true Const); (mkVar 1%N "start" (mkSpan 0 2 2 1 6) true Const); (mkVar 2%N "== STACK BEGIN ""start"" ==" (mkSpan 0 2 2 1 6) false Const)]
  [(SBlob "A" 0%N (mkSpan 0 1 1 1 2) [] [("a", ((mkSpan 0 1 1 13 14), (TResolved BInt (mkSpan 0 1 1 16 19))))] false); (SDefinition "start" 1%N Const (TImplied (mkSpan 0 4 4 4 5)) (EFunction "lambda" [] (TResolved BVoid (mkSpan 0 2 2 13 15)) [(SAssignment Nop (EBlobAccess (ERead 0%N (mkSpan 0 3 3 5 6)) "a" (mkSpan 0 3 3 7 8)) (EInt (3)%Z (mkSpan 0 3 3 11 12)) (mkSpan 0 3 3 5 6))] false (mkSpan 0 2 2 10 12)) (mkSpan 0 2 2 1 6))]).

Theorem C02_type_name_as_value_rejected :
  typecheck 80 type_name_as_value_program = Err (mkErr KExotic (mkSpan 0 3 3 5 6)) [].
Proof. vm_compute. reflexivity. Qed.

(* ---- non-vacuity of C02_E0: (1 + 2 < 4) and not false, accepted, evaluates to a bool *)
Definition sp0 : span := mkSpan 0 1 1 1 2.
Definition ex0 : e0 := Bin0 And (Bin0 Less (Bin0 Add (I0 1) (I0 2)) (I0 4)) (Un0 Not (B0 false)).

Example C02_example_in_fragment : in_fragment ex0 = true.
Proof. reflexivity. Qed.

Example C02_example_accepted :
  match r_expr (afix (PositiveMap.empty varkind) (gfix 20) 20) (to_expr sp0 ex0) ctx_new empty_st with
  | Ok _ => true | _ => false end = true.
Proof. vm_compute. reflexivity. Qed.

Example C02_example_evaluates :
  eval (fun _ a _ => a) (fun a => a) (fun _ _ _ => true) (fun _ => "") (fun _ _ _ => true) ex0 = Some (VBool true).
Proof. vm_compute. reflexivity. Qed.

(* and an ill-typed one is rejected: 1 + "a" *)
Example C02_example_rejected :
  match r_expr (afix (PositiveMap.empty varkind) (gfix 20) 20) (to_expr sp0 (Bin0 Add (I0 1) (S0 "a"))) ctx_new empty_st with
  | Err e _ => e_kind e | _ => KExotic end = KBinOp.
Proof. vm_compute. reflexivity. Qed.

(* ---- non-vacuity of C02_E1:  x := 1 ; y: int : x + 2 ; x = y * 2 ; x < y *)
Definition blk1 : list s1 :=
  [D1 1 Mutable None (I1 1); D1 2 Const (Some TI) (Bin1 Add (R1 1) (I1 2)); A1 1 (Bin1 Mul (R1 2) (I1 2))].
Definition res1 : e1 := Bin1 Less (R1 1) (R1 2).
Definition kinds1 : PositiveMap.t varkind :=
  PositiveMap.add (N.succ_pos 1) Mutable (PositiveMap.add (N.succ_pos 2) Const (PositiveMap.empty varkind)).

Example C02_example_block_in_fragment : frag_stmts1 [] blk1 res1 = true.
Proof. reflexivity. Qed.

Example C02_example_block_accepted :
  match (init_vars 3 ;;; expression_block (gfix 30) (afix kinds1 (gfix 30) 30) sp0 (to_block1 sp0 blk1 res1) ctx_new)%tc empty_st with
  | Ok _ => true | _ => false end = true.
Proof. vm_compute. reflexivity. Qed.

Example C02_example_block_runs :
  run1 (fun _ a _ => a) (fun a => a) (fun _ _ _ => true) (fun _ => "") (fun _ _ _ => true) [] blk1 res1 = Some (VBool false).
Proof. vm_compute. reflexivity. Qed.

(* and an ill-typed block is rejected: x := 1 ; x = "a" ; x *)
Example C02_example_block_rejected :
  match (init_vars 3 ;;; expression_block (gfix 30) (afix kinds1 (gfix 30) 30) sp0
                           (to_block1 sp0 [D1 1 Mutable None (I1 1); A1 1 (S1 "a")] (R1 1)) ctx_new)%tc empty_st with
  | Err e _ => e_kind e | _ => KExotic end = KMismatch.
Proof. vm_compute. reflexivity. Qed.

(* ---- non-vacuity of C02_E2:  p := (1, 2.5) ; q :: (if p[0] < 2 do p else (3, 0.5) end) ; p == q *)
Definition blk2 : list s2 :=
  [D2 1 Mutable (T2 [I2 1; F2 "2.5"]);
   D2 2 Const (If2 (Bin2 Less (Ix2 (R2 1) 0) (I2 2)) (R2 1) (T2 [I2 3; F2 "0.5"]))].
Definition res2 : e2 := Bin2 Equals (R2 1) (R2 2).

Example C02_example_tuple_block_in_fragment : frag2 [] blk2 res2 = true.
Proof. reflexivity. Qed.

Example C02_example_tuple_block_accepted :
  match (init_vars 3 ;;; expression_block (gfix 40) (afix kinds1 (gfix 40) 40) sp0 (to_block2 sp0 blk2 res2) ctx_new)%tc empty_st with
  | Ok _ => true | _ => false end = true.
Proof. vm_compute. reflexivity. Qed.

Example C02_example_tuple_block_runs :
  run2 (fun _ a _ => a) (fun a => a) (fun _ a b => String.eqb a b) (fun _ => "") (fun _ _ _ => true) [] blk2 res2
  = Some (V0 (VBool true)).
Proof. vm_compute. reflexivity. Qed.

(* ill-typed: (1, 2) == (1, "a") and (1, 2)[2] are rejected *)
Example C02_example_tuple_rejected :
  match (init_vars 3 ;;; expression_block (gfix 40) (afix kinds1 (gfix 40) 40) sp0
           (to_block2 sp0 [] (Bin2 Equals (T2 [I2 1; I2 2]) (T2 [I2 1; S2 "a"]))) ctx_new)%tc empty_st,
        (init_vars 3 ;;; expression_block (gfix 40) (afix kinds1 (gfix 40) 40) sp0
           (to_block2 sp0 [] (Ix2 (T2 [I2 1; I2 2]) 2)) ctx_new)%tc empty_st with
  | Err e _, Err e' _ => (e_kind e, e_kind e') | _, _ => (KExotic, KExotic) end = (KMismatch, KTupleIndexOutOfRange).
Proof. vm_compute. reflexivity. Qed.

(* f :: fn -> int do l := [1] end ; start :: fn do f() + 1 end: rejected; with a value after the definition: accepted *)
Definition prog_lit (body : list stmt) : resolved :=
  mkResolved [mkVar 0 "start" sp0 true Const; mkVar 1 "f" sp0 true Const; mkVar 2 "l" sp0 false Mutable]
    [SDefinition "f" 1 Const (TImplied sp0) (EFunction "lambda" [] (TResolved BInt sp0) body false sp0) sp0;
     SDefinition "start" 0 Const (TImplied sp0)
       (EFunction "lambda" [] (TResolved BVoid sp0)
          [SStatementExpression (EBinOp Add (ECall (ERead 1 sp0) [] sp0) (EInt 1 sp0) sp0) sp0] false sp0) sp0].
Example C02_example_literal_body :
  typecheck 40 (prog_lit [SDefinition "l" 2 Mutable (TImplied sp0) (ECollection CList [EInt 1 sp0] sp0) sp0])
    = Err (mkErr KExotic sp0) [] /\
  typecheck 40 (prog_lit [SDefinition "l" 2 Mutable (TImplied sp0) (ECollection CTuple [EInt 1 sp0; EStr "a" sp0] sp0) sp0])
    = Err (mkErr KExotic sp0) [] /\
  typecheck 40 (prog_lit [SDefinition "l" 2 Mutable (TImplied sp0) (ECollection CList [EInt 1 sp0] sp0) sp0;
                          SStatementExpression (EInt 2 sp0) sp0]) = Ok tt.
Proof. repeat split; vm_compute; reflexivity. Qed.

(* B :: blob { x: int } ; f :: fn -> int do l := B { x: 1 } end *)
Example C02_example_blob_literal_body :
  typecheck 40 (mkResolved [mkVar 0 "start" sp0 true Const; mkVar 1 "f" sp0 true Const; mkVar 2 "l" sp0 false Mutable;
                            mkVar 3 "B" sp0 true Const; mkVar 4 "self" sp0 false Const]
    [SBlob "B" 3 sp0 [] [("x", (sp0, TResolved BInt sp0))] false;
     SDefinition "f" 1 Const (TImplied sp0)
       (EFunction "lambda" [] (TResolved BInt sp0)
          [SDefinition "l" 2 Mutable (TImplied sp0) (EBlob 3 [("x", EInt 1 sp0)] 4 sp0) sp0] false sp0) sp0;
     SDefinition "start" 0 Const (TImplied sp0) (EFunction "lambda" [] (TResolved BVoid sp0) [] false sp0) sp0])
  = Err (mkErr KExotic sp0) [].
Proof. vm_compute. reflexivity. Qed.

Print Assumptions C02_E0.
Print Assumptions C02_blob_literal_does_not_return.
Print Assumptions C02_blob_literal_body_rejected.
Print Assumptions C02_noret_body_rejected.
Print Assumptions C02_literal_does_not_return.
Print Assumptions C02_literal_body_rejected.
Print Assumptions C02_typed_block_accepted.
Print Assumptions C02_accepted_block_side.
Print Assumptions C02_E2.
Print Assumptions C02_accepted_block_typed2.
Print Assumptions C02_typed_block_sound2.
Print Assumptions C02_E1.
Print Assumptions C02_accepted_block_typed.
Print Assumptions C02_typed_block_sound.
Print Assumptions C02_env_invariant.
Print Assumptions C02_accepted_simply_typed.
Print Assumptions C02_simply_typed_sound.
Print Assumptions C02_refuted_reinstantiated_param.
Print Assumptions C02_type_name_as_value_rejected.

(* ---- source tie: the hand-written model behind these theorems mirrors the files below; the digests of their
   functions regenerated from /repo on this run equal the reviewed ones (coq/Doc/DocSrcDigest.v).  Any edit of
   such a function breaks this obligation: the differential tie and the oracle then decide (tools/check.py). *)
From Sylt Require Doc.SrcDigest Doc.DocSrcDigest Gen.GenSrcDigest.
Theorem C02_model_sources_reviewed :
  Sylt.Doc.SrcDigest.sources_reviewed ["sylt-compiler/src/typechecker.rs"%string; "sylt-compiler/src/ty.rs"%string]
    Sylt.Doc.DocSrcDigest.doc_src_digests Sylt.Gen.GenSrcDigest.src_digests = true.
Proof. vm_compute. reflexivity. Qed.
Print Assumptions C02_model_sources_reviewed.
