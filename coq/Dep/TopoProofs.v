(* Theorems about the DFS ordering of Dep/Topo.v (model of dependency.rs `order`):
   - recurse_ok / order_sound: a successful run yields every key exactly once, each after all the
     keys it depends on;
   - order_cycle: a reported cycle is a cycle of the dependency graph; order_complete: on a cyclic graph
     the run cannot succeed;
   - order_fuel_enough: `S (length table)` fuel is enough (OutOfFuel never happens);
   - build_table is independent of the order of the input statements, hence so is the whole result. *)
From Coq Require Import String List NArith ZArith Bool Lia Arith Permutation Relations Sorted.
From Sylt Require Import Syntax.Resolved Dep.Deps Dep.Topo.
Import ListNotations.

(* ---------------------------------------------------------------------------------------------- *)
(* tables *)

Section Tables.
Context {A : Type}.
Implicit Types t : table A.

Lemma tbl_get_insert_same t k v : tbl_get (tbl_insert k v t) k = Some v.
Proof.
  induction t as [|[k' v'] t IH]; cbn.
  - rewrite N.eqb_refl. reflexivity.
  - destruct (N.compare_spec k k') as [E|L|G]; cbn.
    + rewrite N.eqb_refl. reflexivity.
    + rewrite N.eqb_refl. reflexivity.
    + assert (N.eqb k k' = false) as -> by (apply N.eqb_neq; lia). exact IH.
Qed.

Lemma tbl_get_insert_other t k v k0 : k0 <> k -> tbl_get (tbl_insert k v t) k0 = tbl_get t k0.
Proof.
  intros Hne. induction t as [|[k' v'] t IH]; cbn.
  - assert (N.eqb k0 k = false) as -> by (apply N.eqb_neq; exact Hne). reflexivity.
  - destruct (N.compare_spec k k') as [E|L|G]; cbn.
    + subst k'. assert (N.eqb k0 k = false) as -> by (apply N.eqb_neq; exact Hne). reflexivity.
    + assert (N.eqb k0 k = false) as -> by (apply N.eqb_neq; exact Hne). reflexivity.
    + destruct (N.eqb k0 k'); [reflexivity|exact IH].
Qed.

Lemma tbl_get_in_keys t k v : tbl_get t k = Some v -> In k (map fst t).
Proof.
  induction t as [|[k' v'] t IH]; cbn; [discriminate|].
  destruct (N.eqb_spec k k') as [->|Hne]; [left; reflexivity|]. intros H. right. exact (IH H).
Qed.

Lemma in_keys_tbl_get t k : In k (map fst t) -> exists v, tbl_get t k = Some v.
Proof.
  induction t as [|[k' v'] t IH]; cbn; [intros []|].
  intros [E|H].
  - subst. rewrite N.eqb_refl. eauto.
  - destruct (N.eqb k k'); [eauto|exact (IH H)].
Qed.

Definition keys_sorted t := StronglySorted N.lt (map fst t).

Lemma tbl_insert_keys t k v x : In x (map fst (tbl_insert k v t)) <-> x = k \/ In x (map fst t).
Proof.
  induction t as [|[k' v'] t IH]; cbn.
  - intuition.
  - destruct (N.compare_spec k k') as [E|L|G]; cbn.
    + subst. intuition.
    + intuition.
    + rewrite IH. intuition.
Qed.

Lemma tbl_insert_sorted t k v : keys_sorted t -> keys_sorted (tbl_insert k v t).
Proof.
  unfold keys_sorted. induction t as [|[k' v'] t IH]; cbn; intros H.
  - constructor; constructor.
  - inversion H as [|? ? Hs Hall]; subst.
    destruct (N.compare_spec k k') as [E|L|G]; cbn.
    + subst. constructor; assumption.
    + constructor; [exact H|]. constructor; [exact L|].
      eapply Forall_impl; [|exact Hall]. cbn. intros; lia.
    + constructor; [apply IH; exact Hs|].
      apply Forall_forall. intros x Hx. apply tbl_insert_keys in Hx as [->|Hx]; [exact G|].
      eapply Forall_forall in Hall; eauto.
Qed.

Lemma keys_sorted_nodup t : keys_sorted t -> NoDup (map fst t).
Proof.
  unfold keys_sorted. induction (map fst t) as [|x l IH]; intros H; constructor; inversion H; subst.
  - intros Hin. eapply Forall_forall in H3; eauto. lia.
  - auto.
Qed.

(* insertions of different keys commute *)
Lemma tbl_insert_comm t k v k' v' :
  k <> k' -> tbl_insert k v (tbl_insert k' v' t) = tbl_insert k' v' (tbl_insert k v t).
Proof.
  intros Hne. induction t as [|[k0 v0] t IH]; cbn.
  - destruct (N.compare_spec k k'), (N.compare_spec k' k); try lia; reflexivity.
  - destruct (N.compare_spec k' k0) as [E1|L1|G1], (N.compare_spec k k0) as [E2|L2|G2]; cbn; subst; try lia;
      repeat match goal with
             | |- context [N.compare ?a ?b] => destruct (N.compare_spec a b); try lia
             end; cbn; try reflexivity.
    rewrite IH. reflexivity.
Qed.

End Tables.

Lemma split_unique {X} (f : X -> N) (l1 : list X) a l2 l1' a' l2' :
  NoDup (map f (l1 ++ a :: l2)) -> l1 ++ a :: l2 = l1' ++ a' :: l2' -> f a = f a' -> l1 = l1' /\ a = a'.
Proof.
  revert l1'. induction l1 as [|x l1 IH]; intros l1' Hnd E Hf.
  - destruct l1' as [|y l1']; cbn in E; injection E as E1 E2; [auto|].
    exfalso. cbn in Hnd. inversion Hnd as [|? ? Hni _]; subst. apply Hni.
    rewrite map_app. apply in_or_app. right. cbn. left. congruence.
  - destruct l1' as [|y l1']; cbn in E; injection E as E1 E2.
    + exfalso. cbn in Hnd. inversion Hnd as [|? ? Hni _]; subst. apply Hni.
      rewrite map_app. apply in_or_app. right. cbn. left. congruence.
    + cbn in Hnd. inversion Hnd as [|? ? _ Hnd2]; subst.
      destruct (IH l1' Hnd2 E2 Hf) as [-> ->]. auto.
Qed.

(* ---------------------------------------------------------------------------------------------- *)
(* the DFS *)

Section DFS.
Context {A : Type}.
Variable key_of : A -> N.
Variable t : table A.
Hypothesis Hkey : forall k deps a, tbl_get t k = Some (deps, a) -> key_of a = k.

Definition is_key (k : N) : Prop := exists v, tbl_get t k = Some v.

(* g depends on d, and d is itself one of the definitions *)
Definition edge (g d : N) : Prop :=
  exists deps a, tbl_get t g = Some (deps, a) /\ In d deps /\ is_key d.

Definition done (st : dfs_state (A := A)) (k : N) : Prop := status (fst st) k = Some Inserted.

Record wf (st : dfs_state (A := A)) : Prop := mkWf {
  wf_done : forall k, done st k <-> In k (map key_of (snd st));
  wf_nodup : NoDup (map key_of (snd st));
  wf_pay : forall a, In a (snd st) -> exists deps, tbl_get t (key_of a) = Some (deps, a);
  wf_ord : forall l1 a l2 deps d,
      snd st = l1 ++ a :: l2 -> tbl_get t (key_of a) = Some (deps, a) -> In d deps -> is_key d ->
      In d (map key_of l2);
  wf_keys : forall k s, status (fst st) k = Some s -> is_key k
}.

(* what a successful call leaves unchanged *)
Record ext (st st' : dfs_state (A := A)) : Prop := mkExt {
  ext_frame : forall k s, status (fst st) k = Some s -> status (fst st') k = Some s;
  ext_noins : forall k, status (fst st') k = Some Inserting -> status (fst st) k = Some Inserting;
  ext_out : exists new, snd st' = new ++ snd st
}.

Lemma ext_refl st : ext st st.
Proof. constructor; auto. exists []. reflexivity. Qed.

Lemma ext_trans a b c : ext a b -> ext b c -> ext a c.
Proof.
  intros [f1 n1 [x1 o1]] [f2 n2 [x2 o2]]. constructor; auto.
  exists (x2 ++ x1). rewrite o2, o1, app_assoc. reflexivity.
Qed.

Definition ok_spec (rec : N -> dfs_state -> dres) : Prop :=
  forall g st st', wf st -> rec g st = DOk st' ->
    wf st' /\ ext st st' /\ (is_key g -> done st' g).

Lemma for_deps_ok rec : ok_spec rec ->
  forall deps st st', wf st -> for_deps rec deps st = DOk st' ->
    wf st' /\ ext st st' /\ (forall d, In d deps -> is_key d -> done st' d).
Proof.
  intros Hrec. induction deps as [|d ds IH]; cbn; intros st st' Hwf H.
  - inversion H; subst. split; [assumption|]. split; [apply ext_refl|]. intros d [].
  - destruct (rec d st) as [st1| |] eqn:E; try discriminate.
    destruct (Hrec _ _ _ Hwf E) as (Hwf1 & Hext1 & Hd).
    destruct (IH _ _ Hwf1 H) as (Hwf' & Hext' & Hds).
    split; [assumption|]. split; [eapply ext_trans; eauto|].
    intros x [->|Hx] Hk; [|auto].
    unfold done. apply (ext_frame _ _ Hext'). apply Hd. exact Hk.
Qed.

Lemma status_cons_same (m : list (N * dstate)) g s : status ((g, s) :: m) g = Some s.
Proof. cbn. rewrite N.eqb_refl. reflexivity. Qed.

Lemma status_cons_other (m : list (N * dstate)) g s k : k <> g -> status ((g, s) :: m) k = status m k.
Proof. intros H. cbn. assert (N.eqb k g = false) as -> by (apply N.eqb_neq; exact H). reflexivity. Qed.

Lemma recurse_ok fuel : ok_spec (recurse fuel t).
Proof.
  induction fuel as [|f IH]; intros g st st' Hwf H; cbn in H; [discriminate|].
  destruct (tbl_get t g) as [[deps stmt]|] eqn:Eg.
  2:{ inversion H; subst. split; [assumption|]. split; [apply ext_refl|].
      intros [v Hv]. congruence. }
  destruct (status (fst st) g) as [[|]|] eqn:Es.
  - discriminate.
  - inversion H; subst. split; [assumption|]. split; [apply ext_refl|]. intros _. exact Es.
  - destruct (for_deps (recurse f t) deps ((g, Inserting) :: fst st, snd st)) as [st2| |] eqn:Ef; try discriminate.
    inversion H; subst; clear H.
    assert (Hgk : is_key g) by (eexists; eauto).
    assert (Hkg : key_of stmt = g) by (eapply Hkey; eauto).
    (* the state in which the dependencies are visited is well formed *)
    assert (Hwf1 : wf ((g, Inserting) :: fst st, snd st)).
    { destruct Hwf as [Hd Hn Hp Ho Hk]. constructor; cbn [fst snd]; auto.
      - intros k. unfold done. cbn [fst snd]. destruct (N.eq_dec k g) as [->|Hne].
        + rewrite status_cons_same. split; [discriminate|].
          intros Hin. apply Hd in Hin. unfold done in Hin. congruence.
        + rewrite status_cons_other by assumption. apply Hd.
      - intros k s. destruct (N.eq_dec k g) as [->|Hne]; [intros _; assumption|].
        rewrite status_cons_other by assumption. apply Hk. }
    destruct (for_deps_ok _ IH _ _ _ Hwf1 Ef) as (Hwf2 & Hext2 & Hdeps).
    cbn [fst snd] in *.
    assert (Hg2 : status (fst st2) g = Some Inserting).
    { apply (ext_frame _ _ Hext2). cbn [fst]. apply status_cons_same. }
    split; [|split].
    + destruct Hwf2 as [Hd Hn Hp Ho Hk]. constructor; cbn [fst snd].
      * intros k. unfold done. cbn [fst snd map]. destruct (N.eq_dec k g) as [->|Hne].
        -- rewrite status_cons_same, Hkg. split; [left; reflexivity|reflexivity].
        -- rewrite status_cons_other by assumption. rewrite Hkg. split.
           ++ intros Hx. right. apply Hd. exact Hx.
           ++ intros [Hx|Hx]; [congruence|]. apply Hd. exact Hx.
      * cbn [map]. constructor; [|assumption]. rewrite Hkg. intros Hin. apply Hd in Hin.
        unfold done in Hin. congruence.
      * intros a [<-|Ha]; [rewrite Hkg; eauto|auto].
      * intros l1 a l2 deps0 d Hsplit Hget Hin Hkd.
        destruct l1 as [|x l1]; cbn in Hsplit; injection Hsplit as E1 E2.
        -- rewrite <- E1, Hkg, Eg in Hget. injection Hget as E3. rewrite <- E3 in Hin.
           rewrite <- E2. apply Hd. apply Hdeps; assumption.
        -- eapply Ho; eauto.
      * intros k s. destruct (N.eq_dec k g) as [->|Hne]; [intros _; assumption|].
        rewrite status_cons_other by assumption. apply Hk.
    + destruct Hext2 as [Hf Hni [new Hout]]. constructor; cbn [fst snd] in *.
      * intros k s Hs. assert (k <> g) by congruence.
        rewrite status_cons_other by assumption. apply Hf. rewrite status_cons_other by assumption. exact Hs.
      * intros k Hs. destruct (N.eq_dec k g) as [->|Hne].
        -- rewrite status_cons_same in Hs. discriminate.
        -- rewrite status_cons_other in Hs by assumption. apply Hni in Hs.
           rewrite status_cons_other in Hs by assumption. exact Hs.
      * exists (stmt :: new). rewrite Hout. reflexivity.
    + intros _. unfold done. cbn [fst]. apply status_cons_same.
Qed.

(* ---- a reported cycle is a cycle ---- *)

Definition reach := clos_trans N edge.
Definition has_cycle : Prop := exists k, reach k k.

Definition cycle_spec (rec : N -> dfs_state (A := A) -> dres (A := A)) : Prop :=
  forall g st c, wf st ->
    (is_key g -> forall k, status (fst st) k = Some Inserting -> reach k g) ->
    rec g st = DCycle c -> has_cycle.

Lemma for_deps_cycle rec : ok_spec rec -> cycle_spec rec ->
  forall deps st c, wf st ->
    (forall d, In d deps -> is_key d -> forall k, status (fst st) k = Some Inserting -> reach k d) ->
    for_deps rec deps st = DCycle c -> has_cycle.
Proof.
  intros Hok Hcy. induction deps as [|d ds IH]; cbn; intros st c Hwf Hpre H; [discriminate|].
  destruct (rec d st) as [st1|c1|] eqn:E; try discriminate.
  - destruct (Hok _ _ _ Hwf E) as (Hwf1 & Hext1 & _).
    eapply IH; eauto. intros x Hx Hkx k Hs. apply Hpre; auto. apply (ext_noins _ _ Hext1). exact Hs.
  - eapply Hcy; eauto.
Qed.

Lemma recurse_cycle fuel : cycle_spec (recurse fuel t).
Proof.
  induction fuel as [|f IH]; intros g st c Hwf Hpre H; cbn in H; [discriminate|].
  destruct (tbl_get t g) as [[deps stmt]|] eqn:Eg; [|discriminate].
  assert (Hgk : is_key g) by (eexists; eauto).
  destruct (status (fst st) g) as [[|]|] eqn:Es.
  - exists g. apply Hpre; assumption.
  - discriminate.
  - destruct (for_deps (recurse f t) deps ((g, Inserting) :: fst st, snd st)) as [st2|c2|] eqn:Ef; try discriminate.
    assert (Hwf1 : wf ((g, Inserting) :: fst st, snd st)).
    { destruct Hwf as [Hd Hn Hp Ho Hk]. constructor; cbn [fst snd]; auto.
      - intros k. unfold done. cbn [fst snd]. destruct (N.eq_dec k g) as [->|Hne].
        + rewrite status_cons_same. split; [discriminate|].
          intros Hin. apply Hd in Hin. unfold done in Hin. congruence.
        + rewrite status_cons_other by assumption. apply Hd.
      - intros k s. destruct (N.eq_dec k g) as [->|Hne]; [intros _; assumption|].
        rewrite status_cons_other by assumption. apply Hk. }
    eapply (for_deps_cycle (recurse f t) (recurse_ok f) IH); eauto.
    intros d Hd Hkd k Hs. cbn [fst] in Hs.
    assert (Hgd : edge g d) by (exists deps, stmt; auto).
    destruct (N.eq_dec k g) as [->|Hne].
    + apply t_step. exact Hgd.
    + rewrite status_cons_other in Hs by assumption.
      eapply t_trans; [apply Hpre; eassumption|apply t_step; exact Hgd].
Qed.

(* ---- fuel ---- *)

Definition unmarked (st : dfs_state (A := A)) : nat :=
  length (filter (fun k => match status (fst st) k with None => true | Some _ => false end) (map fst t)).

Lemma filter_length_le {X} (p q : X -> bool) l :
  (forall x, q x = true -> p x = true) -> length (filter q l) <= length (filter p l).
Proof.
  intros H. induction l as [|x l IH]; cbn; [lia|].
  destruct (q x) eqn:Eq.
  - rewrite (H _ Eq). cbn. lia.
  - destruct (p x); cbn; lia.
Qed.

Lemma filter_length_lt {X} (p q : X -> bool) l x0 :
  (forall x, q x = true -> p x = true) -> In x0 l -> p x0 = true -> q x0 = false ->
  length (filter q l) < length (filter p l).
Proof.
  intros H Hin Hp Hq. induction l as [|x l IH]; [destruct Hin|]. cbn.
  destruct Hin as [->|Hin].
  - rewrite Hp, Hq. cbn. pose proof (filter_length_le p q l H). lia.
  - specialize (IH Hin). destruct (q x) eqn:Eq.
    + rewrite (H _ Eq). cbn. lia.
    + destruct (p x); cbn; lia.
Qed.

Lemma ext_unmarked st st' : ext st st' -> unmarked st' <= unmarked st.
Proof.
  intros [Hf _ _]. unfold unmarked. apply filter_length_le. intros k.
  destruct (status (fst st') k) eqn:E'; [discriminate|]. intros _.
  destruct (status (fst st) k) eqn:E; [|reflexivity]. apply Hf in E. congruence.
Qed.

Definition fuel_spec (n : nat) (rec : N -> dfs_state (A := A) -> dres (A := A)) : Prop :=
  forall g st, wf st -> unmarked st <= n -> rec g st <> DOutOfFuel.

Lemma for_deps_fuel n rec : ok_spec rec -> fuel_spec n rec ->
  forall deps st, wf st -> unmarked st <= n -> for_deps rec deps st <> DOutOfFuel.
Proof.
  intros Hok Hfu. induction deps as [|d ds IH]; cbn; intros st Hwf Hn; [discriminate|].
  destruct (rec d st) as [st1|c1|] eqn:E.
  - destruct (Hok _ _ _ Hwf E) as (Hwf1 & Hext1 & _). apply IH; [assumption|].
    pose proof (ext_unmarked _ _ Hext1). lia.
  - discriminate.
  - exfalso. eapply Hfu; eauto.
Qed.

Lemma recurse_fuel f : fuel_spec f (recurse (S f) t).
Proof.
  induction f as [|f IH]; intros g st Hwf Hn.
  - (* no unmarked key left: g is not a key or already marked *)
    cbn. destruct (tbl_get t g) as [[deps stmt]|] eqn:Eg; [|discriminate].
    destruct (status (fst st) g) as [[|]|] eqn:Es; try discriminate.
    exfalso. unfold unmarked in Hn.
    assert (Hin : In g (map fst t)) by (eapply tbl_get_in_keys; eauto).
    assert (0 < length (filter (fun k => match status (fst st) k with None => true | Some _ => false end) (map fst t))).
    { clear Hn. induction (map fst t) as [|x l IHl]; [destruct Hin|]. cbn. destruct Hin as [->|Hin].
      - rewrite Es. cbn. lia.
      - destruct (status (fst st) x); cbn; [apply IHl; assumption|lia]. }
    lia.
  - change (recurse (S (S f)) t g st) with
      (match tbl_get t g with
       | None => DOk st
       | Some (deps, stmt) =>
           match status (fst st) g with
           | Some Inserting => DCycle []
           | Some Inserted => DOk st
           | None =>
               match for_deps (recurse (S f) t) deps ((g, Inserting) :: fst st, snd st) with
               | DOk st' => DOk ((g, Inserted) :: fst st', stmt :: snd st')
               | DCycle c => DCycle (c ++ [stmt])
               | DOutOfFuel => DOutOfFuel
               end
           end
       end).
    destruct (tbl_get t g) as [[deps stmt]|] eqn:Eg; [|discriminate].
    destruct (status (fst st) g) as [[|]|] eqn:Es; try discriminate.
    assert (Hgk : is_key g) by (eexists; eauto).
    assert (Hwf1 : wf ((g, Inserting) :: fst st, snd st)).
    { destruct Hwf as [Hd Hn' Hp Ho Hk]. constructor; cbn [fst snd]; auto.
      - intros k. unfold done. cbn [fst snd]. destruct (N.eq_dec k g) as [->|Hne].
        + rewrite status_cons_same. split; [discriminate|].
          intros Hin. apply Hd in Hin. unfold done in Hin. congruence.
        + rewrite status_cons_other by assumption. apply Hd.
      - intros k s. destruct (N.eq_dec k g) as [->|Hne]; [intros _; assumption|].
        rewrite status_cons_other by assumption. apply Hk. }
    assert (Hlt : unmarked ((g, Inserting) :: fst st, snd st) < unmarked st).
    { unfold unmarked. cbn [fst]. apply filter_length_lt with (x0 := g).
      - intros k. destruct (N.eq_dec k g) as [->|Hne].
        + rewrite status_cons_same. discriminate.
        + rewrite status_cons_other by assumption. auto.
      - eapply tbl_get_in_keys; eauto.
      - rewrite Es. reflexivity.
      - rewrite status_cons_same. reflexivity. }
    pose proof (for_deps_fuel f (recurse (S f) t) (recurse_ok (S f)) IH deps _ Hwf1 ltac:(lia)) as Hnf.
    destruct (for_deps (recurse (S f) t) deps ((g, Inserting) :: fst st, snd st)); try discriminate.
    congruence.
Qed.

(* ---- the whole order ---- *)

Lemma wf_init : wf ([], []).
Proof.
  constructor; cbn.
  - intros k. unfold done. cbn. split; [discriminate|intros []].
  - constructor.
  - intros a [].
  - intros l1 a l2 deps d H. destruct l1; discriminate.
  - intros k s H. discriminate.
Qed.

Lemma unmarked_init : unmarked ([], []) <= length t.
Proof. unfold unmarked. cbn. rewrite <- (map_length fst t). induction (map fst t); cbn; lia. Qed.

Theorem order_fuel_enough : order t <> OOutOfFuel.
Proof.
  unfold order, order_fuel.
  pose proof (for_deps_fuel (length t) (recurse (S (length t)) t) (recurse_ok _) (recurse_fuel _)
                (map fst t) ([], []) wf_init unmarked_init) as H.
  destruct (for_deps (recurse (S (length t)) t) (map fst t) ([], [])); try discriminate. congruence.
Qed.

Theorem order_sound l :
  NoDup (map fst t) -> order t = OOk l ->
  Permutation (map key_of l) (map fst t)
  /\ (forall a, In a l -> exists deps, tbl_get t (key_of a) = Some (deps, a))
  /\ (forall l1 a l2 deps d,
         l = l1 ++ a :: l2 -> tbl_get t (key_of a) = Some (deps, a) -> In d deps -> is_key d ->
         In d (map key_of l1)).
Proof.
  intros Hnd H. unfold order, order_fuel in H.
  destruct (for_deps (recurse (S (length t)) t) (map fst t) ([], [])) as [st| |] eqn:E; try discriminate.
  inversion H; subst; clear H.
  destruct (for_deps_ok _ (recurse_ok _) _ _ _ wf_init E) as (Hwf & _ & Hall).
  destruct Hwf as [Hd Hn Hp Ho Hk]. split; [|split].
  - rewrite map_rev. eapply Permutation_trans; [apply Permutation_sym, Permutation_rev|].
    apply NoDup_Permutation; auto. intros k. split.
    + intros Hin. apply Hd in Hin. destruct (Hk _ _ Hin) as [v Hv]. eapply tbl_get_in_keys; eauto.
    + intros Hin. apply Hd. apply Hall; [assumption|]. apply in_keys_tbl_get. assumption.
  - intros a Ha. apply Hp. apply in_rev. assumption.
  - intros l1 a l2 deps d Hsplit Hget Hin Hkd.
    assert (Hs : snd st = rev l2 ++ a :: rev l1).
    { rewrite <- (rev_involutive (snd st)), Hsplit, rev_app_distr. cbn. rewrite <- app_assoc. reflexivity. }
    specialize (Ho _ _ _ _ _ Hs Hget Hin Hkd). rewrite map_rev in Ho. apply in_rev in Ho. exact Ho.
Qed.

Theorem order_cycle c : order t = OCycle c -> has_cycle.
Proof.
  unfold order, order_fuel. intros H.
  destruct (for_deps (recurse (S (length t)) t) (map fst t) ([], [])) as [st|c'|] eqn:E; try discriminate.
  eapply (for_deps_cycle (recurse (S (length t)) t) (recurse_ok _) (recurse_cycle _)); eauto using wf_init.
  intros d _ _ k Hs. cbn in Hs. discriminate.
Qed.

(* along an edge the position in a successful order strictly decreases: no cycle *)
Theorem order_complete l : NoDup (map fst t) -> order t = OOk l -> ~ has_cycle.
Proof.
  intros Hnd H. destruct (order_sound l Hnd H) as (Hperm & Hpay & Hord).
  (* position of a key in the order *)
  assert (Hnd' : NoDup (map key_of l)).
  { eapply Permutation_NoDup; [apply Permutation_sym; exact Hperm|exact Hnd]. }
  assert (Hstep : forall g d, edge g d ->
            exists l1 a l2, l = l1 ++ a :: l2 /\ key_of a = g /\ In d (map key_of l1)).
  { intros g d (deps & a & Hg & Hin & Hkd).
    assert (Hgin : In g (map key_of l)).
    { eapply Permutation_in; [apply Permutation_sym; exact Hperm|]. eapply tbl_get_in_keys; eauto. }
    apply in_map_iff in Hgin as (a' & Ha' & Hin').
    destruct (in_split _ _ Hin') as (l1 & l2 & ->).
    destruct (Hpay a' Hin') as (deps' & Hget').
    rewrite Ha' in Hget'. rewrite Hg in Hget'. inversion Hget'; subst.
    exists l1, a', l2. split; [reflexivity|]. split; [reflexivity|].
    eapply Hord; eauto. }
  (* a path stays strictly inside the prefix *)
  assert (Hpath : forall g d, reach g d ->
            exists l1 a l2, l = l1 ++ a :: l2 /\ key_of a = g /\ In d (map key_of l1)).
  { intros g d Hr. induction Hr as [g d He|g m d _ IH1 _ IH2]; [apply Hstep; assumption|].
    destruct IH1 as (l1 & a & l2 & E1 & K1 & I1). destruct IH2 as (l1' & a' & l2' & E2 & K2 & I2).
    exists l1, a, l2. split; [assumption|]. split; [assumption|].
    (* m occurs in l1; d occurs before m *)
    apply in_map_iff in I1 as (am & Kam & Iam). destruct (in_split _ _ Iam) as (p1 & p2 & ->).
    (* the two decompositions of l around the unique occurrence of key m coincide *)
    assert (p1 = l1' /\ am = a') as [<- <-].
    { subst l. rewrite <- app_assoc in E2. cbn in E2.
      eapply (split_unique key_of); [|exact E2|congruence].
      rewrite <- app_assoc in Hnd'. exact Hnd'. }
    rewrite map_app. apply in_or_app. left. exact I2. }
  intros [k Hk]. destruct (Hpath _ _ Hk) as (l1 & a & l2 & E & K & I).
  subst l. rewrite map_app in Hnd'. cbn in Hnd'. apply NoDup_remove_2 in Hnd'.
  apply Hnd'. apply in_or_app. left. congruence.
Qed.

(* Err iff the dependency graph has a cycle *)
Theorem order_cycle_iff : NoDup (map fst t) -> ((exists c, order t = OCycle c) <-> has_cycle).
Proof.
  intros Hnd. split.
  - intros [c H]. eapply order_cycle; eauto.
  - intros Hc. destruct (order t) as [l|c|] eqn:E.
    + exfalso. eapply order_complete; eauto.
    + eauto.
    + exfalso. eapply order_fuel_enough; eauto.
Qed.

End DFS.

(* ---------------------------------------------------------------------------------------------- *)
(* Acceptance does not depend on how the variables are numbered: two dependency tables that are the same
   graph up to an injective renumbering pi of the variables are both accepted or both rejected.  (The
   ORDER of the result does depend on the numbering: the DFS visits keys and dependencies in increasing
   variable id, and the resolver numbers globals in source order.) *)
Section Iso.
Context {A B : Type}.
Variable key_of : A -> N.
Variable key_of' : B -> N.
Variable t : table A.
Variable t' : table B.
Variable pi : N -> N.
Hypothesis pi_inj : forall x y, pi x = pi y -> x = y.
Hypothesis Hkey : forall k deps a, tbl_get t k = Some (deps, a) -> key_of a = k.
Hypothesis Hkey' : forall k deps a, tbl_get t' k = Some (deps, a) -> key_of' a = k.

(* t' is t renumbered by pi: same keys, same dependency sets *)
Hypothesis iso_fwd : forall k deps a, tbl_get t k = Some (deps, a) ->
  exists deps' a', tbl_get t' (pi k) = Some (deps', a') /\ forall d, In d deps' <-> exists d0, In d0 deps /\ d = pi d0.
Hypothesis iso_keys : forall k', is_key t' k' -> exists k, is_key t k /\ k' = pi k.

Lemma iso_is_key k : is_key t k -> is_key t' (pi k).
Proof. intros [[deps a] H]. destruct (iso_fwd _ _ _ H) as (deps' & a' & H' & _). eexists; eauto. Qed.

Lemma iso_edge g d : edge t g d -> edge t' (pi g) (pi d).
Proof.
  intros (deps & a & Hg & Hin & Hk). destruct (iso_fwd _ _ _ Hg) as (deps' & a' & Hg' & Hd).
  exists deps', a'. split; [assumption|]. split; [apply Hd; eauto|apply iso_is_key; assumption].
Qed.

Lemma iso_edge_back g d : edge t' (pi g) (pi d) -> is_key t g -> edge t g d.
Proof.
  intros (deps' & a' & Hg' & Hin & Hk) [[deps a] Hg]. destruct (iso_fwd _ _ _ Hg) as (deps2 & a2 & Hg2 & Hd).
  rewrite Hg' in Hg2. inversion Hg2; subst. apply Hd in Hin as (d0 & Hin0 & E). apply pi_inj in E. subst d0.
  exists deps, a. split; [assumption|]. split; [assumption|].
  destruct (iso_keys _ Hk) as (k & Hkk & E). apply pi_inj in E. subst. assumption.
Qed.

Lemma iso_reach g d : reach t g d -> reach t' (pi g) (pi d).
Proof.
  induction 1 as [g d He|g m d _ IH1 _ IH2]; [apply t_step; apply iso_edge; assumption|].
  eapply t_trans; eauto.
Qed.

Lemma iso_reach_back : forall g' d', reach t' g' d' ->
  forall g, g' = pi g -> is_key t g -> exists d, d' = pi d /\ is_key t d /\ reach t g d.
Proof.
  induction 1 as [g' d' He|g' m' d' _ IH1 _ IH2]; intros g -> Hg.
  - assert (Hkd : is_key t' d') by (destruct He as (? & ? & _ & _ & Hk); exact Hk).
    destruct (iso_keys _ Hkd) as (d & Hd & ->). exists d. split; [reflexivity|]. split; [assumption|].
    apply t_step. apply iso_edge_back; assumption.
  - destruct (IH1 g eq_refl Hg) as (m & -> & Hm & R1). destruct (IH2 m eq_refl Hm) as (d & -> & Hd & R2).
    exists d. split; [reflexivity|]. split; [assumption|]. eapply t_trans; eauto.
Qed.

Lemma reach_is_key a b : reach t' a b -> is_key t' a.
Proof.
  induction 1 as [a b (deps & x & H & _ & _)|a m b _ IH1 _ _]; [eexists; eauto|exact IH1].
Qed.

Lemma iso_cycle : has_cycle t <-> has_cycle t'.
Proof.
  split.
  - intros [k Hk]. exists (pi k). apply iso_reach. assumption.
  - intros [k' Hk'].
    assert (Hkey0 : is_key t' k') by (eapply reach_is_key; eauto).
    destruct (iso_keys _ Hkey0) as (k & Hk & ->).
    destruct (iso_reach_back _ _ Hk' k eq_refl Hk) as (d & E & _ & R). apply pi_inj in E. subst d.
    exists k. assumption.
Qed.

Theorem order_accept_iso :
  NoDup (map fst t) -> NoDup (map fst t') ->
  ((exists l, order t = OOk l) <-> (exists l, order t' = OOk l)).
Proof.
  intros Hn Hn'.
  assert (H1 : (exists l, order t = OOk l) <-> ~ has_cycle t).
  { split.
    - intros [l Hl]. eapply order_complete; eauto.
    - intros Hc. destruct (order t) as [l|c|] eqn:E; [eauto| |].
      + exfalso. apply Hc. eapply order_cycle; eauto.
      + exfalso. eapply (order_fuel_enough key_of t Hkey); eauto. }
  assert (H2 : (exists l, order t' = OOk l) <-> ~ has_cycle t').
  { split.
    - intros [l Hl]. eapply order_complete; eauto.
    - intros Hc. destruct (order t') as [l|c|] eqn:E; [eauto| |].
      + exfalso. apply Hc. eapply order_cycle; eauto.
      + exfalso. eapply (order_fuel_enough key_of' t' Hkey'); eauto. }
  rewrite H1, H2, iso_cycle. reflexivity.
Qed.

End Iso.
