#!/usr/bin/env python3
"""usage: seed_store.py <round> <ID> <verify-json> <caught_by comma list> <first_run text> <how text>
copies /tmp/seed<round>-<ID>/{patch.diff,demo,meta.json} to seeded/<ID>/round<round>/ and records confirmation + detection"""
import json, os, shutil, subprocess, sys
rnd, pid, ver, caught, first, how = sys.argv[1:7]
src = "/tmp/seed%s-%s" % (rnd, pid)
dst = "/verif/seeded/%s/round%s" % (pid, rnd)
os.makedirs(dst, exist_ok=True)
shutil.copy(src + "/patch.diff", dst + "/patch.diff")
if os.path.isdir(dst + "/demo"):
    shutil.rmtree(dst + "/demo")
shutil.copytree(src + "/demo", dst + "/demo", ignore=shutil.ignore_patterns("target", "*.lua.out", "out*"))
meta = json.load(open(src + "/meta.json"))
v = json.loads(ver)
meta["base_commit"] = subprocess.run(["git", "-C", "/repo", "rev-parse", "--short", "HEAD"], capture_output=True, text=True).stdout.strip()
meta["confirmed_by_coordinator"] = {"applies_to_clean_checkout": v["applies"], "pinned_tests_with_change": v["tests"] + " (program_tests)",
                                    "demo_exit_without_change": v["demo_exit_without_change"], "demo_exit_with_change": v["demo_exit_with_change"],
                                    "ran": "tools/seed_verify_n.sh %s %s; tools/altrun.sh /tmp/wt-seed%s-%s %s" % (rnd, pid, rnd, pid, caught.replace(",", " "))}
meta["detection"] = {"caught_by": [c for c in caught.split(",") if c], "first_run": first, "how": how}
json.dump(meta, open(dst + "/meta.json", "w"), indent=1, ensure_ascii=False)
print("stored", dst)
