(* C04: constants are immutable and pure functions stay pure. *)
From Coq Require Import String List NArith ZArith PArith Bool Lia FMapPositive.
From Sylt Require Import Syntax.Resolved Types.TyGraph Types.Tc Types.Ctx Types.TcInv Types.Reject Types.Mismatch.
Import ListNotations.
Local Open Scope tc_scope.

(* ------------------------------------------------------------------ the variable table *)

Lemma kinds_of_find : forall vars i m p,
  PositiveMap.find p (kinds_of vars i m) =
  if Pos.ltb p i then PositiveMap.find p m
  else match nth_error vars (Pos.to_nat p - Pos.to_nat i) with
       | Some v => Some (v_kind v)
       | None => PositiveMap.find p m
       end.
Proof.
  induction vars as [|v vars IH]; intros i m p; cbn [kinds_of].
  - destruct (Pos.ltb p i); [reflexivity|]. destruct (Pos.to_nat p - Pos.to_nat i)%nat; reflexivity.
  - rewrite IH. destruct (Pos.ltb_spec p (Pos.succ i)) as [L|L]; destruct (Pos.ltb_spec p i) as [L'|L']; try lia.
    + rewrite PositiveMap.gso by lia. reflexivity.
    + assert (p = i) by lia. subst p. rewrite PositiveMap.gss, PeanoNat.Nat.sub_diag. reflexivity.
    + replace (Pos.to_nat p - Pos.to_nat i)%nat with (S (Pos.to_nat p - Pos.to_nat (Pos.succ i)))%nat by lia.
      cbn [nth_error]. destruct (nth_error vars _); [reflexivity|]. rewrite PositiveMap.gso by lia. reflexivity.
Qed.

(* variable number k of the resolver's table has the kind the table says *)
Lemma kinds_of_var vars k v :
  nth_error vars k = Some v ->
  PositiveMap.find (N.succ_pos (N.of_nat k)) (kinds_of vars 1 (PositiveMap.empty varkind)) = Some (v_kind v).
Proof.
  intros H. rewrite kinds_of_find.
  destruct (Pos.ltb_spec (N.succ_pos (N.of_nat k)) 1) as [L|L]; [lia|].
  replace (Pos.to_nat (N.succ_pos (N.of_nat k)) - Pos.to_nat 1)%nat with k; [rewrite H; reflexivity|].
  destruct k; cbn; [reflexivity|]. rewrite Pos2Nat.inj_succ, SuccNat2Pos.id_succ. lia.
Qed.

(* ------------------------------------------------------------------ constants *)

(* assigning to a variable the resolver marked Const - a `::` definition, a parameter, a case binding -
   is rejected, in every TypeCtx, state and fuel (the check is the first thing fn statement does) *)
Lemma const_assign_local kinds G v op rsp value sp f ctx s :
  PositiveMap.find (N.succ_pos v) kinds = Some Const ->
  notok (r_stmt (afix kinds G f) (SAssignment op (ERead v rsp) value sp) ctx s).
Proof.
  intros K. destruct f as [|f]; [apply notok_fuel|].
  cbn [afix astep r_stmt]. unfold stmt_body. apply bind_notok_l.
  unfold can_assign, var_kind. rewrite K. cbn. apply notok_fail.
Qed.

(* anything that is not a variable, a field access or an index is not assignable either *)
Lemma nonlvalue_assign_local kinds G target op value sp f ctx s :
  match target with ERead _ _ | EBlobAccess _ _ _ | EIndex _ _ _ => False | _ => True end ->
  notok (r_stmt (afix kinds G f) (SAssignment op target value sp) ctx s).
Proof.
  intros K. destruct f as [|f]; [apply notok_fuel|].
  cbn [afix astep r_stmt]. unfold stmt_body. apply bind_notok_l.
  destruct target; try contradiction; apply notok_fail.
Qed.

(* ------------------------------------------------------------------ the TypeCtx inside a pure function *)

Lemma inside_pure_enter_fn pure ctx : inside_pure (enter_fn pure ctx) = pure || inside_pure ctx.
Proof. unfold enter_fn, enter_pure. destruct pure; reflexivity. Qed.

Lemma inside_pure_enter_loop ctx : inside_pure (enter_loop ctx) = inside_pure ctx.
Proof. reflexivity. Qed.

(* pure_ctx_monotone: at every position syntactically inside a `pu` function (or reached with
   inside_pure already set) the checker's TypeCtx has inside_pure = true *)
Lemma pure_ctx_monotone (Pe Ps : tctx -> Prop) :
  (forall c, inside_pure c = true -> Pe c) -> (forall c, inside_pure c = true -> Ps c) ->
  (forall C ctx, through_pure_e C || inside_pure ctx = true -> at_e Pe Ps C ctx) /\
  (forall C ctx, through_pure_s C || inside_pure ctx = true -> at_s Pe Ps C ctx).
Proof.
  intros He Hs.
  assert (X : forall n, (forall C ctx, ectx_size C <= n -> through_pure_e C || inside_pure ctx = true -> at_e Pe Ps C ctx) /\
                        (forall C ctx, sctx_size C <= n -> through_pure_s C || inside_pure ctx = true -> at_s Pe Ps C ctx)).
  { induction n as [|n [IHe IHs]]; split; intros C ctx Hn Hp.
    - destruct C; cbn in Hn; lia.
    - destruct C; cbn in Hn; lia.
    - destruct C; cbn [at_e through_pure_e] in *; cbn [ectx_size] in Hn;
        try (apply He; exact Hp); try (apply IHe; [lia|exact Hp]); try (apply IHs; [lia|exact Hp]).
      apply IHs; [lia|]. rewrite inside_pure_enter_fn.
      destruct pure, (through_pure_s c), (inside_pure ctx); cbn in *; congruence.
    - destruct C; cbn [at_s through_pure_s] in *; cbn [sctx_size] in Hn;
        try (apply Hs; exact Hp); try (apply IHe; [lia|exact Hp]); try (apply IHs; [lia|exact Hp]). }
  split; intros C ctx; [apply (proj1 (X (ectx_size C)))|apply (proj2 (X (sctx_size C)))]; lia.
Qed.

(* ------------------------------------------------------------------ what is rejected under inside_pure *)

(* assignments *)
Lemma pure_assign_local kinds G op target value sp f ctx s :
  inside_pure ctx = true -> notok (r_stmt (afix kinds G f) (SAssignment op target value sp) ctx s).
Proof.
  intros P. destruct f as [|f]; [apply notok_fuel|].
  cbn [afix astep r_stmt]. unfold stmt_body. apply bind_notok_r. intros ? ?. rewrite P. apply (notok_fail KExotic sp).
Qed.

(* mutable (`:=`) declarations *)
Lemma pure_mutdef_local kinds G name var t value sp f ctx s :
  inside_pure ctx = true -> notok (r_stmt (afix kinds G f) (SDefinition name var Mutable t value sp) ctx s).
Proof.
  intros P. destruct f as [|f]; [apply notok_fuel|].
  cbn [afix astep r_stmt]. unfold stmt_body, definition. rewrite P. apply notok_fail.
Qed.

(* reads of mutable variables *)
Lemma pure_read_mut_local kinds G v sp f ctx s :
  inside_pure ctx = true -> PositiveMap.find (N.succ_pos v) kinds <> Some Const ->
  notok (r_expr (afix kinds G f) (ERead v sp) ctx s).
Proof.
  intros P K. destruct f as [|f]; [apply notok_fuel|].
  cbn [afix astep r_expr]. unfold expr_body. apply bind_notok_l. cbv beta iota.
  rewrite (bind_ok (is_type_name v) _ s _ s eq_refl). destruct (existsb (N.eqb v) (tnames s)); [apply notok_fail|].
  unfold var_kind.
  destruct (PositiveMap.find (N.succ_pos v) kinds) as [[]|]; [congruence| |apply bind_notok_l, notok_panicm].
  rewrite (bind_ok (ret Mutable) _ s Mutable s eq_refl). rewrite P. apply notok_fail.
Qed.

(* calls of anything whose type is not a `pu` function type *)
Lemma pure_call_local kinds G callee args sp f ctx s :
  inside_pure ctx = true ->
  (forall r fn s', r_expr (afix kinds G f) callee ctx s = Ok ((r, fn), s') ->
                   forall ps rt, head s' fn <> Some (HFn ps rt PPure)) ->
  notok (r_expr (afix kinds G (S f)) (ECall callee args sp) ctx s).
Proof.
  intros P H. cbn [afix astep r_expr]. unfold expr_body. apply bind_notok_l. cbv beta iota.
  unfold notok, bind at 1. destruct (r_expr (afix kinds G f) callee ctx s) as [[[r fn] s']| | |] eqn:E; try discriminate.
  specialize (H _ _ _ eq_refl). unfold bind at 1.
  destruct (find_type fn s') as [[t s'']| | |] eqn:Et; try discriminate.
  apply find_type_inv in Et as [-> Et].
  destruct t; try discriminate.
  destruct (negb (Nat.eqb (length args) (length params))); [discriminate|].
  rewrite P. destruct p; cbn; try discriminate. exfalso. eapply H; eassumption.
Qed.

(* pure_rejects, at any depth: a forbidden construct anywhere inside a `pu` function is rejected *)
Definition forbidden_in_pure_stmt (kinds : PositiveMap.t varkind) (st : stmt) : Prop :=
  match st with
  | SAssignment _ _ _ _ => True
  | SDefinition _ _ Mutable _ _ _ => True
  | SStatementExpression (ERead v _) _ => PositiveMap.find (N.succ_pos v) kinds <> Some Const
  | _ => False
  end.

Definition forbidden_in_pure_expr (kinds : PositiveMap.t varkind) (e : expr) : Prop :=
  match e with
  | ERead v _ => PositiveMap.find (N.succ_pos v) kinds <> Some Const
  | _ => False
  end.

Lemma forbidden_stmt_local kinds G st f ctx s :
  forbidden_in_pure_stmt kinds st -> inside_pure ctx = true -> notok (r_stmt (afix kinds G f) st ctx s).
Proof.
  intros F P. destruct st; try contradiction.
  - now apply pure_assign_local.
  - destruct kind; [contradiction|]. now apply pure_mutdef_local.
  - destruct value; try contradiction. destruct f as [|f]; [apply notok_fuel|].
    cbn [afix astep r_stmt]. unfold stmt_body. apply bind_notok_l. now apply pure_read_mut_local.
Qed.

Theorem pure_rejects kinds G (PG : gpres G) (e : expr) (st : stmt) :
  forbidden_in_pure_expr kinds e -> forbidden_in_pure_stmt kinds st ->
  forall f,
    (forall C ctx s, wf s -> through_pure_e C || inside_pure ctx = true ->
                     notok (r_expr (afix kinds G f) (plug_e e st C) ctx s)) /\
    (forall C ctx s, wf s -> through_pure_s C || inside_pure ctx = true ->
                     notok (r_stmt (afix kinds G f) (plug_s e st C) ctx s)).
Proof.
  intros Fe Fs f.
  assert (Re : forall c, inside_pure c = true -> rej_e kinds G e c).
  { intros c P f' s' _. destruct e; try contradiction. now apply pure_read_mut_local. }
  assert (Rs : forall c, inside_pure c = true -> rej_s kinds G st c).
  { intros c P f' s' _. now apply forbidden_stmt_local. }
  destruct (pure_ctx_monotone _ _ Re Rs) as [Me Ms].
  destruct (placement_gen kinds G PG e st f) as [Pe Ps].
  split; intros C ctx s W Hp; [apply Pe|apply Ps]; auto.
Qed.

(* const_assign_rejected, at any depth and in every TypeCtx *)
Theorem const_assign_rejected kinds G (PG : gpres G) v op rsp value sp :
  PositiveMap.find (N.succ_pos v) kinds = Some Const ->
  forall f,
    (forall C ctx s, wf s -> is_shole_e C = true ->
                     notok (r_expr (afix kinds G f) (plug_e (ERead v rsp) (SAssignment op (ERead v rsp) value sp) C) ctx s)) /\
    (forall C ctx s, wf s -> is_shole_s C = true ->
                     notok (r_stmt (afix kinds G f) (plug_s (ERead v rsp) (SAssignment op (ERead v rsp) value sp) C) ctx s)).
Proof.
  intros K f.
  assert (Rs : forall c, rej_s kinds G (SAssignment op (ERead v rsp) value sp) c).
  { intros c f' s' _. now apply const_assign_local. }
  destruct (at_shole (rej_e kinds G (ERead v rsp)) _ Rs) as [Me Ms].
  destruct (placement_gen kinds G PG (ERead v rsp) (SAssignment op (ERead v rsp) value sp) f) as [Pe Ps].
  split; intros C ctx s W Hh; [apply Pe|apply Ps]; auto.
Qed.

(* ------------------------------------------------------------------ impure is not pure *)

(* unifying a `pu` function type with an `fn` function type of two different classes fails *)
Theorem impure_not_pure g sp a b s pa ra pb rb :
  wf s -> head s a = Some (HFn pa ra PPure) -> head s b = Some (HFn pb rb PImpure) ->
  notok (unify (gfix g) sp a b s) /\ notok (unify (gfix g) sp b a s).
Proof.
  intros W Ha Hb.
  assert (X : forall x y px rx py ry p q, head s x = Some (HFn px rx p) -> head s y = Some (HFn py ry q) ->
                purity_compatible p q = false -> notok (unify (gfix g) sp x y s)).
  { intros x y px rx py ry p q Hx Hy Pc. unfold unify. apply bind_notok_l.
    destruct g as [|g]; [apply notok_fuel|]. cbn [gfix gstep g_unify]. unfold unify_body.
    unfold head in Hx, Hy.
    destruct (lk s x) as [nx|] eqn:Lx; [|discriminate]. destruct (lk s y) as [ny|] eqn:Ly; [|discriminate].
    assert (Fx : find x s = Ok (nrep nx, s)).
    { unfold find, get_node, bind, ret. unfold lk in Lx. rewrite Lx. reflexivity. }
    assert (Fy : find y s = Ok (nrep ny, s)).
    { unfold find, get_node, bind, ret. unfold lk in Ly. rewrite Ly. reflexivity. }
    rewrite (bind_ok _ _ _ _ _ Fx), (bind_ok _ _ _ _ _ Fy).
    destruct (Pos.eqb_spec (nrep nx) (nrep ny)) as [E|Ne].
    { rewrite E in Hx. rewrite Hx in Hy. injection Hy as _ _ ->. destruct q; discriminate. }
    cbn [orb seen_mem existsb].
    assert (Hx' : head s (nrep nx) = Some (HFn px rx p)).
    { destruct (head_of_rep s x (nrep nx) W) as [Hh _]; [unfold rep; rewrite Lx; reflexivity|].
      rewrite Hh. unfold head. rewrite Lx. assumption. }
    assert (Hy' : head s (nrep ny) = Some (HFn py ry q)).
    { destruct (head_of_rep s y (nrep ny) W) as [Hh _]; [unfold rep; rewrite Ly; reflexivity|].
      rewrite Hh. unfold head. rewrite Ly. assumption. }
    rewrite (bind_ok _ _ _ _ _ (find_type_ok _ _ _ Hx')), (bind_ok _ _ _ _ _ (find_type_ok _ _ _ Hy')).
    apply bind_notok_l. rewrite Pc. apply notok_fail. }
  split; eapply X; eauto.
Qed.

(* ------------------------------------------------------------------ purity does NOT survive a plain `fn` annotation

   impure :: fn x: int -> int do x end
   takes_pu :: fn f: pu int -> int -> int do f(1) end
   start :: fn do
       y: fn int -> int = impure
       takes_pu(y)            -- an impure function where a `pu` type is declared
   end

   (the resolved statements below are the real compiler's own, as handed to its type checker) *)
Local Open Scope string_scope.
Definition laundering_program : resolved :=
(mkResolved
  [(mkVar 0%N "impure" (mkSpan 0 1 1 1 7) true Const); (mkVar 1%N "takes_pu" (mkSpan 0 2 2 1 9) true Const); (mkVar 2%N "start" (mkSpan 0 3 3 1 6) true Const); (mkVar 3%N "== STACK BEGIN ""impure"" ==" (mkSpan 0 1 1 1 7) false Const); (mkVar 4%N "x" (mkSpan 0 1 1 14 15) false Const); (mkVar 5%N "== STACK BEGIN ""takes_pu"" ==" (mkSpan 0 2 2 1 9) false Const); (mkVar 6%N "f" (mkSpan 0 2 2 16 17) false Const); (mkVar 7%N "== STACK BEGIN ""start"" ==" (mkSpan 0 3 3 1 6) false Const); (mkVar 8%N "y" (mkSpan 0 4 4 5 6) false Mutable)]
  [(SDefinition "impure" 0%N Const (TImplied (mkSpan 0 1 1 36 37)) (EFunction "lambda" [("x", 4%N, (mkSpan 0 1 1 14 15), (TResolved BInt (mkSpan 0 1 1 17 20)))] (TResolved BInt (mkSpan 0 1 1 24 27)) [(SStatementExpression (ERead 4%N (mkSpan 0 1 1 31 32)) (mkSpan 0 1 1 31 32))] false (mkSpan 0 1 1 11 13)) (mkSpan 0 1 1 1 7)); (SDefinition "takes_pu" 1%N Const (TImplied (mkSpan 0 2 2 51 52)) (EFunction "lambda" [("f", 6%N, (mkSpan 0 2 2 16 17), (TFn [] [(TResolved BInt (mkSpan 0 2 2 22 25))] (TResolved BInt (mkSpan 0 2 2 29 32)) true (mkSpan 0 2 2 19 21)))] (TResolved BInt (mkSpan 0 2 2 36 39)) [(SStatementExpression (ECall (ERead 6%N (mkSpan 0 2 2 43 44)) [(EInt (1)%Z (mkSpan 0 2 2 45 46))] (mkSpan 0 2 2 44 45)) (mkSpan 0 2 2 43 44))] false (mkSpan 0 2 2 13 15)) (mkSpan 0 2 2 1 9)); (SDefinition "start" 2%N Const (TImplied (mkSpan 0 6 6 4 5)) (EFunction "lambda" [] (TResolved BVoid (mkSpan 0 3 3 13 15)) [(SDefinition "y" 8%N Mutable (TFn [] [(TResolved BInt (mkSpan 0 4 4 11 14))] (TResolved BInt (mkSpan 0 4 4 18 21)) false (mkSpan 0 4 4 8 10)) (ERead 0%N (mkSpan 0 4 4 24 30)) (mkSpan 0 4 4 5 6)); (SStatementExpression (ECall (ERead 1%N (mkSpan 0 5 5 5 13)) [(ERead 8%N (mkSpan 0 5 5 14 15))] (mkSpan 0 5 5 13 14)) (mkSpan 0 5 5 5 13))] false (mkSpan 0 3 3 10 12)) (mkSpan 0 3 3 1 6))]).

Theorem purity_laundering_accepted : exists fuel, typecheck fuel laundering_program = Ok tt.
Proof. exists 60. vm_compute. reflexivity. Qed.

(* for comparison: the same call with the function itself is rejected (Impurity) *)
Definition direct_program : resolved :=
  match laundering_program with
  | mkResolved vars [d1; d2; SDefinition n v k t (EFunction fnm ps rt [_; SStatementExpression (ECall c [_] csp) ssp] pu fsp) dsp] =>
    mkResolved vars [d1; d2; SDefinition n v k t
                               (EFunction fnm ps rt [SStatementExpression (ECall c [ERead 0 (mkSpan 0 5 5 14 15)] csp) ssp] pu fsp) dsp]
  | r => r
  end.

Example direct_rejected : typecheck 60 direct_program = Err (mkErr KImpurity (mkSpan 0 5 5 14 15)) [].
Proof. vm_compute. reflexivity. Qed.
