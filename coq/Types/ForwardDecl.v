(* C03 / C11: a blob that mentions another blob, in EITHER declaration order (/repo 3c0758d).
   `A :: blob { .., k: B, .. }` and `B :: blob { .. }` (B before or after A in the file), then an instance
   `A { .., k: <literal>, .. }` anywhere inside a later top-level definition: rejected.
   solve goes through the type declarations once before everything else: after that pass the class of B is a blob
   (`known_var`: an ext-closed invariant), so when A is declared in the pass over all the statements its field k gets
   a copy of that blob: a class whose head is neither unknown nor a leaf (`field_inner`).  The instantiation builds the
   type of the given fields (field k: the leaf type of the literal), instantiates A (field k: CopyInst.copy_known_kids)
   and unifies the two: a leaf and a non-leaf at the same position do not unify (unify_kid_conflict_inner). *)
From Coq Require Import String List NArith ZArith PArith Bool Lia FMapPositive.
From Sylt Require Import Syntax.Resolved Types.TyGraph Types.Tc Types.Ctx Types.TcInv Types.Reject Types.Mismatch
  Types.DeclOrder Types.ShapesDecl Types.CopyInst Types.Calls Types.CallsDecl Types.BlobFields.
Import ListNotations.
Local Open Scope tc_scope.

(* ------------------------------------------------------------------ heads that are neither unknown nor leaves *)
Lemma pair_ok_inner s x y t :
  pair_ok s x y -> head s x = Some t -> inner t = true -> exists t', head s y = Some t' /\ inner t' = true.
Proof.
  intros [->|[(r & Hx & Hy)|(hx & hy & Hx & Hy & Ix & Iy)]] H I.
  - eauto.
  - rewrite <- (same_rep_same_head _ _ _ _ Hx Hy). eauto.
  - eauto.
Qed.

Lemma ext_inner s s' i t : ext s s' -> head s i = Some t -> inner t = true -> exists t', head s' i = Some t' /\ inner t' = true.
Proof.
  intros (_ & _ & _ & E4 & _) H I. destruct (E4 _ _ H (inner_known _ I)) as (t' & H' & Sh).
  exists t'. split; [exact H'|exact (inner_shape _ _ Sh I)].
Qed.

(* two types that have, at the same position, a component of a leaf type and a component that is not a leaf do not unify *)
Lemma unify_kid_conflict_inner g sp a b s ha hb x ca cb ta tb :
  wf s -> head s a = Some ha -> head s b = Some hb -> kid ha x = Some ca -> kid hb x = Some cb ->
  head s ca = Some ta -> rigid ta = true -> head s cb = Some tb -> inner tb = true ->
  notok (unify (gfix g) sp a b s).
Proof.
  intros W Ha Hb Ka Kb Hca Ra Hcb Ib [r s'] H.
  destruct (unify_result_head _ _ _ _ _ _ _ W H) as (W' & E' & _ & Heq).
  pose proof E' as (_ & _ & _ & E4 & E5).
  destruct (E4 _ _ Ha (kid_known _ _ _ Ka)) as (ha' & Ha' & Sa). destruct (E4 _ _ Hb (kid_known _ _ _ Kb)) as (hb' & Hb' & Sb).
  destruct (kid_shape _ _ _ _ Sa Ka) as [ca' Ka']. destruct (kid_shape _ _ _ _ Sb Kb) as [cb' Kb'].
  pose proof (kid_keep _ _ _ _ _ _ _ _ _ E' Ha Ha' Ka Ka' Hca Ra) as X.
  destruct (ext_inner _ _ _ _ E' Hcb Ib) as (tb1 & Hcb1 & Ib1).
  destruct (pair_ok_inner _ _ _ _ (E5 _ _ _ _ _ _ Hb Hb' Kb Kb') Hcb1 Ib1) as (tb2 & Hcb2 & Ib2).
  rewrite Ha', Hb' in Heq. injection Heq as <-. rewrite Ka' in Kb'. injection Kb' as <-.
  rewrite X in Hcb2. injection Hcb2 as <-. exact (inner_not_rigid _ Ib2 Ra).
Qed.

(* ------------------------------------------------------------------ the two invariants *)
Section Inv.
  Variable vB : N.               (* the blob that is mentioned *)
  Variable vA : N.               (* the blob that mentions it *)
  Variable k : string.           (* in the type of its field k *)

  (* the class of the variable B has a head that is neither unknown nor a leaf (a blob, once B has been declared) *)
  Definition known_var (s : st) : Prop := exists t, head s (N.succ_pos vB) = Some t /\ inner t = true.

  Lemma known_var_ext s s' : wf s -> ext s s' -> known_var s -> known_var s'.
  Proof. intros _ E (t & H & I). exact (ext_inner _ _ _ _ E H I). Qed.

  (* the class of A is a blob type whose field k has such a head *)
  Definition field_inner (s : st) : Prop :=
    exists name sp fs args spk c t, head s (N.succ_pos vA) = Some (HBlob name sp fs args) /\ flookup k fs = Some (spk, c) /\
                                    head s c = Some t /\ inner t = true.

  Lemma field_inner_ext s s' : wf s -> ext s s' -> field_inner s -> field_inner s'.
  Proof.
    intros _ E (name & sp & fs & args & spk & c & t & Hh & Hk & Hc & I). pose proof E as (_ & _ & _ & E4 & E5).
    destruct (E4 _ _ Hh eq_refl) as (h' & Hh' & Sh). destruct h'; try discriminate Sh.
    assert (K : kid (HBlob name sp fs args) (KField k) = Some c) by (cbn [kid]; rewrite Hk; reflexivity).
    destruct (kid_shape _ _ _ _ Sh K) as [c' K']. pose proof K' as K''. cbn [kid] in K''.
    destruct (flookup k fields) as [[spk' c0]|] eqn:Ef; [|discriminate]. cbn in K''. injection K'' as ->.
    destruct (ext_inner _ _ _ _ E Hc I) as (t1 & Hc1 & I1).
    destruct (pair_ok_inner _ _ _ _ (E5 _ _ _ _ _ _ Hh Hh' K K') Hc1 I1) as (t2 & Hc2 & I2).
    do 4 eexists. exists spk', c', t2. split; [exact Hh'|]. split; [exact Ef|]. split; assumption.
  Qed.
End Inv.

Section Rules.
  Variable kinds : PositiveMap.t varkind.
  Variable g : nat.
  Notation G := (gfix g).
  Notation afix := (afix kinds G).
  Let PG : gpres G := gfix_pres g.
  Let PA f : apres (afix f) := afix_pres kinds G PG f.

  Variable vB vA : N.
  Variable k : string.

  (* ---- the declaration of B establishes known_var *)
  Lemma known_var_established name sp tvars fields f s u s' :
    wf s -> outer_statement kinds G (afix f) (SBlob name vB sp tvars fields false) ctx_new s = Ok (u, s') -> known_var vB s'.
  Proof.
    intros W H.
    destruct (blob_established kinds g (afix f) (PA f) name vB sp tvars fields false ctx_new s u s' W H)
      as (nm & bsp & fs & args & Hh & _).
    eexists. split; [exact Hh|reflexivity].
  Qed.

  (* any declaration of the variable B does: a blob, an external blob, an enum *)
  Lemma known_var_established_any d f s u s' :
    decl_var d = Some vB -> wf s -> outer_statement kinds G (afix f) d ctx_new s = Ok (u, s') -> known_var vB s'.
  Proof.
    intros Hv W H. destruct d; try discriminate Hv; cbn [decl_var] in Hv; injection Hv as ->.
    - pose proof (blob_established kinds g (afix f) (PA f) _ _ _ _ _ _ ctx_new s u s' W H) as X.
      destruct external; [destruct X as (nm & bsp & fs & args & id & Hh)|destruct X as (nm & bsp & fs & args & Hh & _)];
        eexists; split; [exact Hh|reflexivity|exact Hh|reflexivity].
    - destruct (enum_established kinds g (afix f) (PA f) _ _ _ _ _ ctx_new s u s' W H) as (nm & bsp & fs & args & Hh & _).
      eexists. split; [exact Hh|reflexivity].
  Qed.

  (* ---- a mention of B, once B is known, is a type that is neither unknown nor a leaf *)
  Lemma r_type_user targs tsp seen f s r s' :
    wf s -> known_var vB s -> r_type (afix f) (TUser vB targs tsp) seen s = Ok (r, s') ->
    wf s' /\ ext s s' /\ exists t, head s' (fst r) = Some t /\ inner t = true.
  Proof.
    intros W (t0 & H0 & I0) H.
    destruct (ap_type _ (PA f) _ _ _ _ _ W H) as [W' E']. split; [assumption|]. split; [assumption|].
    destruct f as [|f]; [discriminate|]. cbn [Tc.afix astep r_type] in H. unfold type_body in H.
    apply bind_inv in H as (vt & s1 & Hv & H). apply ShapesDecl_var_ty_inv in Hv as [-> ->].
    apply bind_inv in H as (t & s2 & Hcp & H).
    destruct (copy_shape _ _ _ _ _ W Hcp) as (W2 & _ & (h & h' & Hh & Hh' & [Sh _])).
    rewrite H0 in Hh. injection Hh as <-.
    pose proof (inner_shape _ _ Sh I0) as I'.
    rewrite (bind_ok _ _ _ _ _ (find_type_ok _ _ _ Hh')) in H.
    assert (X : forall defsp sub,
              (seen' <- user_args G (afix f) defsp targs sub seen ;; ret (t, seen')) s2 = Ok (r, s') ->
              exists t1, head s' (fst r) = Some t1 /\ inner t1 = true).
    { intros defsp sub Hx. apply bind_inv in Hx as (seen' & s3 & Hu & Hx). injection Hx as <- <-. cbn [fst].
      assert (PU : pres (user_args G (afix f) defsp targs sub seen)) by (apply pres_user_args; [exact PG|exact (PA f)]).
      destruct (PU _ _ _ W2 Hu) as [_ E3].
      exact (ext_inner _ _ _ _ E3 Hh' I'). }
    destruct h'; try discriminate H; try discriminate I'; eapply X; exact H.
  Qed.

  (* ---- the declaration of A, when B is known, establishes field_inner *)
  Lemma decl_fields_inner f n : forall fields acc seen s r s',
    wf s -> known_var vB s ->
    (forall ksp t, In (k, (ksp, t)) fields -> exists targs tsp, t = TUser vB targs tsp) ->
    (forall spk c, flookup k acc = Some (spk, c) -> exists t, head s c = Some t /\ inner t = true) ->
    foldM (fun (acc : fieldmap * genmap) (fd : string * (span * ty)) =>
             let '(k0, (ksp, t)) := fd in
             rt <- r_type (afix f) t (snd acc);;
             (if negb (Nat.eqb n (length (snd rt))) then fail KExotic ksp
              else ret (finsert k0 (ksp, fst rt) (fst acc), snd rt))) fields (acc, seen) s = Ok (r, s') ->
    wf s' /\ ext s s' /\ (forall spk c, flookup k (fst r) = Some (spk, c) -> exists t, head s' c = Some t /\ inner t = true).
  Proof.
    induction fields as [|[k0 [ksp t]] fields IH]; intros acc seen s r s' W KV Ht Ha H; cbn [foldM] in H.
    - injection H as <- <-. split; [assumption|]. split; [apply ext_refl|]. exact Ha.
    - apply bind_inv in H as ([acc1 seen1] & s1 & H1 & H).
      apply bind_inv_pres0 in H1 as (rt & s2 & Hr & W2 & E2 & H1); [|apply (ap_type _ (PA f))|assumption].
      cbn [snd fst] in H1. destruct (negb (Nat.eqb n (length (snd rt)))); [discriminate|]. injection H1 as <- <- <-.
      assert (Hacc : forall spk c, flookup k (finsert k0 (ksp, fst rt) acc) = Some (spk, c) ->
                                   exists t1, head s2 c = Some t1 /\ inner t1 = true).
      { intros spk c Hl. destruct (String.eqb_spec k k0) as [<-|Nk].
        - rewrite flookup_finsert_same in Hl. injection Hl as <- <-.
          destruct (Ht ksp t (or_introl eq_refl)) as (targs & tsp & ->).
          exact (proj2 (proj2 (r_type_user _ _ _ _ _ _ _ W KV Hr))).
        - rewrite flookup_finsert_other in Hl by assumption. destruct (Ha _ _ Hl) as (t1 & H1 & I1).
          exact (ext_inner _ _ _ _ E2 H1 I1). }
      destruct (IH _ _ _ _ _ W2 (known_var_ext vB _ _ W E2 KV) (fun ksp0 t0 Hin => Ht ksp0 t0 (or_intror Hin)) Hacc H) as (W3 & E3 & X).
      split; [assumption|]. split; [eapply ext_trans; eassumption|assumption].
  Qed.

  Lemma field_inner_established name sp tvars fields f s u s' :
    In k (map fst fields) -> (forall ksp t, In (k, (ksp, t)) fields -> exists targs tsp, t = TUser vB targs tsp) ->
    wf s -> known_var vB s ->
    outer_statement kinds G (afix f) (SBlob name vA sp tvars fields false) ctx_new s = Ok (u, s') ->
    field_inner vA k s'.
  Proof.
    intros Hin Ht W KV H.
    destruct (blob_established kinds g (afix f) (PA f) name vA sp tvars fields false ctx_new s u s' W H)
      as (nm & bsp & fs & args & Hh & HK).
    unfold outer_statement in H.
    apply bind_inv in H as (u0 & sa & Ha & H). destruct (pres_add_type_name vA _ _ _ W Ha) as [Wa Ea].
    pose proof (known_var_ext vB _ _ W Ea KV) as KVa.
    apply bind_inv in H as (bt & s0 & H0 & H). apply ShapesDecl_var_ty_inv in H0 as [-> ->].
    apply bind_inv in H as ([tp seen] & s1 & H1 & H).
    destruct (pres_decl_params tvars _ _ _ Wa H1) as [W1 E1].
    pose proof (known_var_ext vB _ _ Wa E1 KVa) as KV1.
    apply bind_inv in H as (res & s2 & H2 & H).
    unfold decl_fields in H2. apply bind_inv in H2 as ([r sn] & s2x & Hf & H2). injection H2 as <- Es. subst s2x. cbn [fst] in H.
    assert (Ht' : forall ksp t, In (k, (ksp, t)) (source_order fields) -> exists targs tsp, t = TUser vB targs tsp)
      by (intros ksp t Hi; apply (proj1 (source_order_In _ _)) in Hi; exact (Ht _ _ Hi)).
    assert (Hnil : forall spk c, flookup k (@nil (string * (span * tyid))) = Some (spk, c) -> exists t, head s1 c = Some t /\ inner t = true)
      by (intros spk c Hl; discriminate Hl).
    destruct (decl_fields_inner f (length seen) (source_order fields) [] seen s1 _ _ W1 KV1 Ht' Hnil Hf) as (W2 & E2 & X).
    apply bind_inv in H as (t & s3 & H3 & H).
    destruct (push_spec _ _ _ _ W2 H3) as (W3 & E3 & Ht3).
    apply bind_inv in H as (ru & s4 & H4 & H). injection H as _ <-.
    destruct (unify_result_head _ _ _ _ _ _ _ W3 H4) as (W4 & E4 & _ & Heq).
    assert (Hk : exists spk c, flookup k r = Some (spk, c)).
    { pose proof (decl_fields_keys (afix f) (length seen) (source_order fields) seen s1 r s2) as KK.
      assert (Hd : decl_fields (afix f) (length seen) (source_order fields) seen s1 = Ok (r, s2)).
      { unfold decl_fields. rewrite (bind_ok _ _ _ _ _ Hf). reflexivity. }
      specialize (KK Hd k). destruct KK as [_ KK].
      assert (Ik : In k (keys r)).
      { apply KK. apply in_map_iff in Hin as ([k1 v1] & <- & Hi). apply in_map_iff. exists (k1, v1). split; [reflexivity|].
        now apply source_order_In. }
      apply fmem_In_keys in Ik. unfold fmem in Ik. destruct (flookup k r) as [[spk c]|]; [eauto|discriminate]. }
    destruct Hk as (spk & c & Hk).
    pose proof E4 as (_ & _ & _ & E44 & E45). cbn [fst] in Ht3.
    destruct (E44 _ _ Ht3 eq_refl) as (h' & Hh' & Sh). destruct h'; try discriminate Sh.
    assert (K : kid (HBlob name sp r tp) (KField k) = Some c) by (cbn [kid]; rewrite Hk; reflexivity).
    destruct (kid_shape _ _ _ _ Sh K) as [c' K']. pose proof K' as K''. cbn [kid] in K''.
    destruct (flookup k fields0) as [[spk' c0]|] eqn:Ef; [|discriminate]. cbn in K''. injection K'' as ->.
    destruct (X _ _ Hk) as (t2 & Hc2 & I2).
    destruct (ext_inner _ _ _ _ (ext_trans _ _ _ E3 E4) Hc2 I2) as (t4 & Hc4 & I4).
    destruct (pair_ok_inner _ _ _ _ (E45 _ _ _ _ _ _ Ht3 Hh' K K') Hc4 I4) as (t5 & Hc5 & I5).
    do 4 eexists. exists spk', c', t5. split; [rewrite <- Heq; exact Hh'|]. split; [exact Ef|]. split; assumption.
  Qed.

  (* ---- the instantiation of A with an initialiser of a leaf type for field k *)
  Notation V := (N.succ_pos vA).

  Lemma rej_blob_field_inner pre lit post self sp ta f ctx s :
    wf s -> field_inner vA k s ->
    (forall f' s1 x s2, wf s1 -> ext s s1 -> r_expr (afix f') lit ctx s1 = Ok (x, s2) -> head s2 (snd x) = Some ta) ->
    rigid ta = true ->
    notok (r_expr (afix f) (EBlob vA (pre ++ (k, lit) :: post) self sp) ctx s).
  Proof.
    intros W (name & bsp & fs & bargs & spk & c & tc & Hh & Hk & Hc & Ic) Hy Rl [r s'] H.
    assert (Pcp : pres (copy G V)) by (pose proof PG; prs).
    destruct f as [|f]; [discriminate|]. cbn [Tc.afix astep r_expr] in H. unfold expr_body in H.
    apply bind_inv in H as ([er ex] & s1 & H1 & _). cbv beta iota in H1.
    apply bind_inv in H1 as (bt & s2 & Hv & H1). apply ShapesDecl_var_ty_inv in Hv as [-> ->].
    apply bind_inv in H1 as (blob_ty & s3 & Hcp & H1).
    destruct (Pcp _ _ _ W Hcp) as [_ E03].
    destruct (copy_shape _ _ _ _ _ W Hcp) as (W3 & F3 & (h0 & h' & Hh0 & Hh' & [Sh _])).
    rewrite Hh in Hh0. injection Hh0 as <-.
    assert (K : kid (HBlob name bsp fs bargs) (KField k) = Some c) by (cbn [kid]; rewrite Hk; reflexivity).
    destruct (copy_known_kids g V s blob_ty s3 _ (KField k) c tc W Hcp Hh K Hc (inner_known _ Ic)) as (h'' & cb & tcb & X1 & Kb & Hcb & Shc).
    pose proof (inner_shape _ _ Shc Ic) as Icb.
    rewrite Hh' in X1. injection X1 as <-.
    rewrite (bind_ok _ _ _ _ _ (find_type_ok _ _ _ Hh')) in H1.
    destruct h'; try discriminate Sh.
    apply bind_inv_pres0 in H1 as (given & s4 & Hg & W4 & E4 & H1);
      [|apply pres_foldM; intros; apply pres_bind; [apply pres_push|intros; apply pres_ret]|assumption].
    match type of H1 with (match ?l with _ => _ end) _ = _ => destruct l as [|e1 more] end; [|discriminate].
    apply bind_inv in H1 as (given_blob & s5 & Hp & H1).
    destruct (push_spec _ _ _ _ W4 Hp) as (W5 & E5 & Hgb).
    apply bind_inv in H1 as (sty & s6 & Hs & H1). apply ShapesDecl_var_ty_inv in Hs as [-> ->].
    apply bind_inv_pres0 in H1 as (u1 & s7 & Hu1 & W7 & E7 & H1); [|apply (TcInv.pres_unify G PG)|assumption].
    assert (W8 : wf s7) by exact W7. assert (E8 : ext s7 s7) by apply ext_refl.
    apply bind_inv in H1 as (u2 & s9 & Hit & H1).
    match type of Hit with foldM ?fn _ _ _ = _ =>
      destruct (foldM_app_inv fn pre (k, lit) post None s7 u2 s9) as (b1 & sa & b2 & sb & Wa & Ea & Hx & Wb & Eb & W9 & E9);
        [intros b0 y; pose proof PG; pose proof (PA f); prs; apply (ap_expr _ (PA f))|assumption|exact Hit|]
    end.
    cbn [fst snd] in Hx.
    apply bind_inv in Hx as ([iret ety] & sc & Hl & Hx).
    destruct (ap_expr _ (PA f) _ _ _ _ _ Wa Hl) as [Wc Ec].
    assert (E0a : ext s sa).
    { eapply ext_trans; [exact E03|]. eapply ext_trans; [exact E4|]. eapply ext_trans; [exact E5|]. eapply ext_trans; [exact E7|].
      eapply ext_trans; [exact E8|exact Ea]. }
    pose proof (Hy _ _ _ _ Wa E0a Hl) as Hety. cbn [snd] in Hety.
    apply bind_inv_pres0 in Hx as (u3 & sd & _ & Wd & Ed & Hx); [|pose proof PG; prs|assumption].
    destruct (flookup k given) as [[gsp ft]|] eqn:Eg; [|discriminate].
    apply bind_inv in Hx as (u4 & se & Hu4 & Hx). injection Hx as _ <-.
    destruct (unify_result_head _ _ _ _ _ _ _ Wd Hu4) as (We & Ee & _ & Heq4).
    assert (Hft : head se ft = Some ta).
    { rewrite <- Heq4. eapply head_keep; [exact Ee| |exact Rl]. exact (head_keep _ _ _ _ Ed Hety Rl). }
    apply bind_inv in H1 as (uf & s10 & Hf & _).
    assert (E59 : ext s5 s9).
    { eapply ext_trans; [exact E7|]. eapply ext_trans; [exact E8|]. eapply ext_trans; [exact Ea|].
      eapply ext_trans; [|exact E9]. eapply ext_trans; [exact Ec|]. eapply ext_trans; [exact Ed|exact Ee]. }
    assert (E39 : ext s3 s9) by (eapply ext_trans; [exact E4|]; eapply ext_trans; [exact E5|exact E59]).
    pose proof E59 as (_ & _ & _ & E4' & E5').
    destruct (E4' _ _ Hgb eq_refl) as (hg & Hhg & Shg).
    assert (Kg : kid (HBlob name0 sp given args) (KField k) = Some ft) by (cbn [kid]; rewrite Eg; reflexivity).
    destruct (kid_shape _ _ _ _ Shg Kg) as [cg Kg'].
    assert (Hcg : head s9 cg = Some ta).
    { apply (pair_ok_rigid s9 ft cg ta); [exact (E5' _ _ _ _ _ _ Hgb Hhg Kg Kg')| |exact Rl].
      exact (head_keep _ _ _ _ E9 Hft Rl). }
    pose proof E39 as (_ & _ & _ & E4'' & E5'').
    destruct (E4'' _ _ Hh' eq_refl) as (hb & Hhb & Shb).
    destruct (kid_shape _ _ _ _ Shb Kb) as [cb' Kb'].
    destruct (ext_inner _ _ _ _ E39 Hcb Icb) as (t9 & Hcb9 & I9).
    destruct (pair_ok_inner _ _ _ _ (E5'' _ _ _ _ _ _ Hh' Hhb Kb Kb') Hcb9 I9) as (t9' & Hcb' & I9').
    apply (unify_kid_conflict_inner g sp given_blob blob_ty s9 hg hb (KField k) cg cb' ta t9' W9 Hhg Hhb Kg' Kb'
             Hcg Rl Hcb' I9' (uf, s10)).
    exact Hf.
  Qed.

  Lemma rej_blob_field_lit_inner pre lit post self sp ta f ctx s :
    wf s -> field_inner vA k s -> lit_type lit = Some ta -> rigid ta = true ->
    notok (r_expr (afix f) (EBlob vA (pre ++ (k, lit) :: post) self sp) ctx s).
  Proof.
    intros W Sg Ll Rl. apply rej_blob_field_inner with (ta := ta); try assumption.
    intros f' s1 x s2 W1 _ Hx. exact (proj2 (proj2 (lit_spec _ _ _ _ _ _ _ _ _ Ll Rl W1 Hx))).
  Qed.
End Rules.

(* ------------------------------------------------------------------ the two passes of solve *)
Lemma iterM_establishes {A} (f : A -> M unit) (Inv : st -> Prop) x :
  (forall y, pres (f y)) ->
  (forall s s', wf s -> ext s s' -> Inv s -> Inv s') ->
  (forall s u s', wf s -> f x s = Ok (u, s') -> Inv s') ->
  forall l, In x l -> forall s u s', wf s -> iterM f l s = Ok (u, s') -> Inv s'.
Proof.
  intros P IE Hx. induction l as [|y l IH]; intros Hin s u s' W H; [destruct Hin|]. cbn [iterM] in H.
  apply bind_inv in H as (u1 & s1 & H1 & H). destruct (P y _ _ _ W H1) as [W1 E1].
  destruct Hin as [->|Hin].
  - destruct (pres_iterM f l P _ _ _ W1 H) as [W' E']. exact (IE _ _ W1 E' (Hx _ _ _ W H1)).
  - exact (IH Hin _ _ _ W1 H).
Qed.

Lemma iterM_notok_after_under {A} (f : A -> M unit) (J Inv : st -> Prop) pre d mid x post :
  (forall y, pres (f y)) ->
  (forall s s', wf s -> ext s s' -> J s -> J s') ->
  (forall s s', wf s -> ext s s' -> Inv s -> Inv s') ->
  (forall s u s', wf s -> J s -> f d s = Ok (u, s') -> Inv s') ->
  (forall s, wf s /\ Inv s -> notok (f x s)) ->
  forall s, wf s -> J s -> notok (iterM f (pre ++ d :: mid ++ x :: post) s).
Proof.
  intros P JE IE Hd Hx. induction pre as [|p pre IH]; intros s W HJ; cbn [app iterM].
  - apply bind_cases; [apply P|assumption|]. intros u s1 H1 W1 E1.
    apply (iterM_notok_j _ (inv_pres_closed Inv IE)); [assumption|assumption|].
    split; [assumption|]. exact (Hd _ _ _ W HJ H1).
  - apply bind_cases; [apply P|assumption|]. intros u s1 H1 W1 E1. apply IH; [assumption|exact (JE _ _ W E1 HJ)].
Qed.

(* Some statement of the program declares the type variable v0; every declaration of v0 establishes Inv0: the first pass
   of solve (the type declarations, DeclOrder.type_decl_order) establishes Inv0.  Under Inv0 the statement d1 establishes
   Inv1 in the second pass, and e is rejected under Inv1: a program that has e anywhere inside the value of a top-level
   definition after d1 is not accepted -- wherever the declaration of v0 stands. *)
Theorem rejected_after_type_decl (Inv0 Inv1 : st -> Prop) (v0 : N) (d1 : stmt) (e : expr) :
  (forall s s', wf s -> ext s s' -> Inv0 s -> Inv0 s') ->
  (forall s s', wf s -> ext s s' -> Inv1 s -> Inv1 s') ->
  (forall d kinds g f s u s', decl_var d = Some v0 -> wf s ->
     outer_statement kinds (gfix g) (afix kinds (gfix g) f) d ctx_new s = Ok (u, s') -> Inv0 s') ->
  (forall kinds g f s u s', wf s -> Inv0 s -> outer_statement kinds (gfix g) (afix kinds (gfix g) f) d1 ctx_new s = Ok (u, s') -> Inv1 s') ->
  (forall kinds g f ctx s, wf s /\ Inv1 s -> notok (r_expr (afix kinds (gfix g) f) e ctx s)) ->
  forall pre mid post dname dvar dkind dty (C : ectx) dsp sp0 fuel vars,
    let stmts := pre ++ d1 :: mid ++ SDefinition dname dvar dkind dty (plug_e e (SStatementExpression e sp0) C) dsp :: post in
    (exists d0, In d0 stmts /\ decl_var d0 = Some v0) ->
    typecheck fuel (mkResolved vars stmts) <> Ok tt.
Proof.
  intros IE0 IE1 Hd0 Hd1 He pre mid post dname dvar dkind dty C dsp sp0 fuel vars stmts (d0 & Hin & Hv0).
  apply typecheck_notok. intros s W. unfold solve.
  set (kinds := kinds_of vars 1 (PositiveMap.empty varkind)).
  pose proof (gfix_pres fuel) as PG. pose proof (afix_pres kinds (gfix fuel) PG fuel) as PA.
  assert (PO : forall y, pres (outer_statement kinds (gfix fuel) (afix kinds (gfix fuel) fuel) y ctx_new))
    by (intros y; now apply pres_outer_statement).
  apply bind_cases; [apply pres_iterM; exact PO|assumption|]. intros u1 s1 H1 W1 E1.
  destruct (type_decl_order_covers stmts d0 v0 Hin Hv0) as (d' & Hin' & Hv').
  assert (I0 : Inv0 s1).
  { apply (iterM_establishes _ Inv0 d' PO IE0 (fun s0 u0 s0' W0 H0 => Hd0 d' _ _ _ _ _ _ Hv' W0 H0) (type_decl_order stmts)) with (s := s) (u := u1);
      assumption. }
  apply bind_notok_l. unfold stmts.
  apply (iterM_notok_after_under _ Inv0 Inv1); try assumption.
  - intros s0 u s2 W0 J0 H0. exact (Hd1 _ _ _ _ _ _ W0 J0 H0).
  - intros s0 J0. cbv beta.
    set (J := fun s => wf s /\ Inv1 s).
    assert (HJ : pres_closed J) by (apply inv_pres_closed; assumption).
    apply (outer_def_notok_j kinds (gfix fuel) PG J HJ e (SStatementExpression e sp0)); [assumption|].
    assert (Re : forall c, rej_e_j kinds (gfix fuel) J e c) by (intros c f s' J'; now apply He).
    assert (Rs : forall c, rej_s_j kinds (gfix fuel) J (SStatementExpression e sp0) c).
    { intros c f s' J'. destruct f as [|f]; [apply notok_fuel|]. cbn [afix astep r_stmt]. unfold stmt_body.
      apply bind_notok_l. now apply He. }
    apply (proj1 (at_all _ _ Re Rs)).
Qed.

(* `A :: blob { .., k: B.., .. }` (every declaration of field k mentions the blob B, with any type arguments), a
   declaration `B :: blob { .. }` ANYWHERE among the statements -- before A or after it --, and an instance
   `A { .., k: lit, .. }` with a literal (int, float, str, bool, nil) anywhere inside a later top-level definition:
   the program is rejected. *)
Theorem C03_forward_blob_mention_rejected
        nameA vA spA tvarsA fieldsA k vB nameB spB tvarsB fieldsB pre0 lit post0 self isp ta :
  In k (map fst fieldsA) ->
  (forall ksp t, In (k, (ksp, t)) fieldsA -> exists targs tsp, t = TUser vB targs tsp) ->
  lit_type lit = Some ta -> rigid ta = true ->
  let dA := SBlob nameA vA spA tvarsA fieldsA false in
  let dB := SBlob nameB vB spB tvarsB fieldsB false in
  let e := EBlob vA (pre0 ++ (k, lit) :: post0) self isp in
  forall pre mid post dname dvar dkind dty (C : ectx) dsp sp0 fuel vars,
    let stmts := pre ++ dA :: mid ++ SDefinition dname dvar dkind dty (plug_e e (SStatementExpression e sp0) C) dsp :: post in
    In dB stmts ->
    typecheck fuel (mkResolved vars stmts) <> Ok tt.
Proof.
  intros Hin Ht Ll Rl dA dB e.
  intros pre mid post dname dvar dkind dty C dsp sp0 fuel vars stmts HB.
  apply (rejected_after_type_decl (known_var vB) (field_inner vA k) vB dA e); [| | | | |exists dB; split; [exact HB|reflexivity]].
  - intros s s' W E. now apply known_var_ext.
  - intros s s' W E. now apply field_inner_ext.
  - intros d kinds g f s u s' Hv W H. exact (known_var_established_any kinds g vB d f s u s' Hv W H).
  - intros kinds g f s u s' W KV H. exact (field_inner_established kinds g vB vA k nameA spA tvarsA fieldsA f s u s' Hin Ht W KV H).
  - intros kinds g f ctx s [W FI]. exact (rej_blob_field_lit_inner kinds g vA k pre0 lit post0 self isp ta f ctx s W FI Ll Rl).
Qed.

(* both orders, spelled out: B declared before A, and B declared after A (before or after the use) *)
Corollary C03_blob_mention_both_orders
        nameA vA spA tvarsA fieldsA k vB nameB spB tvarsB fieldsB pre0 lit post0 self isp ta :
  In k (map fst fieldsA) ->
  (forall ksp t, In (k, (ksp, t)) fieldsA -> exists targs tsp, t = TUser vB targs tsp) ->
  lit_type lit = Some ta -> rigid ta = true ->
  let dA := SBlob nameA vA spA tvarsA fieldsA false in
  let dB := SBlob nameB vB spB tvarsB fieldsB false in
  let e := EBlob vA (pre0 ++ (k, lit) :: post0) self isp in
  forall l1 l2 l3 l4 dname dvar dkind dty (C : ectx) dsp sp0 fuel vars,
    let use := SDefinition dname dvar dkind dty (plug_e e (SStatementExpression e sp0) C) dsp in
    typecheck fuel (mkResolved vars (l1 ++ dB :: l2 ++ dA :: l3 ++ use :: l4)) <> Ok tt /\
    typecheck fuel (mkResolved vars (l1 ++ dA :: l2 ++ dB :: l3 ++ use :: l4)) <> Ok tt /\
    typecheck fuel (mkResolved vars (l1 ++ dA :: l2 ++ use :: l3 ++ dB :: l4)) <> Ok tt.
Proof.
  intros Hin Ht Ll Rl dA dB e l1 l2 l3 l4 dname dvar dkind dty C dsp sp0 fuel vars use.
  split; [|split].
  - replace (l1 ++ dB :: l2 ++ dA :: l3 ++ use :: l4) with ((l1 ++ dB :: l2) ++ dA :: l3 ++ use :: l4)
      by (rewrite <- app_assoc; reflexivity).
    apply (C03_forward_blob_mention_rejected nameA vA spA tvarsA fieldsA k vB nameB spB tvarsB fieldsB pre0 lit post0 self isp ta Hin Ht Ll Rl).
    apply in_or_app. left. apply in_or_app. right. now left.
  - replace (l1 ++ dA :: l2 ++ dB :: l3 ++ use :: l4) with (l1 ++ dA :: (l2 ++ dB :: l3) ++ use :: l4)
      by (rewrite <- app_assoc; reflexivity).
    apply (C03_forward_blob_mention_rejected nameA vA spA tvarsA fieldsA k vB nameB spB tvarsB fieldsB pre0 lit post0 self isp ta Hin Ht Ll Rl).
    apply in_or_app. right. right. apply in_or_app. left. apply in_or_app. right. now left.
  - apply (C03_forward_blob_mention_rejected nameA vA spA tvarsA fieldsA k vB nameB spB tvarsB fieldsB pre0 lit post0 self isp ta Hin Ht Ll Rl).
    apply in_or_app. right. right. apply in_or_app. right. right. apply in_or_app. right. now left.
Qed.

(* ================================================================== the enum analogue *)
(* `E :: enum .. V P .. end`, `P :: blob { .. }` before or after it, and `E.V <literal>`: rejected *)
Section EnumInv.
  Variable vE : N.
  Variable v : string.

  Definition variant_inner (s : st) : Prop :=
    exists name sp vs args spk c t, head s (N.succ_pos vE) = Some (HEnum name sp vs args) /\ flookup v vs = Some (spk, c) /\
                                    head s c = Some t /\ inner t = true.

  Lemma variant_inner_ext s s' : wf s -> ext s s' -> variant_inner s -> variant_inner s'.
  Proof.
    intros _ E (name & sp & fs & args & spk & c & t & Hh & Hk & Hc & I). pose proof E as (_ & _ & _ & E4 & E5).
    destruct (E4 _ _ Hh eq_refl) as (h' & Hh' & Sh). destruct h'; try discriminate Sh.
    assert (K : kid (HEnum name sp fs args) (KField v) = Some c) by (cbn [kid]; rewrite Hk; reflexivity).
    destruct (kid_shape _ _ _ _ Sh K) as [c' K']. pose proof K' as K''. cbn [kid] in K''.
    destruct (flookup v variants) as [[spk' c0]|] eqn:Ef; [|discriminate]. cbn in K''. injection K'' as ->.
    destruct (ext_inner _ _ _ _ E Hc I) as (t1 & Hc1 & I1).
    destruct (pair_ok_inner _ _ _ _ (E5 _ _ _ _ _ _ Hh Hh' K K') Hc1 I1) as (t2 & Hc2 & I2).
    do 4 eexists. exists spk', c', t2. split; [exact Hh'|]. split; [exact Ef|]. split; assumption.
  Qed.
End EnumInv.

Section EnumRules.
  Variable kinds : PositiveMap.t varkind.
  Variable g : nat.
  Notation G := (gfix g).
  Notation afix := (afix kinds G).
  Let PG : gpres G := gfix_pres g.
  Let PA f : apres (afix f) := afix_pres kinds G PG f.

  Variable vB vE : N.
  Variable v : string.

  Lemma variant_inner_established name sp tvars variants f s u s' :
    In v (map fst variants) -> (forall ksp t, In (v, (ksp, t)) variants -> exists targs tsp, t = TUser vB targs tsp) ->
    wf s -> known_var vB s ->
    outer_statement kinds G (afix f) (SEnum name vE sp tvars variants) ctx_new s = Ok (u, s') ->
    variant_inner vE v s'.
  Proof.
    intros Hin Ht W KV H.
    destruct (enum_established kinds g (afix f) (PA f) name vE sp tvars variants ctx_new s u s' W H)
      as (nm & bsp & fs & args & Hh & HK).
    unfold outer_statement in H.
    apply bind_inv in H as (u0 & sa & Ha & H). destruct (pres_add_type_name vE _ _ _ W Ha) as [Wa Ea].
    pose proof (known_var_ext vB _ _ W Ea KV) as KVa.
    apply bind_inv in H as (bt & s0 & H0 & H). apply ShapesDecl_var_ty_inv in H0 as [-> ->].
    apply bind_inv in H as ([tp seen] & s1 & H1 & H).
    destruct (pres_decl_params tvars _ _ _ Wa H1) as [W1 E1].
    pose proof (known_var_ext vB _ _ Wa E1 KVa) as KV1.
    apply bind_inv in H as (res & s2 & H2 & H).
    unfold decl_fields in H2. apply bind_inv in H2 as ([r sn] & s2x & Hf & H2). injection H2 as <- Es. subst s2x. cbn [fst] in H.
    assert (Ht' : forall ksp t, In (v, (ksp, t)) (source_order variants) -> exists targs tsp, t = TUser vB targs tsp)
      by (intros ksp t Hi; apply (proj1 (source_order_In _ _)) in Hi; exact (Ht _ _ Hi)).
    assert (Hnil : forall spk c, flookup v (@nil (string * (span * tyid))) = Some (spk, c) -> exists t, head s1 c = Some t /\ inner t = true)
      by (intros spk c Hl; discriminate Hl).
    destruct (decl_fields_inner kinds g vB v f (length seen) (source_order variants) [] seen s1 _ _ W1 KV1 Ht' Hnil Hf) as (W2 & E2 & X).
    apply bind_inv in H as (t & s3 & H3 & H).
    destruct (push_spec _ _ _ _ W2 H3) as (W3 & E3 & Ht3).
    apply bind_inv in H as (ru & s4 & H4 & H). injection H as _ <-.
    destruct (unify_result_head _ _ _ _ _ _ _ W3 H4) as (W4 & E4 & _ & Heq).
    assert (Hk : exists spk c, flookup v r = Some (spk, c)).
    { pose proof (decl_fields_keys (afix f) (length seen) (source_order variants) seen s1 r s2) as KK.
      assert (Hd : decl_fields (afix f) (length seen) (source_order variants) seen s1 = Ok (r, s2)).
      { unfold decl_fields. rewrite (bind_ok _ _ _ _ _ Hf). reflexivity. }
      specialize (KK Hd v). destruct KK as [_ KK].
      assert (Ik : In v (keys r)).
      { apply KK. apply in_map_iff in Hin as ([k1 v1] & <- & Hi). apply in_map_iff. exists (k1, v1). split; [reflexivity|].
        now apply source_order_In. }
      apply fmem_In_keys in Ik. unfold fmem in Ik. destruct (flookup v r) as [[spk c]|]; [eauto|discriminate]. }
    destruct Hk as (spk & c & Hk).
    pose proof E4 as (_ & _ & _ & E44 & E45). cbn [fst] in Ht3.
    destruct (E44 _ _ Ht3 eq_refl) as (h' & Hh' & Sh). destruct h'; try discriminate Sh.
    assert (K : kid (HEnum name sp r tp) (KField v) = Some c) by (cbn [kid]; rewrite Hk; reflexivity).
    destruct (kid_shape _ _ _ _ Sh K) as [c' K']. pose proof K' as K''. cbn [kid] in K''.
    destruct (flookup v variants0) as [[spk' c0]|] eqn:Ef; [|discriminate]. cbn in K''. injection K'' as ->.
    destruct (X _ _ Hk) as (t2 & Hc2 & I2).
    destruct (ext_inner _ _ _ _ (ext_trans _ _ _ E3 E4) Hc2 I2) as (t4 & Hc4 & I4).
    destruct (pair_ok_inner _ _ _ _ (E45 _ _ _ _ _ _ Ht3 Hh' K K') Hc4 I4) as (t5 & Hc5 & I5).
    do 4 eexists. exists spk', c', t5. split; [rewrite <- Heq; exact Hh'|]. split; [exact Ef|]. split; assumption.
  Qed.

  Notation V := (N.succ_pos vE).

  (* the variant applied to a value of a leaf type *)
  Lemma rej_variant_inner lit sp ta f ctx s :
    wf s -> variant_inner vE v s -> lit_type lit = Some ta -> rigid ta = true ->
    notok (r_expr (afix f) (EVariant vE v lit sp) ctx s).
  Proof.
    intros W VI Ll Rl [r s'] H.
    assert (Pcp : pres (copy G V)) by (pose proof PG; prs).
    destruct f as [|f]; [discriminate|]. cbn [Tc.afix astep r_expr] in H. unfold expr_body in H.
    apply bind_inv in H as ([er ex] & s9 & H1 & _). cbv beta iota in H1.
    apply bind_inv in H1 as ([vret x] & s1 & Hl & H1).
    destruct (lit_spec _ _ _ _ _ _ _ _ _ Ll Rl W Hl) as (W1 & E1 & Hx). cbn [snd] in Hx.
    destruct (variant_inner_ext vE v _ _ W E1 VI) as (name & bsp & fs & bargs & spk & c & tc & Hh & Hk & Hc & Ic).
    apply bind_inv in H1 as (et & s2 & Hv & H1). apply ShapesDecl_var_ty_inv in Hv as [-> ->].
    apply bind_inv in H1 as (enum_ty & s3 & Hcp & H1).
    destruct (Pcp _ _ _ W1 Hcp) as [W3 E13].
    assert (K : kid (HEnum name bsp fs bargs) (KField v) = Some c) by (cbn [kid]; rewrite Hk; reflexivity).
    destruct (copy_known_kids g V s1 enum_ty s3 _ (KField v) c tc W1 Hcp Hh K Hc (inner_known _ Ic)) as (h' & cb & tcb & Hh' & Kb & Hcb & Shc).
    pose proof (inner_shape _ _ Shc Ic) as Icb.
    destruct (copy_shape _ _ _ _ _ W1 Hcp) as (_ & _ & (h0 & h0' & Hh0 & Hh0' & [Sh0 _])).
    rewrite Hh in Hh0. injection Hh0 as <-. rewrite Hh' in Hh0'. injection Hh0' as <-.
    destruct h'; try discriminate Sh0.
    apply bind_inv in H1 as (u4 & s4 & Ha & H1).
    destruct (add_constraint_spec _ _ _ _ _ W3 Ha) as (W4 & E4 & Hd4 & _ & HC & _).
    apply bind_inv in H1 as (u5 & s5 & Hck & _).
    eapply (check_rejects g sp enum_ty (CVariant v (Some x)) s4 W4 HC); [|exact Hck].
    intros g' s6 W6 E6. cbn [check_one].
    assert (E36 : ext s3 s6) by (eapply ext_trans; eassumption).
    pose proof E36 as (_ & _ & _ & E44 & E45).
    destruct (E44 _ _ Hh' (kid_known _ _ _ Kb)) as (h6 & Hh6 & Sh6).
    destruct (kid_shape _ _ _ _ Sh6 Kb) as [cb6 Kb6].
    destruct (ext_inner _ _ _ _ E36 Hcb Icb) as (t6 & Hcb6 & I6).
    destruct (pair_ok_inner _ _ _ _ (E45 _ _ _ _ _ _ Hh' Hh6 Kb Kb6) Hcb6 I6) as (t7 & Hc7 & I7).
    assert (Hx6 : head s6 x = Some ta).
    { eapply head_keep; [exact E36| |exact Rl]. eapply head_keep; [exact E13|exact Hx|exact Rl]. }
    rewrite (bind_ok _ _ _ _ _ (find_type_ok _ _ _ Hh6)).
    destruct h6; try discriminate Sh6. cbn [kid] in Kb6.
    destruct (flookup v variants0) as [[vsp va]|] eqn:Ef; [|discriminate Kb6]. cbn in Kb6. injection Kb6 as ->.
    apply bind_notok_l.
    apply (unify_rejects g' sp cb6 x s6 t7 ta W6 Hc7 Hx6 (inner_known _ I7) (rigid_known _ Rl)).
    destruct (same_shape t7 ta) eqn:S7; [|reflexivity]. exfalso.
    apply same_shape_sym in S7. rewrite (rigid_shape _ _ Rl S7) in I7. exact (inner_not_rigid _ I7 Rl).
  Qed.
End EnumRules.

Theorem C03_forward_enum_mention_rejected
        nameE vE spE tvarsE variants v vB nameB spB tvarsB fieldsB lit vsp ta :
  In v (map fst variants) ->
  (forall ksp t, In (v, (ksp, t)) variants -> exists targs tsp, t = TUser vB targs tsp) ->
  lit_type lit = Some ta -> rigid ta = true ->
  let dE := SEnum nameE vE spE tvarsE variants in
  let dB := SBlob nameB vB spB tvarsB fieldsB false in
  let e := EVariant vE v lit vsp in
  forall pre mid post dname dvar dkind dty (C : ectx) dsp sp0 fuel vars,
    let stmts := pre ++ dE :: mid ++ SDefinition dname dvar dkind dty (plug_e e (SStatementExpression e sp0) C) dsp :: post in
    In dB stmts ->
    typecheck fuel (mkResolved vars stmts) <> Ok tt.
Proof.
  intros Hin Ht Ll Rl dE dB e.
  intros pre mid post dname dvar dkind dty C dsp sp0 fuel vars stmts HB.
  apply (rejected_after_type_decl (known_var vB) (variant_inner vE v) vB dE e); [| | | | |exists dB; split; [exact HB|reflexivity]].
  - intros s s' W E. now apply known_var_ext.
  - intros s s' W E. now apply variant_inner_ext.
  - intros d kinds g f s u s' Hv W H. exact (known_var_established_any kinds g vB d f s u s' Hv W H).
  - intros kinds g f s u s' W KV H. exact (variant_inner_established kinds g vB vE v nameE spE tvarsE variants f s u s' Hin Ht W KV H).
  - intros kinds g f ctx s [W VI]. exact (rej_variant_inner kinds g vE v lit vsp ta f ctx s W VI Ll Rl).
Qed.
