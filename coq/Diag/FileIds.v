(* The numbering of files by sylt_parser::tree and its inversion by Compiler::extract_namespaces.

   tree():   visited = {}; to_visit = [preamble?; main]
             while let Some(f) = to_visit.pop():            (a stack: the LAST element)
               if visited.contains(f) continue
               file_id = visited.len(); visited.insert(f)
               source = read f                               (failure: error, continue)
               conflict markers?                             (error, continue)
               (uses, result) = module(f, file_id, tokens)   (tokens and hence every span carry file_id)
               if result is Ok: modules.push((f, module{file_id}))
               to_visit.append(uses)                         (also when the module has syntax errors)
   extract_namespaces: path -> file_id for every module, then reversed into file_id -> path
                       (a HashMap collected from a HashMap: for equal ids the survivor depends on hash order).
   span_file(span) = namespace_to_file[span.file_id].

   Files are strings; the world is `read : file -> read_result`.  Definitions only. *)
From Coq Require Import List String Arith Bool.
Import ListNotations.

Inductive read_result :=
| Unreadable                                   (* reader returned Err *)
| HasConflict                                  (* find_conflict_markers found something *)
| Parsed (ok : bool) (uses : list string).     (* module(): parse result ok?, use_files in source order *)

Record state := mkState {
  to_visit : list string;
  visited : list string;                       (* in order of insertion: file_id = position *)
  modules : list (string * nat)                (* (file, module.file_id) in push order *)
}.

(* Vec::pop *)
Fixpoint pop_last (l : list string) : option (string * list string) :=
  match l with
  | [] => None
  | x :: r => match pop_last r with
              | None => Some (x, [])
              | Some (y, r') => Some (y, x :: r')
              end
  end.

Definition mem (f : string) (l : list string) : bool := existsb (String.eqb f) l.

(* one iteration of the while loop, after the pop *)
Definition visit (read : string -> read_result) (f : string) (rest : list string) (s : state) : state :=
  if mem f (visited s) then mkState rest (visited s) (modules s)
  else
    let id := List.length (visited s) in
    let visited' := visited s ++ [f] in
    match read f with
    | Unreadable | HasConflict => mkState rest visited' (modules s)
    | Parsed ok uses => mkState (rest ++ uses) visited' (if ok then modules s ++ [(f, id)] else modules s)
    end.

(* the loop; None = out of fuel *)
Fixpoint run (fuel : nat) (read : string -> read_result) (s : state) : option state :=
  match pop_last (to_visit s) with
  | None => Some s
  | Some (f, rest) =>
      match fuel with
      | 0 => None
      | S fuel' => run fuel' read (visit read f rest s)
      end
  end.

Definition preamble_lib : string := "lib:preamble"%string.

Definition tree_state (fuel : nat) (read : string -> read_result) (bundle_std : bool) (main : string) : option state :=
  run fuel read (mkState ((if bundle_std then [preamble_lib] else []) ++ [main]) [] []).

(* namespace_id_to_file: the reversed map, read as `some entry with this id` (first in the given order;
   the theorem holds for every order) *)
Definition namespace_to_file (mods : list (string * nat)) (id : nat) : option string :=
  match find (fun m => Nat.eqb (snd m) id) mods with
  | Some (f, _) => Some f
  | None => None
  end.

(* modules.iter().position(|(f, _)| f == Lib("preamble")): used as the file_id of the std statements that
   are appended to every user module *)
Fixpoint position (f : string) (mods : list (string * nat)) : option nat :=
  match mods with
  | [] => None
  | (g, _) :: r => if String.eqb f g then Some 0 else option_map S (position f r)
  end.
