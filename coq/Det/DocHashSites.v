(* The hash-iteration sites of the compiler as reviewed BY HAND, each with the class of its consumer
   (Det/Consumers.v).  Props/C16.v proves that the list regenerated from /repo on every run equals the
   site list here, so a new or edited iteration over a hash container breaks that obligation and the
   determinism oracle is run.  Candidate sites are over-approximated by name (any identifier that is
   bound to a HashMap/HashSet somewhere), hence the many NotHash entries. *)
From Coq Require Import String List.
From Sylt Require Import Det.Consumers.
Import ListNotations.
Local Open Scope string_scope.

Record site := mkSite { s_file : string; s_fn : string; s_container : string; s_stmt : string; s_class : class }.

Definition doc_sites : list site := [
  (* ExpressionKind::Blob fields is a Vec *)
  mkSite "sylt-parser/src/expression.rs" "pretty_print" "fields"
    "for (field, value) in fields.iter() { write_indent(f, indent)?; write!(f, '', field)?; value.pretty_print(f, indent + 1)?; } }"
    NotHash;
  (* --dump-tree only *)
  mkSite "sylt-parser/src/parser.rs" "pretty_print" "variants"
    "for (i, (name, ty)) in variants.iter().enumerate() { if i != 0 { write!(f, '')?; } write!(f, '', name, ty)?; } write!(f, '')?;"
    DumpOnly;
  (* --dump-tree only *)
  mkSite "sylt-parser/src/parser.rs" "pretty_print" "fields"
    "for (i, (name, ty)) in fields.iter().enumerate() { if i != 0 { write!(f, '')?; } write!(f, '', name, ty)?; } write!(f, '')?;"
    DumpOnly;
  (* inverts a map into a map *)
  mkSite "sylt-compiler/src/compiler.rs" "extract_namespaces" "include_to_namespace"
    "self.namespace_id_to_file = include_to_namespace .iter() .map(|(a, b): (&FileOrLib, &usize)| (*b, (*a).clone())) .collect();"
    CollectMap;
  (* verification hook; sorted afterwards *)
  mkSite "sylt-compiler/src/compiler.rs" "phases" "usage_count"
    "let mut usage: Vec<_> = usage_count.iter().map(|(k, v)| (k.0, *v)).collect(); usage.sort();"
    DumpOnly;
  (* Statement::Blob fields IS a HashMap: the types of all fields are flat-mapped into a BTreeSet of the
     mentioned type variables (the set is then walked in ascending order): collect into a set (/repo 58eff66) *)
  mkSite "sylt-compiler/src/dependency.rs" "mentioned" "fields"
    "fields.values().flat_map(|(_, ty)| ty_dependency(ty)).collect() }"
    CollectMap;
  (* Statement::Enum variants IS a HashMap: same consumer *)
  mkSite "sylt-compiler/src/dependency.rs" "mentioned" "variants"
    "variants.values().flat_map(|(_, ty)| ty_dependency(ty)).collect() }"
    CollectMap;
  (* resolved Expression::Blob fields is a Vec *)
  mkSite "sylt-compiler/src/dependency.rs" "dependencies" "fields"
    "E::Blob { blob, fields, .. } => fields .iter() .map(|(_, expr)| dependencies(expr)) .flatten() .chain([*blob]) .collect(), E::Collection { values, .. } => values .iter() .map(|expr| dependencies(expr)) .flatten() .collect(), E::Float(_, _) | E::Int(_, _) | E::Str(_, _) | E::Bool(_, _) | E::Nil(_) => BTreeSet::new(), }"
    NotHash;
  (* Vec *)
  mkSite "sylt-compiler/src/intermediate.rs" "expression" "fields"
    "let (fields, (code, exprs)): (Vec<_>, (Vec<_>, Vec<_>)) = fields .iter() .map(|(field, expr)| (field.clone(), self.expression(expr, ctx))) .unzip();"
    NotHash;
  (* Vec *)
  mkSite "sylt-compiler/src/intermediate.rs" "expression" "fields"
    "let fields: Vec<_> = fields.into_iter().zip(exprs.into_iter()).collect();"
    NotHash;
  (* IR::Blob fields is a Vec *)
  mkSite "sylt-compiler/src/lua.rs" "generate" "fields"
    "fields .iter() .map(|(f, v)| format!('', lua_key(f), self.expand(v))) .collect::<Vec<_>>() .join('') )"
    NotHash;
  (* inverts a map into a map *)
  mkSite "sylt-compiler/src/name_resolution.rs" "new" "namespace_to_file"
    "let file_to_namespace = namespace_to_file .iter() .map(|(a, b)| (b.clone(), a.clone())) .collect();"
    CollectMap;
  (* min of (distance, name) pairs, a total order *)
  mkSite "sylt-compiler/src/name_resolution.rs" "find_similar_name" "namespaces"
    "let best_global = self.namespaces[namespace] .keys() .map(|var_name| (levenshtein(var_name, name), var_name.clone())) .min();"
    MinOf;
  (* fields walked in source order (sorted by span), first failing type reported *)
  mkSite "sylt-compiler/src/name_resolution.rs" "statement" "fields"
    "let mut sorted: Vec<_> = fields.iter().collect(); sorted.sort_by_key(|(field, _)| (field.span.line_start, field.span.col_start));"
    SortedFirstErr;
  (* variants walked in source order *)
  mkSite "sylt-compiler/src/name_resolution.rs" "statement" "variants"
    "let mut sorted: Vec<_> = variants.iter().collect(); sorted.sort_by_key(|(var, _)| (var.span.line_start, var.span.col_start));"
    SortedFirstErr;
  (* inverts a map into a map *)
  mkSite "sylt-compiler/src/typechecker.rs" "new" "namespace_to_file"
    "file_to_namespace: namespace_to_file .iter() .map(|(a, b)| (b.clone(), a.clone())) .collect(), type_names: BTreeSet::new(), }"
    CollectMap;
  (* Type::Tuple fields is a Vec *)
  mkSite "sylt-compiler/src/typechecker.rs" "inner_resolve_type" "fields"
    "fields .iter() .map(|t| self.inner_resolve_type(ctx, t, seen)) .collect::<TypeResult<Vec<_>>>()?, )"
    NotHash;
  (* variants walked in source order *)
  mkSite "sylt-compiler/src/typechecker.rs" "outer_statement" "variants"
    "let mut sorted_variants: Vec<_> = variants.iter().collect(); sorted_variants.sort_by_key(|(_, (s, _))| (s.line_start, s.col_start));"
    SortedFirstErr;
  (* fields walked in source order *)
  mkSite "sylt-compiler/src/typechecker.rs" "outer_statement" "fields"
    "let mut sorted_fields: Vec<_> = fields.iter().collect(); sorted_fields.sort_by_key(|(_, (s, _))| (s.line_start, s.col_start));"
    SortedFirstErr;
  (* Expression::Blob fields is a Vec *)
  mkSite "sylt-compiler/src/typechecker.rs" "expression" "fields"
    "let given_fields: BTreeMap<_, _> = fields .iter() .map(|(key, expr)| { Ok((key.clone(), (expr.span(), self.push_type(Type::Unknown)))) }) .collect::<TypeResult<_>>()?;"
    NotHash;
  (* Expression::Blob fields is a Vec *)
  mkSite "sylt-compiler/src/typechecker.rs" "expression" "fields"
    "for (key, expr) in fields { let (inner_ret, expr_ty) = self.expression(expr, ctx)?; ret = self.unify_option(*span, ctx, ret, inner_ret)?; self.unify(expr.span(), ctx, expr_ty, fields_and_types[key].1)?; } with_ret(ret, self.unify(*span, ctx, given_blob, blob_ty)?) }"
    NotHash;
  (* Type::Blob fields is a BTreeMap *)
  mkSite "sylt-compiler/src/typechecker.rs" "inner_bake_type" "fields"
    "fields .iter() .map(|(name, ty)| (name.clone(), self.inner_bake_type(ty.1, seen))) .collect(), )"
    NotHash;
  (* Type::ExternBlob fields is a BTreeMap *)
  mkSite "sylt-compiler/src/typechecker.rs" "inner_bake_type" "fields"
    "fields .iter() .map(|(name, ty)| (name.clone(), self.inner_bake_type(ty.1, seen))) .collect(), match self.namespace_to_file.get(&span.file_id).unwrap() { FileOrLib::Lib(name) => name.to_string(), FileOrLib::File(path) => path.to_string_lossy().to_string(), }, )"
    NotHash;
  (* Type::Enum variants is a BTreeMap *)
  mkSite "sylt-compiler/src/typechecker.rs" "inner_bake_type" "variants"
    "variants .iter() .map(|(name, ty)| (name.clone(), self.inner_bake_type(ty.1, seen))) .collect(), )"
    NotHash;
  (* BTreeMap *)
  mkSite "sylt-compiler/src/typechecker.rs" "inner_copy" "fields"
    "fields .iter() .map(|(name, (span, ty))| (name.clone(), (*span, self.inner_copy(*ty, seen)))) .collect(), args.iter().map(|ty| self.inner_copy(*ty, seen)).collect(), namespace, )"
    NotHash;
  (* BTreeMap *)
  mkSite "sylt-compiler/src/typechecker.rs" "inner_copy" "fields"
    "fields .iter() .map(|(name, (span, ty))| (name.clone(), (*span, self.inner_copy(*ty, seen)))) .collect(), args.iter().map(|ty| self.inner_copy(*ty, seen)).collect(), )"
    NotHash;
  (* BTreeMap *)
  mkSite "sylt-compiler/src/typechecker.rs" "inner_copy" "variants"
    "variants .iter() .map(|(name, (span, ty))| (name.clone(), (*span, self.inner_copy(*ty, seen)))) .collect(), args.iter().map(|ty| self.inner_copy(*ty, seen)).collect(), )"
    NotHash
].
