(* Model of `order` / `initialization_order` of sylt-compiler/src/dependency.rs and of the
   types-first sort of compiler.rs.

   `to_order : BTreeMap<usize, (BTreeSet<usize>, &Statement)>` is a list sorted by key with unique
   keys (`tbl_insert` replaces, as `BTreeMap::insert` does).  `inserted : BTreeMap<usize, State>` is an
   association list in which a newer entry hides an older one.  `recurse` is the DFS of the code; it
   recurses on fuel, `S (length table)` is enough (Dep/TopoProofs.v: never OutOfFuel).
   Definitions only. *)
From Coq Require Import String List NArith ZArith Bool.
From Sylt Require Import Syntax.Resolved Dep.Deps.
Import ListNotations.

Section Order.
Context {A : Type}.                                    (* the payload: &Statement *)

Definition table := list (N * (nset * A)).

Fixpoint tbl_get (t : table) (k : N) : option (nset * A) :=
  match t with
  | [] => None
  | (k', v) :: t' => if N.eqb k k' then Some v else tbl_get t' k
  end.

(* BTreeMap::insert: sorted by key, an existing key is replaced *)
Fixpoint tbl_insert (k : N) (v : nset * A) (t : table) : table :=
  match t with
  | [] => [(k, v)]
  | (k', v') :: t' =>
      match N.compare k k' with
      | Lt => (k, v) :: (k', v') :: t'
      | Eq => (k, v) :: t'
      | Gt => (k', v') :: tbl_insert k v t'
      end
  end.

Inductive dstate := Inserting | Inserted.

Fixpoint status (m : list (N * dstate)) (k : N) : option dstate :=
  match m with
  | [] => None
  | (k', s) :: m' => if N.eqb k k' then Some s else status m' k
  end.

(* the mutable state of the DFS: `inserted` and `ordered` (newest first) *)
Definition dfs_state := (list (N * dstate) * list A)%type.

Inductive dres :=
| DOk (st : dfs_state)
| DCycle (cycle : list A)      (* Err(cycle): innermost statement first, every caller pushes its own *)
| DOutOfFuel.

(* `for dep in deps { recurse(dep, ..).map_err(|mut cycle| { cycle.push(statement); cycle })?; }` *)
Fixpoint for_deps (rec : N -> dfs_state -> dres) (deps : nset) (st : dfs_state) : dres :=
  match deps with
  | [] => DOk st
  | d :: ds =>
      match rec d st with
      | DOk st' => for_deps rec ds st'
      | r => r
      end
  end.

(* fn recurse *)
Fixpoint recurse (fuel : nat) (t : table) (g : N) (st : dfs_state) : dres :=
  match fuel with
  | 0 => DOutOfFuel
  | S f =>
      match tbl_get t g with
      | None => DOk st
      | Some (deps, stmt) =>
          match status (fst st) g with
          | Some Inserting => DCycle []
          | Some Inserted => DOk st
          | None =>
              match for_deps (recurse f t) deps ((g, Inserting) :: fst st, snd st) with
              | DOk st' => DOk ((g, Inserted) :: fst st', stmt :: snd st')
              | DCycle c => DCycle (c ++ [stmt])
              | DOutOfFuel => DOutOfFuel
              end
          end
      end
  end.

Inductive ores := OOk (ordered : list A) | OCycle (cycle : list A) | OOutOfFuel.

(* fn order: `for (var, _) in to_order.iter() { recurse(var, ..)?; }` *)
Definition order_fuel (fuel : nat) (t : table) : ores :=
  match for_deps (recurse fuel t) (map fst t) ([], []) with
  | DOk st => OOk (rev (snd st))
  | DCycle c => OCycle c
  | DOutOfFuel => OOutOfFuel
  end.

Definition order (t : table) : ores := order_fuel (S (length t)) t.

End Order.

Arguments table A : clear implicits.

(* fn initialization_order: one table entry per defining statement, a later statement with the same
   variable replaces the earlier one *)
Fixpoint build_table (tgt : bool) (ss : list stmt) (t : table stmt) : table stmt :=
  match ss with
  | [] => t
  | s :: ss' =>
      match defined_var s with
      | Some v => build_table tgt ss' (tbl_insert v (statement_dependencies tgt s, s) t)
      | None => build_table tgt ss' t
      end
  end.

Definition initialization_order (tgt : bool) (ss : list stmt) : ores (A := stmt) :=
  order (build_table tgt ss []).

(* compiler.rs: `statements.sort_by_key(|s| match s { Blob | Enum => 0, _ => 1 })` (a stable sort) *)
Definition is_type_stmt (s : stmt) : bool :=
  match s with SBlob _ _ _ _ _ _ | SEnum _ _ _ _ _ => true | _ => false end.

Definition types_first (ss : list stmt) : list stmt :=
  filter is_type_stmt ss ++ filter (fun s => negb (is_type_stmt s)) ss.

(* what the compiler goes on with: Ok(ordered statements) or the statements of the cycle *)
Definition init_order (tgt : bool) (ss : list stmt) : ores (A := stmt) :=
  match initialization_order tgt ss with
  | OOk l => OOk (types_first l)
  | r => r
  end.
