(* The parser's error raising: Context::peek / span / token / skip and the macros syntax_error!,
   raise_syntax_error!, expect! (sylt-parser/src/parser.rs).  The context is represented by the tokens
   that are still ahead (tokens[curr..] with their spans); `curr` past the end gives the token EOF and
   Span::zero(file_id), i.e. line 0.  Definitions only. *)
From Coq Require Import List String NArith Bool.
From Sylt Require Import Lex.Logos.
Import ListNotations.
Local Open Scope string_scope.

Record fspan := mkFSpan { fs_file_id : N; fs_span : span }.

Definition zero_span (file_id : N) : fspan := mkFSpan file_id (mkSpan 0 0 0 0).     (* Span::zero *)

Record context := mkCtx {
  c_ahead : list (string * fspan);     (* (token kind, span) from the current token on *)
  c_skip_newlines : bool;
  c_file : string;
  c_file_id : N
}.

(* peek(): tokens.get(curr).unwrap_or(EOF), spans.get(curr).unwrap_or(zero) *)
Definition token (c : context) : string :=
  match c_ahead c with (t, _) :: _ => t | [] => "EOF" end.
Definition cspan (c : context) : fspan :=
  match c_ahead c with (_, s) :: _ => s | [] => zero_span (c_file_id c) end.

Definition is_comment (t : string) : bool := String.eqb t "Comment".
Definition is_newline (t : string) : bool := String.eqb t "Newline".

(* skip(n): n non-comment tokens ... *)
Fixpoint skip_count (l : list (string * fspan)) (n : nat) : list (string * fspan) :=
  match n with
  | 0 => l
  | S n' => match l with
            | [] => []
            | (t, _) :: r => if is_comment t then skip_count r (S n') else skip_count r n'
            end
  end.
(* ... then trailing comments and, when skip_newlines is set, newlines *)
Fixpoint skip_trailing (nl : bool) (l : list (string * fspan)) : list (string * fspan) :=
  match l with
  | [] => []
  | (t, _) :: r => if is_comment t || (nl && is_newline t) then skip_trailing nl r else l
  end.

Definition skip (n : nat) (c : context) : context :=
  mkCtx (skip_trailing (c_skip_newlines c) (skip_count (c_ahead c) n)) (c_skip_newlines c) (c_file c) (c_file_id c).

Record syntax_err := mkSyntaxErr { se_file : string; se_span : fspan; se_message : string }.

(* syntax_error!(ctx, msg) *)
Definition syntax_error (c : context) (msg : string) : syntax_err := mkSyntaxErr (c_file c) (cspan c) msg.

Inductive presult (A : Type) :=
| POk (c : context) (a : A)
| PErr (c : context) (errs : list syntax_err).
Arguments POk {A}. Arguments PErr {A}.

(* raise_syntax_error!(ctx, msg): return Err((ctx.skip(1), vec![syntax_error!(ctx, msg)])) *)
Definition raise_syntax_error {A} (c : context) (msg : string) : presult A := PErr (skip 1 c) [syntax_error c msg].

(* expect!(ctx, pattern, msg) *)
Definition expect (c : context) (pat : string -> bool) (msg : string) : presult unit :=
  if pat (token c) then POk (skip 1 c) tt else raise_syntax_error c msg.

(* outer_statement (statement.rs): the statement is parsed first; when its kind is not allowed at top
   level the error is raised with the context AFTER the statement *)
Definition outer_statement_check (after_statement : context) (kind_allowed : bool) : presult unit :=
  if kind_allowed then POk after_statement tt else raise_syntax_error after_statement "Not a valid outer statement".

(* the context the parser starts with: every token of the lexer with its span and the file id *)
Definition lexed (tab : Logos.table) (file_id : N) (s : list N) : list (string * fspan) :=
  map (fun tk => (t_kind tk, mkFSpan file_id (t_span tk))) (lex tab s).

Definition initial_context (tab : Logos.table) (file : string) (file_id : N) (s : list N) : context :=
  mkCtx (lexed tab file_id s) false file file_id.
