(* Operator tables.  Definitions only.
   - [raw]: the shape of the table regenerated from expression.rs / parser.rs (Gen/GenPrec.v), names as
     in the Rust source;
   - [ptab]: what the parser model consumes (functions on tokens and level numbers), [interp : raw -> ptab];
   - the DOCUMENTED table, written by hand from the statement of C13 ([doc_rank], [doc_tok], [doc_untok]);
   - [tab_okb] / [prec_table_ok]: decidable "this table orders the operators as documented". *)
From Coq Require Import String List NArith Bool Arith.
From Sylt Require Import Syntax.Ast Syntax.Tok.
Import ListNotations.
Local Open Scope string_scope.
Local Open Scope nat_scope.

Record raw := {
  r_levels : list string;                 (* Prec variants in declaration order *)
  r_prec : list (string * string);        (* precedence(): token name -> level name *)
  r_default : string;                     (* the wildcard arm of precedence() *)
  r_entry : string;                       (* expression() = parse_precedence(ctx, Prec::<entry>) *)
  r_unary_level : string;                 (* unary(): level its operand is parsed at *)
  r_unary : list (string * string);       (* unary(): token name -> ExpressionKind *)
  r_valid : list string;                  (* valid_infix() *)
  r_postfix : list string;                (* infix(): tokens handed to sub_assignable *)
  r_infix : list (string * string)        (* infix(): token name -> ExpressionKind (with ComparisonKind) *)
}.

Record ptab := {
  pt_prec : tok -> nat;                   (* precedence(), as index into the Prec enum *)
  pt_next : nat -> nat;                   (* Prec::next() *)
  pt_entry : nat;
  pt_unary_level : nat;
  pt_unary : tok -> option unop;
  pt_valid : tok -> bool;
  pt_postfix : tok -> bool;
  pt_bin : tok -> option binop
}.

(* ---- interpretation of the regenerated table ---- *)

Fixpoint index_of (s : string) (l : list string) : option nat :=
  match l with
  | [] => None
  | x :: l' => if String.eqb x s then Some 0 else option_map S (index_of s l')
  end.

Fixpoint assoc (s : string) (l : list (string * string)) : option string :=
  match l with
  | [] => None
  | (k, v) :: l' => if String.eqb k s then Some v else assoc s l'
  end.

Definition mem (s : string) (l : list string) : bool := existsb (String.eqb s) l.

(* an unknown level name becomes a number above every level; [names_ok] rules that out *)
Definition level (r : raw) (s : string) : nat :=
  match index_of s (r_levels r) with Some n => n | None => length (r_levels r) end.

Definition tok_name (t : tok) : option string :=
  match t with TK k => Some (kw_name k) | _ => None end.

Definition unop_of_name (s : string) : option unop :=
  if String.eqb s "Neg" then Some Neg else if String.eqb s "Not" then Some Not else None.

Definition binop_names : list (string * binop) :=
  [("Add", Add); ("Sub", Sub); ("Mul", Mul); ("Div", Div);
   ("Comparison Equals", Cmp Equals); ("Comparison NotEquals", Cmp NotEquals);
   ("Comparison Greater", Cmp Greater); ("Comparison GreaterEqual", Cmp GreaterEqual);
   ("Comparison Less", Cmp Less); ("Comparison LessEqual", Cmp LessEqual);
   ("AssertEq", AssertEq); ("And", And); ("Or", Or)].

Fixpoint binop_of_name (l : list (string * binop)) (s : string) : option binop :=
  match l with
  | [] => None
  | (n, o) :: l' => if String.eqb n s then Some o else binop_of_name l' s
  end.

Definition interp (r : raw) : ptab := {|
  pt_prec := fun t =>
    match tok_name t with
    | Some n => match assoc n (r_prec r) with Some l => level r l | None => level r (r_default r) end
    | None => level r (r_default r)
    end;
  pt_next := fun n => if S n <? length (r_levels r) then S n else n;
  pt_entry := level r (r_entry r);
  pt_unary_level := level r (r_unary_level r);
  pt_unary := fun t =>
    match tok_name t with
    | Some n => match assoc n (r_unary r) with Some k => unop_of_name k | None => None end
    | None => None
    end;
  pt_valid := fun t => match tok_name t with Some n => mem n (r_valid r) | None => false end;
  pt_postfix := fun t => match tok_name t with Some n => mem n (r_postfix r) | None => false end;
  pt_bin := fun t =>
    match tok_name t with
    | Some n => match assoc n (r_infix r) with Some k => binop_of_name binop_names k | None => None end
    | None => None
    end
|}.

(* every name used by the raw table is known: levels exist, tokens are token kinds, kinds are kinds *)
Definition is_kw_name (s : string) : bool :=
  match lookup_kw kw_names s with Some _ => true | None => false end.

Definition names_ok (r : raw) : bool :=
  forallb (fun p => is_kw_name (fst p) && mem (snd p) (r_levels r)) (r_prec r)
  && mem (r_default r) (r_levels r) && mem (r_entry r) (r_levels r) && mem (r_unary_level r) (r_levels r)
  && forallb (fun p => is_kw_name (fst p) && match unop_of_name (snd p) with Some _ => true | None => false end)
             (r_unary r)
  && forallb is_kw_name (r_valid r) && forallb is_kw_name (r_postfix r)
  && forallb (fun p => is_kw_name (fst p)
                       && match binop_of_name binop_names (snd p) with Some _ => true | None => false end)
             (r_infix r).

(* ---- the documented table (statement of C13) ----
   "Binary operators group as: <=> loosest, then or, and, comparisons, + -, * / tightest, all associating to
    the left; unary - and not bind tighter than + -, comparisons and the boolean operators, and call, index
    and field access bind tighter still." *)

Definition doc_rank (o : binop) : nat :=
  match o with
  | AssertEq => 1
  | Or => 2
  | And => 3
  | Cmp _ => 4
  | Add | Sub => 5
  | Mul | Div => 6
  end.

(* ranks the statement orders unary operators against *)
Definition doc_below_unary (o : binop) : bool := doc_rank o <=? 5.

Definition doc_tok (o : binop) : kw :=
  match o with
  | Add => KPlus | Sub => KMinus | Mul => KStar | Div => KSlash
  | Cmp Equals => KEqualEqual | Cmp NotEquals => KNotEqual
  | Cmp Greater => KGreater | Cmp GreaterEqual => KGreaterEqual
  | Cmp Less => KLess | Cmp LessEqual => KLessEqual
  | AssertEq => KAssertEqual | And => KAnd | Or => KOr
  end.

Definition doc_untok (u : unop) : kw := match u with Neg => KMinus | Not => KNot end.

Definition doc_postfix : list kw := [KLeftParen; KLeftBracket; KDot].

Definition bt (o : binop) : tok := TK (doc_tok o).

Definition opt_binop_eqb (a : option binop) (b : binop) : bool :=
  match a with Some x => binop_eqb x b | None => false end.

Definition opt_unop_is (a : option unop) (u : unop) : bool :=
  match a, u with Some Neg, Neg | Some Not, Not => true | _, _ => false end.

(* [tab_okb T]: T orders the operators as the documented table does.
   1  strictly monotone in the documented rank, equal on equal rank;
   2  climbing: the right operand level next(prec o) is above prec o and not above any higher-ranked operator;
   3  unary operands are parsed above every operator the statement ranks below unary;
   4  every documented binary operator is a valid infix, is mapped to its own tree constructor, is not
      handed to the postfix parser and is accepted by the entry level;
   5  unary tokens are mapped to their constructors;
   6  `)` `]` `,` and end of input never continue an expression;
   7  call / index / field tokens are valid postfix continuations, at a level above every binary
      operator and not below the unary operand level. *)
Definition tab_pair_ok (T : ptab) (a b : binop) : bool :=
  (if doc_rank a <? doc_rank b then (pt_prec T (bt a) <? pt_prec T (bt b))
                                    && (pt_next T (pt_prec T (bt a)) <=? pt_prec T (bt b)) else true)
  && (if doc_rank a =? doc_rank b then pt_prec T (bt a) =? pt_prec T (bt b) else true).

Definition tab_op_ok (T : ptab) (a : binop) : bool :=
  (pt_prec T (bt a) <? pt_next T (pt_prec T (bt a)))
  && (if doc_below_unary a then pt_prec T (bt a) <? pt_unary_level T else true)
  && pt_valid T (bt a) && opt_binop_eqb (pt_bin T (bt a)) a && negb (pt_postfix T (bt a))
  && (pt_entry T <=? pt_prec T (bt a)).

Definition tab_postfix_ok (T : ptab) (k : kw) : bool :=
  pt_valid T (TK k) && pt_postfix T (TK k) && (pt_unary_level T <=? pt_prec T (TK k))
  && forallb (fun a => pt_prec T (bt a) <? pt_prec T (TK k)) all_binops.

Definition tab_pairs_ok (T : ptab) : bool :=
  forallb (fun a => forallb (tab_pair_ok T a) all_binops) all_binops.
Definition tab_ops_ok (T : ptab) : bool := forallb (tab_op_ok T) all_binops.
Definition tab_postfixes_ok (T : ptab) : bool := forallb (tab_postfix_ok T) doc_postfix.

Definition tab_okb (T : ptab) : bool :=
  tab_pairs_ok T
  && tab_ops_ok T
  && opt_unop_is (pt_unary T (TK (doc_untok Neg))) Neg && opt_unop_is (pt_unary T (TK (doc_untok Not))) Not
  && negb (pt_valid T (TK KRightParen)) && negb (pt_valid T (TK KRightBracket)) && negb (pt_valid T (TK KComma))
  && negb (pt_valid T TEOF)
  && tab_postfixes_ok T.

Definition prec_table_ok (r : raw) : bool := names_ok r && tab_okb (interp r).
