(* C03, part 2: each kind of definite type mismatch is rejected by the checker in every well-formed state
   of the type graph, with every fuel (local rejection).  Together with Reject.placement_gen this gives
   rejection at every syntactic position. *)
From Coq Require Import String List NArith ZArith PArith Bool Lia FMapPositive.
From Sylt Require Import Syntax.Resolved Types.TyGraph Types.Tc Types.Ctx Types.TcInv Types.Reject.
Import ListNotations.
Local Open Scope tc_scope.

(* ------------------------------------------------------------------ toolkit *)

Lemma bind_ok {A B} (m : M A) (k : A -> M B) s a s' : m s = Ok (a, s') -> bind m k s = k a s'.
Proof. unfold bind. intros ->. reflexivity. Qed.

(* either the first action is not Ok, or we continue after it with everything `pres` guarantees *)
Lemma bind_cases {A B} (m : M A) (k : A -> M B) s :
  pres m -> wf s ->
  (forall a s', m s = Ok (a, s') -> wf s' -> ext s s' -> notok (k a s')) ->
  notok (bind m k s).
Proof.
  intros P W H. unfold notok, bind. destruct (m s) as [[a s']| | |] eqn:E; try discriminate.
  destruct (P _ _ _ W E) as [W' E']. now apply H.
Qed.

(* rigid, rigid_shape, rigid_known, head_keep, same_rep_same_head: TcInv *)

(* unification of two classes with known heads of different shapes is rejected *)
Lemma unify_rejects g sp a b s ha hb :
  wf s -> head s a = Some ha -> head s b = Some hb ->
  is_unknown ha = false -> is_unknown hb = false -> same_shape ha hb = false ->
  notok (unify (gfix g) sp a b s).
Proof.
  intros W Ha Hb Ua Ub Sh [r s'] H.
  destruct (unify_same_rep _ _ _ _ _ _ _ W H) as (_ & _ & _ & (ha' & hb' & Ha' & Hb' & C)).
  rewrite Ha in Ha'. rewrite Hb in Hb'. injection Ha' as <-. injection Hb' as <-.
  destruct C as [C|[C|[C|C]]]; try congruence.
  unfold rep in C. unfold head in Ha, Hb.
  destruct (lk s a) as [x|]; [|discriminate]. destruct (lk s b) as [y|]; [|discriminate].
  cbn in C. injection C as C. rewrite C in Ha. rewrite Ha in Hb. injection Hb as ->.
  rewrite same_shape_refl in Sh. discriminate.
Qed.

(* the same for unify_option with two present types *)
Lemma unify_ok_heads g sp a b s r s' :
  wf s -> unify (gfix g) sp a b s = Ok (r, s') ->
  wf s' /\ ext s s' /\ head s' a = head s' b.
Proof.
  intros W H. destruct (unify_same_rep _ _ _ _ _ _ _ W H) as (W' & E' & (q & Q1 & Q2) & _).
  split; [assumption|]. split; [assumption|]. eapply same_rep_same_head; eassumption.
Qed.

(* the occurs check (fn check_not_inside, since 1d60c01): a class whose type is still unknown does not unify with a
   tuple one of whose components is that class -- `y = (y, 1)`.  Before the check the unification succeeded and left a
   tuple that contains itself; add / sub / mul / cmp / neg recurse over the components of tuples, on such a type for
   ever (the real compiler overflowed its stack, the model runs out of fuel). *)
Lemma mapM_find_inv l : forall s reps s',
  mapM find l s = Ok (reps, s') -> s' = s /\ Forall2 (fun x r => rep s x = Some r) l reps.
Proof.
  induction l as [|x l IH]; cbn [mapM]; intros s reps s' H.
  - injection H as <- <-. auto.
  - apply bind_inv in H as (y & s1 & H1 & H). apply find_inv in H1 as [-> H1].
    apply bind_inv in H as (ys & s2 & H2 & H). apply IH in H2 as [-> H2]. injection H as <- <-. auto.
Qed.

Lemma reps_contain s l reps c q :
  Forall2 (fun x r => rep s x = Some r) l reps -> In c l -> rep s c = Some q -> existsb (Pos.eqb q) reps = true.
Proof.
  intros F. induction F as [|x r l rs Hx F IH]; cbn [In existsb]; [tauto|].
  intros [->|Hin] Hq; [|rewrite (IH Hin Hq); apply orb_true_r].
  rewrite Hq in Hx. injection Hx as <-. rewrite Pos.eqb_refl. reflexivity.
Qed.

Lemma unify_occurs_rejected g sp a b s tys c :
  wf s -> head s a = Some HUnknown -> head s b = Some (HTuple tys) ->
  In c tys -> rep s c = rep s a ->
  notok (unify (gfix g) sp a b s).
Proof.
  intros W Ha Hb Hin Hc [r s'] H. unfold unify in H. apply bind_inv in H as ([r0 sn] & s1 & H & _).
  destruct g as [|g]; [discriminate|]. cbn [gfix gstep g_unify] in H. unfold unify_body in H.
  apply bind_inv in H as (ra & s2 & H1 & H). apply find_inv in H1 as [-> H1].
  apply bind_inv in H as (rb & s3 & H2 & H). apply find_inv in H2 as [-> H2].
  destruct (head_of_rep _ _ _ W H1) as [Hha Rra]. destruct (head_of_rep _ _ _ W H2) as [Hhb Rrb].
  rewrite Ha in Hha. rewrite Hb in Hhb.
  destruct (Pos.eqb ra rb || seen_mem ra rb []) eqn:Eq.
  - cbn [seen_mem existsb] in Eq. rewrite orb_false_r in Eq. apply Pos.eqb_eq in Eq. subst rb. congruence.
  - apply bind_inv in H as (ta & s3 & H3 & H). apply find_type_inv in H3 as [-> H3].
    apply bind_inv in H as (tb & s4 & H4 & H). apply find_type_inv in H4 as [-> H4].
    rewrite Hha in H3. injection H3 as <-. rewrite Hhb in H4. injection H4 as <-.
    apply bind_inv in H as (seen' & s5 & Hmid & _). cbv beta iota in Hmid.
    apply bind_inv in Hmid as (u0 & s6 & Hc0 & _).
    unfold check_not_inside in Hc0. apply bind_inv in Hc0 as (u & s7 & Hf & Hi). apply find_inv in Hf as [-> Hf].
    rewrite Rra in Hf. injection Hf as <-.
    destruct g as [|g]; [discriminate|]. cbn [gfix gstep g_inside] in Hi. unfold inside_body in Hi.
    apply bind_inv in Hi as (t1 & s8 & Hf1 & Hi). apply find_inv in Hf1 as [-> Hf1].
    rewrite Rrb in Hf1. injection Hf1 as <-. cbn [existsb] in Hi.
    apply bind_inv in Hi as (h & s9 & Hh & Hi). apply find_type_inv in Hh as [-> Hh].
    rewrite Hhb in Hh. injection Hh as <-.
    apply bind_inv in Hi as (reps & s10 & Hm & Hi). apply mapM_find_inv in Hm as [-> F].
    assert (X : existsb (Pos.eqb ra) reps = true).
    { apply (reps_contain s _ _ c ra F); [rewrite app_nil_r; apply in_rev in Hin; exact Hin|congruence]. }
    rewrite X, orb_true_r in Hi. discriminate.
Qed.

(* fresh nodes *)
Lemma head_push_new t s : head (push_st t s) (next s) = Some t.
Proof. unfold head. rewrite lk_push_new. cbn [nrep]. rewrite lk_push_new. reflexivity. Qed.

Lemma push_spec t s i s' :
  wf s -> push_type t s = Ok (i, s') -> wf s' /\ ext s s' /\ head s' i = Some t.
Proof.
  intros W H. destruct (pres_push t _ _ _ W H) as [W' E']. rewrite push_type_eq in H. injection H as <- <-.
  split; [assumption|]. split; [assumption|]. apply head_push_new.
Qed.

Lemma find_type_ok s a t : head s a = Some t -> find_type a s = Ok (t, s).
Proof.
  unfold head, find_type, find_node, find, get_node, bind, ret, lk.
  destruct (PositiveMap.find a (nodes s)) as [x|]; [|discriminate].
  destruct (PositiveMap.find (nrep x) (nodes s)) as [y|]; [|discriminate]. cbn. intros [= <-]. reflexivity.
Qed.

(* literals: a fresh node of the literal's type; nothing else happens *)
Definition lit_type (e : expr) : option tyh :=
  match e with
  | EInt _ _ => Some HInt | EFloat _ _ => Some HFloat | EStr _ _ => Some HStr | EBool _ _ => Some HBool
  | ENil _ => Some HNil | _ => None
  end.

Lemma lit_eval kinds G f e t ctx s :
  lit_type e = Some t -> rigid t = true ->
  r_expr (afix kinds G (S f)) e ctx s = Ok ((None, next s), push_st t s).
Proof.
  intros L Rg. cbn [afix astep r_expr]. unfold expr_body.
  assert (E1 : forall h, (x <- push_type h;; ret (@None tyid, x)) s = Ok ((None, next s), push_st h s)) by reflexivity.
  destruct e; try discriminate; injection L as <-; cbv beta iota;
    rewrite (bind_ok _ _ _ _ _ (E1 _)); cbv beta iota zeta;
    rewrite (bind_ok _ _ _ _ _ (find_type_ok _ _ _ (head_push_new _ _))); reflexivity.
Qed.

Lemma lit_spec kinds G f e t ctx s r s' :
  lit_type e = Some t -> rigid t = true -> wf s ->
  r_expr (afix kinds G f) e ctx s = Ok (r, s') ->
  wf s' /\ ext s s' /\ head s' (snd r) = Some t.
Proof.
  intros L Rg W H. destruct f as [|f]; [discriminate|].
  rewrite (lit_eval kinds G f e t ctx s L Rg) in H. injection H as <- <-. cbn [snd].
  destruct (pres_push t s _ _ W (push_type_eq t s)) as [W' E'].
  split; [assumption|]. split; [assumption|]. apply head_push_new.
Qed.

(* ------------------------------------------------------------------ constraints *)

Definition has_con (s : st) (i : tyid) (c : constr) : Prop :=
  exists r n, rep s i = Some r /\ lk s r = Some n /\ In c (ncons n).

Lemma cinsert_In c l : In c (cinsert c l).
Proof.
  induction l as [|d l IH]; cbn [cinsert]; [now left|].
  destruct (constr_compare c d) eqn:E.
  - (* Eq: the derived order is total on values, equal keys are equal *)
    revert E. clear IH.
    assert (P : forall x y : positive, Pos.compare x y = Eq -> x = y) by apply Pos.compare_eq.
    assert (L : forall a b, lex a b = Eq -> a = Eq /\ b = Eq) by (intros [] []; cbn; intuition congruence).
    destruct c, d; cbn [constr_compare constr_tag]; intros E; try discriminate;
      try (apply P in E; subst; now left); try (now left).
    + apply L in E as [E1 E2]. apply Z.compare_eq in E1. apply P in E2. subst. now left.
    + apply L in E as [E1 E2]. apply String.compare_eq_iff in E1. apply P in E2. subst. now left.
    + apply L in E as [E1 E2]. apply String.compare_eq_iff in E1. subst.
      destruct t, t0; cbn in E2; try discriminate; [apply P in E2; subst|]; now left.
    + assert (S : forall a b, strs_compare a b = Eq -> a = b).
      { induction a as [|x a IHa]; intros [|y b]; cbn; try discriminate; [reflexivity|].
        intros H. apply L in H as [H1 H2]. apply String.compare_eq_iff in H1. apply IHa in H2. congruence. }
      apply S in E. subst. now left.
  - now left.
  - right. assumption.
Qed.

Lemma cinsert_keeps c d l : In d l -> In d (cinsert c l).
Proof.
  induction l as [|e l IH]; cbn [cinsert]; [intros []|].
  intros H. destruct (constr_compare c e); [assumption|now right|].
  destruct H as [->|H]; [now left|right; auto].
Qed.

Lemma add_constraint_spec x c s u s' :
  wf s -> add_constraint x c s = Ok (u, s') ->
  wf s' /\ ext s s' /\ (forall i, head s' i = head s i) /\ (forall i, rep s' i = rep s i) /\
  has_con s' x c /\ (forall i d, has_con s i d -> has_con s' i d).
Proof.
  intros W H. destruct (pres_add_constraint x c _ _ _ W H) as [W' E'].
  unfold add_constraint in H.
  apply bind_inv in H as (r & s1 & H1 & H). apply find_inv in H1 as [-> H1].
  apply bind_inv in H as (n & s2 & H2 & H). apply get_node_inv in H2 as [-> H2].
  rewrite put_node_eq in H. injection H as _ <-.
  destruct (root_of _ _ _ W H1) as (n0 & Hn0 & En0). rewrite H2 in Hn0. injection Hn0 as <-.
  set (n' := mkNode (nty n) (nrep n) (nsize n) (cinsert c (ncons n))).
  assert (Rp : forall i, rep (put_st r n' s) i = rep s i) by (intros; apply (rep_put_root s r n n'); auto).
  split; [assumption|]. split; [assumption|]. split; [|split; [assumption|split]].
  - intros i. rewrite (head_put_root s r n n' i H2 En0 En0).
    destruct (rep s i) as [q|] eqn:Eq.
    + destruct (Pos.eqb_spec q r) as [->|Ne]; [|reflexivity].
      unfold head, rep in *. destruct (lk s i) as [y|]; [|discriminate]. injection Eq as ->. rewrite H2. reflexivity.
    + unfold head, rep in *. destruct (lk s i); [discriminate|reflexivity].
  - exists r, n'. rewrite Rp. split; [assumption|]. split; [apply lk_put_same|apply cinsert_In].
  - intros i d (q & m & Hq & Hm & Hd). rewrite <- Rp in Hq.
    destruct (Pos.eq_dec q r) as [->|Ne].
    + exists r, n'. split; [assumption|]. split; [apply lk_put_same|].
      rewrite H2 in Hm. injection Hm as <-. now apply cinsert_keeps.
    + exists q, m. split; [assumption|]. split; [|assumption]. now rewrite lk_put_other.
Qed.

Lemma iterM_notok_ext {A} (f : A -> M unit) s0 pre x post :
  (forall y, pres (f y)) ->
  (forall s, wf s -> ext s0 s -> notok (f x s)) ->
  forall s, wf s -> ext s0 s -> notok (iterM f (pre ++ x :: post) s).
Proof.
  intros P H. induction pre as [|p pre IH]; intros s W E; cbn [app iterM].
  - apply bind_notok_l. now apply H.
  - apply bind_cases; [apply P|assumption|]. intros a s' _ W' E'. apply IH; [assumption|].
    eapply ext_trans; eassumption.
Qed.

(* check_constraints fails as soon as one of the constraints of the class does, whatever the earlier ones do *)
Lemma check_rejects g sp a c s :
  wf s -> has_con s a c ->
  (forall g' s', wf s' -> ext s s' -> notok (check_one (gfix g') sp a c s')) ->
  notok (g_check (gfix g) sp a s).
Proof.
  intros W (r & n & Hr & Hn & Hc) H. destruct g as [|g]; [apply notok_fuel|].
  cbn [gfix gstep g_check]. unfold check_body.
  assert (Fn : find_node a s = Ok (n, s)).
  { unfold find_node, find, get_node, bind, ret. unfold rep, lk in *.
    destruct (PositiveMap.find a (nodes s)) as [x|]; [|discriminate]. cbn in Hr. injection Hr as ->.
    rewrite Hn. reflexivity. }
  rewrite (bind_ok _ _ _ _ _ Fn).
  apply in_split in Hc as (pre & post & ->).
  apply (iterM_notok_ext _ s); [|intros; now apply H|assumption|apply ext_refl].
  intros y. apply pres_check_one, gfix_pres.
Qed.

(* the operator checks on two classes with known rigid heads *)
Lemma arith_rejects g k sp a b s ta tb :
  wf s -> head s a = Some ta -> head s b = Some tb -> rigid ta = true -> rigid tb = true ->
  arith_base_ok k ta tb = false ->
  notok (g_arith (gfix g) k sp a b s).
Proof.
  intros W Ha Hb Ra Rb Bk. destruct g as [|g]; [apply notok_fuel|].
  cbn [gfix gstep g_arith]. unfold arith_body.
  rewrite (bind_ok _ _ _ _ _ (find_type_ok _ _ _ Ha)). rewrite (bind_ok _ _ _ _ _ (find_type_ok _ _ _ Hb)).
  rewrite (rigid_known _ Ra), (rigid_known _ Rb), Bk. cbn [orb].
  destruct ta; try discriminate; destruct tb; try discriminate; apply notok_fail.
Qed.

(* unary minus on a class whose head is a rigid type other than int / float *)
Lemma neg_rejects g sp a s t :
  head s a = Some t -> rigid t = true -> (match t with HInt | HFloat => false | _ => true end) = true ->
  notok (g_neg (gfix g) sp a s).
Proof.
  intros Ha R Nn. destruct g as [|g]; [apply notok_fuel|]. cbn [gfix gstep g_neg]. unfold neg_body.
  rewrite (bind_ok _ _ _ _ _ (find_type_ok _ _ _ Ha)). destruct t; try discriminate; apply notok_fail.
Qed.

Lemma ShapesDecl_var_ty_inv kinds v s t s' : var_ty kinds v s = Ok (t, s') -> s' = s /\ t = N.succ_pos v.
Proof. unfold var_ty. destruct (PositiveMap.find _ kinds); [|discriminate]. intros [= <- <-]. auto. Qed.

Lemma bind_inv_pres0 {A B} (m : M A) (k : A -> M B) s b s'' :
  pres m -> wf s -> bind m k s = Ok (b, s'') ->
  exists a s', m s = Ok (a, s') /\ wf s' /\ ext s s' /\ k a s' = Ok (b, s'').
Proof.
  intros P W H. apply bind_inv in H as (a & s' & H1 & H2). destruct (P _ _ _ W H1) as [W' E']. eauto 8.
Qed.

(* ------------------------------------------------------------------ the mismatch kinds *)

Section Kinds.
  Variable kinds : PositiveMap.t varkind.
  Variable g : nat.
  Notation G := (gfix g).
  Notation afix := (afix kinds G).

  Let PG : gpres G := gfix_pres g.
  Let PA f : apres (afix f) := afix_pres kinds G PG f.

  (* The operands of the mismatches below are `atoms`: expressions of which it is known, under an invariant `Inv`
     of the type graph that every extension keeps, that their value has a given leaf type.  Literals are atoms
     under the trivial invariant (lit_atom below); calls of a top-level function with a monomorphic signature and
     reads of variables declared with a leaf type are atoms under the invariant their declaration establishes
     (Calls.v). *)
  Variable Inv : st -> Prop.
  Hypothesis Inv_ext : forall s s', wf s -> ext s s' -> Inv s -> Inv s'.
  Variable atom : expr -> tyh -> Prop.
  Hypothesis atom_rigid : forall e t, atom e t -> rigid t = true.
  Hypothesis atom_spec : forall e t f ctx s r s',
    atom e t -> wf s -> Inv s -> r_expr (afix f) e ctx s = Ok (r, s') -> head s' (snd r) = Some t.
  Hypothesis atom_not_fn : forall e t, atom e t -> match e with EFunction _ _ _ _ _ _ => False | _ => True end.

  (* operators applied to incompatible operand types: 1 + "a", "a" - 1, 1 * 1.0, 1 < true, ... *)
  Lemma rej_arith op a b sp ta tb k f ctx s :
    wf s -> Inv s -> atom a ta -> atom b tb ->
    match op with Add => k = AAdd | Sub => k = ASub | Mul => k = AMul | Greater | Less => k = ACmp | _ => False end ->
    arith_base_ok k ta tb = false ->
    notok (r_expr (afix f) (EBinOp op a b sp) ctx s).
  Proof.
    intros W I La Lb Hk Bk. pose proof (atom_rigid _ _ La) as Ra. pose proof (atom_rigid _ _ Lb) as Rb.
    destruct f as [|f]; [apply notok_fuel|].
    cbn [Tc.afix astep r_expr]. unfold expr_body. apply bind_notok_l.
    assert (Core : forall con,
              (forall g' s' x y, wf s' -> head s' x = Some ta -> head s' y = Some tb ->
                                 notok (check_one (gfix g') sp x (con y) s')) ->
              notok (bin_op G (afix f) sp ctx a b con s)).
    { intros con Hc. unfold bin_op.
      apply bind_cases; [apply (ap_expr _ (PA _))|assumption|]. intros [ar x] s1 H1 W1 E1.
      pose proof (atom_spec _ _ _ _ _ _ _ La W I H1) as Hx. cbn [snd] in Hx.
      apply bind_cases; [apply (ap_expr _ (PA _))|assumption|]. intros [br y] s2 H2 W2 E2.
      pose proof (atom_spec _ _ _ _ _ _ _ Lb W1 (Inv_ext _ _ W E1 I) H2) as Hy. cbn [snd] in Hy.
      pose proof (head_keep _ _ _ _ E2 Hx Ra) as Hx2.
      apply bind_cases; [apply pres_add_constraint|assumption|]. intros u3 s3 H3 W3 E3.
      destruct (add_constraint_spec _ _ _ _ _ W2 H3) as (_ & _ & Hd3 & _ & C3 & _).
      apply bind_cases; [apply pres_add_constraint|assumption|]. intros u4 s4 H4 W4 E4.
      destruct (add_constraint_spec _ _ _ _ _ W3 H4) as (_ & _ & Hd4 & _ & _ & K4).
      apply bind_notok_l. apply (check_rejects g sp x (con y) s4 W4 (K4 _ _ C3)).
      intros g' s' W' E'. apply Hc; [assumption| |].
      - apply (head_keep s4 s' x ta E'); [|assumption]. rewrite Hd4, Hd3. assumption.
      - apply (head_keep s4 s' y tb E'); [|assumption]. rewrite Hd4, Hd3. assumption. }
    assert (Ar : forall g' s' x y, wf s' -> head s' x = Some ta -> head s' y = Some tb ->
                 notok (g_arith (gfix g') k sp x y s')).
    { intros. eapply arith_rejects; eassumption. }
    destruct op; try contradiction; subst k; cbv beta iota.
    - (* Greater *) unfold bin_op_ret. apply bind_notok_l. apply (Core CCmp); auto.
    - (* Less *) unfold bin_op_ret. apply bind_notok_l. apply (Core CCmp); auto.
    - apply (Core CAdd); auto.
    - apply (Core CSub); auto.
    - apply (Core CMul); auto.
  Qed.

  (* == != <=> on operands of different types *)
  Lemma rej_equ op a b sp ta tb f ctx s :
    wf s -> Inv s -> atom a ta -> atom b tb ->
    match op with Equals | NotEquals | AssertEq => True | _ => False end ->
    same_shape ta tb = false ->
    notok (r_expr (afix f) (EBinOp op a b sp) ctx s).
  Proof.
    intros W I La Lb Hop Sh. pose proof (atom_rigid _ _ La) as Ra. pose proof (atom_rigid _ _ Lb) as Rb.
    destruct f as [|f]; [apply notok_fuel|].
    cbn [Tc.afix astep r_expr]. unfold expr_body. apply bind_notok_l.
    assert (Core : notok (bin_op_ret G (afix f) sp ctx a b CEqu HBool s)).
    { unfold bin_op_ret, bin_op. apply bind_notok_l.
      apply bind_cases; [apply (ap_expr _ (PA _))|assumption|]. intros [ar x] s1 H1 W1 E1.
      pose proof (atom_spec _ _ _ _ _ _ _ La W I H1) as Hx. cbn [snd] in Hx.
      apply bind_cases; [apply (ap_expr _ (PA _))|assumption|]. intros [br y] s2 H2 W2 E2.
      pose proof (atom_spec _ _ _ _ _ _ _ Lb W1 (Inv_ext _ _ W E1 I) H2) as Hy. cbn [snd] in Hy.
      pose proof (head_keep _ _ _ _ E2 Hx Ra) as Hx2.
      apply bind_cases; [apply pres_add_constraint|assumption|]. intros u3 s3 H3 W3 E3.
      destruct (add_constraint_spec _ _ _ _ _ W2 H3) as (_ & _ & Hd3 & _ & C3 & _).
      apply bind_cases; [apply pres_add_constraint|assumption|]. intros u4 s4 H4 W4 E4.
      destruct (add_constraint_spec _ _ _ _ _ W3 H4) as (_ & _ & Hd4 & _ & _ & K4).
      apply bind_notok_l. apply (check_rejects g sp x (CEqu y) s4 W4 (K4 _ _ C3)).
      intros g' s' W' E'. cbn [check_one]. apply bind_notok_l.
      apply (unify_rejects g' sp x y s' ta tb W').
      - apply (head_keep s4 s' x ta E'); [|assumption]. rewrite Hd4, Hd3. assumption.
      - apply (head_keep s4 s' y tb E'); [|assumption]. rewrite Hd4, Hd3. assumption.
      - now apply rigid_known.
      - now apply rigid_known.
      - assumption. }
    destruct op; try contradiction; exact Core.
  Qed.

  (* `not` on a non-bool *)
  Lemma rej_not a sp ta f ctx s :
    wf s -> Inv s -> atom a ta -> same_shape ta HBool = false ->
    notok (r_expr (afix f) (EUniOp Not a sp) ctx s).
  Proof.
    intros W I La Sh. pose proof (atom_rigid _ _ La) as Ra. destruct f as [|f]; [apply notok_fuel|].
    cbn [Tc.afix astep r_expr]. unfold expr_body. apply bind_notok_l. cbv beta iota.
    apply bind_cases; [apply (ap_expr _ (PA _))|assumption|]. intros [ar x] s1 H1 W1 E1.
    pose proof (atom_spec _ _ _ _ _ _ _ La W I H1) as Hx. cbn [snd] in Hx.
    apply bind_cases; [apply pres_push|assumption|]. intros bo s2 H2 W2 E2.
    destruct (push_spec _ _ _ _ W1 H2) as (_ & _ & Hb).
    apply bind_notok_l. apply (unify_rejects g sp x bo s2 ta HBool W2); try assumption; try reflexivity.
    - eapply head_keep; eassumption.
    - now apply rigid_known.
  Qed.

  (* unary minus on a non-number (rejected wherever it stands since a470734) *)
  Lemma rej_neg a sp ta f ctx s :
    wf s -> Inv s -> atom a ta ->
    (match ta with HInt | HFloat => false | _ => true end) = true ->
    notok (r_expr (afix f) (EUniOp Neg a sp) ctx s).
  Proof.
    intros W I La Nn. pose proof (atom_rigid _ _ La) as Ra. destruct f as [|f]; [apply notok_fuel|].
    cbn [Tc.afix astep r_expr]. unfold expr_body. apply bind_notok_l. cbv beta iota.
    apply bind_cases; [apply (ap_expr _ (PA _))|assumption|]. intros [ar x] s1 H1 W1 E1.
    pose proof (atom_spec _ _ _ _ _ _ _ La W I H1) as Hx. cbn [snd] in Hx.
    apply bind_cases; [apply pres_add_constraint|assumption|]. intros u2 s2 H2 W2 E2.
    destruct (add_constraint_spec _ _ _ _ _ W1 H2) as (_ & _ & Hd2 & _ & C2 & _).
    apply bind_notok_l. apply (check_rejects g sp x CNeg s2 W2 C2).
    intros g' s' W' E'. cbn [check_one].
    assert (Hx' : head s' x = Some ta) by (apply (head_keep s2 s' x ta E'); [rewrite Hd2|]; assumption).
    eapply neg_rejects; eassumption.
  Qed.

  (* `and` / `or` with a non-bool operand, on either side *)
  Lemma rej_and_l op a b sp ta f ctx s :
    wf s -> Inv s -> atom a ta -> same_shape ta HBool = false ->
    match op with And | Or => True | _ => False end ->
    notok (r_expr (afix f) (EBinOp op a b sp) ctx s).
  Proof.
    intros W I La Sh Hop. pose proof (atom_rigid _ _ La) as Ra. destruct f as [|f]; [apply notok_fuel|].
    cbn [Tc.afix astep r_expr]. unfold expr_body. apply bind_notok_l.
    assert (Core : notok ((x <- r_expr (afix f) a ctx;;
                           (let '(a_ret, a0) := x in
                            y <- r_expr (afix f) b ctx;;
                            (let '(b_ret, b0) := y in
                             boolean <- push_type HBool;;
                             unify G sp a0 boolean;;; unify G sp b0 boolean;;;
                             r <- unify_option G sp a_ret b_ret;; ret (r, a0)))) s)).
    { apply bind_cases; [apply (ap_expr _ (PA _))|assumption|]. intros [ar x] s1 H1 W1 E1.
      pose proof (atom_spec _ _ _ _ _ _ _ La W I H1) as Hx. cbn [snd] in Hx.
      apply bind_cases; [apply (ap_expr _ (PA _))|assumption|]. intros [br y] s2 H2 W2 E2.
      apply bind_cases; [apply pres_push|assumption|]. intros bo s3 H3 W3 E3.
      destruct (push_spec _ _ _ _ W2 H3) as (_ & _ & Hb).
      apply bind_notok_l. apply (unify_rejects g sp x bo s3 ta HBool W3); try assumption; try reflexivity.
      - eapply head_keep; [eassumption| |assumption]. eapply head_keep; eassumption.
      - now apply rigid_known. }
    destruct op; try contradiction; exact Core.
  Qed.

  Lemma rej_and_r op a b sp tb f ctx s :
    wf s -> Inv s -> atom b tb -> same_shape tb HBool = false ->
    match op with And | Or => True | _ => False end ->
    notok (r_expr (afix f) (EBinOp op a b sp) ctx s).
  Proof.
    intros W I Lb Sh Hop. pose proof (atom_rigid _ _ Lb) as Rb. destruct f as [|f]; [apply notok_fuel|].
    cbn [Tc.afix astep r_expr]. unfold expr_body. apply bind_notok_l.
    assert (Core : notok ((x <- r_expr (afix f) a ctx;;
                           (let '(a_ret, a0) := x in
                            y <- r_expr (afix f) b ctx;;
                            (let '(b_ret, b0) := y in
                             boolean <- push_type HBool;;
                             unify G sp a0 boolean;;; unify G sp b0 boolean;;;
                             r <- unify_option G sp a_ret b_ret;; ret (r, a0)))) s)).
    { apply bind_cases; [apply (ap_expr _ (PA _))|assumption|]. intros [ar x] s1 H1 W1 E1.
      apply bind_cases; [apply (ap_expr _ (PA _))|assumption|]. intros [br y] s2 H2 W2 E2.
      pose proof (atom_spec _ _ _ _ _ _ _ Lb W1 (Inv_ext _ _ W E1 I) H2) as Hy. cbn [snd] in Hy.
      apply bind_cases; [apply pres_push|assumption|]. intros bo s3 H3 W3 E3.
      destruct (push_spec _ _ _ _ W2 H3) as (_ & _ & Hb).
      apply bind_cases; [unfold unify; apply pres_bind; [apply (gp_unify0 G PG)|intros; apply pres_ret]|assumption|].
      intros u4 s4 H4 W4 E4.
      apply bind_notok_l. apply (unify_rejects g sp y bo s4 tb HBool W4); try assumption; try reflexivity.
      - eapply head_keep; [eassumption| |assumption]. eapply head_keep; eassumption.
      - eapply head_keep; [eassumption|eassumption|reflexivity].
      - now apply rigid_known. }
    destruct op; try contradiction; exact Core.
  Qed.

  (* calling something that is not a function *)
  Lemma rej_call_nonfn a args sp ta f ctx s :
    wf s -> Inv s -> atom a ta ->
    notok (r_expr (afix f) (ECall a args sp) ctx s).
  Proof.
    intros W I La. pose proof (atom_rigid _ _ La) as Ra. destruct f as [|f]; [apply notok_fuel|].
    cbn [Tc.afix astep r_expr]. unfold expr_body. apply bind_notok_l. cbv beta iota.
    apply bind_cases; [apply (ap_expr _ (PA _))|assumption|]. intros [ar x] s1 H1 W1 E1.
    pose proof (atom_spec _ _ _ _ _ _ _ La W I H1) as Hx. cbn [snd] in Hx.
    rewrite (bind_ok _ _ _ _ _ (find_type_ok _ _ _ Hx)).
    destruct ta; try discriminate; apply notok_fail.
  Qed.

  (* a condition that is not a bool: if-expression / if-statement *)
  Lemma rej_if_cond c body bsp rest sp tc f ctx s :
    wf s -> Inv s -> atom c tc -> same_shape HBool tc = false ->
    notok (r_expr (afix f) (EIf (IfBranch (Some c) body bsp :: rest) sp) ctx s).
  Proof.
    intros W I Lc Sh. pose proof (atom_rigid _ _ Lc) as Rc. destruct f as [|f]; [apply notok_fuel|].
    cbn [Tc.afix astep r_expr]. unfold expr_body. apply bind_notok_l. cbv beta iota.
    apply bind_notok_l. cbn [mapM]. apply bind_notok_l. unfold if_branch. apply bind_notok_l.
    apply bind_cases; [apply (ap_expr _ (PA _))|assumption|]. intros [cr x] s1 H1 W1 E1.
    pose proof (atom_spec _ _ _ _ _ _ _ Lc W I H1) as Hx. cbn [snd] in Hx.
    apply bind_cases; [apply pres_push|assumption|]. intros bo s2 H2 W2 E2.
    destruct (push_spec _ _ _ _ W1 H2) as (_ & _ & Hb).
    apply bind_notok_l. apply (unify_rejects g _ bo x s2 HBool tc W2); try assumption; try reflexivity.
    - eapply head_keep; eassumption.
    - now apply rigid_known.
  Qed.

  (* loop condition *)
  Lemma rej_loop_cond c body sp tc f ctx s :
    wf s -> Inv s -> atom c tc -> same_shape HBool tc = false ->
    notok (r_stmt (afix f) (SLoop c body sp) ctx s).
  Proof.
    intros W I Lc Sh. pose proof (atom_rigid _ _ Lc) as Rc. destruct f as [|f]; [apply notok_fuel|].
    cbn [Tc.afix astep r_stmt]. unfold stmt_body.
    apply bind_cases; [apply (ap_expr _ (PA _))|assumption|]. intros [cr x] s1 H1 W1 E1.
    pose proof (atom_spec _ _ _ _ _ _ _ Lc W I H1) as Hx. cbn [snd] in Hx.
    apply bind_cases; [apply pres_push|assumption|]. intros bo s2 H2 W2 E2.
    destruct (push_spec _ _ _ _ W1 H2) as (_ & _ & Hb).
    apply bind_notok_l. apply (unify_rejects g _ bo x s2 HBool tc W2); try assumption; try reflexivity.
    - eapply head_keep; eassumption.
    - now apply rigid_known.
  Qed.

  (* a heterogeneous list *)
  Lemma rej_hetero_list a b rest sp ta tb f ctx s :
    wf s -> Inv s -> atom a ta -> atom b tb ->
    same_shape ta tb = false ->
    notok (r_expr (afix f) (ECollection CList (a :: b :: rest) sp) ctx s).
  Proof.
    intros W I La Lb Sh. pose proof (atom_rigid _ _ La) as Ra. pose proof (atom_rigid _ _ Lb) as Rb.
    destruct f as [|f]; [apply notok_fuel|].
    cbn [Tc.afix astep r_expr]. unfold expr_body. apply bind_notok_l. cbv beta iota.
    apply bind_cases; [apply pres_push|assumption|]. intros inner s2 H2 W2 E2.
    apply bind_notok_l. cbn [foldM].
    (* first element *)
    apply bind_cases; [prs; try apply (ap_expr _ (PA _)); try apply (gp_unify0 G PG)|assumption|]. intros u3 s3 H3 W3 E3.
    apply bind_inv in H3 as ([ar x] & s31 & Hx1 & H3).
    destruct (ap_expr _ (PA _) _ _ _ _ _ W2 Hx1) as [W31 E31].
    assert (I2 : Inv s2) by (eapply Inv_ext; [exact W| |exact I]; exact E2).
    pose proof (atom_spec _ _ _ _ _ _ _ La W2 I2 Hx1) as Hx. cbn [snd] in Hx.
    apply bind_inv in H3 as (u32 & s32 & Hu & H3).
    destruct (unify_ok_heads _ _ _ _ _ _ _ W31 Hu) as (W32 & E32 & Heq).
    assert (E323 : ext s32 s3).
    { assert (PU : pres (unify_option G sp None ar)) by (destruct ar; apply pres_ret).
      exact (proj2 (PU _ _ _ W32 H3)). }
    assert (Hin3 : head s3 inner = Some ta).
    { apply (head_keep s32 s3 inner ta E323); [|assumption]. rewrite Heq.
      eapply head_keep; eassumption. }
    (* second element *)
    apply bind_notok_l.
    apply bind_cases; [apply (ap_expr _ (PA _))|assumption|]. intros [br y] s4 H4 W4 E4.
    pose proof (atom_spec _ _ _ _ _ _ _ Lb W3 (Inv_ext _ _ W2 E3 I2) H4) as Hy. cbn [snd] in Hy.
    apply bind_notok_l. apply (unify_rejects g sp inner y s4 ta tb W4); try assumption.
    - eapply head_keep; eassumption.
    - now apply rigid_known.
    - now apply rigid_known.
  Qed.

  (* a value contradicting the declared type of the variable it initialises: `x: int = "a"`, `x: str : 1` *)
  Definition base_head (b : basety) : tyh :=
    match b with
    | BVoid => HVoid | BNil => HNil | BUnknown => HUnknown | BInt => HInt
    | BFloat => HFloat | BBool => HBool | BStr => HStr
    end.

  Lemma rej_var_type name var kind b tsp value sp tv f ctx s :
    wf s -> Inv s -> atom value tv -> rigid (base_head b) = true ->
    same_shape (base_head b) tv = false ->
    notok (r_stmt (afix f) (SDefinition name var kind (TResolved b tsp) value sp) ctx s).
  Proof.
    intros W I Lv Rb Sh. pose proof (atom_rigid _ _ Lv) as Rv. pose proof (atom_not_fn _ _ Lv) as Nf.
    destruct f as [|f]; [apply notok_fuel|].
    cbn [Tc.afix astep r_stmt]. unfold stmt_body, definition.
    destruct (inside_pure ctx && negb (immutable kind)); [apply notok_fail|].
    apply bind_cases; [apply pres_var_ty|assumption|]. intros vt s0 H0 W0 E0.
    destruct value; try contradiction.
    all: cbv beta iota; rewrite (bind_ok (ret tt) _ s0 tt s0 eq_refl).
    all: apply bind_cases; [eapply pres_resolve_type, PA|assumption|]; intros dt s2 H2 W2 E2.
    all: assert (Hdt : head s2 dt = Some (base_head b)).
    all: try (unfold resolve_type in H2; apply bind_inv in H2 as ([d sn] & s21 & Hr & H2); injection H2 as <- <-;
              destruct f as [|f]; [discriminate|]; cbn [Tc.afix astep r_type] in Hr; unfold type_body in Hr;
              apply bind_inv in Hr as (i & s22 & Hp & Hr); injection Hr as <- _ <-;
              destruct (push_spec _ _ _ _ W0 Hp) as (_ & _ & Hh); destruct b; exact Hh).
    all: apply bind_cases; [apply pres_add_constraint|assumption|]; intros u3 s3 H3 W3 E3.
    all: destruct (add_constraint_spec _ _ _ _ _ W2 H3) as (_ & _ & Hd3 & _ & _ & _).
    all: apply bind_cases; [unfold unify; apply pres_bind; [apply (gp_unify0 G PG)|intros; apply pres_ret]|assumption|];
      intros u4 s4 H4 W4' E4.
    all: destruct (unify_ok_heads _ _ _ _ _ _ _ W3 H4) as (W4 & _ & Heq).
    all: assert (Hvt : head s4 vt = Some (base_head b))
      by (rewrite Heq; apply (head_keep s3 s4 dt _ E4); [rewrite Hd3; assumption|assumption]).
    all: apply bind_cases; [apply (ap_expr _ (PA _))|assumption|]; intros [vr v] s5 H5 W5 E5.
    all: assert (I4 : Inv s4)
      by (eapply Inv_ext; [exact W| |exact I]; eapply ext_trans; [exact E0|]; eapply ext_trans; [exact E2|];
          eapply ext_trans; [exact E3|exact E4]).
    all: pose proof (atom_spec _ _ _ _ _ _ _ Lv W4 I4 H5) as Hv; cbn [snd] in Hv.
    all: apply bind_notok_l; apply (unify_rejects g sp vt v s5 (base_head b) tv W5); try assumption;
      [eapply head_keep; eassumption|now apply rigid_known|now apply rigid_known].
  Qed.

  (* ---- functions *)

  Lemma type_from_function_spec params rty pure f s fty rt s' :
    wf s -> type_from_function kinds G (afix f) params rty pure s = Ok ((fty, rt), s') ->
    wf s' /\ ext s s' /\
    exists args, head s' fty = Some (HFn args rt (if pure then PPure else PImpure)) /\ length args = length params /\
                 (forall b tsp, rty = TResolved b tsp -> head s' rt = Some (base_head b)).
  Proof.
    intros W H. assert (P : pres (type_from_function kinds G (afix f) params rty pure)) by (eapply pres_type_from_function; [exact PG|apply PA]).
    destruct (P _ _ _ W H) as [W' E']. split; [assumption|]. split; [assumption|].
    unfold type_from_function in H.
    apply bind_inv in H as ([args seen] & s1 & H1 & H).
    assert (L : forall ps acc s0 r0 s2,
               foldM (fun (acc : list tyid * genmap) (p : string * N * span * ty) =>
                        let '(_, var, psp, pty) := p in
                        vt <- var_ty kinds var;; rt0 <- r_type (afix f) pty (snd acc);;
                        a <- unify G psp vt (fst rt0);; ret (fst acc ++ [a], snd rt0)) ps acc s0 = Ok (r0, s2) ->
               length (fst r0) = length (fst acc) + length ps).
    { induction ps as [|[[[nm var] psp] pty] ps IH]; intros acc s0 r0 s2 Hf; cbn [foldM] in Hf.
      - injection Hf as <- _. cbn. lia.
      - apply bind_inv in Hf as (b' & s3 & Hb & Hf). apply IH in Hf. rewrite Hf.
        apply bind_inv in Hb as (vt & s4 & _ & Hb). apply bind_inv in Hb as (rt0 & s5 & _ & Hb).
        apply bind_inv in Hb as (a & s6 & _ & Hb). injection Hb as <- _. cbn [fst length]. rewrite app_length. cbn. lia. }
    apply L in H1 as Hl. cbn [fst length] in Hl.
    apply bind_inv in H as (rr & s2 & Hr & H). apply bind_inv in H as (fn & s3 & Hp & H). injection H as <- <- <-.
    rewrite push_type_eq in Hp. injection Hp as <- <-.
    exists args. split; [apply head_push_new|]. split; [lia|].
    intros b tsp ->. destruct f as [|f]; [discriminate|]. cbn [Tc.afix astep r_type] in Hr. unfold type_body in Hr.
    apply bind_inv in Hr as (i & s4 & Hpi & Hr). injection Hr as <- <-. cbn [fst].
    rewrite push_type_eq in Hpi. injection Hpi as <- <-.
    assert (X : head (push_st (match b with BVoid => HVoid | BNil => HNil | BUnknown => HUnknown | BInt => HInt
                                         | BFloat => HFloat | BBool => HBool | BStr => HStr end) s1) (next s1)
                = Some (base_head b)) by (destruct b; apply head_push_new).
    unfold head. rewrite lk_push_old by (cbn [push_st next]; lia).
    unfold head in X. destruct (lk (push_st _ s1) (next s1)) as [n|] eqn:En; [|discriminate].
    rewrite lk_push_new in En. injection En as <-. cbn [nrep] in *.
    rewrite lk_push_old by (cbn [push_st next]; lia). exact X.
  Qed.

  (* the value of a function expression is a function class with as many parameters as the expression has *)
  Lemma function_yields name params rty body pure fsp f ctx s r s' :
    wf s -> r_expr (afix f) (EFunction name params rty body pure fsp) ctx s = Ok (r, s') ->
    wf s' /\ ext s s' /\ exists ps rt p, head s' (snd r) = Some (HFn ps rt p) /\ length ps = length params.
  Proof.
    intros W H. destruct (ap_expr _ (PA f) _ _ _ _ _ W H) as [W' E']. split; [assumption|]. split; [assumption|].
    destruct f as [|f]; [discriminate|]. cbn [Tc.afix astep r_expr] in H. unfold expr_body in H.
    apply bind_inv in H as ([er ex] & s1 & H1 & H). cbv beta iota in H1.
    match type of H1 with ?m s = _ => assert (Pm : pres m) by (pose proof (PA f); prs) end.
    destruct (Pm _ _ _ W H1) as [W1 E1].
    (* the function type is created first and only extended afterwards *)
    apply bind_inv in H1 as ([fty rt] & s2 & Ht & H1).
    destruct (type_from_function_spec _ _ _ _ _ _ _ _ W Ht) as (W2 & E2 & (args & Hf & Hl & _)).
    match type of H1 with ?m s2 = _ => assert (Pr : pres m) by (pose proof (PA f); prs) end.
    destruct (Pr _ _ _ W2 H1) as [_ E21].
    assert (Ex : ex = fty).
    { cbv zeta in H1. apply bind_inv in H1 as ([ar ir] & s3 & _ & H1). apply bind_inv in H1 as (ar0 & s4 & _ & H1).
      apply bind_inv in H1 as (u & s5 & _ & H1). apply bind_inv in H1 as (isv & s6 & _ & H1).
      destruct (isv && negb (is_void_ty rty)); [discriminate|].
      apply bind_inv in H1 as (u' & s7 & _ & H1). now injection H1. }
    subst ex.
    destruct E21 as (_ & _ & _ & E4 & _). destruct (E4 _ _ Hf eq_refl) as (h1 & Hh1 & Sh1).
    destruct h1; cbn in Sh1; try discriminate. apply PeanoNat.Nat.eqb_eq in Sh1.
    rewrite (bind_ok _ _ _ _ _ (find_type_ok _ _ _ Hh1)) in H.
    apply bind_inv in H as (c & s8 & Hc & H). injection H as <- <-. cbn [snd].
    destruct (copy_shape _ _ _ _ _ W1 Hc) as (_ & _ & (h & h' & Hh & Hh' & [Sh _])).
    rewrite Hh1 in Hh. injection Hh as <-. destruct h'; cbn in Sh; try discriminate. apply PeanoNat.Nat.eqb_eq in Sh.
    do 3 eexists. split; [exact Hh'|]. lia.
  Qed.

  (* a call with the wrong number of arguments *)
  Lemma rej_arity name params rty body pure fsp args sp f ctx s :
    wf s -> length args <> length params ->
    notok (r_expr (afix f) (ECall (EFunction name params rty body pure fsp) args sp) ctx s).
  Proof.
    intros W Hl. destruct f as [|f]; [apply notok_fuel|].
    cbn [Tc.afix astep r_expr]. unfold expr_body. apply bind_notok_l. cbv beta iota.
    apply bind_cases; [apply (ap_expr _ (PA _))|assumption|]. intros [r0 fn] s1 H1 W1 E1.
    destruct (function_yields _ _ _ _ _ _ _ _ _ _ _ W H1) as (_ & _ & (ps & rt & p & Hh & Hlen)). cbn [snd] in Hh.
    rewrite (bind_ok _ _ _ _ _ (find_type_ok _ _ _ Hh)).
    destruct (Nat.eqb (length args) (length ps)) eqn:El; [apply PeanoNat.Nat.eqb_eq in El; lia|]. apply notok_fail.
  Qed.

  (* a returned value contradicting the declared return type: fn ... -> int do ret "a" end *)
  Lemma rej_ret_type name params b tsp value rsp pure fsp tv f ctx s :
    wf s -> lit_type value = Some tv -> rigid tv = true -> rigid (base_head b) = true ->
    same_shape (base_head b) tv = false ->
    notok (r_expr (afix f) (EFunction name params (TResolved b tsp) [SRet (Some value) rsp] pure fsp) ctx s).
  Proof.
    intros W Lv Rv Rb Sh. destruct f as [|f]; [apply notok_fuel|].
    cbn [Tc.afix astep r_expr]. unfold expr_body. apply bind_notok_l. cbv beta iota.
    apply bind_cases; [eapply pres_type_from_function; [exact PG|apply PA]|assumption|]. intros [fty rt] s1 H1 W1 E1.
    destruct (type_from_function_spec _ _ _ _ _ _ _ _ W H1) as (_ & _ & (fargs & _ & _ & Hrt)).
    specialize (Hrt _ _ eq_refl). cbv zeta.
    (* the block: one `ret value` *)
    unfold expression_block. cbn [foldM last_stmt].
    assert (Blk : forall s0, wf s0 -> head s0 rt = Some (base_head b) ->
              forall k : (option tyid * option tyid) -> M retn,
              (forall x s2, wf s2 -> head s2 rt = Some (base_head b) -> head s2 x = Some tv -> notok (k (Some x, None) s2)) ->
              notok ((x <- (r <- (b' <- (sr <- r_stmt (afix f) (SRet (Some value) rsp) (enter_fn pure ctx);;
                                              unify_option G fsp None sr);; ret b');; ret (r, @None tyid));; k x) s0)).
    { intros s0 W0 Hrt0 k Hk.
      destruct f as [|[|f]]; [do 4 apply bind_notok_l; apply notok_fuel| |].
      { do 4 apply bind_notok_l. cbn [Tc.afix astep r_stmt]. unfold stmt_body. apply bind_notok_l. apply notok_fuel. }
      assert (Es : r_stmt (afix (S (S f))) (SRet (Some value) rsp) (enter_fn pure ctx) s0 = Ok (Some (next s0), push_st tv s0)).
      { cbn [Tc.afix astep r_stmt]. unfold stmt_body.
        rewrite (bind_ok _ _ _ _ _ (lit_eval kinds G f value tv (enter_fn pure ctx) s0 Lv Rv)). reflexivity. }
      rewrite (bind_ok _ _ s0 (Some (next s0), @None tyid) (push_st tv s0)).
      - apply Hk.
        + destruct (framed_push tv s0 _ _ W0 (push_type_eq _ _)) as [X _]. exact X.
        + destruct (pres_push tv s0 _ _ W0 (push_type_eq _ _)) as [_ E]. eapply head_keep; eassumption.
        + apply head_push_new.
      - rewrite (bind_ok _ _ s0 (Some (next s0)) (push_st tv s0)); [reflexivity|].
        rewrite (bind_ok _ _ s0 (Some (next s0)) (push_st tv s0)); [reflexivity|].
        rewrite (bind_ok _ _ _ _ _ Es). reflexivity. }
    apply Blk; [assumption|assumption|]. intros x s2 W2 Hrt2 Hx.
    destruct (is_void_ty (TResolved b tsp)) eqn:Iv.
    - (* declared void: the pushed void does not unify with the value *)
      apply bind_notok_l.
      apply bind_cases; [apply pres_push|assumption|]. intros vd s3 H3 W3 E3.
      destruct (push_spec _ _ _ _ W2 H3) as (_ & _ & Hvd). cbn [unify_option]. apply bind_notok_l.
      apply (unify_rejects g fsp x vd s3 tv HVoid W3); try reflexivity; try (now apply rigid_known).
      + eapply head_keep; eassumption.
      + assumption.
      + destruct b; try discriminate Iv. cbn in Sh. destruct tv; cbn in Sh |- *; congruence.
    - cbn [unify_option]. rewrite (bind_ok (ret (Some x)) _ s2 (Some x) s2 eq_refl).
      apply bind_notok_l. apply bind_notok_l.
      apply (unify_rejects g fsp rt x s2 (base_head b) tv W2); try assumption; now apply rigid_known.
  Qed.

  (* ---- compound assignment with the same variable on both sides: x := true; x += x
     (accepted before d6dfc5c: sub_unify returns early when both sides are one class, so the constraint that
     was just added was never looked at) *)
  Lemma read_var_eval v rsp kd f ctx s t :
    existsb (N.eqb v) (tnames s) = false ->
    PositiveMap.find (N.succ_pos v) kinds = Some kd -> (inside_pure ctx && negb (immutable kd)) = false ->
    head s (N.succ_pos v) = Some t -> rigid t = true ->
    r_expr (afix (S f)) (ERead v rsp) ctx s = Ok ((None, N.succ_pos v), s).
  Proof.
    intros Tn Hk Hp Hh Rt. cbn [Tc.afix astep r_expr]. unfold expr_body. cbv beta iota.
    unfold var_kind, var_ty. rewrite Hk.
    rewrite (bind_ok _ _ s (None, N.succ_pos v) s).
    - cbv beta iota zeta. rewrite (bind_ok _ _ _ _ _ (find_type_ok _ _ _ Hh)). destruct t; try discriminate; reflexivity.
    - rewrite (bind_ok (is_type_name v) _ s false s) by (unfold is_type_name; rewrite Tn; reflexivity).
      rewrite (bind_ok (ret kd) _ s kd s eq_refl). rewrite Hp. reflexivity.
  Qed.

  (* the name of a blob or an enum is not a value (since 9c09349) *)
  Lemma read_type_name_notok v rsp f ctx s :
    existsb (N.eqb v) (tnames s) = true -> notok (r_expr (afix f) (ERead v rsp) ctx s).
  Proof.
    intros Tn. destruct f as [|f]; [apply notok_fuel|]. cbn [Tc.afix astep r_expr]. unfold expr_body.
    apply bind_notok_l. cbv beta iota.
    rewrite (bind_ok (is_type_name v) _ s true s) by (unfold is_type_name; rewrite Tn; reflexivity).
    apply notok_fail.
  Qed.

  Lemma rej_compound_self name v dk tsp lit dsp op k r1 r2 asp bsp tl f ctx s :
    wf s -> lit_type lit = Some tl -> rigid tl = true ->
    (op = Add /\ k = AAdd) \/ (op = Sub /\ k = ASub) \/ (op = Mul /\ k = AMul) ->
    arith_base_ok k tl tl = false ->
    notok (r_stmt (afix f) (SBlock [SDefinition name v dk (TImplied tsp) lit dsp;
                                    SAssignment op (ERead v r1) (ERead v r2) asp] bsp) ctx s).
  Proof.
    intros W Ll Rl Hop Bk. destruct f as [|f]; [apply notok_fuel|].
    cbn [Tc.afix astep r_stmt]. unfold stmt_body. apply bind_notok_l. unfold expression_block. apply bind_notok_l.
    cbn [foldM].
    (* the definition *)
    apply bind_cases; [pose proof (PA f); prs|assumption|]. intros acc1 s1 H1 W1 E1.
    apply bind_inv in H1 as (sr & s1' & Hd & Hu).
    assert (s1' = s1) by (destruct sr; cbn in Hu; injection Hu as _ <-; reflexivity). subst s1'.
    destruct f as [|f]; [discriminate|]. cbn [Tc.afix astep r_stmt] in Hd. unfold stmt_body, definition in Hd.
    destruct (inside_pure ctx && negb (immutable dk)) eqn:Hp; [discriminate|].
    apply bind_inv in Hd as (vt & s2 & Hv & Hd). pose proof Hv as Hv'. apply ShapesDecl_var_ty_inv in Hv' as [-> ->].
    assert (Hm : forall (k1 : list (string * N * span * ty) -> ty -> bool -> M unit),
               match lit with EFunction _ params rty _ pure _ => k1 params rty pure | _ => ret tt end = ret tt)
      by (intros; destruct lit; try discriminate Ll; reflexivity).
    rewrite Hm in Hd. rewrite (bind_ok (ret tt) _ s tt s eq_refl) in Hd.
    apply bind_inv_pres0 in Hd as (dt & s3 & _ & W3 & E3 & Hd); [|eapply pres_resolve_type, PA|assumption].
    apply bind_inv_pres0 in Hd as (u4 & s4 & _ & W4 & E4 & Hd); [|apply pres_add_constraint|assumption].
    apply bind_inv_pres0 in Hd as (u5 & s5 & _ & W5 & E5 & Hd); [|unfold unify; apply pres_bind; [apply (gp_unify0 G PG)|intros; apply pres_ret]|assumption].
    apply bind_inv in Hd as ([vr vl] & s6 & Hl & Hd).
    destruct (lit_spec _ _ _ lit _ _ _ _ _ Ll Rl W5 Hl) as (W6 & E6 & Hvl). cbn [snd] in Hvl.
    apply bind_inv in Hd as (u7 & s7 & H7 & Hd). injection Hd as _ Es. subst s7.
    destruct (unify_ok_heads _ _ _ _ _ _ _ W6 H7) as (W7 & E7 & Heq).
    assert (Hx : head s1 (N.succ_pos v) = Some tl).
    { rewrite Heq. eapply head_keep; eassumption. }
    (* the assignment *)
    apply bind_notok_l. apply bind_notok_l.
    cbn [Tc.afix astep r_stmt]. unfold stmt_body.
    unfold var_ty in Hv. destruct (PositiveMap.find (N.succ_pos v) kinds) as [kd|] eqn:Hk; [|discriminate].
    assert (Hca : can_assign kinds asp (ERead v r1) s1 = (if immutable kd then fail KAssignability r1 s1 else Ok (tt, s1))).
    { unfold can_assign, var_kind. rewrite Hk. unfold bind, ret. destruct (immutable kd); reflexivity. }
    destruct (immutable kd) eqn:Im; [apply bind_notok_l; rewrite Hca; apply notok_fail|].
    rewrite (bind_ok _ _ _ _ _ Hca).
    destruct (inside_pure ctx) eqn:Ip; [apply notok_fail|].
    destruct f as [|f]; [apply bind_notok_l, notok_fuel|].
    assert (Hp' : (inside_pure ctx && negb (immutable kd)) = false) by (rewrite Ip; reflexivity).
    destruct (existsb (N.eqb v) (tnames s1)) eqn:Tn; [apply bind_notok_l; now apply read_type_name_notok|].
    rewrite (bind_ok _ _ _ _ _ (read_var_eval v r2 kd f ctx s1 tl Tn Hk Hp' Hx Rl)). cbv beta iota zeta.
    rewrite (bind_ok _ _ _ _ _ (read_var_eval v r1 kd f ctx s1 tl Tn Hk Hp' Hx Rl)). cbv beta iota zeta.
    set (x := N.succ_pos v) in *.
    assert (Core : forall con, (forall g' s', wf s' -> head s' x = Some tl -> notok (check_one (gfix g') asp x (con x) s')) ->
              notok (((add_constraint x (con x);;; add_constraint x (con x));;;
                      (unify G asp x x;;; g_check G asp x);;; unify_option G asp None None) s1)).
    { intros con Hc. apply bind_cases; [prs|assumption|]. intros u8 s8 H8 W8 E8.
      apply bind_inv in H8 as (u9 & s9 & H9 & H8).
      destruct (add_constraint_spec _ _ _ _ _ W1 H9) as (W9 & E9 & Hd9 & _ & C9 & _).
      destruct (add_constraint_spec _ _ _ _ _ W9 H8) as (_ & _ & Hd8 & _ & C8 & _).
      apply bind_notok_l.
      apply bind_cases; [unfold unify; apply pres_bind; [apply (gp_unify0 G PG)|intros; apply pres_ret]|assumption|].
      intros u10 s10 H10 W10 E10.
      (* unify x x changes nothing: both sides are one class *)
      assert (s10 = s8).
      { unfold unify in H10. apply bind_inv in H10 as ([r0 sn] & s11 & H11 & H10). injection H10 as _ <-.
        destruct g as [|g0]; [discriminate|]. cbn [gfix gstep g_unify] in H11. unfold unify_body in H11.
        apply bind_inv in H11 as (ra & s12 & Ha & H11). apply find_inv in Ha as [-> Ha].
        apply bind_inv in H11 as (rb & s13 & Hb & H11). apply find_inv in Hb as [-> Hb].
        assert (ra = rb) by congruence. subst rb. rewrite Pos.eqb_refl in H11. cbn [orb] in H11. now injection H11. }
      subst s10.
      apply (check_rejects g asp x (con x) s8 W8 C8).
      intros g' s' W' E'. apply Hc; [assumption|].
      eapply head_keep; [exact E'| |exact Rl]. rewrite Hd8, Hd9. exact Hx. }
    assert (Ar : forall g' s', wf s' -> head s' x = Some tl -> notok (g_arith (gfix g') k asp x x s'))
      by (intros; eapply arith_rejects; eassumption).
    destruct Hop as [[-> ->]|[[-> ->]|[-> ->]]].
    - apply (Core CAdd). intros. cbn [check_one]. now apply Ar.
    - apply (Core CSub). intros. cbn [check_one]. now apply Ar.
    - apply (Core CMul). intros. cbn [check_one]. now apply Ar.
  Qed.
End Kinds.

(* ------------------------------------------------------------------ the kinds as predicates on the filler *)

Definition arith_of (op : binop) : option arithk :=
  match op with
  | Add => Some AAdd | Sub => Some ASub | Mul => Some AMul | Greater | Less => Some ACmp
  | _ => None
  end.

(* literals are atoms, under no assumption about the state *)
Definition lit_atom (e : expr) (t : tyh) : Prop := lit_type e = Some t /\ rigid t = true.

Lemma lit_atom_spec kinds g e t f ctx s r s' :
  lit_atom e t -> wf s -> True -> r_expr (afix kinds (gfix g) f) e ctx s = Ok (r, s') -> head s' (snd r) = Some t.
Proof. intros [L R] W _ H. exact (proj2 (proj2 (lit_spec _ _ _ _ _ _ _ _ _ L R W H))). Qed.

Lemma lit_atom_not_fn e t : lit_atom e t -> match e with EFunction _ _ _ _ _ _ => False | _ => True end.
Proof. intros [L _]. destruct e; try exact I. discriminate. Qed.

Inductive bad_expr_g (atom : expr -> tyh -> Prop) : expr -> Prop :=
(* an arithmetic or ordering operator applied to atoms of incompatible types: 1 + "a", "a" - "b", 1 * 1.0, 1 < true *)
| BadArith op a b sp ta tb k :
    atom a ta -> atom b tb ->
    arith_of op = Some k -> arith_base_ok k ta tb = false -> bad_expr_g atom (EBinOp op a b sp)
(* == != <=> between different types: 1 == 1.0 *)
| BadEqu op a b sp ta tb :
    atom a ta -> atom b tb ->
    (op = Equals \/ op = NotEquals \/ op = AssertEq) -> same_shape ta tb = false -> bad_expr_g atom (EBinOp op a b sp)
(* not 1 *)
| BadNot a sp ta : atom a ta -> same_shape ta HBool = false -> bad_expr_g atom (EUniOp Not a sp)
(* -"abc" *)
| BadNeg a sp ta : atom a ta ->
    (match ta with HInt | HFloat => false | _ => true end) = true -> bad_expr_g atom (EUniOp Neg a sp)
(* 1 and b, b or "x" *)
| BadAndL op a b sp ta : atom a ta -> same_shape ta HBool = false ->
    (op = And \/ op = Or) -> bad_expr_g atom (EBinOp op a b sp)
| BadAndR op a b sp tb : atom b tb ->
    same_shape tb HBool = false -> (op = And \/ op = Or) -> bad_expr_g atom (EBinOp op a b sp)
(* 1(args) *)
| BadCallNonFn a args sp ta : atom a ta -> bad_expr_g atom (ECall a args sp)
(* if 1 do .. *)
| BadIfCond c body bsp rest sp tc : atom c tc -> same_shape HBool tc = false ->
    bad_expr_g atom (EIf (IfBranch (Some c) body bsp :: rest) sp)
(* [1, "a", ..] *)
| BadHeteroList a b rest sp ta tb :
    atom a ta -> atom b tb ->
    same_shape ta tb = false -> bad_expr_g atom (ECollection CList (a :: b :: rest) sp)
(* a call of a function expression with the wrong number of arguments: (fn a, b do .. end)(1) *)
| BadArity name params rty body pure fsp args sp :
    length args <> length params -> bad_expr_g atom (ECall (EFunction name params rty body pure fsp) args sp)
(* a returned value contradicting the declared return type: fn .. -> int do ret "a" end *)
| BadRetType name params b tsp value rsp pure fsp tv :
    lit_type value = Some tv -> rigid tv = true -> rigid (base_head b) = true -> same_shape (base_head b) tv = false ->
    bad_expr_g atom (EFunction name params (TResolved b tsp) [SRet (Some value) rsp] pure fsp).

Inductive bad_stmt_g (atom : expr -> tyh -> Prop) : stmt -> Prop :=
| BadExprStmt e sp : bad_expr_g atom e -> bad_stmt_g atom (SStatementExpression e sp)
(* loop 1 do .. *)
| BadLoopCond c body sp tc : atom c tc -> same_shape HBool tc = false ->
    bad_stmt_g atom (SLoop c body sp)
(* x: int = "a" *)
| BadVarType name var kind b tsp value sp tv :
    atom value tv -> rigid (base_head b) = true ->
    same_shape (base_head b) tv = false -> bad_stmt_g atom (SDefinition name var kind (TResolved b tsp) value sp)
(* x := true ; x += x  (a compound assignment on a type without that operator, the same variable on both sides) *)
| BadCompoundSelf name v dk tsp lit dsp op k r1 r2 asp bsp tl :
    lit_type lit = Some tl -> rigid tl = true ->
    (op = Add /\ k = AAdd) \/ (op = Sub /\ k = ASub) \/ (op = Mul /\ k = AMul) ->
    arith_base_ok k tl tl = false ->
    bad_stmt_g atom (SBlock [SDefinition name v dk (TImplied tsp) lit dsp; SAssignment op (ERead v r1) (ERead v r2) asp] bsp).

(* the mismatch kinds over any notion of atom that is sound under an extension-closed invariant *)
Section Generic.
  Variable kinds : PositiveMap.t varkind.
  Variable g : nat.
  Variable Inv : st -> Prop.
  Hypothesis Inv_ext : forall s s', wf s -> ext s s' -> Inv s -> Inv s'.
  Variable atom : expr -> tyh -> Prop.
  Hypothesis atom_rigid : forall e t, atom e t -> rigid t = true.
  Hypothesis atom_spec : forall e t f ctx s r s',
    atom e t -> wf s -> Inv s -> r_expr (afix kinds (gfix g) f) e ctx s = Ok (r, s') -> head s' (snd r) = Some t.
  Hypothesis atom_not_fn : forall e t, atom e t -> match e with EFunction _ _ _ _ _ _ => False | _ => True end.

  Theorem bad_expr_g_rejected e : bad_expr_g atom e ->
    forall f ctx s, wf s -> Inv s -> notok (r_expr (afix kinds (gfix g) f) e ctx s).
  Proof.
    intros B f ctx s W HI. destruct B.
    - eapply (rej_arith kinds g Inv Inv_ext atom atom_rigid atom_spec); try eassumption.
      destruct op; try discriminate; cbn in *; congruence.
    - eapply (rej_equ kinds g Inv Inv_ext atom atom_rigid atom_spec); try eassumption.
      destruct H1 as [H1|[H1|H1]]; subst op; exact I.
    - eapply (rej_not kinds g Inv atom atom_rigid atom_spec); eassumption.
    - eapply (rej_neg kinds g Inv atom atom_rigid atom_spec); eassumption.
    - eapply (rej_and_l kinds g Inv atom atom_rigid atom_spec); try eassumption. destruct H1 as [H1|H1]; subst op; exact I.
    - eapply (rej_and_r kinds g Inv Inv_ext atom atom_rigid atom_spec); try eassumption. destruct H1 as [H1|H1]; subst op; exact I.
    - eapply (rej_call_nonfn kinds g Inv atom atom_rigid atom_spec); eassumption.
    - eapply (rej_if_cond kinds g Inv atom atom_rigid atom_spec); eassumption.
    - eapply (rej_hetero_list kinds g Inv Inv_ext atom atom_rigid atom_spec); eassumption.
    - eapply rej_arity; eassumption.
    - eapply rej_ret_type; eassumption.
  Qed.

  Theorem bad_stmt_g_rejected st : bad_stmt_g atom st ->
    forall f ctx s, wf s -> Inv s -> notok (r_stmt (afix kinds (gfix g) f) st ctx s).
  Proof.
    intros B f ctx s W HI. destruct B.
    - destruct f as [|f]; [apply notok_fuel|]. cbn [afix astep r_stmt]. unfold stmt_body.
      apply bind_notok_l. now apply bad_expr_g_rejected.
    - eapply (rej_loop_cond kinds g Inv atom atom_rigid atom_spec); eassumption.
    - eapply (rej_var_type kinds g Inv Inv_ext atom atom_rigid atom_spec atom_not_fn); eassumption.
    - eapply rej_compound_self; eassumption.
  Qed.
End Generic.

(* the literal instance *)
Notation bad_expr := (bad_expr_g lit_atom).
Notation bad_stmt := (bad_stmt_g lit_atom).

Theorem bad_expr_rejected e : bad_expr e ->
  forall kinds g f ctx s, wf s -> notok (r_expr (afix kinds (gfix g) f) e ctx s).
Proof.
  intros B kinds g f ctx s W.
  apply (bad_expr_g_rejected kinds g (fun _ => True) (fun _ _ _ _ _ => I) lit_atom (fun e t H => proj2 H)
           (lit_atom_spec kinds g) e B f ctx s W I).
Qed.

Theorem bad_stmt_rejected st : bad_stmt st ->
  forall kinds g f ctx s, wf s -> notok (r_stmt (afix kinds (gfix g) f) st ctx s).
Proof.
  intros B kinds g f ctx s W.
  apply (bad_stmt_g_rejected kinds g (fun _ => True) (fun _ _ _ _ _ => I) lit_atom (fun e t H => proj2 H)
           (lit_atom_spec kinds g) lit_atom_not_fn st B f ctx s W I).
Qed.

Theorem bad_stmt_rejected_top st : bad_stmt st ->
  forall kinds g f s, wf s -> notok (outer_statement kinds (gfix g) (afix kinds (gfix g) f) st ctx_new s).
Proof.
  intros B kinds g f s W. pose proof (bad_stmt_rejected st B kinds g (S f) ctx_new s W) as N.
  destruct B; unfold outer_statement; try apply notok_panicm.
  apply bind_notok_l. exact N.
Qed.

(* ================================================================== C03: every placement *)

Lemma at_all (Pe Ps : tctx -> Prop) :
  (forall c, Pe c) -> (forall c, Ps c) ->
  (forall C ctx, at_e Pe Ps C ctx) /\ (forall C ctx, at_s Pe Ps C ctx).
Proof.
  intros He Hs.
  assert (X : forall n, (forall C ctx, ectx_size C <= n -> at_e Pe Ps C ctx) /\
                        (forall C ctx, sctx_size C <= n -> at_s Pe Ps C ctx)).
  { induction n as [|n [IHe IHs]]; split; intros C ctx Hn.
    - destruct C; cbn in Hn; lia.
    - destruct C; cbn in Hn; lia.
    - destruct C; cbn [at_e]; cbn [ectx_size] in Hn; try apply He; try (apply IHe; lia); apply IHs; lia.
    - destruct C; cbn [at_s]; cbn [sctx_size] in Hn; try apply Hs; try (apply IHe; lia); apply IHs; lia. }
  split; intros C ctx; [apply (proj1 (X (ectx_size C)))|apply (proj2 (X (sctx_size C)))]; lia.
Qed.

(* A program that contains one of the listed mismatches, at any position (inside the value of any
   top-level definition, at any depth: operand, argument, list / tuple element, blob field initialiser,
   condition, branch / loop / function / closure body, or as a top-level definition itself), is not
   accepted: the type checker does not return Ok (it returns Err, or the model runs out of fuel;
   it cannot panic into acceptance), and nothing is emitted. *)
Theorem C03_placement : forall (e : expr) (st : stmt) (P : pctx) (fuel : nat) (vars : list var),
  bad_expr e -> bad_stmt st ->
  typecheck fuel (mkResolved vars (plug_p e st P)) <> Ok tt.
Proof.
  intros e st P fuel vars Be Bs. apply typecheck_notok. intros s W.
  apply solve_notok; [apply gfix_pres|assumption|].
  assert (Re : forall c, rej_e (kinds_of vars 1 (PositiveMap.empty varkind)) (gfix fuel) e c)
    by (intros c f s' W'; now apply bad_expr_rejected).
  assert (Rs : forall c, rej_s (kinds_of vars 1 (PositiveMap.empty varkind)) (gfix fuel) st c)
    by (intros c f s' W'; now apply bad_stmt_rejected).
  destruct P; cbn [at_p].
  - apply (proj1 (at_all _ _ Re Rs)).
  - intros f s' W'. now apply bad_stmt_rejected_top.
Qed.

(* an expression mismatch anywhere, including as an unused expression statement *)
Corollary C03_placement_expr : forall e sp P fuel vars,
  bad_expr e -> typecheck fuel (mkResolved vars (plug_p e (SStatementExpression e sp) P)) <> Ok tt.
Proof. intros. apply C03_placement; [assumption|now constructor]. Qed.

Corollary C03_no_output : forall {L} (lower : resolved -> L) e st P fuel vars,
  bad_expr e -> bad_stmt st ->
  forall lua, compile_after_order lower fuel (mkResolved vars (plug_p e st P)) <> COk lua.
Proof. intros. apply no_output_on_error. now apply C03_placement. Qed.
