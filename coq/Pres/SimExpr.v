(* The simulation for EXPRESSIONS of the fragment: running the statements emitted for the lowered code of an
   expression, from a Lua configuration related to the Sylt configuration, ends in a related configuration
   in which the result variable -- a local, an inlined expression in the table, or dropped when never
   used -- denotes the value the reference interpreter computed; a failed <=> ends in a Lua error. *)
From Coq Require Import String Ascii List NArith ZArith QArith Bool Lia.
From Sylt Require Import Syntax.Resolved.
From Sylt Require Sem.Values Sem.Runtime Sem.SyltSem.
From Sylt Require Import Back.IR Back.Emit Back.ScopeProofs.
From Sylt Require Import Pres.EmitAst Pres.EmitRel Pres.Names Pres.LuaFuel Pres.LuaEv Pres.Preamble.
From Sylt Require Import Pres.Frag.
From Sylt Require Import Pres.SimDefs Pres.SimOps Pres.SimVals.
From Sylt Require Import Lua.LuaAst Lua.LuaMap Lua.LuaNum Lua.LuaProofs Lua.LuaCore.
Import ListNotations.
Local Open Scope N_scope.

(* ------------------------------------------------------------------ Sylt-side inversion *)

Lemma sbind_inv {A B} (m : SyltSem.M A) (k : A -> SyltSem.M B) st r st' :
  SyltSem.bind m k st = (r, st') ->
  (exists a st1, m st = (SyltSem.RVal a, st1) /\ k a st1 = (r, st')) \/
  (exists o, m st = (SyltSem.RStop o, st') /\ r = SyltSem.RStop o) \/
  (exists c, m st = (SyltSem.RAbrupt c, st') /\ r = SyltSem.RAbrupt c).
Proof.
  unfold SyltSem.bind. destruct (m st) as [[a|o|c] st1]; intros H.
  - left. eauto.
  - right. left. inversion H; subst. eauto.
  - right. right. inversion H; subst. eauto.
Qed.

Lemma snapshot_SV x st : SyltSem.snapshot (SV x) st = (SyltSem.RVal x, st).
Proof. reflexivity. Qed.

(* which outcomes of the reference interpreter the theorem speaks about *)
Definition good_stop (o : SyltSem.outcome) : Prop :=
  match o with SyltSem.OAssert | SyltSem.OUnreachable _ => True | _ => False end.

(* ---- freshness of a range of temporaries [c, c') with respect to the table, the frozen set and the
   Lua environment; user variables (< bound) are never in the table ---- *)

Definition lut_ok (bound : N) (l : alut) (c c' : N) : Prop :=
  forall t, (c <= t < c' \/ t < bound) -> alut_get l t = None.

Definition lut_frame (l l' : alut) (c c' : N) : Prop :=
  forall w, ~ (c <= w < c') -> alut_get l' w = alut_get l w.

Definition E_free (E : env) (c c' : N) : Prop := forall t, c <= t < c' -> sget (fmt_var t) E = None.

Definition F_new (F F' : list N) (c c' : N) : Prop := incl F F' /\ forall t, In t F' -> In t F \/ c <= t < c'.

Lemma lut_ok_sub bound l c c' a b : lut_ok bound l c c' -> c <= a -> b <= c' -> lut_ok bound l a b.
Proof. intros H Ha Hb t Ht. apply H. lia. Qed.

Lemma lut_ok_step bound l l1 c c0 c1 :
  lut_ok bound l c c1 -> lut_frame l l1 c c0 -> bound <= c -> c <= c0 -> lut_ok bound l1 c0 c1.
Proof. intros H Hf Hb Hc t Ht. rewrite Hf by lia. apply H. lia. Qed.

Lemma lut_frame_refl l c c' : lut_frame l l c c'.
Proof. intros w _. reflexivity. Qed.

Lemma lut_frame_trans l l1 l2 c c0 c1 :
  lut_frame l l1 c c0 -> lut_frame l1 l2 c0 c1 -> c <= c0 -> c0 <= c1 -> lut_frame l l2 c c1.
Proof. intros H1 H2 Ha Hb w Hw. rewrite H2 by lia. apply H1. lia. Qed.

Lemma lut_frame_widen l l' a b c c' : lut_frame l l' a b -> c <= a -> b <= c' -> lut_frame l l' c c'.
Proof. intros H Ha Hb w Hw. apply H. lia. Qed.

Lemma E_free_sub E c c' a b : E_free E c c' -> c <= a -> b <= c' -> E_free E a b.
Proof. intros H Ha Hb t Ht. apply H. lia. Qed.

Lemma E_free_step bound E st E1 st1 c c0 c1 :
  E_free E c c1 -> wframe bound c c0 E st E1 st1 -> bound <= c -> c <= c0 -> E_free E1 c0 c1.
Proof.
  intros H Hf Hb Hc t Ht. destruct (sget (fmt_var t) E1) as [p|] eqn:Hs; [|reflexivity].
  destruct (wr_new _ _ _ _ _ _ _ Hf _ _ Hs) as [H'|[(t' & Heq & Hr)|(t' & Heq & Hr)]].
  - rewrite H in H' by lia. discriminate.
  - apply fmt_var_inj in Heq. subst. lia.
  - apply fmt_var_inj in Heq. subst. lia.
Qed.

Lemma F_new_refl F c c' : F_new F F c c'.
Proof. split; [apply incl_refl | auto]. Qed.

Lemma F_new_trans F F1 F2 c c0 c1 :
  F_new F F1 c c0 -> F_new F1 F2 c0 c1 -> c <= c0 -> c0 <= c1 -> F_new F F2 c c1.
Proof.
  intros [Hi1 Hn1] [Hi2 Hn2] Ha Hb. split; [eapply incl_tran; eassumption|].
  intros t Ht. destruct (Hn2 t Ht) as [H|H]; [|right; lia]. destruct (Hn1 t H) as [H'|H']; [left; exact H' | right; lia].
Qed.

Lemma F_new_widen F F' a b c c' : F_new F F' a b -> c <= a -> b <= c' -> F_new F F' c c'.
Proof. intros [Hi Hn] Ha Hb. split; [exact Hi|]. intros t Ht. destruct (Hn t Ht); [left; assumption | right; lia]. Qed.

Lemma F_out_sub bound F c c' a b : F_out bound F c c' -> c <= a -> b <= c' -> F_out bound F a b.
Proof. intros H Ha Hb t Ht. destruct (H t Ht). split; [assumption | lia]. Qed.

Lemma F_out_step bound F F1 c c0 c1 :
  F_out bound F c c1 -> F_new F F1 c c0 -> bound <= c -> c <= c0 -> F_out bound F1 c0 c1.
Proof.
  intros H [_ Hn] Hb Hc t Ht. destruct (Hn t Ht) as [H'|H'].
  - destruct (H t H'). split; [assumption | lia].
  - split; lia.
Qed.

Lemma aexpand_user bound l c c' v : lut_ok bound l c c' -> v < bound -> aexpand l v = EVar (fmt_var v).
Proof. intros H Hv. unfold aexpand. rewrite H; [reflexivity | right; exact Hv]. Qed.

Lemma aname_none l v : alut_get l v = None -> aname l v = fmt_var v.
Proof. intros H. unfold aname. rewrite H. reflexivity. Qed.

(* ---- kinded values ---- *)
(* the arguments of a call, by the kinds of the parameters: related plain values, or the two halves of a closure
   of the world with the kind the parameter wants *)
Definition arel (W : world) (K : kind) (av : sval) (lv : value) : Prop :=
  match K with
  | KP => vrel av lv
  | KF _ _ => exists d, w_D W d /\ dkind d = K /\ av = SyltSem.SClos (fd_ci d) /\ lv = VFun (fd_fid d)
  end.

Inductive Forall3 {A B C} (R : A -> B -> C -> Prop) : list A -> list B -> list C -> Prop :=
| F3_nil : Forall3 R [] [] []
| F3_cons a b c la lb lc : R a b c -> Forall3 R la lb lc -> Forall3 R (a :: la) (b :: lb) (c :: lc).

Lemma Forall3_length {A B C} (R : A -> B -> C -> Prop) la lb lc :
  Forall3 R la lb lc -> length lb = length la /\ length lc = length la.
Proof. induction 1; cbn; [auto | lia]. Qed.


Section Sim.
Variable pv : N.
Variable sv : N.
Variable bound : N.
Variable u : counts.
Variable fl : list (N * kind).
Variable W : world.

Lemma aiis_frame l t ex c c' : c <= t < c' -> lut_frame l (snd (aiis u l t ex)) c c'.
Proof. intros Ht w Hw. apply aiis_lut. lia. Qed.

(* the structural part: the code segment, numbered in [c, c'), emits b and turns the table l into l' *)
Definition cshape (l : alut) (code : list ir) (b : block) (l' : alut) (c c' : N) : Prop :=
  Emits u l code b l' /\ c <= c' /\ lut_frame l l' c c' /\ nolabel b.

Lemma nolabel_app b1 b2 : nolabel b1 -> nolabel b2 -> nolabel (b1 ++ b2).
Proof. unfold nolabel. intros H1 H2. apply Forall_app. split; assumption. Qed.

Lemma cshape_nil l c : cshape l [] [] l c c.
Proof. split; [apply Em_nil | split; [lia | split; [apply lut_frame_refl | constructor]]]. Qed.

Lemma cshape_app l a1 b1 l1 c c1 a2 b2 l2 c2 :
  cshape l a1 b1 l1 c c1 -> cshape l1 a2 b2 l2 c1 c2 -> cshape l (a1 ++ a2) (b1 ++ b2) l2 c c2.
Proof.
  intros (H1 & Hc1 & Hf1 & Hn1) (H2 & Hc2 & Hf2 & Hn2).
  split; [eapply Emits_app; eassumption | split; [lia | split; [eapply lut_frame_trans; eassumption | apply nolabel_app; assumption]]].
Qed.

Lemma cshape_cons l op b1 l1 c c1 a2 b2 l2 c2 :
  cshape l [op] b1 l1 c c1 -> cshape l1 a2 b2 l2 c1 c2 -> cshape l (op :: a2) (b1 ++ b2) l2 c c2.
Proof. intros H1 H2. apply (cshape_app l [op] b1 l1 c c1 a2 b2 l2 c2 H1 H2). Qed.

(* one instruction that computes a value into the temporary t *)
Lemma cshape_iis l op t ex c c' :
  c <= t < c' -> simple_op op = true -> agen_one u l op = aiis u l t ex ->
  cshape l [op] (fst (aiis u l t ex)) (snd (aiis u l t ex)) c c'.
Proof.
  intros Ht Hs Hg. split; [rewrite <- Hg; apply Emits_one; exact Hs|].
  split; [lia | split; [apply aiis_frame; exact Ht|]].
  unfold aiis. destruct (count_of u t =? 0); [constructor|]. destruct (count_of u t =? 1); [constructor|].
  repeat constructor.
Qed.

(* one instruction that emits statements and leaves the table alone *)
Definition not_label_op (op : ir) : bool := match op with ILabel _ => false | _ => true end.

Lemma agen_one_nolabel l op : not_label_op op = true -> nolabel (fst (agen_one u l op)).
Proof.
  intros H. destruct op; try discriminate; cbn [agen_one];
    repeat match goal with
           | |- context [aiis u l ?t ?ex] =>
               unfold aiis; destruct (count_of u t =? 0); [|destruct (count_of u t =? 1)]
           | |- context [if ?x then _ else _] => destruct x
           end; cbn [fst]; repeat constructor.
Qed.

Lemma cshape_plain l op c c' :
  c <= c' -> simple_op op = true -> not_label_op op = true -> snd (agen_one u l op) = l ->
  cshape l [op] (fst (agen_one u l op)) l c c'.
Proof.
  intros Hc Hs Hnl Hg. split.
  - pose proof (Emits_one u l op Hs) as H. rewrite Hg in H. exact H.
  - split; [exact Hc | split; [apply lut_frame_refl | apply agen_one_nolabel; exact Hnl]].
Qed.

Lemma cshape_widen l code b l' c c' c0 c1 :
  cshape l code b l' c c' -> c0 <= c -> c' <= c1 -> cshape l code b l' c0 c1.
Proof.
  intros (H & Hc & Hf & Hn) H0 H1. split; [exact H | split; [lia | split; [eapply lut_frame_widen; eassumption | exact Hn]]].
Qed.

(* pieces whose temporaries are not numbered in emission order (and/or, if): same range for all *)
Lemma cshape_app' l a1 b1 l1 a2 b2 l2 c c' :
  cshape l a1 b1 l1 c c' -> cshape l1 a2 b2 l2 c c' -> cshape l (a1 ++ a2) (b1 ++ b2) l2 c c'.
Proof.
  intros (H1 & Hc1 & Hf1 & Hn1) (H2 & Hc2 & Hf2 & Hn2).
  split; [eapply Emits_app; eassumption | split; [lia | split; [|apply nolabel_app; assumption]]].
  intros w Hw. rewrite Hf2 by exact Hw. apply Hf1. exact Hw.
Qed.

Lemma cshape_cons' l op b1 l1 a2 b2 l2 c c' :
  cshape l [op] b1 l1 c c' -> cshape l1 a2 b2 l2 c c' -> cshape l (op :: a2) (b1 ++ b2) l2 c c'.
Proof. intros H1 H2. apply (cshape_app' l [op] b1 l1 a2 b2 l2 c c' H1 H2). Qed.

Lemma cshape_if l a ct bt l1 c c' :
  cshape l ct bt l1 c c' -> cshape l (IIf a :: ct ++ [IEnd]) [SIf (aexpand l a) bt []] l1 c c'.
Proof.
  intros (H & Hc & Hf & Hn). split; [|split; [exact Hc | split; [exact Hf | repeat constructor]]].
  apply (Em_if u l a ct bt l1 [] [] l1 H (Em_nil u l1)).
Qed.

(* the user variables and the function names in scope keep their binding *)
Definition keep (sc : list N) (E E' : env) : Prop :=
  forall v, In v sc \/ In v (fnames fl) -> sget (fmt_var v) E' = sget (fmt_var v) E.

Lemma keep_refl sc E : keep sc E E. Proof. intros v _. reflexivity. Qed.
Lemma keep_trans sc E1 E2 E3 : keep sc E1 E2 -> keep sc E2 E3 -> keep sc E1 E3.
Proof. intros H1 H2 v Hv. rewrite (H2 v Hv). apply H1. exact Hv. Qed.
Lemma keep_trans_incl sc sc1 E1 E2 E3 : keep sc E1 E2 -> keep sc1 E2 E3 -> incl sc sc1 -> keep sc E1 E3.
Proof.
  intros H1 H2 Hi v Hv. rewrite H2; [apply H1; exact Hv|]. destruct Hv as [Hv|Hv]; [left; apply Hi; exact Hv | right; exact Hv].
Qed.
(* every name in scope is a user variable (below bound) *)
Lemma scope_bound sc e st E stL v :
  rel pv sv bound u fl W sc e st E stL -> In v sc \/ In v (fnames fl) -> v < bound.
Proof.
  intros Hrel [Hv|Hv]; [destruct (r_scb _ _ _ _ _ _ _ _ _ _ _ Hrel v Hv) | destruct (r_flb _ _ _ _ _ _ _ _ _ _ _ Hrel v Hv)]; assumption.
Qed.
(* a new temporary *)
Lemma keep_temp sc e st E stL t p :
  rel pv sv bound u fl W sc e st E stL -> bound <= t -> keep sc E (sset (fmt_var t) p E).
Proof.
  intros Hrel Hb v Hv. apply sget_sset_var. pose proof (scope_bound _ _ _ _ _ _ Hrel Hv). lia.
Qed.
(* a strict (temporaries only) frame keeps every user binding that exists; the ones that do not exist stay away *)
Lemma keep_lframe sc e st E stL c c' E' stL' :
  rel pv sv bound u fl W sc e st E stL -> lframe c c' E stL E' stL' -> bound <= c -> keep sc E E'.
Proof.
  intros Hrel Hf Hb v [Hv|Hv].
  - destruct (r_vars _ _ _ _ _ _ _ _ _ _ _ Hrel v Hv) as (cc & x & p & _ & _ & Hp & _).
    rewrite Hp. apply (lf_incl _ _ _ _ _ _ Hf). exact Hp.
  - assert (Hvb : v < bound) by (destruct (r_flb _ _ _ _ _ _ _ _ _ _ _ Hrel v Hv); assumption).
    destruct (sget (fmt_var v) E) as [p|] eqn:Hp; [apply (lf_incl _ _ _ _ _ _ Hf); exact Hp|].
    destruct (sget (fmt_var v) E') as [p'|] eqn:Hp'; [|reflexivity].
    destruct (lf_new _ _ _ _ _ _ Hf _ _ Hp') as [H|(t & Heq & Ht)]; [congruence|].
    apply fmt_var_inj in Heq. subst. lia.
Qed.

(* the success part of the conclusion; for a statement the scope grows from sc to sc' *)
Definition okstepS (sc sc' : list N) (e' : senv) (st' : sstate) (F : list N) (c c' : N)
           (E : env) (stL : state) (b : block) (E' : env) (stL' : state) (F' : list N) : Prop :=
  ExecS E b stL (ROk (E', SigNormal) stL') /\ wframe bound c c' E stL E' stL' /\
  rel pv sv bound u fl W sc' e' st' E' stL' /\ F_new F F' c c' /\ keep sc E E'.

Definition okstep (sc : list N) (e : senv) (st' : sstate) (F : list N) (c c' : N)
           (E : env) (stL : state) (b : block) (E' : env) (stL' : state) (F' : list N) : Prop :=
  okstepS sc sc e st' F c c' E stL b E' stL' F'.

(* the Sylt environment after a statement agrees with the one before on the old scope, on print and on the
   callable functions *)
Definition sext (sc : list N) (e e' : senv) : Prop :=
  forall v, In v sc \/ v = pv \/ In v (fnames fl) -> SyltSem.lookup e' v = SyltSem.lookup e v.

(* ---- ends of the emitted block that are not normal: a Lua error for a failed <=>, the signals break /
   goto L<ctx> for break / continue.  After an abrupt exit the relation holds again seen from the
   environment and scope the block started with (the enclosing Lua block restores its environment). ---- *)
Definition xkeep (c c' : N) (E : env) (stL stL' : state) : Prop :=
  (s_ncell stL <= s_ncell stL')%positive /\
  forall t p, bound <= t -> ~ (c <= t < c') -> sget (fmt_var t) E = Some p -> get_cell stL' p = get_cell stL p.

Definition exit_ok {A} (ctx : N) (sc : list N) (e : senv) (c c' : N) (E : env) (stL : state)
           (r : SyltSem.res A) (st' : sstate) (rl : res (env * signal)) : Prop :=
  match r with
  | SyltSem.RStop o => exists ev stL', rl = RErr ev stL' /\ SyltSem.trace st' = s_out stL'
  | SyltSem.RAbrupt SyltSem.CBreak =>
      exists E' stL', rl = ROk (E', SigBreak) stL' /\ rel pv sv bound u fl W sc e st' E stL' /\ xkeep c c' E stL stL'
  | SyltSem.RAbrupt SyltSem.CContinue =>
      exists E' stL', rl = ROk (E', SigGoto (fmt_label ctx)) stL' /\ rel pv sv bound u fl W sc e st' E stL' /\ xkeep c c' E stL stL'
  | SyltSem.RAbrupt (SyltSem.CReturn v) =>
      exists E' stL' lv, rl = ROk (E', SigReturn [lv]) stL' /\ vrel v lv /\
                         rel pv sv bound u fl W sc e st' E stL' /\ xkeep c c' E stL stL'
  | _ => False
  end.

Definition exit_post {A} (ctx : N) (sc : list N) (e : senv) (c c' : N) (E : env) (stL : state) (b : block)
           (r : SyltSem.res A) (st' : sstate) : Prop :=
  exists rl, ExecS E b stL rl /\ exit_ok ctx sc e c c' E stL r st' rl.

Lemma exit_nn {A} ctx sc e c c' E stL (r : SyltSem.res A) st' rl : exit_ok ctx sc e c c' E stL r st' rl -> ~ normal_res rl.
Proof.
  destruct r as [a|o|[| |v]]; cbn [exit_ok]; intros H; try contradiction.
  - destruct H as (ev & stL' & -> & _). intros [].
  - destruct H as (E' & stL' & -> & _). intros [].
  - destruct H as (E' & stL' & -> & _). intros [].
  - destruct H as (E' & stL' & lv & -> & _). intros [].
Qed.

Lemma xkeep_widen c c' a b E stL stL' : xkeep c c' E stL stL' -> a <= c -> c' <= b -> xkeep a b E stL stL'.
Proof. intros [Hn Hc] Ha Hb. split; [exact Hn|]. intros t p Hbt Hr H. apply (Hc t p Hbt); [lia | exact H]. Qed.

(* more statements after the exit *)
Lemma exit_app {A} ctx sc e c c' c'' E stL b b2 (r : SyltSem.res A) st' :
  exit_post ctx sc e c c' E stL b r st' -> c' <= c'' -> exit_post ctx sc e c c'' E stL (b ++ b2) r st'.
Proof.
  intros (rl & Hx & Hok) Hc. exists rl. split; [apply ExecS_app_stop; [exact Hx | eapply exit_nn; exact Hok]|].
  destruct r as [a|o|[| |v]]; cbn [exit_ok] in *; try contradiction; try exact Hok.
  - destruct Hok as (E' & stL' & -> & Hr & Hk). exists E', stL'. split; [reflexivity | split; [exact Hr | eapply xkeep_widen; [exact Hk | lia | exact Hc]]].
  - destruct Hok as (E' & stL' & -> & Hr & Hk). exists E', stL'. split; [reflexivity | split; [exact Hr | eapply xkeep_widen; [exact Hk | lia | exact Hc]]].
  - destruct Hok as (E' & stL' & lv & -> & Hv & Hr & Hk). exists E', stL', lv. split; [reflexivity | split; [exact Hv | split; [exact Hr | eapply xkeep_widen; [exact Hk | lia | exact Hc]]]].
Qed.

Definition eval_post (ctx : N) (sc : list N) (e : senv) (F : list N) (c c' : N) (E : env) (stL : state) (b : block)
           (l' : alut) (v : N) (r : SyltSem.res sval) (st' : sstate) : Prop :=
  match r with
  | SyltSem.RVal sv_ =>
      exists E' stL' F', okstep sc e st' F c c' E stL b E' stL' F' /\
                         (1 <= count_of u v -> denotes F' E' stL' (aexpand l' v) sv_)
  | _ => exit_post ctx sc e c c' E stL b r st'
  end.

(* the results of the reference interpreter the theorem speaks about: values, a failed <=> / reached <!>,
   break, continue and ret *)
Definition interesting {A} (r : SyltSem.res A) : Prop :=
  match r with
  | SyltSem.RVal _ => True
  | SyltSem.RStop o => good_stop o
  | SyltSem.RAbrupt SyltSem.CBreak | SyltSem.RAbrupt SyltSem.CContinue => True
  | SyltSem.RAbrupt (SyltSem.CReturn _) => True
  end.

Lemma interesting_dec {A} (r : SyltSem.res A) : {interesting r} + {~ interesting r}.
Proof. destruct r as [a|o|[| |v]]; cbn; auto. destruct o; cbn; auto. Qed.

(* the static context of a code segment numbered in [c, c') *)
Record ctx_ok (l : alut) (F : list N) (E : env) (c c' : N) : Prop := mkCtx {
  cx_bound : bound <= c;
  cx_lut : lut_ok bound l c c';
  cx_F : F_out bound F c c';
  cx_E : E_free E c c'
}.

Lemma ctx_sub l F E c c' a b : ctx_ok l F E c c' -> c <= a -> b <= c' -> ctx_ok l F E a b.
Proof.
  intros [Hb Hl HF HE] Ha Hb'. constructor; [lia | eapply lut_ok_sub; eassumption | eapply F_out_sub; eassumption | eapply E_free_sub; eassumption].
Qed.

(* after a first segment [c, c0) the context of the rest [c0, c1) *)
Lemma ctx_step l F E st c c0 c1 l1 F1 E1 st1 :
  ctx_ok l F E c c1 -> lut_frame l l1 c c0 -> F_new F F1 c c0 -> wframe bound c c0 E st E1 st1 -> c <= c0 ->
  ctx_ok l1 F1 E1 c0 c1.
Proof.
  intros [Hb Hl HF HE] Hf Hn Hfr Hc. constructor; [lia | eapply lut_ok_step; eassumption | eapply F_out_step; eassumption | eapply E_free_step; eassumption].
Qed.

Definition P_eval (n : nat) : Prop :=
  forall g k x ctx c code v c' e st r st' sc l E stL F,
    SyltSem.eval n e x st = (r, st') ->
    expression g x ctx c = Ok ((code, v), c') ->
    frag_expr pv sv bound fl k sc x = true ->
    ucovers u code -> ctx_ok l F E c c' ->
    rel pv sv bound u fl W sc e st E stL ->
    interesting r ->
    exists b l', cshape l code b l' c c' /\ c <= v /\ v < c' /\ eval_post ctx sc e F c c' E stL b l' v r st'.

(* the calls  f(a1, ..., an)  of functions by name, and of computed callees  mk(1)(2)  (arguments: plain expressions,
   function names, lambdas, calls that return functions) *)
Definition P_ecall (n : nat) : Prop :=
  forall g k callee args sp ctx c code v c' e st r st' sc l E stL F,
    (forall fsp, callee <> ERead pv fsp) ->
    SyltSem.eval n e (Resolved.ECall callee args sp) st = (r, st') ->
    expression g (Resolved.ECall callee args sp) ctx c = Ok ((code, v), c') ->
    frag_expr pv sv bound fl k sc (Resolved.ECall callee args sp) = true ->
    ucovers u code -> ctx_ok l F E c c' ->
    rel pv sv bound u fl W sc e st E stL ->
    interesting r ->
    exists b l', cshape l code b l' c c' /\ c <= v /\ v < c' /\ eval_post ctx sc e F c c' E stL b l' v r st'.

(* statements and statement lists *)
Definition stmt_post (ctx : N) (sc sc' : list N) (e : senv) (F : list N) (c c' : N) (E : env) (stL : state) (b : block)
           (r : SyltSem.res senv) (st' : sstate) : Prop :=
  match r with
  | SyltSem.RVal e' =>
      exists E' stL' F', okstepS sc sc' e' st' F c c' E stL b E' stL' F' /\ sext sc e e' /\ incl sc sc'
  | _ => exit_post ctx sc e c c' E stL b r st'
  end.

Definition P_exec (n : nat) : Prop :=
  forall g k s ctx c code c' e st r st' sc sc' l E stL F,
    SyltSem.exec n e s st = (r, st') -> statement g s ctx c = Ok (code, c') ->
    frag_stmt pv sv bound fl k sc s = Some sc' -> ucovers u code -> ctx_ok l F E c c' -> rel pv sv bound u fl W sc e st E stL ->
    interesting r ->
    exists b l', cshape l code b l' c c' /\ stmt_post ctx sc sc' e F c c' E stL b r st'.

(* statement lists: the local functions defined on the way join the world; at the end the relation holds for the
   scope and the callable functions reached, in a world that fixes more than the one at the start.  An exit is
   seen from the start of the list. *)
Definition blk_post (ctx : N) (sc sc' : list N) (flr : list (N * kind)) (e : senv) (F : list N) (c c' : N)
           (E : env) (stL : state) (b : block) (r : SyltSem.res senv) (st' : sstate) : Prop :=
  match r with
  | SyltSem.RVal e' =>
      exists W' E' stL' F',
        ExecS E b stL (ROk (E', SigNormal) stL') /\ wframe bound c c' E stL E' stL' /\
        rel pv sv bound u flr W' sc' e' st' E' stL' /\ wsub W W' /\ F_new F F' c c' /\ keep sc E E' /\
        sext sc e e' /\ incl sc sc'
  | _ => exit_post ctx sc e c c' E stL b r st'
  end.

Definition P_blk (n : nat) : Prop :=
  forall g k ss ctx c cs c' e st r st' sc sc' flr l E stL F,
    SyltSem.exec_block n e ss st = (r, st') -> mapM (fun s => statement g s ctx) ss c = Ok (cs, c') ->
    frag_stmts pv sv bound fl k sc ss = Some (sc', flr) -> ucovers u (concat cs) -> ctx_ok l F E c c' -> rel pv sv bound u fl W sc e st E stL ->
    interesting r ->
    exists b l', cshape l (concat cs) b l' c c' /\ blk_post ctx sc sc' flr e F c c' E stL b r st'.

(* the body of an if-branch: its value ends up in the cell p of the result variable `out`, which lives in
   the enclosing range [lo, hi); seen again from the environment the Lua block started with *)
Definition bv_post (ctx : N) (sc : list N) (e : senv) (lo hi : N) (E : env) (stL : state) (b : block) (p : positive)
           (r : SyltSem.res sval) (st' : sstate) : Prop :=
  match r with
  | SyltSem.RVal v =>
      exists E' stL', ExecS E b stL (ROk (E', SigNormal) stL') /\ rel pv sv bound u fl W sc e st' E stL' /\
                      xkeep lo hi E stL stL' /\ vrel v (get_cell stL' p)
  | _ => exit_post ctx sc e lo hi E stL b r st'
  end.

Definition P_bv (n : nat) : Prop :=
  forall g k body ctx c code c' e st r st' sc sc' l E stL F out p lo hi,
    SyltSem.block_value n e body st = (r, st') ->
    lower_eblock (statement g) (expression g) out body ctx c = Ok (code, c') ->
    frag_stmts pv sv bound fl k sc body = Some sc' -> ucovers u code -> ctx_ok l F E c c' -> rel pv sv bound u fl W sc e st E stL ->
    bound <= lo -> lo <= c -> c' <= hi -> lo <= out < hi -> ~ (c <= out < c') ->
    sget (fmt_var out) E = Some p -> (forall lv, ~ w_P W p lv) -> get_cell stL p = VNil -> alut_get l out = None -> 1 <= count_of u out ->
    interesting r ->
    exists b l', cshape l code b l' c c' /\ bv_post ctx sc e lo hi E stL b p r st'.

(* the structural half alone: the lowering of a fragment expression is balanced and emits *)
Definition L_expr (g : nat) : Prop :=
  forall k x ctx c code v c' sc l,
    expression g x ctx c = Ok ((code, v), c') ->
    frag_expr pv sv bound fl k sc x = true ->
    exists b l', cshape l code b l' c c' /\ c <= v /\ v < c'.

Definition L_stmt (g : nat) : Prop :=
  forall k s ctx c code c' sc sc' l,
    statement g s ctx c = Ok (code, c') -> frag_stmt pv sv bound fl k sc s = Some sc' ->
    exists b l', cshape l code b l' c c'.

Definition L_stmts (g : nat) : Prop :=
  forall k ss ctx c cs c' sc scr l,
    mapM (fun s => statement g s ctx) ss c = Ok (cs, c') -> frag_stmts pv sv bound fl k sc ss = Some scr ->
    exists b l', cshape l (concat cs) b l' c c'.

Definition L_fb (g : nat) : Prop :=
  forall k body rk ctx c code c' sc l,
    lower_fbody (statement g) (expression g) body ctx c = Ok (code, c') ->
    fbody_check (frag_stmts pv sv bound fl k sc) (fun fl1 sc1 x => frag_fexpr pv sv bound fl1 k sc1 x) (fun fl1 sc1 x => frag_expr pv sv bound fl1 k sc1 x) k body rk = true ->
    exists b l', cshape l code b l' c c'.

Definition L_fexpr (g : nat) : Prop :=
  forall k x K ctx c code v c' sc l,
    expression g x ctx c = Ok ((code, v), c') ->
    frag_fexpr pv sv bound fl k sc x = Some K ->
    exists b l', cshape l code b l' c c' /\ c <= v /\ v < c'.

(* ---- functions.  The body of a function, run from the environment of a call: it falls off the end (the
   value is nil) or returns the value of its last expression; the relation holds at the end for the scope
   the body ends with, which extends the one it started with ---- *)
Definition fb_post (rk : kind) (sc : list N) (e : senv) (E : env) (stL : state) (b : block)
           (r : SyltSem.res sval) (st' : sstate) : Prop :=
  match r with
  | SyltSem.RVal v =>
      exists fl' W' E' sg stL' sc' e',
        ExecS E b stL (ROk (E', sg) stL') /\
        ((sg = SigNormal /\ v = SV Values.VLuaNil /\ rk = KP) \/ (exists lv, sg = SigReturn [lv] /\ arel W' rk v lv)) /\
        rel pv sv bound u fl' W' sc' e' st' E' stL' /\ wsub W W' /\ sext sc e e' /\ incl sc sc' /\ keep sc E E' /\
        (s_ncell stL <= s_ncell stL')%positive
  | SyltSem.RStop o => exists ev stL', ExecS E b stL (RErr ev stL') /\ SyltSem.trace st' = s_out stL'
  | SyltSem.RAbrupt (SyltSem.CReturn v) =>
      exists fl' W' sc' e' E' Er stL' lv,
        ExecS E b stL (ROk (Er, SigReturn [lv]) stL') /\ arel W' rk v lv /\
        rel pv sv bound u fl' W' sc' e' st' E' stL' /\ wsub W W' /\ sext sc e e' /\ incl sc sc' /\ keep sc E E' /\
        (s_ncell stL <= s_ncell stL')%positive
  | SyltSem.RAbrupt _ => True
  end.

(* an early return out of the body of a function with a plain result *)
Lemma fb_of_exit {A} ctx sc e c c' E stL b v st' :
  exit_post ctx sc e c c' E stL b (@SyltSem.RAbrupt A (SyltSem.CReturn v)) st' ->
  fb_post KP sc e E stL b (SyltSem.RAbrupt (SyltSem.CReturn v)) st'.
Proof.
  intros (rl & Hx & (E' & stL' & lv & -> & Hv & Hr & Hn & _)). exists fl, W, sc, e, E, E', stL', lv.
  split; [exact Hx|]. split; [exact Hv|]. split; [exact Hr|]. split; [apply wsub_refl|].
  split; [intros v0 _; reflexivity|]. split; [apply incl_refl|]. split; [apply keep_refl | exact Hn].
Qed.

Definition P_fb (n : nat) : Prop :=
  forall g k body rk ctx c code c' e st r st' sc l E stL F,
    SyltSem.block_value n e body st = (r, st') ->
    lower_fbody (statement g) (expression g) body ctx c = Ok (code, c') ->
    fbody_check (frag_stmts pv sv bound fl k sc) (fun fl1 sc1 x => frag_fexpr pv sv bound fl1 k sc1 x) (fun fl1 sc1 x => frag_expr pv sv bound fl1 k sc1 x) k body rk = true ->
    ucovers u code -> ctx_ok l F E c c' ->
    rel pv sv bound u fl W sc e st E stL -> interesting r ->
    exists b l', cshape l code b l' c c' /\ fb_post rk sc e E stL b r st'.

(* a call seen from the caller: the temporaries of the caller keep their values *)
Definition call_frame (E : env) (stL stL' : state) : Prop :=
  (s_ncell stL <= s_ncell stL')%positive /\
  forall t p, bound <= t -> sget (fmt_var t) E = Some p -> get_cell stL' p = get_cell stL p.

(* a call of a closure of the world; the result has the kind the closure promises: if it is a function, a closure of
   a world that knows at least what W knows *)
Definition P_apply (n : nat) : Prop :=
  forall d avs lvs sc e st E stL r st',
    rel pv sv bound u fl W sc e st E stL -> w_D W d -> Forall3 (arel W) (fd_pk d) avs lvs ->
    SyltSem.apply n (SyltSem.SClos (fd_ci d)) avs st = (r, st') -> interesting r ->
    match r with
    | SyltSem.RVal v =>
        exists W1 vs stL', wsub W W1 /\ Call (VFun (fd_fid d)) lvs stL (ROk vs stL') /\ arel W1 (fd_rk d) v (first vs) /\
                           rel pv sv bound u fl W1 sc e st' E stL' /\ call_frame E stL stL'
    | SyltSem.RStop o => exists ev stL', Call (VFun (fd_fid d)) lvs stL (RErr ev stL') /\ SyltSem.trace st' = s_out stL'
    | SyltSem.RAbrupt _ => False
    end.

(* a value computed by a single iis instruction at the end *)
Lemma finish_iis sc e st F c c' E stL l t ex sv_ :
  rel pv sv bound u fl W sc e st E stL -> ctx_ok l F E c c' -> c <= t < c' -> denotes F E stL ex sv_ ->
  exists E' stL' F',
    okstep sc e st F c c' E stL (fst (aiis u l t ex)) E' stL' F' /\
    (1 <= count_of u t -> denotes F' E' stL' (aexpand (snd (aiis u l t ex)) t) sv_).
Proof.
  intros Hrel [Hb Hl HF HE] Ht Hd.
  destruct (op_iis u F E stL l t ex sv_ c c') as (E' & stL' & F' & Hx & Hfr & Ho & HF' & Hden & Hrl);
    try assumption.
  - apply (r_wf _ _ _ _ _ _ _ _ _ _ _ Hrel).
  - apply (r_linv _ _ _ _ _ _ _ _ _ _ _ Hrel).
  - apply HE. exact Ht.
  - apply Hl. left. exact Ht.
  - exists E', stL', F'. split; [|exact Hden].
    split; [exact Hx|]. split; [apply lframe_w; exact Hfr|]. split; [apply Hrl; [lia | exact Hrel]|].
    split; [|eapply keep_lframe; eassumption].
    destruct HF' as [->| ->]; [apply F_new_refl|].
    split; [apply incl_tl, incl_refl|]. intros t' [<-|Ht']; [right; exact Ht | left; exact Ht'].
Qed.

End Sim.
