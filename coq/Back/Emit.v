(* count_usages (intermediate.rs) and the Lua text generator (lua.rs), mirrored instruction by
   instruction: a temporary that is used zero times is dropped, one that is used once is inlined
   at its use (through the table `lut`), otherwise it becomes a `local`.  Definitions only. *)
From Coq Require Import String List NArith ZArith Bool.
From Sylt Require Import Syntax.Resolved Back.IR.
Import ListNotations.
Local Open Scope string_scope.
Local Open Scope N_scope.

(* ---- usage counts: HashMap<Var, usize> as an association list ---- *)
Definition counts := list (N * N).

Fixpoint bump (k : N) (by_ : N) (m : counts) : counts :=
  match m with
  | [] => [(k, by_)]
  | (k', n) :: m' => if k =? k' then (k', n + by_) :: m' else (k', n) :: bump k by_ m'
  end.

Fixpoint count_of (m : counts) (k : N) : N :=
  match m with
  | [] => 0
  | (k', n) :: m' => if k =? k' then n else count_of m' k
  end.

Definition bumps (ks : list N) (m : counts) : counts := fold_left (fun m k => bump k 1 m) ks m.

Definition count_one (m : counts) (op : ir) : counts :=
  match op with
  | INil _ | IInt _ _ | IFloat _ _ | IStr _ _ | IBool _ _ | ILoop | IBreak | IElse | IEnd
  | IExternal _ _ | ILabel _ | IGoto _ | IHalt _ => m
  | IFunction a _ | IDefine a => bump a 2 m
  | IAdd _ a b | ISub _ a b | IMul _ a b | IDiv _ a b | IEquals _ a b | INotEquals _ a b
  | IGreater _ a b | IGreaterEqual _ a b | ILess _ a b | ILessEqual _ a b | IIndex _ a b
  | IAssign a b | IAssignAccess a _ b | IAssignIndex _ a b => bump b 1 (bump a 1 m)
  | INeg _ a | INot _ a | IAssert a | IVariant _ _ a | IAccess _ a _ | ICopy _ a | IReturn a | IIf a =>
      bump a 1 m
  | ICall _ a bs => bumps bs (bump a 1 m)
  | IList _ xs | ITuple _ xs => bumps xs m
  | IBlob _ fs => bumps (map snd fs) m
  end.

Definition count_usages (ops : list ir) : counts := fold_left count_one ops [].

(* ---- text generation ---- *)
Definition fmt_var (v : N) : string := "V" ++ N_to_string v.
Definition fmt_label (l : N) : string := "L" ++ N_to_string l.

Definition lut := list (N * string).
Fixpoint lut_get (l : lut) (v : N) : option string :=
  match l with
  | [] => None
  | (k, s) :: l' => if k =? v then Some s else lut_get l' v
  end.
(* HashMap::insert overwrites *)
Definition lut_set (l : lut) (v : N) (s : string) : lut := (v, s) :: l.

Definition expand (l : lut) (v : N) : string :=
  match lut_get l v with Some s => s | None => fmt_var v end.

Fixpoint join (sep : string) (xs : list string) : string :=
  match xs with
  | [] => ""
  | [x] => x
  | x :: xs' => x ++ sep ++ join sep xs'
  end.

Definition comma_sep (l : lut) (vs : list N) : string := join ", " (map (expand l) vs).

Fixpoint indent (n : nat) : string :=
  match n with O => "" | S k => "  " ++ indent k end.

(* iis!: a value computed into `var` *)
Definition iis (u : counts) (l : lut) (var : N) (value : string) : string * lut :=
  let n := count_of u var in
  if n =? 0 then ("", l)
  else if n =? 1 then ("", lut_set l var value)
  else ("local " ++ fmt_var var ++ " = " ++ value, l).

Definition bool_str (b : bool) : string := if b then "true" else "false".

(* lua.rs lua_string: a literal that the Lua lexer reads back as exactly the bytes of s *)
Definition bs : string := String (Ascii.ascii_of_N 92) EmptyString.   (* one backslash *)
Definition dq : string := String (Ascii.ascii_of_N 34) EmptyString.   (* one double quote *)
Fixpoint lua_escape (s : string) : string :=
  match s with
  | EmptyString => EmptyString
  | String a s' =>
      let n := Ascii.N_of_ascii a in
      (if n =? 92 then bs ++ bs
       else if n =? 34 then bs ++ dq
       else if n =? 10 then bs ++ "n"
       else if n =? 13 then bs ++ "r"
       else if n =? 0 then bs ++ "000"
       else String a EmptyString) ++ lua_escape s'
  end.
Definition lua_string (s : string) : string := dq ++ lua_escape s ++ dq.

Definition lua_keywords : list string :=
  ["and"; "break"; "do"; "else"; "elseif"; "end"; "false"; "for"; "function"; "goto"; "if"; "in";
   "local"; "nil"; "not"; "or"; "repeat"; "return"; "then"; "true"; "until"; "while"].
Definition is_lua_keyword (s : string) : bool := existsb (String.eqb s) lua_keywords.
(* `.field`, or `["field"]` when the name is reserved in Lua *)
Definition lua_field (name : string) : string :=
  if is_lua_keyword name then "[" ++ lua_string name ++ "]" else "." ++ name.
Definition lua_key (name : string) : string :=
  if is_lua_keyword name then "[" ++ lua_string name ++ "]" else name.

(* a read of the global `name`, also when the name is a reserved word (lua.rs lua_global, /repo since the fix of
   keyword-named externals) *)
Definition lua_global (name : string) : string :=
  if is_lua_keyword name then "_G[" ++ lua_string name ++ "]" else name.

Definition gen_one (u : counts) (l : lut) (op : ir) : string * lut :=
  let bin := fun t (pre mid post : string) a b => iis u l t (pre ++ expand l a ++ mid ++ expand l b ++ post) in
  match op with
  | INil t => iis u l t "__NIL"
  | IInt t z => iis u l t (Z_to_string z)
  | IBool t b => iis u l t (bool_str b)
  | IAdd t a b => bin t "__ADD(" ", " ")" a b
  | ISub t a b => bin t "(" " - " ")" a b
  | IMul t a b => bin t "(" " * " ")" a b
  | IDiv t a b => bin t "(" " / " ")" a b
  | INeg t a => iis u l t ("(-" ++ expand l a ++ ")")
  | IStr t s => iis u l t (lua_string s)
  | IFloat t r => iis u l t (if String.eqb r "inf" then "math.huge" else r)
  | IEquals t a b => bin t "(" " == " ")" a b
  | ILessEqual t a b => bin t "(" " <= " ")" a b
  | ILess t a b => bin t "(" " < " ")" a b
  | IGreaterEqual t a b => bin t "(" " >= " ")" a b
  | IGreater t a b => bin t "(" " > " ")" a b
  | INotEquals t a b => bin t "(" " ~= " ")" a b
  | INot t a => iis u l t ("(not " ++ expand l a ++ ")")
  | IList t xs => iis u l t ("__LIST{ " ++ comma_sep l xs ++ " }")
  | IBlob t fs => iis u l t ("__BLOB{ " ++ join ", " (map (fun fv => lua_key (fst fv) ++ " = " ++ expand l (snd fv)) fs) ++ " }")
  | ITuple t xs => iis u l t ("__TUPLE{ " ++ comma_sep l xs ++ " }")
  | IVariant t v a => iis u l t ("__VARIANT{ """ ++ v ++ """, " ++ expand l a ++ " }")
  (* reads of mutable data are never inlined at their use *)
  | IIndex t a i =>
      if 0 <? count_of u t then ("local " ++ fmt_var t ++ " = __INDEX(" ++ expand l a ++ ", " ++ expand l i ++ ")", l) else ("", l)
  | IFunction f params =>
      ("local function " ++ expand l f ++ "(" ++ join ", " (map fmt_var params) ++ ")", l)
  | IExternal t e => (expand l t ++ " = " ++ lua_global e, l)
  | ICall t f args => ("local " ++ expand l t ++ " = " ++ expand l f ++ "(" ++ comma_sep l args ++ ")", l)
  | IAssert v => ("assert(" ++ expand l v ++ ", ""Assert failed!"")", l)
  | IDefine t => if 0 <? count_of u t then ("local " ++ expand l t ++ " = nil", l) else ("", l)
  | IIf a => ("if " ++ expand l a ++ " then", l)
  | IElse => ("else", l)
  | IEnd => ("end", l)
  | ILoop => ("while true do", l)
  | IBreak => ("break", l)
  | IReturn t => ("do return " ++ expand l t ++ " end", l)
  | IHalt msg => ("__CRASH(""" ++ msg ++ """)()", l)
  | IAccess t a f =>
      if 0 <? count_of u t then ("local " ++ fmt_var t ++ " = " ++ expand l a ++ lua_field f, l) else ("", l)
  | ICopy t a => if 0 <? count_of u t then ("local " ++ expand l t ++ " = " ++ expand l a, l) else ("", l)
  | IAssign t a => if 0 <? count_of u t then (expand l t ++ " = " ++ expand l a, l) else ("", l)
  | IAssignIndex t i a =>
      if 0 <? count_of u t then ("__ASSIGN_INDEX(" ++ expand l t ++ ", " ++ expand l i ++ ", " ++ expand l a ++ ")", l)
      else ("", l)
  | IAssignAccess t f c => if 0 <? count_of u t then (expand l t ++ lua_field f ++ " = " ++ expand l c, l) else ("", l)
  | ILabel lb => ("::" ++ fmt_label lb ++ "::", l)
  | IGoto lb => ("goto " ++ fmt_label lb, l)
  end.

(* depth bookkeeping of Generator::generate: Else/End dedent before printing;
   Function/If/Else/Loop indent afterwards *)
Fixpoint gen_lines (u : counts) (l : lut) (depth : Z) (ops : list ir) : list string :=
  match ops with
  | [] => []
  | op :: ops' =>
      let depth1 := match op with IElse | IEnd => (depth - 1)%Z | _ => depth end in
      let '(text, l') := gen_one u l op in
      let depth2 := match op with
                    | IFunction _ _ | IIf _ | IElse | ILoop => (depth1 + 1)%Z
                    | _ => depth1
                    end in
      (indent (Z.to_nat depth1) ++ text) :: gen_lines u l' depth2 ops'
  end.

Definition newline : string := String (Ascii.ascii_of_N 10) EmptyString.

(* the part of the output after the preamble (and after the optional `require "M"` which lua.rs
   writes without a newline directly before the first instruction) *)
Definition gen_body (ops : list ir) : string :=
  String.concat "" (map (fun line => line ++ newline) (gen_lines (count_usages ops) [] 0%Z ops)).

Definition strip_lua_suffix (s : string) : string :=
  let n := String.length s in
  if (4 <=? N.of_nat n) && String.eqb (substring (n - 4) 4 s) ".lua" then substring 0 (n - 4) s else s.

Definition require_line (req : option string) : string :=
  match req with
  | Some f => "require """ ++ strip_lua_suffix f ++ """"
  | None => ""
  end.

(* everything lua::generate writes after the preamble *)
Definition emit_after_preamble (req : option string) (ops : list ir) : string :=
  require_line req ++ gen_body ops.

(* resolved statements (already ordered) -> Lua text after the preamble *)
Definition backend (fuel : nat) (req : option string) (r : resolved) : outcome string :=
  match lower fuel r with
  | Ok ops => Ok (emit_after_preamble req ops)
  | Panic s => Panic s
  | OutOfFuel => OutOfFuel
  end.
