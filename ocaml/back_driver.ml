(* Driver for the extracted backend model (IR lowering + usage counting + Lua text generation).
   Case line:  <require: hex or ->  TAB  <resolved S-expression (tools/resolved_io.py)>
   Output:     OK <hex of the Lua text after the preamble> SCOPED|UNSCOPED:<n> RSOK|RSBAD CFOK|CFBAD:<n> LOOPSOK|LOOPSBAD
               | PANIC <hex site> | FUEL | READFAIL <msg>
   (CF.. = CFlow.ir_cf_ok of the model's IR, LOOPS.. = CFlow.loops_ok of the resolved program)
   Case line:  @cf TAB <instruction kinds of an IR dump, space separated: L loop, B break, X else, E end, I if,
               F function, l<n> label n, g<n> goto n, . anything else>
   Output:     CFOK | CFBAD:<index of the first offending instruction> | CFBAD:end *)
open Backmodel

let rec int_of_pos = function XH -> 1 | XO p -> 2 * int_of_pos p | XI p -> 2 * int_of_pos p + 1
let int_of_n = function N0 -> 0 | Npos p -> int_of_pos p
let rec nat_of_int n = if n = 0 then O else S (nat_of_int (n - 1))
let string_of_chars (l : char list) = String.of_seq (List.to_seq l)
let hex_of_string s =
  if s = "" then "-" else begin
    let b = Buffer.create (2 * String.length s) in
    String.iter (fun c -> Buffer.add_string b (Printf.sprintf "%02x" (Char.code c))) s;
    Buffer.contents b end

let rec pos_of_int i = if i <= 1 then XH else if i land 1 = 0 then XO (pos_of_int (i lsr 1)) else XI (pos_of_int (i lsr 1))
let n_of_int i = if i <= 0 then N0 else Npos (pos_of_int i)

(* CFlow.ir_cf_ok with the position of the first offending instruction *)
let cf_verdict ops =
  if ir_cf_ok ops then "CFOK" else
    (match first_cf_bad ([], false) ops N0 with
     | Some (n, _) -> "CFBAD:" ^ string_of_int (int_of_n n)
     | None -> "CFBAD:end")

(* the control-flow checker only looks at the kind of an instruction (and at label numbers) *)
let skel_op tok =
  match tok with
  | "L" -> ILoop | "B" -> IBreak | "X" -> IElse | "E" -> IEnd
  | "I" -> IIf N0 | "F" -> IFunction (N0, []) | "." -> INil N0
  | _ ->
      let num () = n_of_int (int_of_string (String.sub tok 1 (String.length tok - 1))) in
      if tok <> "" && tok.[0] = 'l' then ILabel (num ())
      else if tok <> "" && tok.[0] = 'g' then IGoto (num ())
      else failwith ("bad instruction kind " ^ tok)

let () =
  let fuel = nat_of_int 20000 in
  let ic = open_in Sys.argv.(1) in
  (try
    while true do
      let line = input_line ic in
      (try
        let tab = String.index line '\t' in
        let req = String.sub line 0 tab in
        let rest = String.sub line (tab + 1) (String.length line - tab - 1) in
        if req = "@cf" then
          print_endline (cf_verdict (List.map skel_op (List.filter (fun t -> t <> "") (String.split_on_char ' ' rest))))
        else
        let req = if req = "-" then None else Some (Rast_reader.rr_chars (Rast_reader.rr_unhex req)) in
        let r = Rast_reader.read_resolved rest in
        (match backend fuel req r with
         | Ok s ->
             let sc = (match lower fuel r with
                       | Ok ops -> if ir_scoped ops then "SCOPED" else
                           (match first_unscoped ([[]]) ops N0 with
                            | Some (n, _) -> "UNSCOPED:" ^ string_of_int (int_of_n n)
                            | None -> "UNSCOPED:end")
                       | _ -> "?") in
             let rs = if rs_resolved fuel r then "RSOK" else "RSBAD" in
             let cf = (match lower fuel r with Ok ops -> cf_verdict ops | _ -> "?") in
             let lo = if loops_ok r then "LOOPSOK" else "LOOPSBAD" in
             print_endline ("OK " ^ hex_of_string (string_of_chars s) ^ " " ^ sc ^ " " ^ rs ^ " " ^ cf ^ " " ^ lo)
         | Panic s -> print_endline ("PANIC " ^ hex_of_string (string_of_chars s))
         | OutOfFuel -> print_endline "FUEL")
      with Failure m -> print_endline ("READFAIL " ^ m) | Not_found -> print_endline "READFAIL no-tab")
    done
  with End_of_file -> ());
  close_in ic
